import EgoVerif.C10.Step
import EgoVerif.C10.Spec
/-
C10 — property theorems over the VM model (VM.lean, Step.lean).  All statements quantify over
arbitrary contexts: the stack above the try marker may hold any number of call frames (dynamic
depth), the try stack any number of spent entries, the defer list any length.
-/
namespace EgoVerif.C10

/-! ### helper lemmas -/

theorem findLive_spent (spent : List Nat) (a : Nat) (below : List Nat)
    (hs : ∀ x ∈ spent, x = 0) (ha : a > 0) :
    findLive (spent ++ a :: below) = some (spent.length, a, below) := by
  induction spent with
  | nil => simp [findLive, ha]
  | cons x xs ih =>
    have hx : x = 0 := hs x (by simp)
    have ih' := ih (fun y hy => hs y (by simp [hy]))
    subst hx
    simp [findLive, ih']

theorem findLive_none (l : List Nat) (hs : ∀ x ∈ l, x = 0) : findLive l = none := by
  induction l with
  | nil => rfl
  | cons x xs ih =>
    have hx : x = 0 := hs x (by simp)
    have ih' := ih (fun y hy => hs y (by simp [hy]))
    subst hx
    simp [findLive, ih']

theorem findLive_some (l : List Nat) (n a : Nat) (b : List Nat) (h : findLive l = some (n, a, b)) :
    a > 0 ∧ ∃ spent, l = spent ++ a :: b ∧ spent.length = n ∧ ∀ x ∈ spent, x = 0 := by
  induction l generalizing n with
  | nil => simp [findLive] at h
  | cons x xs ih =>
    unfold findLive at h
    by_cases hx : x > 0
    · simp [hx] at h
      obtain ⟨h1, h2, h3⟩ := h
      subst h1 h2 h3
      exact ⟨hx, [], by simp⟩
    · simp [hx] at h
      cases hf : findLive xs with
      | none => simp [hf] at h
      | some r =>
        obtain ⟨n', a', b'⟩ := r
        simp [hf] at h
        obtain ⟨h1, h2, h3⟩ := h
        subst h1 h2 h3
        obtain ⟨ha, spent, hl, hn, hz⟩ := ih n' hf
        refine ⟨ha, x :: spent, by simp [hl], by simp [hn], ?_⟩
        intro y hy
        simp at hy
        rcases hy with hy | hy
        · omega
        · exact hz y hy

/-- the deepest call frame among the items popped (the state the try statement was entered in) -/
def lastFrame : List Item → Option Frame
  | [] => none
  | .tryM :: r => lastFrame r
  | .frame f :: r => match lastFrame r with
    | some g => some g
    | none => some f

/-- the pop loop of handleCatch, for any number of frames above the marker -/
theorem unwindToTry_spec (above below : List Item) (hno : ∀ it ∈ above, it ≠ Item.tryM) (c : Ctx) :
    ∃ c', unwindToTry c (above ++ Item.tryM :: below) = some c' ∧ c'.stack = below ∧
      c'.unit = ((lastFrame above).map (·.unit)).getD c.unit ∧
      c'.defers = ((lastFrame above).map (·.defers)).getD c.defers ∧
      c'.env = ((lastFrame above).map (·.env)).getD c.env ∧
      c'.panic = c.panic ∧ c'.pend = c.pend ∧ c'.hasPC = c.hasPC := by
  induction above generalizing c with
  | nil => exact ⟨{ c with stack := below }, by simp [unwindToTry, lastFrame]⟩
  | cons it r ih =>
    cases it with
    | tryM => exact absurd rfl (hno Item.tryM (by simp))
    | frame f =>
      have hr : ∀ it ∈ r, it ≠ Item.tryM := fun it h => hno it (by simp [h])
      obtain ⟨c', h1, h2, h3, h4, h5, h6, h7, h8⟩ := ih hr (restore c f (r ++ Item.tryM :: below))
      refine ⟨c', by simpa [unwindToTry] using h1, h2, ?_, ?_, ?_, ?_, ?_, ?_⟩
      · cases hl : lastFrame r <;> simp [lastFrame, hl, h3, restore]
      · cases hl : lastFrame r <;> simp [lastFrame, hl, h4, restore]
      · cases hl : lastFrame r <;> simp [lastFrame, hl, h5, restore]
      · simpa [restore] using h6
      · simpa [restore] using h7
      · simpa [restore] using h8

/-- number of live (catch-capable) entries on a try stack -/
def live (l : List Nat) : Nat := (l.filter (· > 0)).length

theorem live_spent (l : List Nat) (h : ∀ x ∈ l, x = 0) : live l = 0 := by
  induction l with
  | nil => rfl
  | cons x xs ih =>
    have hx : x = 0 := h x (by simp)
    have := ih (fun y hy => h y (by simp [hy]))
    subst hx
    simpa [live] using this

theorem live_append (a b : List Nat) : live (a ++ b) = live a + live b := by
  simp [live, List.filter_append]

/-! ### C10_catch_once -/

/-- An error raised while try `t` is the innermost live try — at ANY dynamic depth: `above` may hold
any number of call frames — is transferred to t's catch address; t's entry becomes spent and the
entries of tries nested inside it are discarded; everything above t's marker, frames included, is
popped and the context is back in the frame where the try statement was entered. -/
theorem C10_catch_once (c : Ctx) (e : Err) (spent : List Nat) (a : Nat) (belowT : List Nat)
    (above belowS : List Item)
    (ht : c.tries = spent ++ a :: belowT) (hs : ∀ x ∈ spent, x = 0) (ha : a > 0)
    (hst : c.stack = above ++ Item.tryM :: belowS) (hno : ∀ it ∈ above, it ≠ Item.tryM) :
    ∃ c', handleCatch c e = .inl c' ∧ c'.pc = a ∧ c'.tries = 0 :: belowT ∧ c'.stack = belowS ∧
      c'.unit = ((lastFrame above).map (·.unit)).getD c.unit ∧
      c'.defers = ((lastFrame above).map (·.defers)).getD c.defers ∧
      c'.panic = c.panic := by
  obtain ⟨c1, h1, h2, h3, h4, _, h6, _, _⟩ := unwindToTry_spec above belowS hno c
  refine ⟨{ c1 with pc := a, tries := 0 :: belowT }, ?_, rfl, rfl, h2, h3, h4, h6⟩
  unfold handleCatch
  rw [ht, findLive_spent spent a belowT hs ha]
  simp only
  rw [hst, h1]

/-- non-vacuity: two frames deep, one spent entry above the live one -/
example : ∃ c', handleCatch
    { unit := 5, pc := 9, tries := [0, 7, 3],
      stack := [.frame ⟨4, 2, [8], 2, []⟩, .frame ⟨1, 6, [], 2, []⟩, .tryM, .tryM] } .div = .inl c' ∧
    c'.pc = 7 ∧ c'.tries = [0, 3] ∧ c'.unit = 1 ∧ c'.stack = [.tryM] := by
  exact ⟨_, rfl, rfl, rfl, rfl, rfl⟩

/-- "Exactly once": whatever handleCatch catches, it selected a LIVE entry, left it spent, and the
number of live entries strictly decreased — so no entry can ever catch twice, in any history
(entries only become live through a new `Try` instruction, which pushes a new entry). -/
theorem C10_catch_never_twice (c d : Ctx) (e : Err) (h : handleCatch c e = .inl d) :
    ∃ n a below, findLive c.tries = some (n, a, below) ∧ a > 0 ∧ d.pc = a ∧
      d.tries = 0 :: below ∧ live d.tries < live c.tries := by
  unfold handleCatch at h
  cases hf : findLive c.tries with
  | none => simp [hf] at h
  | some r =>
    obtain ⟨n, a, below⟩ := r
    simp only [hf] at h
    cases hu : unwindToTry c c.stack with
    | none => simp [hu] at h
    | some c1 =>
      simp only [hu, Sum.inl.injEq] at h
      obtain ⟨ha, spent, hl, _, hz⟩ := findLive_some _ _ _ _ hf
      refine ⟨n, a, below, rfl, ha, by rw [← h], by rw [← h], ?_⟩
      rw [← h, hl]
      have h0 : live (0 :: below) = live below := by simp [live]
      have h1 : live (a :: below) = live below + 1 := by simp [live, ha]
      show live (0 :: below) < live (spent ++ a :: below)
      rw [live_append, live_spent spent hz, h0, h1]
      omega

/-! ### C10_uncaught_stops -/

theorem runN_halted (m : Machine) (n : Nat) (ms : MState) (st : Status) (h : ms.s.halted = some st) :
    runN m n ms = ms := by
  cases n <;> simp [runN, h]

/-- With no live try (empty try stack or only spent entries) a runtime error ends the context
with that error; for the top-level context the machine halts with the error status, the trace is
what it was, and no number of further steps emits anything. -/
theorem C10_uncaught_stops (m : Machine) (ms : MState) (c : Ctx) (e : Err) (h : ∀ x ∈ c.tries, x = 0) :
    handleCatch c e = .inr e ∧
    (raiseErr ms c [] e).s.halted = some (statusOf (.error e)) ∧
    ∀ n, (runN m n (raiseErr ms c [] e)).s.trace = ms.s.trace ∧
         (runN m n (raiseErr ms c [] e)).s.halted = some (statusOf (.error e)) := by
  have hc : handleCatch c e = .inr e := by simp [handleCatch, findLive_none c.tries h]
  have hr : raiseErr ms c [] e = finish ms [] (.error e) := by simp [raiseErr, hc]
  refine ⟨hc, by simp [hr, finish], ?_⟩
  intro n
  have hh : (raiseErr ms c [] e).s.halted = some (statusOf (.error e)) := by simp [hr, finish]
  rw [runN_halted m n _ _ hh]
  exact ⟨by simp [hr, finish], hh⟩

/-- the `raise` instruction is exactly that path -/
example (m : Machine) (ms : MState) (c : Ctx) : exec m ms c [] .raise = raiseErr ms c [] .div := rfl

/-! ### C10_defer_lifo_once -/

/-- A child context's whole execution seen from its parent: its Run() returns `o`.  `deliverSeq`
feeds the successive results of the children to the machine (the children's own effects on the
trace are irrelevant to the parent's scheduling and left out). -/
def deliverSeq (m : Machine) (ms : MState) : List Outcome → MState
  | [] => ms
  | o :: os =>
    match ms.s.ctxs with
    | _child :: p :: rest => deliverSeq m (resume m { ms with s := { ms.s with ctxs := p :: rest } } p rest o) os
    | _ => ms

/-- the machine while `p` waits for a deferred call -/
def waiting (child p : Ctx) (rest : List Ctx) (tr : List Tok) (sp : List Nat) (mode : Mode)
    (dl : Option Outcome) : MState :=
  { s := { ctxs := child :: p :: rest, trace := tr, spawned := sp, halted := none }, mode := mode, deliver := dl }

def after (p : Ctx) (rest : List Ctx) (tr : List Tok) (sp : List Nat) (mode : Mode) : MState :=
  { s := { ctxs := p :: rest, trace := tr, spawned := sp, halted := none }, mode := mode, deliver := none }

theorem deliver_normal_ok (m : Machine) (ds : List Nat) (child p : Ctx) (rest : List Ctx) (tr : List Tok)
    (sp : List Nat) (mode : Mode) (dl : Option Outcome) (hp : p.pend = .normal ds) :
    deliverSeq m (waiting child p rest tr sp mode dl) (List.replicate (ds.length + 1) .ok) =
      after { p with pend := .none } rest tr (ds.reverse ++ sp) .run := by
  induction ds generalizing child p sp mode dl with
  | nil => simp [deliverSeq, waiting, resume, hp, cont, after]
  | cons d ds ih =>
    have h := ih (childCtx m.stub d false) { p with pend := .normal ds } (d :: sp) .run none rfl
    simp only [List.length_cons, List.replicate_succ, deliverSeq, waiting, resume, hp, spawn] at h ⊢
    simpa [waiting, List.reverse_cons, List.append_assoc] using h

theorem deliver_normal_err (m : Machine) (ds : List Nat) (k : Nat) (hk : k ≤ ds.length) (e : Err)
    (child p : Ctx) (rest : List Ctx) (tr : List Tok) (sp : List Nat) (mode : Mode) (dl : Option Outcome)
    (hp : p.pend = .normal ds) :
    deliverSeq m (waiting child p rest tr sp mode dl) (List.replicate k .ok ++ [.error e]) =
      raiseErr (after { p with pend := .normal (ds.drop k) } rest tr ((ds.take k).reverse ++ sp) mode)
        { p with pend := .none } rest e := by
  induction k generalizing ds child p sp mode dl with
  | zero =>
    cases ds <;> simp [deliverSeq, waiting, resume, hp, after, raiseErr, finish] <;> rfl
  | succ k ih =>
    cases ds with
    | nil => simp at hk
    | cons d ds =>
      have h := ih ds (by simpa using hk) (childCtx m.stub d false) { p with pend := .normal ds } (d :: sp) .run none rfl
      simp only [List.replicate_succ, List.cons_append, deliverSeq, waiting, resume, hp, spawn] at h ⊢
      simpa [waiting, List.reverse_cons, List.append_assoc, raiseErr, finish, after] using h

theorem deliver_panic_ok (m : Machine) (ds : List Nat) (child p : Ctx) (rest : List Ctx) (tr : List Tok)
    (sp : List Nat) (mode : Mode) (dl : Option Outcome) (hp : p.pend = .panicking ds) :
    deliverSeq m (waiting child p rest tr sp mode dl) (List.replicate (ds.length + 1) .ok) =
      after { p with pend := .none } rest tr (ds.reverse ++ sp) .unwindB := by
  induction ds generalizing child p sp mode dl with
  | nil => simp [deliverSeq, waiting, resume, hp, cont, after]
  | cons d ds ih =>
    have h := ih (childCtx m.stub d true) { p with pend := .panicking ds } (d :: sp) .run none rfl
    simp only [List.length_cons, List.replicate_succ, deliverSeq, waiting, resume, hp, spawn] at h ⊢
    simpa [waiting, List.reverse_cons, List.append_assoc] using h

theorem all_ok_replicate (os : List Outcome) (h : os.all (· == .ok) = true) :
    os = List.replicate os.length .ok := by
  induction os with
  | nil => rfl
  | cons o os ih =>
    simp only [List.all_cons, Bool.and_eq_true, beq_iff_eq] at h
    rw [List.length_cons, List.replicate_succ, ← ih h.2, h.1]

/-- RunDefers with deferred calls `d :: ds` registered (head = registered LAST).  Excluded class
(explicit, decidable): some deferred call ends with an error (runtime error or unrecovered panic
inside it) — see `C10_defer_abort_counterexample`.  Otherwise exactly these closures are started,
once each, last registered first, and after the last completion the parent continues after
RunDefers, its state untouched.  (Return then restores the caller's defer stack, so they cannot
run again for this activation.) -/
theorem C10_defer_lifo_once_partial (m : Machine) (ms : MState) (c : Ctx) (rest : List Ctx)
    (d : Nat) (ds : List Nat) (hd : c.defers = d :: ds) (hpend : c.pend = .none)
    (hh : ms.s.halted = none) (os : List Outcome)
    (hlen : os.length = ds.length + 1) (hok : os.all (· == .ok) = true) :
    let r := deliverSeq m (exec m ms c rest .runDefers) os
    r.s.spawned = (d :: ds).reverse ++ ms.s.spawned ∧ r.s.ctxs = c :: rest ∧ r.mode = .run ∧
      r.s.trace = ms.s.trace := by
  have hos := all_ok_replicate os hok
  rw [hlen] at hos
  have hw : exec m ms c rest .runDefers =
      waiting (childCtx m.stub d false) { c with pend := .normal ds } rest ms.s.trace (d :: ms.s.spawned) .run none := by
    simp [exec, hd, spawn, waiting, hh]
  intro r
  have hcc : ({ ({ c with pend := .normal ds } : Ctx) with pend := .none } : Ctx) = c := by
    cases c; simp_all
  have hr : r = after c rest ms.s.trace (ds.reverse ++ d :: ms.s.spawned) .run := by
    show deliverSeq m _ os = _
    rw [hw, hos, deliver_normal_ok m ds _ _ rest _ _ _ _ rfl, hcc]
  rw [hr]
  exact ⟨by simp [after, List.reverse_cons, List.append_assoc], rfl, rfl, rfl⟩

/-- General form: if the first `k` deferred calls end normally and the next one ends with error `e`,
exactly `k + 1` closures were started (a prefix of the list, last registered first — never one
twice, never out of order), the remaining ones are NOT started, and the error is raised in the
parent at the RunDefers instruction (where the function's own try statements are still active). -/
theorem C10_defer_lifo_once (m : Machine) (ms : MState) (c : Ctx) (rest : List Ctx)
    (d : Nat) (ds : List Nat) (hd : c.defers = d :: ds) (hpend : c.pend = .none)
    (hh : ms.s.halted = none) (k : Nat) (hk : k ≤ ds.length) (e : Err) :
    ∃ ms' : MState, ms'.s.spawned = (ds.take k).reverse ++ d :: ms.s.spawned ∧ ms'.s.trace = ms.s.trace ∧
      deliverSeq m (exec m ms c rest .runDefers) (List.replicate k .ok ++ [.error e]) =
        raiseErr ms' c rest e := by
  have hw : exec m ms c rest .runDefers =
      waiting (childCtx m.stub d false) { c with pend := .normal ds } rest ms.s.trace (d :: ms.s.spawned) .run none := by
    simp [exec, hd, spawn, waiting, hh]
  have hcc : ({ ({ c with pend := .normal ds } : Ctx) with pend := .none } : Ctx) = c := by
    cases c; simp_all
  refine ⟨after { c with pend := .normal (ds.drop k) } rest ms.s.trace
            ((ds.take k).reverse ++ d :: ms.s.spawned) .run, rfl, rfl, ?_⟩
  rw [hw, deliver_normal_err m ds k hk e _ _ rest _ _ _ _ rfl, hcc]

/-- the same schedule while a panic unwinds a frame (unwindPanic → invokePanicDefers): every
deferred call of the frame is started once, last registered first, each with a panicContext
(`hasPC`), and then the unwind loop goes on to its "recovered?" test. -/
theorem C10_defer_lifo_once_unwind (m : Machine) (ms : MState) (c : Ctx) (rest : List Ctx)
    (d : Nat) (ds : List Nat) (hc : ms.s.ctxs = c :: rest) (hd : c.defers = d :: ds)
    (hpend : c.pend = .none) (hh : ms.s.halted = none) (hdl : ms.deliver = none)
    (hm : ms.mode = .unwindA) :
    (∃ ch r', (step m ms).s.ctxs = ch :: r' ∧ ch.hasPC = true ∧ ch.unit = d) ∧
    let r := deliverSeq m (step m ms) (List.replicate (ds.length + 1) .ok)
    r.s.spawned = (d :: ds).reverse ++ ms.s.spawned ∧ r.s.ctxs = c :: rest ∧ r.mode = .unwindB ∧
      r.s.trace = ms.s.trace := by
  have hw : step m ms =
      waiting (childCtx m.stub d true) { c with pend := .panicking ds } rest ms.s.trace (d :: ms.s.spawned) .run none := by
    simp [step, hh, hc, hdl, hm, hd, spawn, waiting]
  have hcc : ({ ({ c with pend := .panicking ds } : Ctx) with pend := .none } : Ctx) = c := by
    cases c; simp_all
  refine ⟨⟨_, _, by rw [hw]; rfl, rfl, rfl⟩, ?_⟩
  intro r
  have hr : r = after c rest ms.s.trace (ds.reverse ++ d :: ms.s.spawned) .unwindB := by
    show deliverSeq m _ _ = _
    rw [hw, deliver_panic_ok m ds _ _ rest _ _ _ _ rfl, hcc]
  rw [hr]
  exact ⟨by simp [after, List.reverse_cons, List.append_assoc], rfl, rfl, rfl⟩

/-- non-vacuity of the schedule theorems -/
example : (deliverSeq ⟨[]⟩ (exec ⟨[]⟩ initState { unit := 0, pc := 1, defers := [3, 2, 1] } [] .runDefers)
    [.ok, .ok, .ok]).s.spawned = [1, 2, 3] := by decide

/-! ### C10_recover_resumes_caller -/

theorem topFrame_spec (above below : List Item) (f : Frame) (h : ∀ it ∈ above, it = Item.tryM) :
    topFrame (above ++ Item.frame f :: below) = some (f, below) := by
  induction above with
  | nil => rfl
  | cons it r ih =>
    have : it = Item.tryM := h it (by simp)
    subst this
    simpa [topFrame] using ih (fun it hi => h it (by simp [hi]))

/-- recover() executed in a deferred call started by the unwinding (`hasPC`) of a panicking parent
stops the panic there and yields its value; in a context with no panicContext (any deferred call
started by an ordinary RunDefers, any ordinary function) it yields nil and changes nothing. -/
theorem C10_recover_stops_panic (m : Machine) (ms : MState) (ch p : Ctx) (rest : List Ctx) (v : Nat)
    (hch : ch.panic = none) (hp : p.panic = some v) :
    (ch.hasPC = true → exec m ms ch (p :: rest) .recover =
        cont (emitTok ms (.recov (some v))) ch ({ p with panic := none } :: rest)) ∧
    (ch.hasPC = false → exec m ms ch (p :: rest) .recover =
        cont (emitTok ms (.recov none)) ch (p :: rest)) := by
  constructor <;> intro h <;> simp [exec, recoverIn, hch, hp, h]

/-- After the deferred calls of the panicking frame have run and one of them recovered
(`panic = none`), one step of unwindPanic pops exactly that frame — whatever try markers the
function left above it — and the machine is back in RUN mode in the CALLER: its code unit, the
instruction after the call, its own defer stack; the recovered function's deferred calls are
cleared (they cannot run again) and nothing is emitted. -/
theorem C10_recover_resumes_caller (m : Machine) (ms : MState) (c : Ctx) (rest : List Ctx)
    (above below : List Item) (f : Frame)
    (hc : ms.s.ctxs = c :: rest) (hh : ms.s.halted = none) (hdl : ms.deliver = none)
    (hm : ms.mode = .unwindB) (hp : c.panic = none)
    (hst : c.stack = above ++ Item.frame f :: below) (hab : ∀ it ∈ above, it = Item.tryM) :
    ∃ c', (step m ms).s.ctxs = c' :: rest ∧ c'.unit = f.unit ∧ c'.pc = f.pc ∧ c'.defers = f.defers ∧
      c'.stack = below ∧ c'.panic = none ∧ c'.tries = c.tries.drop (c.tries.length - f.tryDepth) ∧
      (step m ms).mode = .run ∧ (step m ms).s.trace = ms.s.trace ∧ (step m ms).s.halted = none := by
  have ht := topFrame_spec above below f hab
  refine ⟨restore { c with defers := [] } f below, ?_, rfl, rfl, rfl, rfl, by simpa [restore] using hp, rfl, ?_, ?_, ?_⟩
  · simp [step, hh, hc, hdl, hm, hp, hst, ht, cont]
  · simp [step, hh, hc, hdl, hm, hp, hst, ht, cont]
  · simp [step, hh, hc, hdl, hm, hp, hst, ht, cont]
  · simp [step, hh, hc, hdl, hm, hp, hst, ht, cont]

/-- and if nothing recovered, the same step pops the frame and goes on unwinding in the caller -/
theorem C10_unrecovered_keeps_unwinding (m : Machine) (ms : MState) (c : Ctx) (rest : List Ctx)
    (above below : List Item) (f : Frame) (v : Nat)
    (hc : ms.s.ctxs = c :: rest) (hh : ms.s.halted = none) (hdl : ms.deliver = none)
    (hm : ms.mode = .unwindB) (hp : c.panic = some v)
    (hst : c.stack = above ++ Item.frame f :: below) (hab : ∀ it ∈ above, it = Item.tryM) :
    ∃ c', (step m ms).s.ctxs = c' :: rest ∧ c'.unit = f.unit ∧ c'.defers = f.defers ∧ c'.panic = some v ∧
      (step m ms).mode = .unwindA ∧ (step m ms).s.trace = ms.s.trace := by
  have ht := topFrame_spec above below f hab
  refine ⟨restore c f below, ?_, rfl, rfl, by simpa [restore] using hp, ?_, ?_⟩ <;>
    simp [step, hh, hc, hdl, hm, hp, hst, ht, cont]

/-! ### compileCtl address arithmetic -/

theorem leaveTries_length (tn : List Bool) : (leaveTries tn).length = tn.length + (tn.filter id).length := by
  induction tn with
  | nil => rfl
  | cons b r ih => cases b <;> simp [leaveTries, ih] <;> omega

mutual
/-- the sizes used for back-patched addresses (catch address, end of try, loop exit, continue
target) are exactly the lengths of the emitted code, for every statement and nesting -/
theorem C10_compile_sizes_stmt (pc : Nat) (lc : Option LoopCtx) (tn : List Bool) : (s : Stmt) → (compS pc lc tn s).length = sizeS tn s
  | .emit _ | .raise | .panic _ | .recover | .defer_ _ | .call _ | .ret => by simp [compS, sizeS]
  | .retE true _ | .retE false _ => by simp [compS, sizeS]
  | .tryCatch b h => by
    simp [compS, sizeS, C10_compile_sizes _ lc (true :: tn) b, C10_compile_sizes _ lc (false :: tn) h]; omega
  | .loop _ _ b => by
    simp [compS, sizeS, C10_compile_sizes _ _ [] b]; omega
  | .brk | .cont => by simp [compS, sizeS, leaveTries_length]
  | .cond _ _ b => by
    simp [compS, sizeS, C10_compile_sizes _ lc tn b]; omega
theorem C10_compile_sizes (pc : Nat) (lc : Option LoopCtx) (tn : List Bool) : (b : List Stmt) → (compB pc lc tn b).length = sizeB tn b
  | [] => by simp [compB, sizeB]
  | s :: r => by simp [compB, sizeB, C10_compile_sizes_stmt pc lc tn s, C10_compile_sizes _ lc tn r]
end

/-! ### C10_return_defers_once: a return statement and its deferred calls -/

/-- RunDefers with every deferred call ending normally, as an equation on the whole machine state -/
theorem runDefers_all_ok (m : Machine) (ms : MState) (c : Ctx) (rest : List Ctx)
    (d : Nat) (ds : List Nat) (hd : c.defers = d :: ds) (hpend : c.pend = .none)
    (hh : ms.s.halted = none) :
    deliverSeq m (exec m ms c rest .runDefers) (List.replicate (ds.length + 1) .ok) =
      after c rest ms.s.trace ((d :: ds).reverse ++ ms.s.spawned) .run := by
  have hw : exec m ms c rest .runDefers =
      waiting (childCtx m.stub d false) { c with pend := .normal ds } rest ms.s.trace (d :: ms.s.spawned) .run none := by
    simp [exec, hd, spawn, waiting, hh]
  have hcc : ({ ({ c with pend := .normal ds } : Ctx) with pend := .none } : Ctx) = c := by
    cases c; simp_all
  rw [hw, deliver_normal_ok m ds _ _ rest _ _ _ _ rfl, hcc]
  simp [List.reverse_cons, List.append_assoc]

/-- A return whose RunDefers is IMMEDIATELY followed by Return (a bare return, the end of a body,
`return <expr>` in a function with named results: `compS … (.retE true e) = [e.instr, .runDefers, .ret]`).
Excluded classes (explicit hypotheses): a deferred call ends with an error (`hok`, see
`C10_defer_lifo_once` and the two known findings about it), and — hypothesis `hret` — an
instruction that can fail sits between RunDefers and Return, which is `return <expr>` in a function
with UNNAMED results (`C10_return_expr_twice_counterexample`).  Then, for any defer list and any
try markers above the frame: the activation's deferred calls are started once each, last registered
first; the next step pops the frame, the context is back in the caller with the CALLER's defer
list, so none of them can be started again, and the return itself emits nothing. -/
theorem C10_return_defers_once_partial (m : Machine) (ms : MState) (c : Ctx) (rest : List Ctx)
    (d : Nat) (ds : List Nat) (above below : List Item) (f : Frame)
    (hc : ms.s.ctxs = c :: rest) (hh : ms.s.halted = none) (hdl : ms.deliver = none)
    (hm : ms.mode = .run) (hd : c.defers = d :: ds) (hpend : c.pend = .none)
    (hrd : m.fetch c.unit c.pc = some .runDefers)
    (hret : m.fetch c.unit (c.pc + 1) = some .ret)
    (hst : c.stack = above ++ Item.frame f :: below) (hab : ∀ it ∈ above, it = Item.tryM)
    (os : List Outcome) (hlen : os.length = ds.length + 1) (hok : os.all (· == .ok) = true) :
    let r := step m (deliverSeq m (step m ms) os)
    r.s.spawned = (d :: ds).reverse ++ ms.s.spawned ∧ r.s.trace = ms.s.trace ∧ r.s.halted = none ∧
      r.mode = .run ∧
      ∃ c', r.s.ctxs = c' :: rest ∧ c'.unit = f.unit ∧ c'.pc = f.pc ∧ c'.defers = f.defers ∧
        c'.stack = below := by
  have hos := all_ok_replicate os hok
  rw [hlen] at hos
  have h1 : step m ms = exec m ms { c with pc := c.pc + 1 } rest .runDefers := by
    simp [step, hh, hc, hdl, hm, hrd]
  have h2 := runDefers_all_ok m ms { c with pc := c.pc + 1 } rest d ds hd hpend hh
  have ht := topFrame_spec above below f hab
  intro r
  have hr : r = cont (after { c with pc := c.pc + 1 } rest ms.s.trace ((d :: ds).reverse ++ ms.s.spawned) .run)
      (restore { c with pc := c.pc + 1 + 1 } f below) rest := by
    show step m (deliverSeq m (step m ms) os) = _
    rw [h1, hos, h2]
    simp [step, after, hret, exec, hst, ht]
  rw [hr]
  exact ⟨rfl, rfl, rfl, rfl, _, rfl, rfl, rfl, rfl, rfl⟩

/-- the three return shapes that meet `hrd`/`hret` above, for every expression -/
theorem C10_return_shapes (pc : Nat) (lc : Option LoopCtx) (tn : List Bool) (e : RExpr) (b : Block) :
    compS pc lc tn .ret = [.runDefers, .ret] ∧
    compS pc lc tn (.retE true e) = [e.instr, .runDefers, .ret] ∧
    compS pc lc tn (.retE false e) = [.runDefers, e.instr, .ret] ∧
    (compUnit b).drop (compUnit b).length.pred.pred = [.runDefers, .ret] := by
  refine ⟨rfl, rfl, rfl, ?_⟩
  simp [compUnit, Nat.pred]

/-- non-vacuity: f0 calls f1; f1 (named result) registers two deferred calls and returns mkv(5) -/
example : traceVM [[.call 1], [.defer_ 2, .defer_ 3, .retE true (.mkv 5), .ret], [.emit 1], [.emit 2]] 100 =
    ([.mark 5, .mark 2, .mark 1], some .ok) := by decide

/-- f0 calls f1; f1 (one UNNAMED result): defer{emit 1}; return f2().  f2: panic 7 -/
def progRetExprPanic : Prog :=
  [[.call 1], [.defer_ 3, .retE false (.call 2), .ret], [.panic 7, .ret], [.emit 1]]

/-- the same with a NAMED result -/
def progRetExprPanicNamed : Prog :=
  [[.call 1], [.defer_ 3, .retE true (.call 2), .ret], [.panic 7, .ret], [.emit 1]]

/-- f0: defer{emit 1}; try { return 1/zero } catch { emit 2 }; emit 3  (unnamed result) -/
def progRetExprCaught : Prog :=
  [[.defer_ 1, .tryCatch [.retE false .div] [.emit 2], .emit 3, .ret], [.emit 1]]

/-- Known finding `defers-run-twice-on-failing-return-expr`: in a function with unnamed results
RunDefers runs BEFORE the return expression and does not clear the defer list; when the expression
then panics (first program) or raises an error caught by a try of the same function (third
program) the same deferred call is started a second time.  With a named result it runs once. -/
theorem C10_return_expr_twice_counterexample :
    traceVM progRetExprPanic 200 = ([.mark 1, .mark 1], some .panic) ∧
    traceSpec progRetExprPanic 200 = ([.mark 1, .mark 1], some .panic) ∧
    traceVM progRetExprPanicNamed 200 = ([.mark 1], some .panic) ∧
    traceVM progRetExprCaught 200 = ([.mark 1, .mark 2, .mark 3, .mark 1], some .ok) ∧
    traceSpec progRetExprCaught 200 = ([.mark 1, .mark 2, .mark 3, .mark 1], some .ok) := by
  refine ⟨by decide, by decide +kernel, by decide, by decide, by decide +kernel⟩

/-! ### counterexamples (known findings) and the refinement statement -/

/-- f0: defer{emit 1}; defer{emit 2; panic 9}; defer{emit 3}; panic 7 -/
def progPanicInDefer : Prog :=
  [[.defer_ 1, .defer_ 2, .defer_ 3, .panic 7], [.emit 1], [.emit 2, .panic 9], [.emit 3]]

/-- Known finding `panic-in-deferred-call`: the deferred call registered first never runs (Go and
the property: trace 3,2,1) and the program dies with the inner panic. -/
theorem C10_defer_abort_counterexample :
    traceVM progPanicInDefer 200 = ([.mark 3, .mark 2], some .panic) ∧
    traceSpec progPanicInDefer 200 = ([.mark 3, .mark 2], some .panic) := by
  constructor
  · decide
  · decide +kernel

/-- f0: defer{emit 1; raise}; defer{emit 2}; try { return } catch { emit 3 }; emit 4 -/
def progErrInDefer : Prog :=
  [[.defer_ 1, .defer_ 2, .tryCatch [.ret] [.emit 3], .emit 4], [.emit 1, .raise], [.emit 2]]

/-- Known finding `error-escapes-deferred-call`: the error of a deferred call is caught by the try
the `return` sits in; the function goes on and runs its deferred calls a second time. -/
theorem C10_defer_twice_counterexample :
    traceVM progErrInDefer 400 = ([.mark 2, .mark 1, .mark 3, .mark 4, .mark 2, .mark 1], some .err) ∧
    traceSpec progErrInDefer 400 = ([.mark 2, .mark 1, .mark 3, .mark 4, .mark 2, .mark 1], some .err) := by
  constructor
  · decide
  · decide +kernel

/-- f0: defer A; panic 73.  A: defer{recover; emit 1}; defer{recover; emit 2}; panic 52; emit 3 -/
def progRecoverOuter : Prog :=
  [[.defer_ 1, .panic 73, .emit 4], [.defer_ 2, .defer_ 3, .panic 52, .emit 3],
   [.recover, .emit 1], [.recover, .emit 2]]

/-- Known finding `recover-reaches-outer-panic`: the second recover(), in a deferred call of the
deferred call A, finds A's panic already cleared, follows A's panicContext and stops f0's panic
(Go: it returns nil and 73 keeps unwinding). -/
theorem C10_recover_outer_counterexample :
    traceVM progRecoverOuter 400 =
      ([.recov (some 52), .mark 2, .recov (some 73), .mark 1], some .ok) ∧
    traceSpec progRecoverOuter 400 =
      ([.recov (some 52), .mark 2, .recov (some 73), .mark 1], some .ok) := by
  constructor
  · decide
  · decide +kernel

/-- the refinement between the compiled VM run and the source-level semantics: NOT proved here;
checked by correspondence (driver ops `vm` and `spec` against the real VM) on every run. -/
def C10_compile_correct_statement : Prop :=
  ∀ (p : Prog) (n : Nat) (st : Status), (traceSpec p n).2 = some st →
    ∃ k, traceVM p k = traceSpec p n

end EgoVerif.C10
