import EgoVerif.C10.VM
/-
C10 part 3 — the step function of the VM model: one iteration of the run loop of
`RunFromAddress` (run.go), one iteration of the loop of `unwindPanic` (panic.go), or the
delivery of a finished child context's result to its parent (defer.go invokeDeferredStatements /
invokePanicDefers).  `step` is not recursive; only list helpers are.
-/
namespace EgoVerif.C10

structure Machine where
  code : List Code
  deriving Repr

def Machine.stub (m : Machine) : Nat := m.code.length

def Machine.fetch (m : Machine) (u pc : Nat) : Option Instr :=
  match m.code[u]? with
  | some c => c[pc]?
  | none => none

/-- how a context's Run() ended -/
inductive Outcome where
  | ok                 -- nil / ErrStop
  | error (e : Err)
  deriving Repr, DecidableEq

def statusOf : Outcome → Status
  | .ok => .ok
  | .error .div => .err
  | .error .panicU => .panic
  | .error _ => .other

/-- where the running context is inside RunFromAddress -/
inductive Mode where
  | run        -- dispatching instructions
  | unwindA    -- unwindPanic: about to run the current frame's deferred calls
  | unwindB    -- unwindPanic: they have run; recovered? else pop the frame
  deriving Repr, DecidableEq

/-- machine state: `State` plus the mode of the running context and a child result in transit -/
structure MState where
  s : State
  mode : Mode := .run
  deliver : Option Outcome := none
  deriving Repr

/-- start deferred call `d` as a child of `parent` -/
def spawn (m : Machine) (ms : MState) (parent : Ctx) (rest : List Ctx) (d : Nat) (pend : Pending)
    (hasPC : Bool) : MState :=
  { s := { ms.s with ctxs := childCtx m.stub d hasPC :: { parent with pend := pend } :: rest,
                     spawned := d :: ms.s.spawned },
    mode := .run, deliver := none }

/-- the running context's Run() returns `o` -/
def finish (ms : MState) (rest : List Ctx) (o : Outcome) : MState :=
  match rest with
  | [] => { s := { ms.s with ctxs := [], halted := some (statusOf o) }, mode := .run, deliver := none }
  | _ :: _ => { s := { ms.s with ctxs := rest }, mode := .run, deliver := some o }

/-- an instruction returned a catchable error: handleCatch, else Run() returns it -/
def raiseErr (ms : MState) (c : Ctx) (rest : List Ctx) (e : Err) : MState :=
  match handleCatch c e with
  | .inl c' => { ms with s := { ms.s with ctxs := c' :: rest }, mode := .run, deliver := none }
  | .inr e' => finish ms rest (.error e')

def cont (ms : MState) (c : Ctx) (rest : List Ctx) (mode : Mode := .run) : MState :=
  { ms with s := { ms.s with ctxs := c :: rest }, mode := mode, deliver := none }

def emitTok (ms : MState) (t : Tok) : MState := { ms with s := { ms.s with trace := t :: ms.s.trace } }

/-- execute instruction `i` (pc already advanced) -/
def exec (m : Machine) (ms : MState) (c : Ctx) (rest : List Ctx) : Instr → MState
  | .emit k => cont (emitTok ms (.mark k)) c rest
  | .raise => raiseErr ms c rest .div
  | .panic v => cont ms { c with panic := some v } rest .unwindA        -- userPanicByteCode → unwindPanic
  | .recover =>                                                           -- recoverByteCode
    match recoverIn (c :: rest) with
    | some (v, c' :: rest') => cont (emitTok ms (.recov (some v))) c' rest'
    | _ => cont (emitTok ms (.recov none)) c rest
  | .try_ a => cont ms { c with tries := a :: c.tries } rest            -- tryByteCode
  | .pushTry => cont ms { c with stack := .tryM :: c.stack } rest
  | .dropTry => cont ms { c with stack := dropToTry c.stack } rest
  | .tryPop =>                                                            -- tryPopByteCode
    match c.tries with
    | [] => raiseErr ms c rest .tryMismatch
    | _ :: r => cont ms { c with tries := r } rest
  | .branch a => cont ms { c with pc := a } rest
  | .loopInit id => cont ms { c with env := envSet c.env id 0 } rest
  | .loopTest id n a => if envGet c.env id < n then cont ms c rest else cont ms { c with pc := a } rest
  | .loopIncr id => cont ms { c with env := envSet c.env id (envGet c.env id + 1) } rest
  | .ifTest id k a => if envGet c.env id = k then cont ms c rest else cont ms { c with pc := a } rest
  | .defer_ d => cont ms { c with defers := d :: c.defers } rest        -- deferByteCode
  | .runDefers =>                                                         -- runDefersByteCode
    match c.defers with
    | [] => cont ms c rest
    | d :: ds => spawn m ms c rest d (.normal ds) false
  | .ret =>                                                               -- returnByteCode
    match topFrame c.stack with
    | none => finish ms rest .ok                                          -- running = false
    | some (f, below) => cont ms (restore c f below) rest
  | .call f =>                                                            -- callFramePush
    cont ms { c with unit := f, pc := 0, defers := [], env := [],
                     stack := .frame { unit := c.unit, pc := c.pc, defers := c.defers,
                                       tryDepth := c.tries.length, env := c.env } :: c.stack } rest

/-- a child context ended with `o`; the parent `p` was inside a defers loop -/
def resume (m : Machine) (ms : MState) (p : Ctx) (rest : List Ctx) (o : Outcome) : MState :=
  match p.pend, o with
  | .normal (d :: ds), .ok => spawn m ms p rest d (.normal ds) false
  | .normal [], .ok => cont ms { p with pend := .none } rest
  | .normal _, .error e => raiseErr ms { p with pend := .none } rest e   -- RunDefers returns err
  | .panicking (d :: ds), .ok => spawn m ms p rest d (.panicking ds) true
  | .panicking [], .ok => cont ms { p with pend := .none } rest .unwindB
  | .panicking _, .error e => finish ms rest (.error e)                   -- unwindPanic returns err
  | .none, _ => { ms with s := { ms.s with halted := some .other } }     -- unreachable

def step (m : Machine) (ms : MState) : MState :=
  match ms.s.halted with
  | some _ => ms
  | none =>
  match ms.s.ctxs with
  | [] => { ms with s := { ms.s with halted := some .other } }
  | c :: rest =>
    match ms.deliver with
    | some o => resume m { ms with deliver := none } c rest o
    | none =>
      match ms.mode with
      | .run =>
        match m.fetch c.unit c.pc with
        | none => finish ms rest .ok                     -- pc past the end: loop ends, nil
        | some i => exec m ms { c with pc := c.pc + 1 } rest i
      | .unwindA =>
        match c.defers with
        | [] => cont ms c rest .unwindB
        | d :: ds => spawn m ms c rest d (.panicking ds) true
      | .unwindB =>
        match c.panic with
        | none =>                                         -- recovered
          match topFrame c.stack with
          | none => finish ms rest .ok
          | some (f, below) => cont ms (restore { c with defers := [] } f below) rest
        | some _ =>
          match topFrame c.stack with
          | none => finish ms rest (.error .panicU)       -- fatal: "panic: …"
          | some (f, below) => cont ms (restore c f below) rest .unwindA

def runN (m : Machine) : Nat → MState → MState
  | 0, ms => ms
  | n + 1, ms => match ms.s.halted with
    | some _ => ms
    | none => runN m n (step m ms)

def initState : MState := { s := { ctxs := [{ unit := 0, pc := 0 }] } }

/-- the harness program: top level `f0()`; the top-level context is a child-like stub calling unit 0 -/
def initFor (m : Machine) : MState := { s := { ctxs := [childCtx m.stub 0 false] } }

def traceCode (code : List Code) (fuel : Nat) : List Tok × Option Status :=
  let m : Machine := ⟨code⟩
  let r := runN m fuel (initFor m)
  (r.s.trace.reverse, r.s.halted)

def traceVM (p : Prog) (fuel : Nat) : List Tok × Option Status := traceCode (compileCtl p) fuel

end EgoVerif.C10
