/-
C43 — Row endpoints enforce table grants.  Executable model (core Lean only).

Mirrors, function by function (Go file and function named at each definition):
  internal/server/tables/security.go   Authorized, GrantPermissions, DeletePermissions, DeletePermissionsByDSN,
                                       createTablePermissions, removeTablePermissions, validPermissions
  internal/server/tables/parsing/parsing.go  SQLEscape
  internal/server/tables/database/open.go    Open (the authorization part)
  internal/server/tables/rows.go       ReadRows / InsertRows / UpdateRows / DeleteRows (the authorization part)
  internal/dsns/dsn_file.go            ReadDSN, WriteDSN, DeleteDSN, RevokeAllDSN, AuthDSN, GrantDSN
  internal/dsns/identity.go            IdentityAuthorizesAction
  internal/dsns/dsn_sqldb.go           ReadDSN, WriteDSN, DeleteDSN, RevokeAllDSN, AuthDSN, GrantDSN (database service)
  internal/caches                      Find / Add / Delete on DSNCache, as a memo next to the stored rows

`authorized` mirrors the FIXED `Authorized(session, user, dsn, table, ops...)` (fixes/C43.patch: the DSN and the
table are separate parameters).  `authorizedOld` mirrors the code before the fix, which received the single
string `dsn + "." + table` and split it at the first '.'.

Abstractions (stated in checks/C43.py META.note): the uuid `id` of a table_perms record is not modelled — a
record is updated/deleted "by id" exactly when it is the record that was just read, which is what unique ids give;
SQL `=` on text columns is exact string equality (SQLite BINARY collation, bound parameters); the permission
store is available (`initPermissions()` = true); DSNAction is the three bits read=1, write=2, admin=8.
-/
namespace EgoVerif.C43

abbrev Name := List Char

/-- table_perms record (security.go `PermissionsObject`, without the uuid) -/
structure Rec where
  user : Name
  dsn : Name
  table : Name
  admin : Bool
  read : Bool
  write : Bool
  update : Bool
  delete : Bool
deriving DecidableEq, Repr

inductive Perm where
  | read | write | update | delete | admin
deriving DecidableEq, Repr

/-- dsns.DSNAction restricted to the bits the code uses (1 = read, 2 = write, 8 = admin) -/
structure Act where
  r : Bool
  w : Bool
  a : Bool
deriving DecidableEq, Repr

def Act.none : Act := ⟨false, false, false⟩
def Act.or (x y : Act) : Act := ⟨x.r || y.r, x.w || y.w, x.a || y.a⟩
def Act.andNot (x y : Act) : Act := ⟨x.r && !y.r, x.w && !y.w, x.a && !y.a⟩
/-- `(x & y) != 0` -/
def Act.meets (x y : Act) : Bool := (x.r && y.r) || (x.w && y.w) || (x.a && y.a)

structure St where
  dsns : List (Name × Bool)   -- fileService.Data : name ↦ Restricted
  auth : List (Name × Act)    -- fileService.Auth : "user|dsn" ↦ action
  perms : List Rec            -- rows of table_perms
deriving Repr

def St.init : St := ⟨[], [], []⟩

/-! ### strings -/

def lowerChar (c : Char) : Char :=
  if 'A' ≤ c ∧ c ≤ 'Z' then Char.ofNat (c.toNat + 32) else c

/-- strings.ToLower on ASCII text (operation and permission names are ASCII in every generated case) -/
def lower (s : Name) : Name := s.map lowerChar

def isSpace (c : Char) : Bool :=
  c = ' ' || c = '\t' || c = '\n' || c = '\r' || c.toNat = 11 || c.toNat = 12

/-- strings.TrimSpace on ASCII text -/
def trimSpace (s : Name) : Name := ((s.dropWhile isSpace).reverse.dropWhile isSpace).reverse

def nRead : Name := ['e', 'g', 'o', '.', 't', 'a', 'b', 'l', 'e', '.', 'r', 'e', 'a', 'd']
def nWrite : Name := ['e', 'g', 'o', '.', 't', 'a', 'b', 'l', 'e', '.', 'w', 'r', 'i', 't', 'e']
def nUpdate : Name := ['e', 'g', 'o', '.', 't', 'a', 'b', 'l', 'e', '.', 'u', 'p', 'd', 'a', 't', 'e']
def nDelete : Name := ['e', 'g', 'o', '.', 't', 'a', 'b', 'l', 'e', '.', 'd', 'e', 'l', 'e', 't', 'e']
def nAdmin : Name := ['e', 'g', 'o', '.', 't', 'a', 'b', 'l', 'e', '.', 'a', 'd', 'm', 'i', 'n']

def permOfName (s : Name) : Option Perm :=
  if s = nRead then some .read
  else if s = nWrite then some .write
  else if s = nUpdate then some .update
  else if s = nDelete then some .delete
  else if s = nAdmin then some .admin
  else none

/-- split at the first occurrence of `c` (strings.SplitN(s, c, 2)); none when `c` does not occur -/
def splitFirst (c : Char) : Name → Option (Name × Name)
  | [] => none
  | x :: xs =>
    if x = c then some ([], xs)
    else match splitFirst c xs with
      | some (a, b) => some (x :: a, b)
      | none => none

/-- byte-wise (= code point) lexicographic `<`, the order of sort.Strings -/
def ltName : Name → Name → Bool
  | [], [] => false
  | [], _ :: _ => true
  | _ :: _, [] => false
  | a :: as, b :: bs => if a.toNat < b.toNat then true else if b.toNat < a.toNat then false else ltName as bs

def insertSorted (x : Name) : List Name → List Name
  | [] => [x]
  | y :: ys => if ltName y x then y :: insertSorted x ys else x :: y :: ys

/-- sort.Strings -/
def sortNames (l : List Name) : List Name := l.foldr insertSorted []

/-- parsing.SQLEscape: strips one pair of surrounding quotes, rejects an interior quote and any ';' -/
def sqlEscape (s : Name) : Option Name :=
  let dropLast (q : Char) (x : Name) : Name :=
    match x.reverse with
    | c :: r => if c = q then r.reverse else x
    | [] => x
  let src : Name :=
    match s with
    | '\'' :: _ => (match dropLast '\'' s with | '\'' :: r => r | x => x)
    | '"' :: _ => (match dropLast '"' s with | '"' :: r => r | x => x)
    | _ => s
  let n := src.length
  let bad := (List.range n).any fun i =>
    match src[i]? with
    | some ch => ((0 < i && i + 1 < n) && (ch = '\'' || ch = '"')) || ch = ';'
    | none => false
  if bad then none else some src

/-! ### table_perms: lookups and the decision (security.go) -/

/-- the three `pHandle.Equals` filters of Authorized / GrantPermissions -/
def Rec.isFor (r : Rec) (u d t : Name) : Bool := r.dsn = d && r.table = t && r.user = u

def lookup (ps : List Rec) (u d t : Name) : List Rec := ps.filter (·.isFor u d t)

/-- one arm of the per-operation switch in Authorized; `none` is the `default:` arm -/
def Rec.permits (r : Rec) : Option Perm → Bool
  | some .read => r.read || r.admin
  | some .write => r.write || r.admin
  | some .admin => r.admin
  | some .delete => r.delete || r.admin
  | some .update => r.update || r.admin
  | none => false

def opOfName (op : Name) : Option Perm := permOfName (lower op)

/-- fileService.ReadDSN: the Restricted flag of the DSN, none = ErrNoSuchDSN -/
def readDSN (st : St) (name : Name) : Option Bool := st.dsns.lookup name

/-- security.go Authorized (fixed signature: dsn and table separate) -/
def authorized (st : St) (sessUser : Name) (sessAdmin : Bool) (user dsn table : Name) (ops : List Name) : Bool :=
  if user = sessUser ∧ sessAdmin = true then true
  else match readDSN st dsn with
    | none => false
    | some restricted =>
      if !restricted then true
      else match lookup st.perms user dsn table with
        | [r] => ops.all fun op => r.permits (opOfName op)
        | _ => false

/-- security.go Authorized BEFORE the fix: one "dsn.table" string, split at the first '.' -/
def authorizedOld (st : St) (sessUser : Name) (sessAdmin : Bool) (user combined : Name) (ops : List Name) : Bool :=
  match splitFirst '.' combined with
  | some (d, t) => authorized st sessUser sessAdmin user d t ops
  | none => authorized st sessUser sessAdmin user [] combined ops

/-! ### table_perms: updates (security.go) -/

def emptyRec (u d t : Name) : Rec := ⟨u, d, t, false, false, false, false, false⟩
def fullRec (u d t : Name) : Rec := ⟨u, d, t, true, true, true, true, true⟩

def stripSign : Name → Name
  | '+' :: r => r
  | '-' :: r => r
  | s => s

/-- validPermissions, one element -/
def validPerm (p : Name) : Bool :=
  let q := trimSpace p
  q = [] || (permOfName (lower (stripSign q))).isSome

def Rec.set (r : Rec) (p : Perm) (v : Bool) : Rec :=
  match p with
  | .read => { r with read := v }
  | .write => { r with write := v }
  | .update => { r with update := v }
  | .delete => { r with delete := v }
  | .admin => { r with admin := v }

/-- one iteration of the `for _, key := range permissionsList` loop of GrantPermissions; none = the 400 of
    its `default:` arm (the empty key, on which the code indexes `key[0]`, is excluded by the generators) -/
def applyKey (r : Rec) (key : Name) : Option Rec :=
  let (setting, k) : Bool × Name :=
    match key with
    | '-' :: rest => (false, rest)
    | '+' :: rest => (true, rest)
    | _ => (true, key)
  match permOfName (lower k) with
  | some p => some (r.set p setting)
  | none => none

def applyKeys (r : Rec) : List Name → Option Rec
  | [] => some r
  | k :: ks => match applyKey r k with
    | some r' => applyKeys r' ks
    | none => none

inductive GrantStatus where
  | ok | bad | dup
deriving DecidableEq, Repr

/-- GrantPermissions for (user, dsn, table) with the JSON list `keys`, called by an administrator -/
def grant (ps : List Rec) (u d t : Name) (keys : List Name) : List Rec × GrantStatus :=
  match lookup ps u d t with
  | _ :: _ :: _ => (ps, .dup)                      -- len(items) > 1: 404, nothing written
  | found =>
    -- len(items) == 0: an empty record is inserted BEFORE the body is looked at
    let ps1 := if found.isEmpty then ps ++ [emptyRec u d t] else ps
    let item := found.headD (emptyRec u d t)
    let sorted := sortNames keys
    if !(sorted.all validPerm) then (ps1, .bad)
    else match applyKeys item sorted with
      | none => (ps1, .bad)
      | some item' =>                               -- pHandle.Update(item, id = item.ID)
        (ps1.map fun r => if r.isFor u d t then item' else r, .ok)

/-- createTablePermissions: always inserts a new all-true record -/
def create (ps : List Rec) (u d t : Name) : List Rec := ps ++ [fullRec u d t]

/-- an optional equality filter of pHandle.Read / pHandle.Delete: `none` is a nil filter -/
def optEq (filter : Option Name) (field : Name) : Bool :=
  match filter with
  | none => true
  | some v => field = v

/-- `if name != "" { filter = pHandle.Equals(col, name) }` -/
def rawOpt (s : Name) : Option Name := if s = [] then none else some s

/-- `if name != "" { text, err := SQLEscape(name); filter = pHandle.Equals(col, text) }`: outer none = the
    SQLEscape error; `some none` = no filter; a name such as "'" escapes to "" and still filters on "" -/
def escOpt (s : Name) : Option (Option Name) := if s = [] then some none else (sqlEscape s).map some

/-- DeletePermissions(dsn, table, ?user=): none = 400 from SQLEscape, nothing deleted -/
def revoke (ps : List Rec) (d t u : Name) : Option (List Rec) :=
  match escOpt u, escOpt (if d = ['@', 'a', 'l', 'l'] then [] else d) with
  | some uf, some df =>
    some (ps.filter fun r => !(optEq df r.dsn && optEq (rawOpt t) r.table && optEq uf r.user))
  | _, _ => none

/-- removeTablePermissions(session{dsn}, table) -/
def removeTable (ps : List Rec) (d t : Name) : List Rec :=
  match escOpt d with
  | some df => ps.filter fun r => !(optEq df r.dsn && optEq (rawOpt t) r.table)
  | none => ps

/-- DeletePermissionsByDSN -/
def deleteByDSN (ps : List Rec) (d : Name) : List Rec := ps.filter fun r => !(r.dsn = d)

/-! ### the DSN service (internal/dsns/dsn_file.go) -/

/-- Go map assignment `m[k] = v` on an association list -/
def setKey {α : Type} (m : List (Name × α)) (k : Name) (v : α) : List (Name × α) :=
  if (m.lookup k).isSome then m.map fun e => if e.1 = k then (k, v) else e else m ++ [(k, v)]

def delKey {α : Type} (m : List (Name × α)) (k : Name) : List (Name × α) := m.filter fun e => !(e.1 = k)

/-- `key := user + "|" + name` -/
def authKey (user dsn : Name) : Name := user ++ '|' :: dsn

/-- revokeAllLocked: drop every key whose part after the FIRST '|' is `name` -/
def revokeAll (auth : List (Name × Act)) (name : Name) : List (Name × Act) :=
  auth.filter fun e => match splitFirst '|' e.1 with
    | some (_, d) => !(d = name)
    | none => true

/-- WriteDSN -/
def writeDSN (st : St) (name : Name) (restricted : Bool) : St := { st with dsns := setKey st.dsns name restricted }

/-- DeleteDSN -/
def deleteDSN (st : St) (name : Name) : St :=
  match readDSN st name with
  | some _ => { st with dsns := delKey st.dsns name, auth := revokeAll st.auth name }
  | none => st

/-- RevokeAllDSN -/
def revokeAllDSN (st : St) (name : Name) : St := { st with auth := revokeAll st.auth name }

/-- AuthDSN -/
def authDSN (st : St) (user name : Name) (action : Act) : Bool :=
  match readDSN st name with
  | none => false
  | some restricted =>
    if !restricted then true
    else match st.auth.lookup (authKey user name) with
      | some v => v.meets action
      | none => false

/-- GrantDSN; none = ErrNoSuchDSN.  The first grant marks the DSN restricted. -/
def grantDSN (st : St) (user name : Name) (action : Act) (g : Bool) : Option St :=
  match readDSN st name with
  | none => none
  | some _ =>
    let key := authKey user name
    let v : Act := match st.auth.lookup key with
      | some v => if g then v.or action else v.andNot action
      | none => if g then action else Act.none
    some { st with auth := setKey st.auth key v, dsns := setKey st.dsns name true }

/-- identity-wide permissions of the session, already matched case-insensitively:
    ego.dsn.admin / ego.dsn.read / ego.dsn.write (identity.go IdentityAuthorizesAction) -/
def identityAuthorizes (idp : Act) (action : Act) : Bool :=
  idp.a || (action.r && idp.r) || (action.w && idp.w)

/-! ### the row endpoints (rows.go; database/open.go) -/

inductive RowOp where
  | read | insert | update | delete
deriving DecidableEq, Repr

/-- the DSN action passed to GetDatabase -/
def RowOp.action : RowOp → Act
  | .read => ⟨true, false, false⟩
  | _ => ⟨false, true, false⟩

/-- the table permission each handler asks Authorized for -/
def RowOp.perm : RowOp → Name
  | .read => nRead
  | .insert => nWrite
  | .update => nUpdate
  | .delete => nDelete

inductive Status where
  | pass        -- the handler went on to the database (any status other than 403 / DSN-404)
  | forbidden   -- 403
  | noDSN       -- 404, ErrNoSuchDSN
deriving DecidableEq, Repr

/-- ReadRows / InsertRows / UpdateRows / DeleteRows up to the point where SQL is built:
    database.Open (DSN exists; non-admin needs identity or DSN-level authorization for the action) and,
    for a restricted DSN, `!session.Admin && !Authorized(session, session.User, dsn, table, perm)` → 403 -/
def rowRequest (st : St) (user : Name) (admin : Bool) (idp : Act) (op : RowOp) (dsn table : Name) : Status :=
  match readDSN st dsn with
  | none => .noDSN
  | some restricted =>
    if !admin && !(identityAuthorizes idp op.action) && !(authDSN st user dsn op.action) then .forbidden
    else if restricted && !admin && !(authorized st user admin user dsn table [op.perm]) then .forbidden
    else .pass

/-! ### the HTTP form of a row request: row format and the route's `?user=` parameter (rows.go, rowsAbstract.go) -/

/-- the `user` argument that rows.go hands to the Authorized call of the handler that serves the request.
    ReadRows / InsertRows / UpdateRows: `if useAbstract(r) { return XAbstractRows(session.User, session.Admin, …) }`
    (`?abstract=true` or `Accept: application/vnd.ego.rows.abstract+json`), and XAbstractRows passes its `user`
    on to `Authorized(session, user, dsn, table, perm)`; the default format and DeleteRows (which has no abstract
    form) call `Authorized(session, session.User, …)`.  Neither the row format nor `?user=` enters. -/
def rowAuthUser (sessionUser : Name) (_op : RowOp) (_abstract : Bool) (_quser : Option Name) : Name := sessionUser

/-- a row handler whose table-grant lookup is made for `authUser`; the DSN-level check (GetDatabase(session, …),
    database/open.go) is always made for the session's user -/
def rowRequestAs (st : St) (user : Name) (admin : Bool) (idp : Act) (op : RowOp) (authUser dsn table : Name) : Status :=
  match readDSN st dsn with
  | none => .noDSN
  | some restricted =>
    if !admin && !(identityAuthorizes idp op.action) && !(authDSN st user dsn op.action) then .forbidden
    else if restricted && !admin && !(authorized st user admin authUser dsn table [op.perm]) then .forbidden
    else .pass

/-- the row request as it arrives: session (user, admin, identity permissions), operation, row format, `?user=` -/
def rowRequestHTTP (st : St) (user : Name) (admin : Bool) (idp : Act) (op : RowOp) (abstract : Bool)
    (quser : Option Name) (dsn table : Name) : Status :=
  rowRequestAs st user admin idp op (rowAuthUser user op abstract quser) dsn table

/-! ### a row request that carries `?transaction=<id>` (transactions.go GetDatabase) -/

/-- ReadRows / InsertRows / UpdateRows / DeleteRows (default row format) when the request names a live transaction:
    `GetDatabase` returns the handle stored by BeginHandler for ANY request that carries the id — the DSN named in
    the URL and the user who began the transaction are not compared — so database.Open (DSN exists, DSN-level
    authorization) is skipped, `db.Restricted` is the flag of the DSN the transaction was begun on (`txRestricted`),
    and `Authorized(session, session.User, dsnName, …)` is asked about the URL's DSN. The SQL then runs on the
    transaction's database. -/
def rowRequestTx (st : St) (user : Name) (admin : Bool) (op : RowOp) (txRestricted : Bool) (urlDsn table : Name) : Status :=
  if txRestricted && !admin && !(authorized st user admin user urlDsn table [op.perm]) then .forbidden else .pass

/-- security.go GrantPermissions is a read-modify-write of the whole record with no lock: the record is read
    (`pHandle.Read`), THEN the request body is decoded and applied to that copy, then the whole copy is written back
    (`pHandle.Update … id`). `grantStale` is the write-back of a grant whose read happened in the state `old` while the
    store moved on to `cur` (only the case the harness drives: the record exists in both). -/
def grantStale (old cur : List Rec) (u d t : Name) (keys : List Name) : List Rec :=
  match lookup old u d t with
  | [r] => match applyKeys r keys with
    | some r' => cur.map fun x => if x.isFor u d t then r' else x
    | none => cur
  | _ => cur

/-! ### histories -/

inductive Op where
  | grant (u d t : Name) (keys : List Name)
  | revoke (d t u : Name)
  | create (u d t : Name)
  | removeTable (d t : Name)
  | deleteByDSN (d : Name)
  | writeDSN (name : Name) (restricted : Bool)
  | deleteDSN (name : Name)
  | revokeAllDSN (name : Name)
  | grantDSN (u name : Name) (action : Act) (g : Bool)
deriving Repr

def step (st : St) : Op → St
  | .grant u d t keys => { st with perms := (grant st.perms u d t keys).1 }
  | .revoke d t u => { st with perms := (revoke st.perms d t u).getD st.perms }
  | .create u d t => { st with perms := create st.perms u d t }
  | .removeTable d t => { st with perms := removeTable st.perms d t }
  | .deleteByDSN d => { st with perms := deleteByDSN st.perms d }
  | .writeDSN n r => writeDSN st n r
  | .deleteDSN n => deleteDSN st n
  | .revokeAllDSN n => revokeAllDSN st n
  | .grantDSN u n a g => (grantDSN st u n a g).getD st

def run (st : St) (h : List Op) : St := h.foldl step st

/-! ### the DATABASE DSN service (internal/dsns/dsn_sqldb.go) and its DSN cache (internal/caches)

`databaseService` keeps the DSN records in table "dsns" (primary key: name) and the DSN-level grants in table
"dsns_auth" (one row per (user, dsn), addressed with the two bound-parameter filters `user = $1 and dsn = $2`;
no joined "user|dsn" key).  Every reader — `database.Open`, `AuthDSN`, `GrantDSN`, `tables.Authorized` — goes
through `ReadDSN`, which serves from `caches.DSNCache` and fills it on a miss; `WriteDSN` and `DeleteDSN` evict the
entry (WriteDSN re-adds the record it wrote).  The cache is modelled as a second association list next to the
stored rows; `DSt.CacheOK` (Props.lean) is the memo invariant "a cache entry equals the stored row".  The real
cache may also drop an entry at any time (expiry after 60 s without use, `caches.Add` refusing when full, an
administrator's purge): that is the operation `dbEvict`. -/

/-- the decision part of security.go Authorized once ReadDSN has answered `rd` -/
def authorizedCore (rd : Option Bool) (perms : List Rec) (sessUser : Name) (sessAdmin : Bool)
    (user dsn table : Name) (ops : List Name) : Bool :=
  if user = sessUser ∧ sessAdmin = true then true
  else match rd with
    | none => false
    | some restricted =>
      if !restricted then true
      else match lookup perms user dsn table with
        | [r] => ops.all fun op => r.permits (opOfName op)
        | _ => false

/-- the decision part of AuthDSN once ReadDSN has answered `rd` and the auth record is `entry` -/
def authDSNCore (rd : Option Bool) (entry : Option Act) (action : Act) : Bool :=
  match rd with
  | none => false
  | some restricted =>
    if !restricted then true
    else match entry with
      | some v => v.meets action
      | none => false

/-- the decision part of a row handler: `rd` = the DSN record database.Open read (db.Restricted), the three
    authorizations already evaluated -/
def rowCore (rd : Option Bool) (admin idOK dsnOK tblOK : Bool) : Status :=
  match rd with
  | none => .noDSN
  | some restricted =>
    if !admin && !idOK && !dsnOK then .forbidden
    else if restricted && !admin && !tblOK then .forbidden
    else .pass

structure DSt where
  rows : List (Name × Bool)          -- table "dsns": name ↦ restricted
  cache : List (Name × Bool)         -- caches.DSNCache: name ↦ restricted flag of the cached *defs.DSN
  dauth : List (Name × Name × Act)   -- table "dsns_auth": (user, dsn, action)
  perms : List Rec                   -- rows of table_perms
deriving Repr

def DSt.init : DSt := ⟨[], [], [], []⟩

/-- `authHandle.Read(Equals("user", user), Equals("dsn", name))`, first row -/
def dauthFind (m : List (Name × Name × Act)) (u d : Name) : Option Act :=
  match m with
  | [] => none
  | e :: rest => if e.1 = u ∧ e.2.1 = d then some e.2.2 else dauthFind rest u d

/-- GrantDSN's `authHandle.Update(auth, user=, dsn=)` when a row exists, `authHandle.Insert(auth)` otherwise -/
def dauthSet (m : List (Name × Name × Act)) (u d : Name) (v : Act) : List (Name × Name × Act) :=
  if (dauthFind m u d).isSome then m.map fun e => if e.1 = u ∧ e.2.1 = d then (u, d, v) else e
  else m ++ [(u, d, v)]

/-- databaseService.RevokeAllDSN: `authHandle.Delete(Equals("dsn", name))` -/
def dauthRevokeAll (m : List (Name × Name × Act)) (name : Name) : List (Name × Name × Act) :=
  m.filter fun e => !(e.2.1 = name)

/-- databaseService.ReadDSN: `caches.Find`, on a miss `dsnHandle.ReadOne(name)` + `caches.Add` -/
def dbReadDSN (s : DSt) (name : Name) : DSt × Option Bool :=
  match s.cache.lookup name with
  | some r => (s, some r)
  | none =>
    match s.rows.lookup name with
    | some r => ({ s with cache := setKey s.cache name r }, some r)
    | none => (s, none)

/-- an entry leaves the cache without any DSN operation (expiry, full cache, purge) -/
def dbEvict (s : DSt) (name : Name) : DSt := { s with cache := delKey s.cache name }

/-- databaseService.WriteDSN: `caches.Delete`, insert-or-update of the row, `caches.Add(name, &dsn)` -/
def dbWriteDSN (s : DSt) (name : Name) (restricted : Bool) : DSt :=
  { s with rows := setKey s.rows name restricted, cache := setKey (delKey s.cache name) name restricted }

/-- databaseService.DeleteDSN: `caches.Delete`; `DeleteOne(name)`; only when a row was deleted, RevokeAllDSN -/
def dbDeleteDSN (s : DSt) (name : Name) : DSt :=
  match s.rows.lookup name with
  | some _ => { s with cache := delKey s.cache name, rows := delKey s.rows name, dauth := dauthRevokeAll s.dauth name }
  | none => { s with cache := delKey s.cache name }

def dbRevokeAllDSN (s : DSt) (name : Name) : DSt := { s with dauth := dauthRevokeAll s.dauth name }

/-- databaseService.AuthDSN -/
def dbAuthDSN (s : DSt) (user name : Name) (action : Act) : DSt × Bool :=
  let r := dbReadDSN s name
  (r.1, authDSNCore r.2 (dauthFind r.1.dauth user name) action)

/-- databaseService.GrantDSN; none = ErrNoSuchDSN.  The first grant on an unrestricted DSN marks it restricted
    THROUGH WriteDSN (which also replaces the cache entry). -/
def dbGrantDSN (s : DSt) (user name : Name) (action : Act) (g : Bool) : Option DSt :=
  let r := dbReadDSN s name
  match r.2 with
  | none => none
  | some restricted =>
    let v : Act := match dauthFind r.1.dauth user name with
      | some v => if g then v.or action else v.andNot action
      | none => if g then action else Act.none
    let s2 := if !restricted then dbWriteDSN r.1 name true else r.1
    some { s2 with dauth := dauthSet s2.dauth user name v }

/-- security.go Authorized against the database DSN service -/
def dbAuthorized (s : DSt) (sessUser : Name) (sessAdmin : Bool) (user dsn table : Name) (ops : List Name) : DSt × Bool :=
  if user = sessUser ∧ sessAdmin = true then (s, true)
  else
    let r := dbReadDSN s dsn
    (r.1, authorizedCore r.2 r.1.perms sessUser sessAdmin user dsn table ops)

/-- a row handler against the database DSN service: database.Open reads the DSN (db.Restricted is THAT answer),
    AuthDSN is only called when the session is no administrator and its identity does not cover the action,
    Authorized only for a restricted DSN and a non-administrator -/
def dbRowRequest (s : DSt) (user : Name) (admin : Bool) (idp : Act) (op : RowOp) (dsn table : Name) : DSt × Status :=
  let r1 := dbReadDSN s dsn
  match r1.2 with
  | none => (r1.1, .noDSN)
  | some restricted =>
    let r2 : DSt × Bool :=
      if !admin && !(identityAuthorizes idp op.action) then dbAuthDSN r1.1 user dsn op.action else (r1.1, true)
    if !r2.2 then (r2.1, .forbidden)
    else if restricted && !admin then
      let r3 := dbAuthorized r2.1 user admin user dsn table [op.perm]
      (r3.1, if r3.2 then .pass else .forbidden)
    else (r2.1, .pass)

/-- `dbRowRequest` with the table-grant lookup made for `authUser` (see `rowRequestAs`) -/
def dbRowRequestAs (s : DSt) (user : Name) (admin : Bool) (idp : Act) (op : RowOp) (authUser dsn table : Name) : DSt × Status :=
  let r1 := dbReadDSN s dsn
  match r1.2 with
  | none => (r1.1, .noDSN)
  | some restricted =>
    let r2 : DSt × Bool :=
      if !admin && !(identityAuthorizes idp op.action) then dbAuthDSN r1.1 user dsn op.action else (r1.1, true)
    if !r2.2 then (r2.1, .forbidden)
    else if restricted && !admin then
      let r3 := dbAuthorized r2.1 user admin authUser dsn table [op.perm]
      (r3.1, if r3.2 then .pass else .forbidden)
    else (r2.1, .pass)

/-- the row request as it arrives, database DSN service -/
def dbRowRequestHTTP (s : DSt) (user : Name) (admin : Bool) (idp : Act) (op : RowOp) (abstract : Bool)
    (quser : Option Name) (dsn table : Name) : DSt × Status :=
  dbRowRequestAs s user admin idp op (rowAuthUser user op abstract quser) dsn table

/-- histories against the database DSN service; the queries are part of a history because they fill the cache -/
inductive DOp where
  | perms (op : Op)                    -- grant / revoke / create / removeTable / deleteByDSN on table_perms
  | writeDSN (name : Name) (restricted : Bool)
  | deleteDSN (name : Name)
  | revokeAllDSN (name : Name)
  | grantDSN (u name : Name) (action : Act) (g : Bool)
  | evict (name : Name)
  | readDSN (name : Name)
  | authDSN (u name : Name) (action : Act)
  | authorized (su : Name) (sa : Bool) (u d t : Name) (ops : List Name)
  | row (u : Name) (admin : Bool) (idp : Act) (op : RowOp) (d t : Name)
deriving Repr

/-- the table_perms part of `step` (the DSN operations of `Op` leave table_perms alone) -/
def permsStep (ps : List Rec) (op : Op) : List Rec := (step ⟨[], [], ps⟩ op).perms

def dstep (s : DSt) : DOp → DSt
  | .perms op => { s with perms := permsStep s.perms op }
  | .writeDSN n r => dbWriteDSN s n r
  | .deleteDSN n => dbDeleteDSN s n
  | .revokeAllDSN n => dbRevokeAllDSN s n
  | .grantDSN u n a g => (dbGrantDSN s u n a g).getD s
  | .evict n => dbEvict s n
  | .readDSN n => (dbReadDSN s n).1
  | .authDSN u n a => (dbAuthDSN s u n a).1
  | .authorized su sa u d t ops => (dbAuthorized s su sa u d t ops).1
  | .row u adm idp op d t => (dbRowRequest s u adm idp op d t).1

def drun (s : DSt) (h : List DOp) : DSt := h.foldl dstep s

end EgoVerif.C43
