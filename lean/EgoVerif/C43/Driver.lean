import EgoVerif.Common.Drv
import EgoVerif.C43.Model
/- line protocol (names are hex of UTF-8, "-" = empty string; lists are comma separated, "_" = empty list;
   masks are decimal DSNAction values 0..11):
   Z                           reset to the empty stores, FILE DSN service       → ok
   Zd                          reset to the empty stores, DATABASE DSN service (dsn_sqldb.go + DSN cache);
                               W D V g a A Q then run the database-service model    → ok
   E name                      (database service) the DSN cache drops the entry  → ok
   G u d t keys                GrantPermissions                                  → ok | bad | dup
   R d t u                     DeletePermissions                                 → ok | bad
   C u d t                     createTablePermissions                            → ok
   X d t                       removeTablePermissions                            → 1 | 0   (something was removed)
   B d                         DeletePermissionsByDSN                            → <count>
   W name 0|1                  WriteDSN                                          → ok
   D name                      DeleteDSN                                         → ok
   V name                      RevokeAllDSN                                      → ok
   g u name mask 0|1           GrantDSN                                          → ok | nodsn
   A su sadmin u d t ops       Authorized                                        → 1 | 0
   a u name mask               AuthDSN                                           → 1 | 0
   Q u admin idmask op d t     row request (op = r|i|u|d)                        → pass | 403 | nodsn
   q u admin idmask op d t fmt quser   row request as it arrives over HTTP: fmt = n (default rows) | p (?abstract=true)
                               | h (Accept: application/vnd.ego.rows.abstract+json), quser = the ?user= value
                               (hex) or "_" when the parameter is absent          → pass | 403 | nodsn
   L u d t                     the table_perms rows for (u,d,t)                  → <n>:<flags>,<flags>… sorted -/
namespace EgoVerif.C43

def nm (h : String) : Option Name := (stringOfHex h).map String.toList

def nmList (h : String) : Option (List Name) :=
  if h == "_" then some [] else (h.splitOn ",").mapM nm

def actOfNat (n : Nat) : Act := ⟨n % 2 = 1, (n / 2) % 2 = 1, (n / 8) % 2 = 1⟩

def b01 (b : Bool) : String := if b then "1" else "0"

def flags (r : Rec) : String :=
  b01 r.admin ++ b01 r.read ++ b01 r.write ++ b01 r.update ++ b01 r.delete

def sortStr (l : List String) : List String :=
  l.foldr (fun x acc =>
    let rec ins : List String → List String
      | [] => [x]
      | y :: ys => if y < x then y :: ins ys else x :: y :: ys
    ins acc) []

def rowOpOf (op : String) : Option RowOp :=
  if op == "r" then some .read else if op == "i" then some .insert
  else if op == "u" then some .update else if op == "d" then some .delete else none

/-- row format field of a `q` line: abstract? -/
def fmtOf (f : String) : Option Bool :=
  if f == "n" then some false else if f == "p" || f == "h" then some true else none

/-- `?user=` field of a `q` line: "_" = absent -/
def quserOf (h : String) : Option (Option Name) :=
  if h == "_" then some none else (nm h).map some

def statusStr : Status → String
  | .pass => "pass" | .forbidden => "403" | .noDSN => "nodsn"

def handleFile (st : St) (line : String) : St × String :=
  match fields line with
  | ["G", u, d, t, ks] =>
    match nm u, nm d, nm t, nmList ks with
    | some u, some d, some t, some ks =>
      let (ps, s) := grant st.perms u d t ks
      ({ st with perms := ps }, match s with | .ok => "ok" | .bad => "bad" | .dup => "dup")
    | _, _, _, _ => (st, "bad-input")
  | ["R", d, t, u] =>
    match nm d, nm t, nm u with
    | some d, some t, some u =>
      (match revoke st.perms d t u with
       | some ps => ({ st with perms := ps }, "ok")
       | none => (st, "bad"))
    | _, _, _ => (st, "bad-input")
  | ["C", u, d, t] =>
    match nm u, nm d, nm t with
    | some u, some d, some t => (step st (.create u d t), "ok")
    | _, _, _ => (st, "bad-input")
  | ["X", d, t] =>
    match nm d, nm t with
    | some d, some t =>
      let ps := removeTable st.perms d t
      ({ st with perms := ps }, b01 (ps.length < st.perms.length))
    | _, _ => (st, "bad-input")
  | ["B", d] =>
    match nm d with
    | some d =>
      let ps := deleteByDSN st.perms d
      ({ st with perms := ps }, toString (st.perms.length - ps.length))
    | _ => (st, "bad-input")
  | ["W", n, r] =>
    match nm n with
    | some n => (writeDSN st n (r == "1"), "ok")
    | _ => (st, "bad-input")
  | ["D", n] =>
    match nm n with
    | some n => (deleteDSN st n, "ok")
    | _ => (st, "bad-input")
  | ["V", n] =>
    match nm n with
    | some n => (revokeAllDSN st n, "ok")
    | _ => (st, "bad-input")
  | ["g", u, n, m, g] =>
    match nm u, nm n, m.toNat? with
    | some u, some n, some m =>
      (match grantDSN st u n (actOfNat m) (g == "1") with
       | some st' => (st', "ok")
       | none => (st, "nodsn"))
    | _, _, _ => (st, "bad-input")
  | ["A", su, sa, u, d, t, ops] =>
    match nm su, nm u, nm d, nm t, nmList ops with
    | some su, some u, some d, some t, some ops => (st, b01 (authorized st su (sa == "1") u d t ops))
    | _, _, _, _, _ => (st, "bad-input")
  | ["a", u, n, m] =>
    match nm u, nm n, m.toNat? with
    | some u, some n, some m => (st, b01 (authDSN st u n (actOfNat m)))
    | _, _, _ => (st, "bad-input")
  | ["Q", u, adm, idm, op, d, t] =>
    let rop : Option RowOp :=
      if op == "r" then some .read else if op == "i" then some .insert
      else if op == "u" then some .update else if op == "d" then some .delete else none
    match nm u, idm.toNat?, rop, nm d, nm t with
    | some u, some idm, some rop, some d, some t =>
      (st, match rowRequest st u (adm == "1") (actOfNat idm) rop d t with
           | .pass => "pass" | .forbidden => "403" | .noDSN => "nodsn")
    | _, _, _, _, _ => (st, "bad-input")
  | ["q", u, adm, idm, op, d, t, f, qu] =>
    match nm u, idm.toNat?, rowOpOf op, nm d, nm t, fmtOf f, quserOf qu with
    | some u, some idm, some rop, some d, some t, some abs, some quser =>
      (st, statusStr (rowRequestHTTP st u (adm == "1") (actOfNat idm) rop abs quser d t))
    | _, _, _, _, _, _, _ => (st, "bad-input")
  | ["X", u, adm, op, txr, d, t] =>
    match nm u, rowOpOf op, nm d, nm t with
    | some u, some rop, some d, some t =>
      (st, statusStr (rowRequestTx st u (adm == "1") rop (txr == "1") d t))
    | _, _, _, _ => (st, "bad-input")
  | ["L", u, d, t] =>
    match nm u, nm d, nm t with
    | some u, some d, some t =>
      let rs := lookup st.perms u d t
      (st, toString rs.length ++ ":" ++ ",".intercalate (sortStr (rs.map flags)))
    | _, _, _ => (st, "bad-input")
  | _ => (st, "bad-op")

/-- the table_perms operations and the L query are the same functions for both DSN services -/
def permsLine (line : String) : Bool :=
  match fields line with
  | op :: _ => op == "G" || op == "R" || op == "C" || op == "X" || op == "B" || op == "L"
  | [] => false

/-- database DSN service: DSN operations and queries through `dbReadDSN` (the cache) -/
def handleDb (s : DSt) (line : String) : DSt × String :=
  if permsLine line then
    let r := handleFile ⟨[], [], s.perms⟩ line
    ({ s with perms := r.1.perms }, r.2)
  else
  match fields line with
  | ["W", n, r] =>
    match nm n with
    | some n => (dbWriteDSN s n (r == "1"), "ok")
    | _ => (s, "bad-input")
  | ["D", n] =>
    match nm n with
    | some n => (dbDeleteDSN s n, "ok")
    | _ => (s, "bad-input")
  | ["V", n] =>
    match nm n with
    | some n => (dbRevokeAllDSN s n, "ok")
    | _ => (s, "bad-input")
  | ["E", n] =>
    match nm n with
    | some n => (dbEvict s n, "ok")
    | _ => (s, "bad-input")
  | ["g", u, n, m, g] =>
    match nm u, nm n, m.toNat? with
    | some u, some n, some m =>
      (match dbGrantDSN s u n (actOfNat m) (g == "1") with
       | some s' => (s', "ok")
       | none => (s, "nodsn"))
    | _, _, _ => (s, "bad-input")
  | ["A", su, sa, u, d, t, ops] =>
    match nm su, nm u, nm d, nm t, nmList ops with
    | some su, some u, some d, some t, some ops =>
      let r := dbAuthorized s su (sa == "1") u d t ops
      (r.1, b01 r.2)
    | _, _, _, _, _ => (s, "bad-input")
  | ["a", u, n, m] =>
    match nm u, nm n, m.toNat? with
    | some u, some n, some m =>
      let r := dbAuthDSN s u n (actOfNat m)
      (r.1, b01 r.2)
    | _, _, _ => (s, "bad-input")
  | ["Q", u, adm, idm, op, d, t] =>
    match nm u, idm.toNat?, rowOpOf op, nm d, nm t with
    | some u, some idm, some rop, some d, some t =>
      let r := dbRowRequest s u (adm == "1") (actOfNat idm) rop d t
      (r.1, match r.2 with | .pass => "pass" | .forbidden => "403" | .noDSN => "nodsn")
    | _, _, _, _, _ => (s, "bad-input")
  | ["q", u, adm, idm, op, d, t, f, qu] =>
    match nm u, idm.toNat?, rowOpOf op, nm d, nm t, fmtOf f, quserOf qu with
    | some u, some idm, some rop, some d, some t, some abs, some quser =>
      let r := dbRowRequestHTTP s u (adm == "1") (actOfNat idm) rop abs quser d t
      (r.1, statusStr r.2)
    | _, _, _, _, _, _, _ => (s, "bad-input")
  | _ => (s, "bad-op")

inductive Mode where
  | file (st : St)
  | db (s : DSt)

def handle (m : Mode) (line : String) : Mode × String :=
  match fields line with
  | ["Z"] => (.file St.init, "ok")
  | ["Zd"] => (.db DSt.init, "ok")
  | _ =>
    match m with
    | .file st => let r := handleFile st line; (.file r.1, r.2)
    | .db s => let r := handleDb s line; (.db r.1, r.2)

def drv : Drv := { σ := Mode, init := .file St.init, step := handle }

end EgoVerif.C43
