import EgoVerif.C43.Model
/-
C43 — theorems.  All statements quantify over every state / every history / every name; nothing is sampled.
-/
namespace EgoVerif.C43

/-! ### records and keys -/

theorem isFor_iff (r : Rec) (u d t : Name) :
    r.isFor u d t = true ↔ r.user = u ∧ r.dsn = d ∧ r.table = t := by
  simp [Rec.isFor]; constructor
  · rintro ⟨⟨h1, h2⟩, h3⟩; exact ⟨h3, h1, h2⟩
  · rintro ⟨h1, h2, h3⟩; exact ⟨⟨h2, h3⟩, h1⟩

/-- a record returned for (u,d,t) is a stored record of exactly that user, DSN and table -/
theorem mem_lookup (ps : List Rec) (u d t : Name) (r : Rec) :
    r ∈ lookup ps u d t ↔ r ∈ ps ∧ r.user = u ∧ r.dsn = d ∧ r.table = t := by
  simp [lookup, List.mem_filter, isFor_iff]

/-- records of one key are not records of another -/
theorem isFor_other {r : Rec} {u d t u' d' t' : Name} (h : (u', d', t') ≠ (u, d, t))
    (hr : r.isFor u' d' t' = true) : r.isFor u d t = false := by
  cases hk : r.isFor u d t with
  | false => rfl
  | true =>
    rw [isFor_iff] at hr hk
    exact absurd (by rw [← hr.1, ← hr.2.1, ← hr.2.2, hk.1, hk.2.1, hk.2.2]) h

theorem set_key (r : Rec) (p : Perm) (v : Bool) :
    (r.set p v).user = r.user ∧ (r.set p v).dsn = r.dsn ∧ (r.set p v).table = r.table := by
  cases p <;> simp [Rec.set]

theorem applyKey_key {r r' : Rec} {k : Name} (h : applyKey r k = some r') :
    r'.user = r.user ∧ r'.dsn = r.dsn ∧ r'.table = r.table := by
  unfold applyKey at h
  split at h
  split at h
  · injection h with h; subst h; exact set_key _ _ _
  · cases h

theorem applyKeys_key {r r' : Rec} {ks : List Name} (h : applyKeys r ks = some r') :
    r'.user = r.user ∧ r'.dsn = r.dsn ∧ r'.table = r.table := by
  induction ks generalizing r with
  | nil => simp [applyKeys] at h; subst h; exact ⟨rfl, rfl, rfl⟩
  | cons k ks ih =>
    simp only [applyKeys] at h
    split at h
    · rename_i r1 h1
      have a := applyKey_key h1
      have b := ih h
      exact ⟨b.1.trans a.1, b.2.1.trans a.2.1, b.2.2.trans a.2.2⟩
    · cases h

/-! ### an operation on another key leaves the records of (u,d,t) alone -/

theorem lookup_append (ps qs : List Rec) (u d t : Name) :
    lookup (ps ++ qs) u d t = lookup ps u d t ++ lookup qs u d t := by
  simp [lookup]

theorem lookup_map_other (ps : List Rec) (item : Rec) {u d t u' d' t' : Name}
    (h : (u', d', t') ≠ (u, d, t)) (hi : item.isFor u d t = false) :
    lookup (ps.map fun r => if r.isFor u' d' t' then item else r) u d t = lookup ps u d t := by
  induction ps with
  | nil => rfl
  | cons r ps ih =>
    simp only [lookup, List.map_cons, List.filter_cons] at ih ⊢
    by_cases hr : r.isFor u' d' t' = true
    · have := isFor_other h hr
      simp [hr, hi, this, ih]
    · simp [hr, ih]

theorem headD_lookup_isFor (ps : List Rec) (u d t : Name) :
    ((lookup ps u d t).headD (emptyRec u d t)).isFor u d t = true := by
  cases hl : lookup ps u d t with
  | nil => simp [emptyRec, isFor_iff]
  | cons r rs =>
    have : r ∈ lookup ps u d t := by rw [hl]; simp
    rw [mem_lookup] at this
    simp [isFor_iff, this.2]

/-- GrantPermissions for (u',d',t') never changes the records of a different (u,d,t) -/
theorem lookup_grant_other (ps : List Rec) (keys : List Name) {u d t u' d' t' : Name}
    (h : (u', d', t') ≠ (u, d, t)) :
    lookup (grant ps u' d' t' keys).1 u d t = lookup ps u d t := by
  have he : lookup [emptyRec u' d' t'] u d t = [] := by
    have : (emptyRec u' d' t').isFor u d t = false :=
      isFor_other h (by simp [emptyRec, isFor_iff])
    simp [lookup, this]
  have h1 : lookup (if (lookup ps u' d' t').isEmpty then ps ++ [emptyRec u' d' t'] else ps) u d t
      = lookup ps u d t := by
    split
    · rw [lookup_append, he]; simp
    · rfl
  unfold grant
  split
  · rfl
  · simp only []
    split
    · exact h1
    · split
      · exact h1
      · rename_i item' hk
        have hkey := applyKeys_key hk
        have hfor := headD_lookup_isFor ps u' d' t'
        rw [isFor_iff] at hfor
        have : item'.isFor u d t = false :=
          isFor_other h (by rw [isFor_iff]; exact ⟨hkey.1.trans hfor.1, hkey.2.1.trans hfor.2.1, hkey.2.2.trans hfor.2.2⟩)
        rw [lookup_map_other _ _ h this]; exact h1

/-- createTablePermissions for (u',d',t') never changes the records of a different (u,d,t) -/
theorem lookup_create_other (ps : List Rec) {u d t u' d' t' : Name} (h : (u', d', t') ≠ (u, d, t)) :
    lookup (create ps u' d' t') u d t = lookup ps u d t := by
  have : (fullRec u' d' t').isFor u d t = false := isFor_other h (by simp [fullRec, isFor_iff])
  simp [create, lookup, this]

/-- deleting records never creates one -/
theorem lookup_filter_nil (ps : List Rec) (f : Rec → Bool) {u d t : Name} (h : lookup ps u d t = []) :
    lookup (ps.filter f) u d t = [] := by
  simp only [lookup, List.filter_filter, List.filter_eq_nil_iff] at h ⊢
  intro r hr; have := h r hr; simp [this]

/-! ### the decision -/

/-- "the permission store records the matching grant": exactly one record, of exactly this user, DSN and
    table, carrying every requested operation (or admin) -/
def Recorded (ps : List Rec) (u d t : Name) (ops : List Name) : Prop :=
  ∃ r, lookup ps u d t = [r] ∧ ∀ op ∈ ops, r.permits (opOfName op) = true

/-- C43, main statement: on a restricted DSN, for a caller that is not (the administrator acting for itself),
    Authorized says yes exactly when the store records the matching grant.  Holds in every state, hence after
    every history `run st0 h`. -/
theorem C43_iff (st : St) (su : Name) (sa : Bool) (u d t : Name) (ops : List Name)
    (hr : readDSN st d = some true) (hna : ¬(u = su ∧ sa = true)) :
    authorized st su sa u d t ops = true ↔ Recorded st.perms u d t ops := by
  unfold authorized Recorded
  rw [if_neg hna, hr]
  simp only [Bool.not_true, Bool.false_eq_true, if_false]
  cases hl : lookup st.perms u d t with
  | nil => simp
  | cons r rs =>
    cases rs with
    | nil => simp [List.all_eq_true]
    | cons r2 rs => simp

/-- … in particular after every history from every starting state -/
theorem C43_iff_history (st0 : St) (h : List Op) (su : Name) (sa : Bool) (u d t : Name) (ops : List Name)
    (hr : readDSN (run st0 h) d = some true) (hna : ¬(u = su ∧ sa = true)) :
    authorized (run st0 h) su sa u d t ops = true ↔ Recorded (run st0 h).perms u d t ops :=
  C43_iff _ su sa u d t ops hr hna

/-- the recorded grant is a stored record whose user, DSN and table are exactly the requested ones -/
theorem Recorded_exact {ps : List Rec} {u d t : Name} {ops : List Name} (h : Recorded ps u d t ops) :
    ∃ r ∈ ps, r.user = u ∧ r.dsn = d ∧ r.table = t ∧ ∀ op ∈ ops, r.permits (opOfName op) = true := by
  obtain ⟨r, hl, hp⟩ := h
  have : r ∈ lookup ps u d t := by rw [hl]; simp
  rw [mem_lookup] at this
  exact ⟨r, this.1, this.2.1, this.2.2.1, this.2.2.2, hp⟩

/-- unrestricted DSNs and administrators are not limited -/
theorem C43_unrestricted_admin_unlimited (st : St) (su : Name) (sa : Bool) (u d t : Name) (ops : List Name) :
    (sa = true → authorized st su sa su d t ops = true) ∧
    (readDSN st d = some false → authorized st su sa u d t ops = true) ∧
    (∀ idp op, readDSN st d ≠ none → rowRequest st u true idp op d t = .pass) := by
  refine ⟨?_, ?_, ?_⟩
  · intro h; simp [authorized, h]
  · intro h; unfold authorized; rw [h]; split <;> simp
  · intro idp op h
    unfold rowRequest
    cases hd : readDSN st d with
    | none => exact absurd hd h
    | some r => simp

/-- does the operation write a grant for exactly (u,d,t)? -/
def Op.grantsTo (u d t : Name) : Op → Prop
  | .grant u' d' t' _ => (u', d', t') = (u, d, t)
  | .create u' d' t' => (u', d', t') = (u, d, t)
  | _ => False

theorem step_perms_other (st : St) (op : Op) {u d t : Name} (h : ¬ op.grantsTo u d t)
    (h0 : lookup st.perms u d t = []) : lookup (step st op).perms u d t = [] := by
  cases op with
  | grant u' d' t' ks => simp only [step]; rw [lookup_grant_other _ _ h]; exact h0
  | create u' d' t' => simp only [step]; rw [lookup_create_other _ h]; exact h0
  | revoke d' t' u' =>
    simp only [step]
    cases hr : revoke st.perms d' t' u' with
    | none => simpa using h0
    | some ps =>
      unfold revoke at hr
      split at hr
      · injection hr with hr; subst hr; exact lookup_filter_nil _ _ h0
      · cases hr
  | removeTable d' t' =>
    simp only [step, removeTable]; split
    · exact lookup_filter_nil _ _ h0
    · exact h0
  | deleteByDSN d' => simp only [step, deleteByDSN]; exact lookup_filter_nil _ _ h0
  | writeDSN n r => simpa [step, writeDSN] using h0
  | deleteDSN n => simp only [step, deleteDSN]; split <;> exact h0
  | revokeAllDSN n => simpa [step, revokeAllDSN] using h0
  | grantDSN u' n a g =>
    simp only [step, grantDSN]
    split
    · simpa using h0
    · simpa using h0

theorem run_perms_other (st : St) (h : List Op) {u d t : Name} (hh : ∀ op ∈ h, ¬ op.grantsTo u d t)
    (h0 : lookup st.perms u d t = []) : lookup (run st h).perms u d t = [] := by
  induction h generalizing st with
  | nil => exact h0
  | cons op h ih =>
    simp only [run, List.foldl_cons]
    exact ih (step st op) (fun o ho => hh o (List.mem_cons_of_mem _ ho))
      (step_perms_other st op (hh op List.mem_cons_self) h0)

/-- C43, no cross-authorization: whatever is granted, revoked, created or removed for OTHER users, DSNs or
    tables, and whatever happens to the DSN stores, in any order and number — as long as no operation of the
    history grants to exactly (u,d,t), a non-administrator is never authorized for (u,d,t) on a restricted DSN. -/
theorem C43_no_cross (h : List Op) (su : Name) (sa : Bool) (u d t : Name) (ops : List Name)
    (hh : ∀ op ∈ h, ¬ op.grantsTo u d t) (hna : ¬(u = su ∧ sa = true))
    (hr : readDSN (run St.init h) d = some true) :
    authorized (run St.init h) su sa u d t ops = false := by
  have hl := run_perms_other St.init h hh (by simp [St.init, lookup])
  unfold authorized
  rw [if_neg hna, hr, hl]; simp

/-- one more grant (or table creation) for a different key never changes the decision for (u,d,t) -/
theorem C43_other_key_irrelevant (st : St) (su : Name) (sa : Bool) (u d t u' d' t' : Name) (ops keys : List Name)
    (hk : (u', d', t') ≠ (u, d, t)) :
    authorized (step st (.grant u' d' t' keys)) su sa u d t ops = authorized st su sa u d t ops ∧
    authorized (step st (.create u' d' t')) su sa u d t ops = authorized st su sa u d t ops := by
  constructor
  · unfold authorized; simp only [step, readDSN]; rw [lookup_grant_other _ _ hk]
  · unfold authorized; simp only [step, readDSN]; rw [lookup_create_other _ hk]

/-- a row request that is let through on a restricted DSN had the DSN-level authorization for the action AND the
    table grant for exactly (user, dsn, table) and the handler's operation -/
theorem C43_row_pass_needs_grants (st : St) (u : Name) (idp : Act) (op : RowOp) (d t : Name)
    (hr : readDSN st d = some true) (hp : rowRequest st u false idp op d t = .pass) :
    (identityAuthorizes idp op.action = true ∨ authDSN st u d op.action = true) ∧
    Recorded st.perms u d t [op.perm] := by
  unfold rowRequest at hp
  rw [hr] at hp
  simp only [Bool.not_false, Bool.true_and] at hp
  split at hp
  · cases hp
  · rename_i h1
    split at hp
    · cases hp
    · rename_i h2
      constructor
      · cases hi : identityAuthorizes idp op.action <;> cases ha : authDSN st u d op.action <;> simp_all
      · have : authorized st u false u d t [op.perm] = true := by
          cases hz : authorized st u false u d t [op.perm] <;> simp_all
        exact (C43_iff st u false u d t [op.perm] hr (by simp)).1 this

/-! ### the "dsn.table" split of the code before fixes/C43.patch -/

theorem splitFirst_append (c : Char) (a b : Name) (h : c ∉ a) : splitFirst c (a ++ c :: b) = some (a, b) := by
  induction a with
  | nil => simp [splitFirst]
  | cons x xs ih =>
    have hx : x ≠ c := fun e => h (by simp [e])
    have hxs : c ∉ xs := fun m => h (List.mem_cons_of_mem _ m)
    simp [splitFirst, hx, ih hxs]

/-- the state of the counterexample: restricted DSNs "a" and "a.b"; user "x" may read table "b.c" of DSN "a" -/
def cexSt : St :=
  ⟨[(['a'], true), (['a', '.', 'b'], true)], [],
   [⟨['x'], ['a'], ['b', '.', 'c'], false, true, false, false, false⟩]⟩

/-- the old code authorizes user x to read table "c" of DSN "a.b" on the strength of the grant for table "b.c"
    of DSN "a" (the store records NO grant for (x, a.b, c)); the fixed code refuses -/
theorem C43_split_counterexample :
    authorizedOld cexSt ['x'] false ['x'] (['a', '.', 'b'] ++ '.' :: ['c']) [nRead] = true ∧
    lookup cexSt.perms ['x'] ['a', '.', 'b'] ['c'] = [] ∧
    authorized cexSt ['x'] false ['x'] ['a', '.', 'b'] ['c'] [nRead] = false := by decide

/-- … and an UNRESTRICTED DSN "a" opens every table of the restricted DSN "a.b" to everybody -/
theorem C43_split_counterexample_unrestricted :
    authorizedOld ⟨[(['a'], false), (['a', '.', 'b'], true)], [], []⟩ ['x'] false ['x']
      (['a', '.', 'b'] ++ '.' :: ['c']) [nRead] = true := by decide

/-- the old code is right for every DSN name without a dot (whatever the table name) -/
theorem C43_split_partial (st : St) (su : Name) (sa : Bool) (u d t : Name) (ops : List Name) (h : '.' ∉ d) :
    authorizedOld st su sa u (d ++ '.' :: t) ops = authorized st su sa u d t ops := by
  simp [authorizedOld, splitFirst_append _ _ _ h]

/-! ### DSN-level grants (file DSN service) -/

theorem C43_authdsn_iff (st : St) (u n : Name) (act : Act) (hr : readDSN st n = some true) :
    authDSN st u n act = true ↔ ∃ v, st.auth.lookup (authKey u n) = some v ∧ v.meets act = true := by
  unfold authDSN; rw [hr]
  cases hl : st.auth.lookup (authKey u n) <;> simp

/-- KNOWN FINDING dsn-key-pipe: the joined key "user|dsn" is ambiguous.  After granting user "a|b" on DSN "c",
    user "a" is authorized on the restricted DSN "b|c" although nothing was granted to ("a", "b|c"). -/
theorem C43_dsnkey_counterexample :
    authDSN (run St.init [.writeDSN ['c'] true, .writeDSN ['b', '|', 'c'] true,
        .grantDSN ['a', '|', 'b'] ['c'] ⟨true, true, false⟩ true]) ['a'] ['b', '|', 'c'] ⟨true, false, false⟩ = true ∧
    ((['a'], ['b', '|', 'c']) : Name × Name) ≠ (['a', '|', 'b'], ['c']) := by decide

/-- the joined key is unambiguous among user names without '|' -/
theorem C43_dsnkey_partial (u d u' d' : Name) (h : '|' ∉ u) (h' : '|' ∉ u')
    (e : authKey u d = authKey u' d') : u = u' ∧ d = d' := by
  have a := splitFirst_append '|' u d h
  have b := splitFirst_append '|' u' d' h'
  unfold authKey at e
  rw [e, b] at a
  simpa using a.symm

theorem lookup_mapKey_ne {α : Type} (m : List (Name × α)) (k k' : Name) (v : α) (h : k ≠ k') :
    (m.map fun e => if e.1 = k' then (k', v) else e).lookup k = m.lookup k := by
  have hb : (k == k') = false := by simpa using h
  induction m with
  | nil => rfl
  | cons e m ih =>
    obtain ⟨a, b⟩ := e
    by_cases ha : a = k'
    · subst ha; simp only [List.map_cons, if_true, List.lookup, hb]; exact ih
    · simp only [List.map_cons, ha, if_false, List.lookup]; rw [ih]

theorem lookup_snoc_ne {α : Type} (m : List (Name × α)) (k k' : Name) (v : α) (h : k ≠ k') :
    (m ++ [(k', v)]).lookup k = m.lookup k := by
  have hb : (k == k') = false := by simpa using h
  induction m with
  | nil => simp [List.lookup, hb]
  | cons e m ih => obtain ⟨a, b⟩ := e; simp only [List.cons_append, List.lookup]; rw [ih]

theorem lookup_setKey_ne {α : Type} (m : List (Name × α)) (k k' : Name) (v : α) (h : k ≠ k') :
    (setKey m k' v).lookup k = m.lookup k := by
  unfold setKey
  split
  · exact lookup_mapKey_ne m k k' v h
  · exact lookup_snoc_ne m k k' v h

theorem lookup_filter_none {α : Type} (m : List (Name × α)) (f : Name × α → Bool) (k : Name)
    (h : m.lookup k = none) : (m.filter f).lookup k = none := by
  induction m with
  | nil => rfl
  | cons e m ih =>
    obtain ⟨a, b⟩ := e
    simp only [List.lookup] at h
    cases hk : (k == a) with
    | true => rw [hk] at h; cases h
    | false =>
      rw [hk] at h
      simp only [List.filter_cons]
      split
      · simp only [List.lookup, hk]; exact ih h
      · exact ih h

/-- does the operation write a DSN-level entry under the joined key of (u, n)? -/
def Op.dsnGrantsKey (k : Name) : Op → Prop
  | .grantDSN u' n' _ _ => authKey u' n' = k
  | _ => False

theorem step_auth_other (st : St) (op : Op) (k : Name) (h : ¬ op.dsnGrantsKey k)
    (h0 : st.auth.lookup k = none) : (step st op).auth.lookup k = none := by
  cases op with
  | grantDSN u' n a g =>
    simp only [step, grantDSN]
    split
    · simpa using h0
    · simp only [Option.getD_some]
      rw [lookup_setKey_ne _ _ _ _ (fun e => h e.symm)]; exact h0
  | deleteDSN n =>
    simp only [step, deleteDSN]; split
    · exact lookup_filter_none _ _ _ h0
    · exact h0
  | revokeAllDSN n => exact lookup_filter_none _ _ _ h0
  | writeDSN n r => simpa [step, writeDSN] using h0
  | grant _ _ _ _ => simpa [step] using h0
  | revoke _ _ _ => simpa [step] using h0
  | create _ _ _ => simpa [step] using h0
  | removeTable _ _ => simpa [step] using h0
  | deleteByDSN _ => simpa [step] using h0

/-- DSN level, no cross-authorization (partial: user names without '|'): if no GrantDSN of the history is for
    exactly (u, n), user u is never authorized on the restricted DSN n -/
theorem C43_dsn_no_cross_partial (h : List Op) (u n : Name) (act : Act) (hu : '|' ∉ u)
    (hh : ∀ op ∈ h, ∀ u' n' a g, op = .grantDSN u' n' a g → '|' ∉ u' ∧ (u', n') ≠ (u, n))
    (hr : readDSN (run St.init h) n = some true) :
    authDSN (run St.init h) u n act = false := by
  have key : ∀ (st : St) (l : List Op), (∀ op ∈ l, ¬ op.dsnGrantsKey (authKey u n)) →
      st.auth.lookup (authKey u n) = none → (run st l).auth.lookup (authKey u n) = none := by
    intro st l
    induction l generalizing st with
    | nil => intro _ h0; exact h0
    | cons op l ih =>
      intro hl h0
      simp only [run, List.foldl_cons]
      exact ih (step st op) (fun o ho => hl o (List.mem_cons_of_mem _ ho))
        (step_auth_other st op _ (hl op List.mem_cons_self) h0)
  have hno : ∀ op ∈ h, ¬ op.dsnGrantsKey (authKey u n) := by
    intro op hop hk
    cases op with
    | grantDSN u' n' a g =>
      obtain ⟨hp, hne⟩ := hh _ hop u' n' a g rfl
      have := C43_dsnkey_partial u' n' u n hp hu hk
      exact hne (by rw [this.1, this.2])
    | _ => exact hk
  have hl := key St.init h hno rfl
  unfold authDSN; rw [hr, hl]; simp

/-! ### what grant and revoke do to their own key -/

theorem lookup_map_self (ps : List Rec) (item : Rec) (u d t : Name) (hi : item.isFor u d t = true) :
    lookup (ps.map fun r => if r.isFor u d t then item else r) u d t = (lookup ps u d t).map fun _ => item := by
  induction ps with
  | nil => rfl
  | cons r ps ih =>
    simp only [lookup, List.map_cons, List.filter_cons] at ih ⊢
    by_cases hr : r.isFor u d t = true
    · simp [hr, hi, ih]
    · simp [hr, ih]

/-- effect of a successful GrantPermissions on its own key, when the key has at most one record: afterwards
    exactly one record, the old one (or the empty one) with the sorted keys applied -/
theorem C43_grant_effect (ps : List Rec) (u d t : Name) (keys : List Name) (item' : Rec)
    (hlen : (lookup ps u d t).length ≤ 1)
    (hv : (sortNames keys).all validPerm = true)
    (ha : applyKeys ((lookup ps u d t).headD (emptyRec u d t)) (sortNames keys) = some item') :
    (grant ps u d t keys).2 = .ok ∧ lookup (grant ps u d t keys).1 u d t = [item'] := by
  have hfor : item'.isFor u d t = true := by
    have k := applyKeys_key ha
    have f := headD_lookup_isFor ps u d t
    rw [isFor_iff] at f ⊢
    exact ⟨k.1.trans f.1, k.2.1.trans f.2.1, k.2.2.trans f.2.2⟩
  have he : lookup [emptyRec u d t] u d t = [emptyRec u d t] := by simp [lookup, emptyRec, Rec.isFor]
  unfold grant
  cases hl : lookup ps u d t with
  | nil =>
    rw [hl] at ha
    simp only [List.headD_nil] at ha
    simp only [List.isEmpty_nil, if_true, hv, Bool.not_true, Bool.false_eq_true, if_false, List.headD_nil]
    rw [ha]
    refine ⟨rfl, ?_⟩
    rw [lookup_map_self _ _ _ _ _ hfor, lookup_append, hl, he]; rfl
  | cons r rs =>
    cases rs with
    | cons r2 rs => rw [hl] at hlen; simp at hlen
    | nil =>
      rw [hl] at ha
      simp only [List.headD_cons] at ha
      simp only [List.isEmpty_cons, Bool.false_eq_true, if_false, hv, Bool.not_true, List.headD_cons]
      rw [ha]
      refine ⟨rfl, ?_⟩
      rw [lookup_map_self _ _ _ _ _ hfor, hl]; rfl


/-- DeletePermissionsByDSN removes every record of the DSN -/
theorem C43_deleteByDSN_effect (ps : List Rec) (u d t : Name) : lookup (deleteByDSN ps d) u d t = [] := by
  simp only [lookup, deleteByDSN, List.filter_filter, List.filter_eq_nil_iff]
  intro r _; simp [Rec.isFor]; intro h; simp [h]

/-- a revoke naming user, DSN and table (names that SQLEscape leaves alone) removes the records of exactly that key -/
theorem C43_revoke_effect (ps ps' : List Rec) (u d t : Name)
    (hu : escOpt u = some (some u)) (hd : escOpt (if d = ['@', 'a', 'l', 'l'] then [] else d) = some (some d))
    (hne : u ≠ [] ∧ d ≠ [] ∧ t ≠ []) (h : revoke ps d t u = some ps') :
    lookup ps' u d t = [] ∧ ∀ u' d' t', (u', d', t') ≠ (u, d, t) → lookup ps' u' d' t' = lookup ps u' d' t' := by
  have hrt : rawOpt t = some t := by simp [rawOpt, hne.2.2]
  unfold revoke at h
  rw [hu, hd, hrt] at h
  injection h with h; subst h
  constructor
  · simp only [lookup, List.filter_filter, List.filter_eq_nil_iff]
    intro r _; simp [Rec.isFor, optEq]
  · intro u' d' t' hk
    simp only [lookup, List.filter_filter]
    apply List.filter_congr
    intro r _
    cases hr : r.isFor u' d' t' with
    | false => simp
    | true =>
      rw [isFor_iff] at hr
      simp only [Bool.true_and, optEq, hr.1, hr.2.1, hr.2.2]
      simp only [Bool.not_eq_true', Bool.and_eq_false_iff, decide_eq_false_iff_not]
      by_cases h1 : d' = d
      · by_cases h2 : t' = t
        · by_cases h3 : u' = u
          · exact absurd (by rw [h1, h2, h3]) hk
          · exact Or.inr h3
        · exact Or.inl (Or.inr h2)
      · exact Or.inl (Or.inl h1)

/-! ### non-vacuity: the hypotheses of the theorems are met by non-trivial instances -/

/-- a history with grants for other keys, a revoke and DSN traffic; bob reads (d, t), alice does not, bob cannot write -/
def exHist : List Op :=
  [.writeDSN ['d'] true, .grant ['b', 'o', 'b'] ['d'] ['t'] [nRead], .grant ['a', 'l'] ['d'] ['x'] [nAdmin],
   .create ['a', 'l'] ['e'] ['t'], .revoke ['d'] ['x'] [], .grantDSN ['b', 'o', 'b'] ['d'] ⟨true, false, false⟩ true]

example : readDSN (run St.init exHist) ['d'] = some true ∧
    authorized (run St.init exHist) ['b', 'o', 'b'] false ['b', 'o', 'b'] ['d'] ['t'] [nRead] = true ∧
    authorized (run St.init exHist) ['b', 'o', 'b'] false ['b', 'o', 'b'] ['d'] ['t'] [nWrite] = false ∧
    authorized (run St.init exHist) ['a', 'l'] false ['a', 'l'] ['d'] ['t'] [nRead] = false ∧
    rowRequest (run St.init exHist) ['b', 'o', 'b'] false Act.none .read ['d'] ['t'] = .pass ∧
    rowRequest (run St.init exHist) ['b', 'o', 'b'] false Act.none .delete ['d'] ['t'] = .forbidden ∧
    rowRequest (run St.init exHist) ['a', 'l'] false ⟨true, true, true⟩ .read ['d'] ['t'] = .forbidden := by decide

/-- C43_no_cross applies to exHist for alice on (d, t): no operation grants to exactly that key -/
example : ∀ op ∈ exHist, ¬ op.grantsTo ['a', 'l'] ['d'] ['t'] := by
  intro op h; simp only [exHist, List.mem_cons, List.not_mem_nil, or_false] at h
  rcases h with h | h | h | h | h | h <;> subst h <;> simp [Op.grantsTo]

/-- C43_grant_effect / C43_revoke_effect hypotheses are satisfiable -/
example : (sortNames [nWrite, '-' :: nRead]).all validPerm = true ∧
    applyKeys (emptyRec ['u'] ['d'] ['t']) (sortNames [nWrite, '-' :: nRead]) =
      some ⟨['u'], ['d'], ['t'], false, false, true, false, false⟩ ∧
    escOpt ['u'] = some (some ['u']) ∧
    escOpt (if ['d'] = ['@', 'a', 'l', 'l'] then [] else ['d']) = some (some ['d']) := by decide

/-! ### the HTTP form of a row request: neither the row format nor `?user=` changes whose grants are consulted -/

/-- rows.go hands `session.User` to every handler: the request is decided as `rowRequest` decides it, for every
    row format and every `?user=` value -/
theorem C43_row_http_eq (st : St) (u : Name) (adm : Bool) (idp : Act) (op : RowOp) (abstract : Bool)
    (quser : Option Name) (d t : Name) :
    rowRequestHTTP st u adm idp op abstract quser d t = rowRequest st u adm idp op d t := rfl

/-- `?user=` never widens what a caller may do (nor narrows it), in either row format -/
theorem C43_row_quser_irrelevant (st : St) (u : Name) (adm : Bool) (idp : Act) (op : RowOp) (a a' : Bool)
    (q q' : Option Name) (d t : Name) :
    rowRequestHTTP st u adm idp op a q d t = rowRequestHTTP st u adm idp op a' q' d t := rfl

/-- a non-administrator's row request that is let through on a restricted DSN had the CALLER's DSN-level
    authorization and the CALLER's table grant, whatever `?user=` names and whatever the row format -/
theorem C43_row_http_pass_needs_grants (st : St) (u : Name) (idp : Act) (op : RowOp) (abstract : Bool)
    (quser : Option Name) (d t : Name)
    (hr : readDSN st d = some true) (hp : rowRequestHTTP st u false idp op abstract quser d t = .pass) :
    (identityAuthorizes idp op.action = true ∨ authDSN st u d op.action = true) ∧
    Recorded st.perms u d t [op.perm] :=
  C43_row_pass_needs_grants st u idp op d t hr hp

/-- why `rowAuthUser` must be the session's user: a handler that looked the table grant up for the user named by
    `?user=` would let alice (DSN-level access, no table grant) read under bob's grant -/
theorem C43_row_quser_override_counterexample :
    let st := step (run St.init exHist) (.grantDSN ['a', 'l'] ['d'] ⟨true, false, false⟩ true)
    readDSN st ['d'] = some true ∧ lookup st.perms ['a', 'l'] ['d'] ['t'] = [] ∧
    rowRequestHTTP st ['a', 'l'] false Act.none .read true (some ['b', 'o', 'b']) ['d'] ['t'] = .forbidden ∧
    rowRequestAs st ['a', 'l'] false Act.none .read ['b', 'o', 'b'] ['d'] ['t'] = .pass := by decide

/-! ### row requests inside a client transaction (`?transaction=<id>`) -/

/-- the code that exists: a transaction begun on the restricted DSN `a` serves a request that names the unrestricted
    DSN `b` in its URL; `v` holds no grant of any kind, the plain request for `a` is refused, the request through the
    transaction passes (and its SQL runs on `a`'s database) -/
theorem C43_tx_foreign_dsn_counterexample :
    let st := writeDSN (writeDSN St.init ['a'] true) ['b'] false
    readDSN st ['a'] = some true ∧ lookup st.perms ['v'] ['a'] ['t'] = [] ∧
    rowRequest st ['v'] false Act.none .read ['a'] ['t'] = .forbidden ∧
    rowRequestTx st ['v'] false .read true ['b'] ['t'] = .pass := by decide

/-- outside that class — the URL names the DSN the transaction was begun on — a request that passes on a restricted
    DSN had the table grant for exactly (user, dsn, table) and the handler's operation -/
theorem C43_tx_partial (st : St) (u : Name) (op : RowOp) (d t : Name)
    (hr : readDSN st d = some true) (hp : rowRequestTx st u false op true d t = .pass) :
    Recorded st.perms u d t [op.perm] := by
  unfold rowRequestTx at hp
  have : authorized st u false u d t [op.perm] = true := by
    cases hz : authorized st u false u d t [op.perm] <;> simp_all
  exact (C43_iff st u false u d t [op.perm] hr (by simp)).1 this

example : rowRequestTx (step (run St.init exHist) (.grantDSN ['a', 'l'] ['d'] ⟨true, false, false⟩ true))
    ['b', 'o', 'b'] false .read true ['d'] ['t'] = .pass := by decide

/-! ### two overlapping grants for one record (GrantPermissions reads, decodes the body, writes the whole record) -/

/-- w holds read+write; "-write" is applied completely while a "+update" request has read the record and not yet
    written it back; the stale write-back restores write: neither order of the two grants leaves write set -/
theorem C43_grant_lost_update_counterexample :
    let u := ['w']; let d := ['a']; let t := ['t']
    let ps0 := [(⟨u, d, t, false, true, true, false, false⟩ : Rec)]
    let ps1 := (grant ps0 u d t [('-' :: nWrite)]).1
    let ps2 := grantStale ps0 ps1 u d t [nUpdate]
    let seq1 := (grant (grant ps0 u d t [('-' :: nWrite)]).1 u d t [nUpdate]).1
    let seq2 := (grant (grant ps0 u d t [nUpdate]).1 u d t [('-' :: nWrite)]).1
    (lookup ps2 u d t).map (·.write) = [true] ∧
    (lookup seq1 u d t).map (·.write) = [false] ∧ (lookup seq2 u d t).map (·.write) = [false] := by decide

/-! ### the database DSN service: the DSN cache is a transparent memo -/

theorem authorized_eq_core (st : St) (su : Name) (sa : Bool) (u d t : Name) (ops : List Name) :
    authorized st su sa u d t ops = authorizedCore (readDSN st d) st.perms su sa u d t ops := rfl

theorem lookup_setKey_self {α : Type} (m : List (Name × α)) (k : Name) (v : α) :
    (setKey m k v).lookup k = some v := by
  unfold setKey
  split
  · rename_i h
    induction m with
    | nil => simp [List.lookup] at h
    | cons e m ih =>
      obtain ⟨a, b⟩ := e
      by_cases ha : a = k
      · subst ha; simp
      · have hb : (k == a) = false := by simpa using fun e => ha e.symm
        simp only [List.lookup, hb] at h
        simp only [List.map_cons, ha, if_false, List.lookup, hb]
        exact ih h
  · rename_i h
    induction m with
    | nil => simp
    | cons e m ih =>
      obtain ⟨a, b⟩ := e
      cases hb : (k == a) with
      | true => simp [List.lookup, hb] at h
      | false =>
        simp only [List.lookup, hb] at h
        simp only [List.cons_append, List.lookup, hb]
        exact ih h

theorem lookup_delKey_self {α : Type} (m : List (Name × α)) (k : Name) : (delKey m k).lookup k = none := by
  induction m with
  | nil => rfl
  | cons e m ih =>
    obtain ⟨a, b⟩ := e
    simp only [delKey, List.filter_cons] at ih ⊢
    by_cases ha : a = k
    · simp [ha, ih]
    · have hb : (k == a) = false := by simpa using fun e => ha e.symm
      simp [ha, List.lookup, hb, ih]

theorem lookup_delKey_ne {α : Type} (m : List (Name × α)) (k k' : Name) (h : k ≠ k') :
    (delKey m k').lookup k = m.lookup k := by
  induction m with
  | nil => rfl
  | cons e m ih =>
    obtain ⟨a, b⟩ := e
    simp only [delKey, List.filter_cons] at ih ⊢
    by_cases ha : a = k'
    · have hb : (k == k') = false := by simpa using h
      subst ha
      simp [List.lookup, hb, ih]
    · simp only [ha, decide_false, Bool.not_false, if_true, List.lookup]; rw [ih]

/-- the memo invariant of caches.DSNCache: an entry of the cache equals the stored row of that name -/
def DSt.CacheOK (s : DSt) : Prop := ∀ n r, s.cache.lookup n = some r → s.rows.lookup n = some r

/-- `s'` differs from `s` in the cache only, and its cache is still a memo of the rows -/
def DSt.Same (s s' : DSt) : Prop := s'.CacheOK ∧ s'.rows = s.rows ∧ s'.dauth = s.dauth ∧ s'.perms = s.perms

theorem DSt.Same.refl {s : DSt} (h : s.CacheOK) : s.Same s := ⟨h, rfl, rfl, rfl⟩

theorem DSt.Same.trans {a b c : DSt} (h1 : a.Same b) (h2 : b.Same c) : a.Same c :=
  ⟨h2.1, h2.2.1.trans h1.2.1, h2.2.2.1.trans h1.2.2.1, h2.2.2.2.trans h1.2.2.2⟩

/-- ReadDSN through the cache answers what the stored row says, and keeps the memo invariant -/
theorem dbReadDSN_spec (s : DSt) (hc : s.CacheOK) (n : Name) :
    (dbReadDSN s n).2 = s.rows.lookup n ∧ s.Same (dbReadDSN s n).1 := by
  unfold dbReadDSN
  cases h1 : s.cache.lookup n with
  | some r => exact ⟨(hc n r h1).symm, DSt.Same.refl hc⟩
  | none =>
    cases h2 : s.rows.lookup n with
    | none => exact ⟨rfl, DSt.Same.refl hc⟩
    | some r =>
      refine ⟨rfl, ?_, rfl, rfl, rfl⟩
      intro m q hm
      by_cases e : m = n
      · subst e; simp only [lookup_setKey_self] at hm; rw [← hm]; exact h2
      · simp only [lookup_setKey_ne _ _ _ _ e] at hm; exact hc m q hm

theorem dbAuthDSN_spec (s : DSt) (hc : s.CacheOK) (u n : Name) (a : Act) :
    (dbAuthDSN s u n a).2 = authDSNCore (s.rows.lookup n) (dauthFind s.dauth u n) a ∧ s.Same (dbAuthDSN s u n a).1 := by
  obtain ⟨h1, h2⟩ := dbReadDSN_spec s hc n
  refine ⟨?_, h2⟩
  simp only [dbAuthDSN, h1, h2.2.2.1]

theorem dbAuthorized_spec (s : DSt) (hc : s.CacheOK) (su : Name) (sa : Bool) (u d t : Name) (ops : List Name) :
    (dbAuthorized s su sa u d t ops).2 = authorizedCore (s.rows.lookup d) s.perms su sa u d t ops ∧
    s.Same (dbAuthorized s su sa u d t ops).1 := by
  obtain ⟨h1, h2⟩ := dbReadDSN_spec s hc d
  unfold dbAuthorized
  split
  · rename_i h; exact ⟨by simp [authorizedCore, h], DSt.Same.refl hc⟩
  · refine ⟨?_, h2⟩
    simp only [h1, h2.2.2.2]

/-- C43, database DSN service: with the memo invariant, a row request is decided exactly as if every reader had
    read the STORED DSN row — the cache is invisible -/
theorem C43_db_cache_transparent (s : DSt) (hc : s.CacheOK) (u : Name) (adm : Bool) (idp : Act) (op : RowOp) (d t : Name) :
    (dbRowRequest s u adm idp op d t).2 =
      rowCore (s.rows.lookup d) adm (identityAuthorizes idp op.action)
        (authDSNCore (s.rows.lookup d) (dauthFind s.dauth u d) op.action)
        (authorizedCore (s.rows.lookup d) s.perms u adm u d t [op.perm]) ∧
    s.Same (dbRowRequest s u adm idp op d t).1 := by
  obtain ⟨h1, h2⟩ := dbReadDSN_spec s hc d
  obtain ⟨a1, a2⟩ := dbAuthDSN_spec _ h2.1 u d op.action
  have s2 := h2.trans a2
  obtain ⟨b1, b2⟩ := dbAuthorized_spec _ h2.1 u adm u d t [op.perm]
  obtain ⟨c1, c2⟩ := dbAuthorized_spec _ s2.1 u adm u d t [op.perm]
  rw [h2.2.1, h2.2.2.1] at a1
  rw [h2.2.1, h2.2.2.2] at b1
  rw [s2.2.1, s2.2.2.2] at c1
  have s3 := h2.trans b2
  have s4 := s2.trans c2
  unfold dbRowRequest
  simp only [h1]
  cases hr : s.rows.lookup d with
  | none => exact ⟨rfl, h2⟩
  | some restricted =>
    rw [hr] at a1 b1 c1
    cases adm <;> cases restricted <;> cases hid : identityAuthorizes idp op.action <;>
      cases hz : authDSNCore _ (dauthFind s.dauth u d) op.action <;>
      cases hy : authorizedCore _ s.perms u _ u d t [op.perm] <;>
      simp_all [rowCore]

/-! ### every operation of the database DSN service keeps the memo invariant -/

theorem dbWriteDSN_ok (s : DSt) (hc : s.CacheOK) (n : Name) (r : Bool) :
    (dbWriteDSN s n r).CacheOK ∧ (dbWriteDSN s n r).rows.lookup n = some r := by
  refine ⟨?_, lookup_setKey_self _ _ _⟩
  intro m q hm
  simp only [dbWriteDSN] at hm ⊢
  by_cases e : m = n
  · subst e; rw [lookup_setKey_self] at hm ⊢; exact hm
  · rw [lookup_setKey_ne _ _ _ _ e, lookup_delKey_ne _ _ _ e] at hm
    rw [lookup_setKey_ne _ _ _ _ e]; exact hc m q hm

theorem dbEvict_ok (s : DSt) (hc : s.CacheOK) (n : Name) : (dbEvict s n).CacheOK := by
  intro m q hm
  simp only [dbEvict] at hm ⊢
  by_cases e : m = n
  · subst e; rw [lookup_delKey_self] at hm; cases hm
  · rw [lookup_delKey_ne _ _ _ e] at hm; exact hc m q hm

theorem dbDeleteDSN_ok (s : DSt) (hc : s.CacheOK) (n : Name) : (dbDeleteDSN s n).CacheOK := by
  intro m q hm
  unfold dbDeleteDSN at hm ⊢
  split at hm
  all_goals
    simp only at hm ⊢
    by_cases e : m = n
    · subst e; rw [lookup_delKey_self] at hm; cases hm
    · rw [lookup_delKey_ne _ _ _ e] at hm
      first | (rw [lookup_delKey_ne _ _ _ e]; exact hc m q hm) | exact hc m q hm

/-- GrantDSN keeps the memo invariant, and afterwards the STORE records the DSN as restricted -/
theorem C43_db_grant_restricts (s s' : DSt) (hc : s.CacheOK) (u n : Name) (a : Act) (g : Bool)
    (h : dbGrantDSN s u n a g = some s') : s'.CacheOK ∧ s'.rows.lookup n = some true := by
  obtain ⟨h1, h2⟩ := dbReadDSN_spec s hc n
  unfold dbGrantDSN at h
  simp only [h1] at h
  cases hr : s.rows.lookup n with
  | none => rw [hr] at h; cases h
  | some restricted =>
    rw [hr] at h
    simp only [Option.some.injEq] at h
    subst h
    cases restricted with
    | false =>
      have := dbWriteDSN_ok _ h2.1 n true
      exact ⟨this.1, this.2⟩
    | true =>
      refine ⟨h2.1, ?_⟩
      simp only [Bool.not_true, Bool.false_eq_true, if_false]
      rw [h2.2.1]; exact hr

theorem dstep_ok (s : DSt) (hc : s.CacheOK) (op : DOp) : (dstep s op).CacheOK := by
  cases op with
  | perms o => exact hc
  | writeDSN n r => exact (dbWriteDSN_ok s hc n r).1
  | deleteDSN n => exact dbDeleteDSN_ok s hc n
  | revokeAllDSN n => exact hc
  | grantDSN u n a g =>
    simp only [dstep]
    cases h : dbGrantDSN s u n a g with
    | none => exact hc
    | some s' => exact (C43_db_grant_restricts s s' hc u n a g h).1
  | evict n => exact dbEvict_ok s hc n
  | readDSN n => exact (dbReadDSN_spec s hc n).2.1
  | authDSN u n a => exact (dbAuthDSN_spec s hc u n a).2.1
  | authorized su sa u d t ops => exact (dbAuthorized_spec s hc su sa u d t ops).2.1
  | row u adm idp op d t => exact (C43_db_cache_transparent s hc u adm idp op d t).2.1

/-- C43, database DSN service: after EVERY history of DSN operations, grants, evictions and (cache-filling)
    queries, each entry of the DSN cache equals the stored row -/
theorem C43_db_cacheOK_history (h : List DOp) : (drun DSt.init h).CacheOK := by
  have key : ∀ (s : DSt), s.CacheOK → (drun s h).CacheOK := by
    induction h with
    | nil => intro s hs; exact hs
    | cons op h ih => intro s hs; exact ih (dstep s op) (dstep_ok s hs op)
  exact key DSt.init (by intro n r h; cases h)

/-- C43, database DSN service: a row request by a non-administrator that is let through on a DSN which the STORE
    records as restricted had the DSN-level authorization (identity, or a dsns_auth row of exactly this user and
    DSN) AND the table grant for exactly (user, dsn, table) and the handler's operation -/
theorem C43_db_row_pass_needs_grants (s : DSt) (hc : s.CacheOK) (u : Name) (idp : Act) (op : RowOp) (d t : Name)
    (hr : s.rows.lookup d = some true) (hp : (dbRowRequest s u false idp op d t).2 = .pass) :
    (identityAuthorizes idp op.action = true ∨ ∃ v, dauthFind s.dauth u d = some v ∧ v.meets op.action = true) ∧
    Recorded s.perms u d t [op.perm] := by
  rw [(C43_db_cache_transparent s hc u false idp op d t).1, hr] at hp
  have hst : authorizedCore (some true) s.perms u false u d t [op.perm]
      = authorized ⟨[(d, true)], [], s.perms⟩ u false u d t [op.perm] := by
    simp [authorized, authorizedCore, readDSN, List.lookup]
  cases hi : identityAuthorizes idp op.action <;>
    cases ha : authDSNCore (some true) (dauthFind s.dauth u d) op.action <;>
    cases hz : authorizedCore (some true) s.perms u false u d t [op.perm] <;>
    simp [rowCore, hi, ha, hz] at hp
  all_goals
    rw [hst] at hz
    have hrec := (C43_iff ⟨[(d, true)], [], s.perms⟩ u false u d t [op.perm]
      (by simp [readDSN, List.lookup]) (by simp)).1 hz
    refine ⟨?_, hrec⟩
  · right
    simp only [authDSNCore, Bool.not_true, Bool.false_eq_true, if_false] at ha
    cases hf : dauthFind s.dauth u d with
    | none => rw [hf] at ha; cases ha
    | some v => rw [hf] at ha; exact ⟨v, rfl, ha⟩
  · left; rfl
  · left; rfl

/-- … hence after every history -/
theorem C43_db_row_history (h : List DOp) (u : Name) (idp : Act) (op : RowOp) (d t : Name)
    (hr : (drun DSt.init h).rows.lookup d = some true)
    (hp : (dbRowRequest (drun DSt.init h) u false idp op d t).2 = .pass) :
    (identityAuthorizes idp op.action = true ∨
      ∃ v, dauthFind (drun DSt.init h).dauth u d = some v ∧ v.meets op.action = true) ∧
    Recorded (drun DSt.init h).perms u d t [op.perm] :=
  C43_db_row_pass_needs_grants _ (C43_db_cacheOK_history h) u idp op d t hr hp

/-- the memo invariant is what carries the property: in a state where the cache still holds the unrestricted
    copy of a DSN that the store records as restricted (the state a restricting write that bypasses the cache
    leaves behind), a user with no grant of any kind reads the rows -/
theorem C43_db_stale_cache_counterexample :
    let s : DSt := ⟨[(['d'], true)], [(['d'], false)], [], []⟩
    s.rows.lookup ['d'] = some true ∧ ¬ s.CacheOK ∧
    (dbRowRequest s ['u'] false Act.none .read ['d'] ['t']).2 = .pass := by
  refine ⟨by decide, ?_, by decide⟩
  intro h
  have := h ['d'] false (by decide)
  revert this; decide

/-! ### DSN-level grants in the database service: keyed by the PAIR (user, dsn), no joined key -/

theorem C43_db_authdsn_iff (s : DSt) (hc : s.CacheOK) (u n : Name) (act : Act) (hr : s.rows.lookup n = some true) :
    (dbAuthDSN s u n act).2 = true ↔ ∃ v, dauthFind s.dauth u n = some v ∧ v.meets act = true := by
  rw [(dbAuthDSN_spec s hc u n act).1, hr]
  cases hl : dauthFind s.dauth u n <;> simp [authDSNCore]

theorem dauthFind_set_other (m : List (Name × Name × Act)) (u d u' d' : Name) (v : Act)
    (h : (u', d') ≠ (u, d)) : dauthFind (dauthSet m u' d' v) u d = dauthFind m u d := by
  have hne : ¬(u' = u ∧ d' = d) := fun e => h (by rw [e.1, e.2])
  have h1 : dauthFind (m.map fun e => if e.1 = u' ∧ e.2.1 = d' then (u', d', v) else e) u d = dauthFind m u d := by
    induction m with
    | nil => rfl
    | cons e m ih =>
      simp only [List.map_cons, dauthFind]
      by_cases he : e.1 = u' ∧ e.2.1 = d'
      · simp only [he, and_self, if_true, hne, if_false]; exact ih
      · simp only [he, if_false]; rw [ih]
  have h2 : dauthFind (m ++ [(u', d', v)]) u d = dauthFind m u d := by
    clear h1
    induction m with
    | nil => simp [dauthFind, hne]
    | cons e m ih => simp only [List.cons_append, dauthFind]; rw [ih]
  unfold dauthSet
  split
  · exact h1
  · exact h2

theorem dauthFind_filter_none (m : List (Name × Name × Act)) (f : Name × Name × Act → Bool) (u d : Name)
    (h : dauthFind m u d = none) : dauthFind (m.filter f) u d = none := by
  induction m with
  | nil => rfl
  | cons e m ih =>
    simp only [dauthFind] at h
    split at h
    · cases h
    · rename_i hne
      simp only [List.filter_cons]
      split
      · simp only [dauthFind, hne, if_false]; exact ih h
      · exact ih h

/-- does the operation write a dsns_auth row for exactly (u, n)? -/
def DOp.dsnGrantsTo (u n : Name) : DOp → Prop
  | .grantDSN u' n' _ _ => (u', n') = (u, n)
  | _ => False

theorem dstep_dauth_other (s : DSt) (hc : s.CacheOK) (op : DOp) (u n : Name) (h : ¬ op.dsnGrantsTo u n)
    (h0 : dauthFind s.dauth u n = none) : dauthFind (dstep s op).dauth u n = none := by
  cases op with
  | perms o => exact h0
  | writeDSN n' r => exact h0
  | deleteDSN n' =>
    simp only [dstep, dbDeleteDSN]; split
    · exact dauthFind_filter_none _ _ _ _ h0
    · exact h0
  | revokeAllDSN n' => exact dauthFind_filter_none _ _ _ _ h0
  | grantDSN u' n' a g =>
    simp only [dstep]
    cases hg : dbGrantDSN s u' n' a g with
    | none => exact h0
    | some s' =>
      obtain ⟨-, h2⟩ := dbReadDSN_spec s hc n'
      unfold dbGrantDSN at hg
      cases hr : (dbReadDSN s n').2 with
      | none => simp only [hr] at hg; cases hg
      | some restricted =>
        simp only [hr, Option.some.injEq] at hg
        subst hg
        simp only [Option.getD_some]
        rw [dauthFind_set_other _ _ _ _ _ _ h]
        split
        · simp only [dbWriteDSN]; rw [h2.2.2.1]; exact h0
        · rw [h2.2.2.1]; exact h0
  | evict n' => exact h0
  | readDSN n' => rw [show (dstep s (.readDSN n')).dauth = s.dauth from (dbReadDSN_spec s hc n').2.2.2.1]; exact h0
  | authDSN u' n' a => rw [show (dstep s (.authDSN u' n' a)).dauth = s.dauth from (dbAuthDSN_spec s hc u' n' a).2.2.2.1]; exact h0
  | authorized su sa u' d t ops =>
    rw [show (dstep s (.authorized su sa u' d t ops)).dauth = s.dauth from (dbAuthorized_spec s hc su sa u' d t ops).2.2.2.1]; exact h0
  | row u' adm idp op d t =>
    rw [show (dstep s (.row u' adm idp op d t)).dauth = s.dauth from (C43_db_cache_transparent s hc u' adm idp op d t).2.2.2.1]; exact h0

/-- DSN level, no cross-authorization, database service (FULL: any user and DSN names, '|' included): if no
    GrantDSN of the history is for exactly (u, n), user u is never authorized on a DSN n that the store records as
    restricted -/
theorem C43_db_dsn_no_cross (h : List DOp) (u n : Name) (act : Act)
    (hh : ∀ op ∈ h, ¬ op.dsnGrantsTo u n) (hr : (drun DSt.init h).rows.lookup n = some true) :
    (dbAuthDSN (drun DSt.init h) u n act).2 = false := by
  have key : ∀ (s : DSt) (l : List DOp), s.CacheOK → (∀ op ∈ l, ¬ op.dsnGrantsTo u n) →
      dauthFind s.dauth u n = none → dauthFind (drun s l).dauth u n = none := by
    intro s l
    induction l generalizing s with
    | nil => intro _ _ h0; exact h0
    | cons op l ih =>
      intro hc hl h0
      exact ih (dstep s op) (dstep_ok s hc op) (fun o ho => hl o (List.mem_cons_of_mem _ ho))
        (dstep_dauth_other s hc op u n (hl op List.mem_cons_self) h0)
  have hl := key DSt.init h (by intro n r h; cases h) hh rfl
  rw [(dbAuthDSN_spec _ (C43_db_cacheOK_history h) u n act).1, hr, hl]; rfl

/-- the pipe twins of C43_dsnkey_counterexample are kept apart by the database service -/
example :
    (dbAuthDSN (drun DSt.init [.writeDSN ['c'] true, .writeDSN ['b', '|', 'c'] true,
        .grantDSN ['a', '|', 'b'] ['c'] ⟨true, true, false⟩ true]) ['a'] ['b', '|', 'c'] ⟨true, false, false⟩).2 = false ∧
    (dbAuthDSN (drun DSt.init [.writeDSN ['c'] true, .writeDSN ['b', '|', 'c'] true,
        .grantDSN ['a', '|', 'b'] ['c'] ⟨true, true, false⟩ true]) ['a', '|', 'b'] ['c'] ⟨true, false, false⟩).2 = true := by decide

/-- non-vacuity, database service: the history "create unrestricted, read (cache warm), first DSN-level grant,
    table grant for bob" — the store records the DSN as restricted, bob (DSN-level + table grant) reads, carol
    (DSN-level grant only) and dave (nothing) do not -/
def exDbHist : List DOp :=
  [.writeDSN ['d'] false, .row ['b'] false Act.none .read ['d'] ['t'],
   .grantDSN ['b'] ['d'] ⟨true, true, false⟩ true, .grantDSN ['c'] ['d'] ⟨true, true, false⟩ true,
   .perms (.grant ['b'] ['d'] ['t'] [nRead]), .evict ['d'], .authDSN ['c'] ['d'] ⟨true, false, false⟩]

example : (drun DSt.init exDbHist).rows.lookup ['d'] = some true ∧
    (drun DSt.init exDbHist).cache.lookup ['d'] = some true ∧
    (dbRowRequest (drun DSt.init [.writeDSN ['d'] false]) ['b'] false Act.none .read ['d'] ['t']).2 = .pass ∧
    (dbRowRequest (drun DSt.init exDbHist) ['b'] false Act.none .read ['d'] ['t']).2 = .pass ∧
    (dbRowRequest (drun DSt.init exDbHist) ['b'] false Act.none .insert ['d'] ['t']).2 = .forbidden ∧
    (dbRowRequest (drun DSt.init exDbHist) ['c'] false Act.none .read ['d'] ['t']).2 = .forbidden ∧
    (dbRowRequest (drun DSt.init exDbHist) ['e'] false ⟨true, true, true⟩ .read ['d'] ['t']).2 = .forbidden ∧
    (dbRowRequest (drun DSt.init exDbHist) ['e'] false Act.none .read ['d'] ['t']).2 = .forbidden := by decide

example : ∀ op ∈ exDbHist, ¬ op.dsnGrantsTo ['e'] ['d'] := by
  intro op h; simp only [exDbHist, List.mem_cons, List.not_mem_nil, or_false] at h
  rcases h with h | h | h | h | h | h | h <;> subst h <;> simp [DOp.dsnGrantsTo]

/-! ### the HTTP form of a row request, database DSN service -/

theorem C43_db_row_http_eq (s : DSt) (u : Name) (adm : Bool) (idp : Act) (op : RowOp) (abstract : Bool)
    (quser : Option Name) (d t : Name) :
    dbRowRequestHTTP s u adm idp op abstract quser d t = dbRowRequest s u adm idp op d t := rfl

/-- after every history, a non-administrator's row request (any row format, any `?user=`) that is let through on a
    DSN the store records as restricted had the CALLER's DSN-level authorization and the CALLER's table grant -/
theorem C43_db_row_http_history (h : List DOp) (u : Name) (idp : Act) (op : RowOp) (abstract : Bool)
    (quser : Option Name) (d t : Name)
    (hr : (drun DSt.init h).rows.lookup d = some true)
    (hp : (dbRowRequestHTTP (drun DSt.init h) u false idp op abstract quser d t).2 = .pass) :
    (identityAuthorizes idp op.action = true ∨
      ∃ v, dauthFind (drun DSt.init h).dauth u d = some v ∧ v.meets op.action = true) ∧
    Recorded (drun DSt.init h).perms u d t [op.perm] :=
  C43_db_row_history h u idp op d t hr hp

end EgoVerif.C43
