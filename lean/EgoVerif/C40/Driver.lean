import EgoVerif.Common.Drv
import EgoVerif.C40.Model
/- line protocol (strings are hex of their bytes, "-" = empty string; lists use the separators shown):
   find  <ep:method,…> <method> <path>                         → 404 | 405 | ok <ep> <method> | panic
   parts <endpoint> <path>                                      → k=s:<hex>|k=b:0/1 sorted, "," separated | panic
   vp    <decl: name:type,… | nil> <query: name=v|v,… | none> <durations that parse: hex|hex | none>
                                                                → ok | count | integer | boolean | duration | keyword   (one key)
                                                                  ok | err                                                (several keys)
   pg    <decl> <query> <maxLimit>                              → 200 <start> <limit> | 400 | panic
   serve <route;route…> <method> <path> <query> <accept: v|v | none> <ctype> <maxLimit> <durations>
         route = ep:method:decl:disallow(key=d|d/…, none):accept(nil | v|v):content:light(0/1):redirect
                                                                → status <code>[h] | redirect <hex> | handler <ep> <method> <parts> <start> <limit> | panic -/
namespace EgoVerif.C40

def unhex (h : String) : Option Str :=
  if h == "-" then some [] else (bytesOfHex h).map (·.map (·.toNat))

def hex (s : Str) : String := if s.isEmpty then "-" else hexOfBytes (s.map UInt8.ofNat)

def mapM? {α β} (f : α → Option β) : List α → Option (List β)
  | [] => some []
  | a :: as => match f a, mapM? f as with
    | some b, some bs => some (b :: bs)
    | _, _ => none

def listOf (sep : String) (none : String) (s : String) : Option (List Str) :=
  if s == none then some [] else mapM? unhex (s.splitOn sep)

/-- strconv.ParseInt(s, base, 64) for base 2..16 (no underscores, optional sign) -/
def digitVal (c : Nat) : Option Nat :=
  if 48 ≤ c ∧ c ≤ 57 then some (c - 48) else if 97 ≤ c ∧ c ≤ 102 then some (c - 87)
  else if 65 ≤ c ∧ c ≤ 70 then some (c - 55) else none

def parseDigits (base : Nat) : Str → Nat → Option Nat
  | [], acc => some acc
  | c :: rest, acc => match digitVal c with
    | some d => if d < base then parseDigits base rest (acc * base + d) else none
    | none => none

def goParseInt (base : Nat) (s : Str) : Option Int :=
  let (neg, body) := match s with
    | 45 :: r => (true, r)
    | 43 :: r => (false, r)
    | _ => (false, s)
  if body.isEmpty then none else
  match parseDigits base body 0 with
  | some n =>
    let v : Int := if neg then -(n : Int) else n
    if minInt ≤ v ∧ v ≤ maxInt then some v else none
  | none => none

def runeCountValid (s : Str) : Nat := (s.filter fun c => !(128 ≤ c && c ≤ 191)).length

def goPrims (durations : List Str) : Prims :=
  { strconvAtoi := goParseInt 10, parseInt := goParseInt, runeCount := runeCountValid,
    parseDuration := fun s => durations.contains s }

def parseDecl (s : String) : Option (Option (List (Str × Str))) :=
  if s == "nil" then some none else
  (mapM? (fun e => match e.splitOn ":" with
    | [n, t] => match unhex n, unhex t with
      | some a, some c => some (a, c)
      | _, _ => none
    | _ => none) (s.splitOn ",")).map some

def parseQuery (s : String) : Option Query :=
  if s == "none" then some [] else
  mapM? (fun e => match e.splitOn "=" with
    | [n, vs] => match unhex n, listOf "|" "none" vs with
      | some a, some l => some (a, l)
      | _, _ => none
    | _ => none) (s.splitOn ",")

def showParts (m : List (Str × PartVal)) : String :=
  let items := m.map fun (k, v) => (hex k, match v with
    | .str s => "s:" ++ hex s
    | .bool b => if b then "b:1" else "b:0")
  let sorted := items.toArray.qsort (fun a c => a.1 < c.1) |>.toList
  if sorted.isEmpty then "none" else ",".intercalate (sorted.map fun (k, v) => k ++ "=" ++ v)

def showErr : Option PErr → String
  | none => "ok" | some .count => "count" | some .integer => "integer" | some .boolean => "boolean"
  | some .duration => "duration" | some .keyword => "keyword"

def parseRoute (s : String) : Option Route :=
  match s.splitOn ":" with
  | [ep, m, decl, dis, acc, con, light, red] =>
    let decl' := parseDecl (decl.replace "+" ":" |>.replace "/" ",")
    let dis' : Option (List (Str × List Str)) := if dis == "none" then some [] else
      mapM? (fun e => match e.splitOn "=" with
        | [k, ds] => match unhex k, listOf "|" "none" ds with
          | some a, some l => some (a, l)
          | _, _ => none
        | _ => none) (dis.splitOn "/")
    let media (x : String) : Option (Option (List Str)) := if x == "nil" then some none else (listOf "|" "empty" x).map some
    match unhex ep, unhex m, decl', dis', media acc, media con, unhex red with
    | some e, some mm, some d, some ds, some a, some c, some r =>
      some { endpoint := e, method := mm, parameters := d, disallow := ds, accept := a, content := c,
             lightweight := light == "1", redirect := r }
    | _, _, _, _, _, _, _ => none
  | _ => none

def parseTable (s : String) : Option (List Route) :=
  mapM? (fun e => match e.splitOn ":" with
    | [ep, m] => match unhex ep, unhex m with
      | some a, some c => some ({ endpoint := a, method := c } : Route)
      | _, _ => none
    | _ => none) (s.splitOn ",")

def handle (line : String) : String :=
  match fields line with
  | ["find", tbl, m, p] =>
    match parseTable tbl, unhex m, unhex p with
    | some t, some mm, some pp =>
      match findRoute t mm pp with
      | .ok (some r, 200) => "ok " ++ hex r.endpoint ++ " " ++ hex r.method
      | .ok (none, st) => toString st
      | .ok (some _, st) => "odd " ++ toString st
      | .error _ => "panic"
    | _, _, _ => "bad-input"
  | ["parts", ep, p] =>
    match unhex ep, unhex p with
    | some e, some pp => match partsMap e pp with
      | .ok m => showParts m
      | .error _ => "panic"
    | _, _ => "bad-input"
  | ["vp", decl, q, durs] =>
    match parseDecl decl, parseQuery q, listOf "|" "none" durs with
    | some d, some qq, some ds =>
      match validateParameters (goPrims ds) d qq with
      | .ok e => if qq.length ≤ 1 then showErr e else (if e.isSome then "err" else "ok")
      | .error _ => "panic"
    | _, _, _ => "bad-input"
  | ["pg", decl, q, mx] =>
    match parseDecl decl, parseQuery q, mx.toInt? with
    | some d, some qq, some m =>
      match validatePaging (goPrims []) (some { endpoint := [], method := [], parameters := d }) (parmMap qq) m with
      | .ok pg => if pg.status == 200 then s!"200 {pg.start} {pg.limit}" else toString pg.status
      | .error _ => "panic"
    | _, _, _ => "bad-input"
  | ["serve", tbl, m, p, q, acc, ct, mx, durs] =>
    match mapM? parseRoute (tbl.splitOn ";"), unhex m, unhex p, parseQuery q, listOf "|" "none" acc,
          listOf "|" "none" ct, mx.toInt?, listOf "|" "none" durs with
    | some t, some mm, some pp, some qq, some a, some c, some mxl, some ds =>
      let req : Request := { method := mm, path := pp, query := qq, accept := a, contentType := c,
                             hasBody := true, maxItemLimit := mxl }
      match serve (goPrims ds) t req with
      | .ok (.status code html) => s!"status {code}" ++ (if html then "h" else "")
      | .ok (.redirect u) => "redirect " ++ hex u
      | .ok (.handler e mth parts st lim) => s!"handler {hex e} {hex mth} {showParts parts} {st} {lim}"
      | .error _ => "panic"
    | _, _, _, _, _, _, _, _ => "bad-input"
  | _ => "bad-op"

def drv : Drv := Drv.pure handle

end EgoVerif.C40
