/-
C40 — model of the request FRONT END every route passes through before its handler runs
(internal/router/serve.go `ServeHTTP`, `partsMap`, `parmMap`, `validatePaging`, `requestWantsBrowserHTML`;
internal/router/router.go `FindRoute`, `Disallowed`; internal/util/urls.go `ValidateParameters` and its
`validate…Parameter` helpers; internal/util/strings/atoi.go `Atoi`; internal/util/media.go
`AcceptedMediaType` / `ContentMediaType`).  Core Lean only.

Go's PARTIAL operations are explicit: indexing `xs[i]`, slicing `xs[a:]` / `xs[:b]`, dereferencing a
possibly-nil pointer and calling through a nil function value return `Except Panic`; everything else is
total.  The model mirrors the code that exists: every guard (`if i < len(testParts)`, `len(vals) > 0`,
`route != nil`, …) is written where the Go code has it, and every access is a checked access whether or
not a guard protects it — that the guards suffice is what Props.lean proves.

Strings are Go strings seen as byte lists (`Str = List Nat`).  The request method is modelled for ASCII
(net/http only admits RFC 7230 token methods).  The route table is a Go map; the model takes it as a
list in the order the `for … range m.routes` loop happens to visit it.
-/
namespace EgoVerif.C40

abbrev Str := List Nat

/-- the run-time faults Go raises for the partial operations the front end uses -/
inductive Panic where
  | index        -- index out of range
  | slice        -- slice bounds out of range
  | nilDeref     -- nil pointer dereference (field of a nil *Route / *Session)
  | nilCall      -- call through a nil func value
  deriving Repr, DecidableEq

abbrev G := Except Panic

/-- `xs[i]` -/
def idx {α} (xs : List α) (i : Nat) : G α :=
  match xs[i]? with
  | some x => .ok x
  | none => .error .index

/-- `xs[lo:]` with a Go `int` bound -/
def sliceFrom {α} (xs : List α) (lo : Int) : G (List α) :=
  if 0 ≤ lo ∧ lo ≤ (xs.length : Int) then .ok (xs.drop lo.toNat) else .error .slice

/-- `xs[:hi]` with a Go `int` bound -/
def sliceTo {α} (xs : List α) (hi : Int) : G (List α) :=
  if 0 ≤ hi ∧ hi ≤ (xs.length : Int) then .ok (xs.take hi.toNat) else .error .slice

/-- `xs[lo:hi]` -/
def slice {α} (xs : List α) (lo hi : Int) : G (List α) :=
  if 0 ≤ lo ∧ lo ≤ hi ∧ hi ≤ (xs.length : Int) then .ok ((xs.take hi.toNat).drop lo.toNat) else .error .slice

/-- `p.field` for a pointer that may be nil -/
def deref {α} (o : Option α) : G α :=
  match o with
  | some x => .ok x
  | none => .error .nilDeref

/-! ### Go `strings` primitives on byte lists (all total) -/

def slash : Nat := 47
def lbraces : Str := [123, 123]                  -- "{{"
def rbraces : Str := [125, 125]                  -- "}}"
def globSuffix : Str := [46, 46, 46, 125, 125]   -- "...}}"
def anyMethod : Str := [65, 78, 89]              -- "ANY"

def hasPrefix (s p : Str) : Bool := p.isPrefixOf s
def hasSuffix (s p : Str) : Bool := p.isSuffixOf s
def trimPrefix (s p : Str) : Str := if hasPrefix s p then s.drop p.length else s
def trimSuffix (s p : Str) : Str := if hasSuffix s p then s.take (s.length - p.length) else s

/-- `strings.Split(s, sep)` for a one-byte separator; `cur` is the part being collected (reversed) -/
def splitGo (sep : Nat) : Str → Str → List Str
  | [], cur => [cur.reverse]
  | c :: rest, cur => if c = sep then cur.reverse :: splitGo sep rest [] else splitGo sep rest (c :: cur)

def splitOn (sep : Nat) (s : Str) : List Str := splitGo sep s []
def split (s : Str) : List Str := splitOn slash s

/-- `strings.Join(parts, "/")` -/
def join : List Str → Str
  | [] => []
  | [p] => p
  | p :: q :: rest => p ++ slash :: join (q :: rest)

/-- `strings.Contains(s, sub)` -/
def contains (sub : Str) : Str → Bool
  | [] => sub.isEmpty
  | c :: rest => sub.isPrefixOf (c :: rest) || contains sub rest

/-- `strings.Count(s, "{{")`: non-overlapping occurrences, left to right; the flag says that the previous
byte was a `{` not yet used by a match -/
def varCountGo : Bool → Str → Nat
  | _, [] => 0
  | false, c :: rest => if c = 123 then varCountGo true rest else varCountGo false rest
  | true, c :: rest => if c = 123 then 1 + varCountGo false rest else varCountGo false rest

def varCount (s : Str) : Nat := varCountGo false s

def slashCount (s : Str) : Nat := (s.filter (· == slash)).length

def upperB (c : Nat) : Nat := if 97 ≤ c ∧ c ≤ 122 then c - 32 else c
def lowerB (c : Nat) : Nat := if 65 ≤ c ∧ c ≤ 90 then c + 32 else c
def upper (s : Str) : Str := s.map upperB        -- strings.ToUpper, ASCII
def lower (s : Str) : Str := s.map lowerB        -- strings.ToLower, ASCII
def equalFold (a b : Str) : Bool := upper a == upper b

/-- Go's `a < b` on strings: bytewise lexicographic -/
def strLt : Str → Str → Bool
  | [], [] => false
  | [], _ :: _ => true
  | _ :: _, [] => false
  | a :: as, b :: bs => if a < b then true else if b < a then false else strLt as bs

/-- `strings.TrimSpace` restricted to the ASCII white space Go trims (\t \n \v \f \r and space) -/
def isSpaceB (c : Nat) : Bool := c = 32 || (9 ≤ c && c ≤ 13)
def trimSpace (s : Str) : Str := ((s.dropWhile isSpaceB).reverse.dropWhile isSpaceB).reverse

/-- `util.InList(s, test...)`: despite its name it compares with `strings.EqualFold` -/
def inList (s : Str) (tests : List Str) : Bool := tests.any (equalFold s)

/-! ### the route table -/

structure Route where
  endpoint : Str
  method : Str
  /-- `parameters map[string]string`: `none` is the nil map of a route that declares no parameter -/
  parameters : Option (List (Str × Str)) := none
  disallow : List (Str × List Str) := []
  /-- `acceptMediaTypes []string`, `none` = nil -/
  accept : Option (List Str) := none
  content : Option (List Str) := none
  permissions : Option (List Str) := none
  validations : List Str := []
  redirect : Str := []
  lightweight : Bool := false
  mustAuthenticate : Bool := false
  canAuthenticate : Bool := false
  hasHandler : Bool := true
  deriving Repr, DecidableEq

def isGlob (p : Str) : Bool := hasPrefix p lbraces && hasSuffix p globSuffix
def isVar (p : Str) : Bool := hasPrefix p lbraces

/-- `if len(s) > 1 { s = strings.TrimSuffix(s, "/") + "/" }` -/
def normalize (s : Str) : Str :=
  if s.length > 1 then trimSuffix s [slash] ++ [slash] else s

/-! ### `(*Router).FindRoute` (router.go) -/

/-- the `for i, endpointPart := range endpointParts` loop that builds `maskedParts`;
returns (maskedParts, globMatch). `i` is the loop index, `acc` is `maskedParts` so far. -/
def maskLoop (testParts : List Str) : List Str → Nat → List Str → G (List Str × Bool)
  | [], _, acc => pure (acc, false)
  | ep :: rest, i, acc =>
    if isGlob ep then
      let acc1 := acc ++ [ep]                                   -- maskedParts = append(maskedParts, endpointPart)
      if i < testParts.length then do
        let tail ← sliceFrom testParts ((i : Int) + 1)          -- testParts[i+1:]
        let acc2 := acc1 ++ tail
        -- maskedParts[:len(maskedParts)-(len(testParts)-i-1)]
        let acc3 ← sliceTo acc2 ((acc2.length : Int) - ((testParts.length : Int) - (i : Int) - 1))
        pure (acc3, true)
      else pure (acc1, true)
    else if isVar ep then maskLoop testParts rest (i + 1) (acc ++ [ep])
    else if i ≥ testParts.length then maskLoop testParts rest (i + 1) (acc ++ [ep])
    else do
      let t ← idx testParts i                                   -- testParts[i]
      maskLoop testParts rest (i + 1) (acc ++ [t])

/-- `globIdx := 0; for i, p := range endpointParts { if glob(p) { globIdx = i; break } }` -/
def globIdxGo : List Str → Nat → Nat
  | [], _ => 0
  | p :: rest, i => if isGlob p then i else globIdxGo rest (i + 1)

/-- `for i, p := range prefixParts { if p != testParts[i] { prefixMatch = false; break } }` -/
def prefixLoop (testParts : List Str) : List Str → Nat → G Bool
  | [], _ => pure true
  | p :: rest, i => do
    let t ← idx testParts i                                     -- testParts[i]
    if p != t then pure false else prefixLoop testParts rest (i + 1)

/-- the body of the `for selector, route := range m.routes` loop for a route other than "/":
does the (normalised) path match the route's endpoint pattern? -/
def routeMatches (path : Str) (endpoint0 : Str) : G Bool := do
  let endpoint := normalize endpoint0
  let testParts := split path
  let endpointParts := split endpoint
  let (masked, glob) ← maskLoop testParts endpointParts 0 []
  if glob then
    let gi := globIdxGo endpointParts 0
    let prefixParts ← sliceTo endpointParts (gi : Int)          -- endpointParts[:globIdx]
    if testParts.length ≥ gi then prefixLoop testParts prefixParts 0 else pure false
  else pure (endpoint == join masked)

def methodOK (r : Route) (method : Str) : Bool := r.method == anyMethod || equalFold r.method method

/-- the candidate list, in the order the table is visited -/
def candidates (method path : Str) : List Route → G (List Route)
  | [] => pure []
  | r :: rest =>
    if r.endpoint == [slash] then do                            -- the "everything" route is always a candidate
      let tl ← candidates method path rest
      pure (r :: tl)
    else do
      let m ← routeMatches path r.endpoint
      let tl ← candidates method path rest
      pure (if m && methodOK r method then r :: tl else tl)

/-- the `less` of the `sort.Slice` call -/
def routeLess (a b : Route) : Bool :=
  if a.endpoint != b.endpoint then strLt a.endpoint b.endpoint
  else a.method != anyMethod && (b.method == anyMethod || strLt a.method b.method)

def insertRoute (r : Route) : List Route → List Route
  | [] => [r]
  | x :: xs => if routeLess r x then r :: x :: xs else x :: insertRoute r xs

/-- `sort.Slice(candidates, less)`; the keys (endpoint, method) of a table are distinct, which makes the
sorted order unique (C32_sort_unique), so any sorting algorithm gives this list -/
def sortRoutes : List Route → List Route
  | [] => []
  | r :: rest => insertRoute r (sortRoutes rest)

structure Few where
  fewest : Option Route := none      -- `var fewestVariables *Route`
  minC : Nat := 100
  maxC : Nat := 0
  deriving Repr

/-- the loop that returns the first candidate without variables, else tracks the fewest-variables one -/
def fewLoop : List Route → Few → Sum Route Few
  | [], st => .inr st
  | c :: rest, st =>
    if !contains lbraces c.endpoint && !contains rbraces c.endpoint then .inl c
    else
      let vc := varCount c.endpoint
      let st1 : Few := if st.fewest.isNone || vc < st.minC then { st with minC := vc, fewest := some c } else st
      let st2 : Few := if vc > st1.maxC then { st1 with maxC := vc } else st1
      fewLoop rest st2

def routePartCount (c : Route) : Nat :=
  slashCount c.endpoint + (if hasSuffix c.endpoint [slash] then 0 else 1)

/-- `for index := 1; index < len(candidates); index++ { if len(c[index].endpoint) > len(c[longest].endpoint) … }` -/
def longestLoop (cands : List Route) : Nat → Nat → Nat → G Nat
  | 0, _, longest => pure longest
  | fuel + 1, index, longest =>
    if index < cands.length then do
      let a ← idx cands index                                   -- candidates[index]
      let b ← idx cands longest                                 -- candidates[longest]
      longestLoop cands fuel (index + 1) (if a.endpoint.length > b.endpoint.length then index else longest)
    else pure longest

/-- the `switch len(candidates)` that ends FindRoute; answer = (route or nil, status) -/
def selectRoute (method path : Str) (cands : List Route) : G (Option Route × Nat) :=
  match cands.length with
  | 0 => pure (none, 404)
  | 1 => do
    let route ← idx cands 0                                     -- candidates[0]
    if methodOK route method then pure (some route, 200) else pure (none, 405)
  | _ =>
    match cands.find? (fun c => c.endpoint == path) with
    | some c => pure (some c, 200)
    | none =>
      match fewLoop cands {} with
      | .inl c => pure (some c, 200)
      | .inr st =>
        if st.maxC > st.minC then do
          let f ← deref st.fewest                               -- fewestVariables.endpoint (log argument)
          pure (some f, 200)
        else
          match cands.find? (fun c => slashCount path == routePartCount c) with
          | some c => pure (some c, 200)
          | none => do
            let longest ← longestLoop cands cands.length 1 0
            let c ← idx cands longest                           -- candidates[longest]
            pure (some c, 200)

def findRoute (tbl : List Route) (method0 path0 : Str) : G (Option Route × Nat) := do
  let method := upper method0
  let path := normalize path0
  let cs ← candidates method path tbl
  selectRoute method path (sortRoutes cs)

/-! ### `(*Route).partsMap` (serve.go) -/

/-- a value of the `map[string]any` that partsMap builds -/
inductive PartVal where
  | str (s : Str)
  | bool (b : Bool)
  deriving Repr, DecidableEq

/-- `m[key] = v` on the map made by `m := map[string]any{}` (association list, last write wins) -/
def mapSet {β} (m : List (Str × β)) (k : Str) (v : β) : List (Str × β) :=
  (m.filter (fun kv => kv.1 != k)) ++ [(k, v)]

def mapGet {β} (m : List (Str × β)) (k : Str) : Option β :=
  (m.find? (fun kv => kv.1 == k)).map (·.2)

/-- `strings.Join(pathParts[index:], "/")` etc.: the `for index, part := range patternParts` loop -/
def partsLoop (pathParts : List Str) : List Str → Nat → List (Str × PartVal) → G (List (Str × PartVal))
  | [], _, m => pure m
  | part :: rest, index, m =>
    if hasPrefix part lbraces && hasSuffix part globSuffix then
      let key := trimSuffix (trimPrefix part lbraces) globSuffix
      if index < pathParts.length then do
        let tl ← sliceFrom pathParts (index : Int)              -- pathParts[index:]
        pure (mapSet m key (.str (join tl)))                    -- break
      else pure (mapSet m key (.str []))
    else if hasPrefix part lbraces && hasSuffix part rbraces then
      let key := trimPrefix (trimSuffix part rbraces) lbraces
      if index < pathParts.length then do
        let v ← idx pathParts index                             -- pathParts[index]
        partsLoop pathParts rest (index + 1) (mapSet m key (.str v))
      else partsLoop pathParts rest (index + 1) (mapSet m key (.str []))
    else if index ≥ pathParts.length then partsLoop pathParts rest (index + 1) (mapSet m part (.bool false))
    else do
      let v ← idx pathParts index                               -- pathParts[index]
      partsLoop pathParts rest (index + 1) (mapSet m part (.bool (part == v)))

def trimSlashes (s : Str) : Str := trimPrefix (trimSuffix s [slash]) [slash]

def partsMap (endpoint path0 : Str) : G (List (Str × PartVal)) := do
  let path := trimSlashes path0
  let segments := splitOn 63 path                               -- strings.Split(path, "?")
  let seg0 ← idx segments 0                                     -- segments[0]
  let pathParts := split (trimSlashes seg0)
  let patternParts := split (trimSlashes endpoint)
  partsLoop pathParts patternParts 0 []

/-! ### query parameters: `parmMap`, `Disallowed`, `util.ValidateParameters`, `validatePaging` -/

/-- `url.Values` = `map[string][]string` -/
abbrev Query := List (Str × List Str)

/-- `parmMap`: `result := map[string][]string{}; for parm, list := range parms { result[parm] = list }`
— the map written to is the one just made, never nil -/
def parmMap (q : Query) : Query := q.foldl (fun m kv => mapSet m kv.1 kv.2) []

/-- `(*Route).Disallowed` -/
def disallowed (r : Route) (parms : Query) : Bool :=
  r.disallow.any fun (key, list) =>
    (mapGet parms (lower key)).isSome && list.any fun d => (mapGet parms (lower d)).isSome

/-- external parsers (Go standard library): only totality matters to the property -/
structure Prims where
  strconvAtoi : Str → Option Int              -- strconv.Atoi
  parseInt : Nat → Str → Option Int           -- strconv.ParseInt(s, base, 64)
  runeCount : Str → Nat                       -- len([]rune(s))
  parseDuration : Str → Bool                  -- time.ParseDuration(s) succeeds

inductive PErr where
  | count | integer | boolean | duration | keyword
  deriving Repr, DecidableEq

def minInt : Int := -9223372036854775808
def maxInt : Int := 9223372036854775807

/-- `egostrings.Atoi` (internal/util/strings/atoi.go): does it succeed? -/
def egoAtoi (P : Prims) (s0 : Str) : G Bool := do
  let s := trimSpace s0
  -- len(s) > 1 && s[0] == '\'' && s[len(s)-1] == '\''
  let quoted ← (if s.length > 1 then do
      let a ← idx s 0
      if a = 39 then do
        let b ← idx s (s.length - 1)
        pure (b == 39)
      else pure false
    else pure false : G Bool)
  if quoted then do
    let inner ← slice s 1 ((s.length : Int) - 1)                -- s[1 : len(s)-1]
    pure (P.runeCount inner == 1)
  else do
    let two ← sliceTo s (min s.length 2 : Nat)                  -- s[:min(len(s), 2)]
    let pre := lower two
    let radix : Option Nat :=
      if hasPrefix pre [48, 120] then some 16 else if hasPrefix pre [48, 111] then some 8
      else if hasPrefix pre [48, 98] then some 2 else none
    match radix with
    | some b => do
      let rest ← sliceFrom s 2                                  -- s[2:]
      match P.parseInt b rest with
      | some v => pure (decide (minInt ≤ v ∧ v ≤ maxInt))
      | none => pure false
    | none => pure (P.strconvAtoi s).isSome

def boolWords : List Str :=
  [[116,114,117,101], [102,97,108,115,101], [49], [48], [121,101,115], [110,111]]   -- true false 1 0 yes no

/-- the `validate…Parameter` helper selected by the declared type (lower-cased) -/
def validateOne (P : Prims) (kind : Str) (values : List Str) : G (Option PErr) :=
  let k := lower kind
  if k == [102,108,97,103] then                                  -- "flag"
    if values.length != 1 then pure (some .count) else do
      let v ← idx values 0                                       -- values[0]
      pure (if v != [] then some .count else none)
  else if k == [105,110,116] then                                -- "int"
    if values.length != 1 then pure (some .count) else do
      let v ← idx values 0
      let ok ← egoAtoi P v
      pure (if ok then none else some .integer)
  else if k == [98,111,111,108] then                             -- "bool"
    if values.length > 1 then pure (some .count)
    else if values.length == 1 then do
      let v ← idx values 0
      if v != [] then do
        let v2 ← idx values 0
        pure (if inList (lower v2) boolWords then none else some .boolean)
      else pure none
    else pure none
  else if k == [97,110,121] || k == [115,116,114,105,110,103] then   -- "any", "string"
    pure (if values.length != 1 then some .count else none)
  else if k == [108,105,115,116] then                            -- "list"
    pure (if values.length == 0 then some .count else none)
  else if k == [100,117,114,97,116,105,111,110] then             -- "duration"
    if values.length > 1 then pure (some .count)
    else if values.length == 1 then do
      let v ← idx values 0
      if v != [] then do
        let v2 ← idx values 0
        pure (if P.parseDuration v2 then none else some .duration)
      else pure none
    else pure none
  else pure none                                                 -- "string|flag" and unknown type texts: no validation

/-- `util.ValidateParameters(u, validation)`: first error in the order the query map is visited -/
def validateParameters (P : Prims) (validation : Option (List (Str × Str))) : Query → G (Option PErr)
  | [] => pure none
  | (name, values) :: rest =>
    match mapGet (validation.getD []) name with                  -- a nil map reads as empty
    | some kind => do
      let e ← validateOne P kind values
      match e with
      | some err => pure (some err)
      | none => validateParameters P validation rest
    | none => pure (some .keyword)

structure Paging where
  status : Nat
  start : Int := 0
  limit : Int := 0
  deriving Repr, DecidableEq

/-- `validatePaging(session, w)` (serve.go); `route` is `session.Route`, `maxLimit0` the configured ceiling -/
def validatePaging (P : Prims) (route : Option Route) (parms : Query) (maxLimit0 : Int) : G Paging :=
  match route with
  | none => pure { status := 200 }
  | some r =>
    match r.parameters with
    | none => pure { status := 200 }
    | some ps =>
      let hasStart := (mapGet ps [115,116,97,114,116]).isSome    -- "start"
      let hasLimit := (mapGet ps [108,105,109,105,116]).isSome   -- "limit"
      if !hasStart && !hasLimit then pure { status := 200 } else
      let maxLimit := if maxLimit0 ≤ 0 then 1000 else maxLimit0
      do
        let start ← (if hasStart then
            let vals := (mapGet parms [115,116,97,114,116]).getD []
            if vals.length > 0 then do
              let v ← idx vals 0                                 -- vals[0]
              match P.strconvAtoi v with
              | some n => pure (if n < 0 then none else some n)
              | none => pure none
            else pure (some 0)
          else pure (some 0) : G (Option Int))
        match start with
        | none => pure { status := 400 }
        | some st =>
          if hasLimit then
            let vals := (mapGet parms [108,105,109,105,116]).getD []
            if vals.length > 0 then do
              let v ← idx vals 0                                 -- vals[0]
              match P.strconvAtoi v with
              | some n =>
                if n ≤ 0 then pure { status := 400 }
                else if n > maxLimit then pure { status := 400 }
                else pure { status := 200, start := st, limit := n }
              | none => pure { status := 400 }
            else pure { status := 200, start := st }
          else pure { status := 200, start := st }

/-! ### media types (util/media.go) and `requestWantsBrowserHTML` (serve.go) -/

def b (s : String) : Str := s.toUTF8.toList.map (·.toNat)

def commonMedia : List Str :=
  [b "application/json", b "application/text", b "text/plain", b "text/*", b "text", b "*/*"]

/-- `AcceptedMediaType` / `ContentMediaType` (same code on a different header): is some header value accepted?
`lowerFull` stands for `strings.ToLower`; the model uses the ASCII `lower`. -/
def mediaOK (headerValues : List Str) (validList : List Str) : Bool :=
  headerValues.any fun mt => inList (lower mt) commonMedia || contains (b "*/*") mt || inList mt validList

/-- the inner loop of requestWantsBrowserHTML over the comma-separated tokens of one Accept value:
`strings.TrimSpace(strings.SplitN(token, ";", 2)[0])` equals (case-insensitively) "text/html" -/
def htmlTokens : List Str → G Bool
  | [] => pure false
  | tok :: more => do
    let first ← idx (splitOn 59 tok) 0                          -- strings.SplitN(token, ";", 2)[0]
    if lower (trimSpace first) == b "text/html" then pure true else htmlTokens more

/-- `requestWantsBrowserHTML(r)` over `r.Header["Accept"]` -/
def wantsHTML : List Str → G Bool
  | [] => pure false
  | hv :: rest => do
    let hit ← htmlTokens (splitOn 44 hv)                        -- strings.Split(headerVal, ",")
    if hit then pure true else wantsHTML rest

/-! ### `(*Router).ServeHTTP` (serve.go): everything before the handler is called -/

structure Request where
  method : Str
  path : Str
  query : Query := []
  accept : List Str := []                 -- r.Header["Accept"]
  contentType : List Str := []            -- r.Header["Content-Type"]
  /-- outcome of `session.Authenticate(r)` and of the permission look-ups: arbitrary -/
  authenticated : Bool := false
  admin : Bool := false
  lockedOut : Bool := false
  userKnown : Bool := false
  granted : Str → Bool := fun _ => false
  hasBody : Bool := false                 -- r.Body != nil
  bodyTooLarge : Bool := false            -- MaxBytesReader tripped
  bodyValid : Bool := true                -- some validation of route.validations accepts the body
  maxItemLimit : Int := 0                 -- ego.server.max.item.limit

/-- the `*Session` built when `route != nil` -/
structure Session where
  route : Route
  urlParts : List (Str × PartVal)
  parameters : Query
  deriving Repr

inductive Resp where
  /-- the front end answered by itself; `html` = the browser not-found page -/
  | status (code : Nat) (html : Bool := false)
  | redirect (url : Str)
  /-- `session.handler(session, w, r)` is called with these inputs -/
  | handler (endpoint method : Str) (urlParts : List (Str × PartVal)) (start limit : Int)
  deriving Repr, DecidableEq

/-- `if route != nil { session = &Session{ URLParts: route.partsMap(r.URL.Path), Parameters: route.parmMap(r), … } }` -/
def mkSession (route : Option Route) (req : Request) : G (Option Session) :=
  match route with
  | some r => do
    let parts ← partsMap r.endpoint req.path
    pure (some { route := r, urlParts := parts, parameters := parmMap req.query })
  | none => pure none

/-- `needsAuth := route != nil && (route.mustAuthenticate || route.requiredPermissions != nil)` -/
def needsAuth (r : Route) : Bool := r.mustAuthenticate || r.permissions.isSome

/-- `if route != nil && (!route.lightweight || needsAuth) { LogRequest(r, session.ID); session.Authenticate(r); … }`:
the answers given before any further check (429 locked out, 403 not authenticated, 500 no handler) -/
def earlyChecks (route : Option Route) (session : Option Session) (req : Request) : G (Option Resp) :=
  match route with
  | some r =>
    if !r.lightweight || needsAuth r then do
      let _ ← deref session                                     -- session.ID, session.Authenticate(r)
      if req.lockedOut then pure (some (.status 429))
      else if !req.authenticated && needsAuth r then pure (some (.status 403))
      else if !r.hasHandler then pure (some (.status 500))
      else pure none
    else pure none
  | none => pure none

/-- the two `if route != nil && route.…MediaTypes != nil` blocks; an error response reads `session.Language` -/
def mediaCheck (route : Option Route) (session : Option Session) (req : Request) : G Nat :=
  match route with
  | some r =>
    let bad := (match r.accept with | some l => !mediaOK req.accept l | none => false) ||
               (match r.content with | some l => !mediaOK req.contentType l | none => false)
    if bad then do
      let _ ← deref session                                     -- session.Language
      pure 400
    else pure 200
  | none => pure 200

/-- `if status == http.StatusOK && (route.requiredPermissions != nil && !session.Admin) { … }`:
`route` and `session` are dereferenced WITHOUT a nil guard -/
def permCheck (route : Option Route) (session : Option Session) (req : Request) (status : Nat) : G Nat :=
  if status == 200 then do
    let r ← deref route                                         -- route.requiredPermissions
    match r.permissions with
    | some perms => do
      let _ ← deref session                                     -- session.Admin
      if !req.admin && !perms.all req.granted then
        pure (if !req.userKnown && r.canAuthenticate then 401 else 403)
      else pure 200
    | none => pure 200
  else pure status

/-- `route.Disallowed(session)` then `util.ValidateParameters(r.URL, route.parameters)` -/
def paramCheck (P : Prims) (r : Route) (sess : Session) (req : Request) (status : Nat) : G Nat :=
  if status == 200 then
    if disallowed r sess.parameters then pure 400
    else do
      let e ← validateParameters P r.parameters req.query
      pure (if e.isSome then 400 else 200)
  else pure status

/-- everything after paging: late 401, body size, body validation, the nil-handler guard, dispatch -/
def finish (r : Route) (sess : Session) (req : Request) (pg : Paging) : Resp :=
  if pg.status == 200 && r.mustAuthenticate && !req.authenticated && r.canAuthenticate then .status 401
  else if req.hasBody && req.bodyTooLarge then .status 413
  else
    let status := if pg.status == 200 && r.validations.length > 0 && req.hasBody && !req.bodyValid then 400 else pg.status
    if status == 200 then
      -- `if session.handler == nil { 500 } else { status = session.handler(session, w, r) }`
      if !r.hasHandler then .status 500 else .handler r.endpoint r.method sess.urlParts pg.start pg.limit
    else .status status

def serve (P : Prims) (tbl : List Route) (req : Request) : G Resp := do
  let (route, status0) ← findRoute tbl req.method req.path
  -- `defer route.Unlock()`: Unlock begins with `if r == nil { return r }`
  if status0 != 200 then
    if status0 == 404 then do
      let html ← wantsHTML req.accept                           -- requestWantsBrowserHTML(r)
      pure (.status 404 html)
    else pure (.status status0)
  else do
    let session ← mkSession route req
    let early ← earlyChecks route session req
    match early with
    | some resp => pure resp
    | none => do
      let status1 ← mediaCheck route session req
      let status2 ← permCheck route session req status1
      let sess ← deref session                                  -- `session.User != ""`: no nil guard
      let r ← deref route                                       -- `route.redirect != ""`: no nil guard
      if status2 == 200 && r.redirect != [] then pure (.redirect r.redirect)
      else do
        let status3 ← paramCheck P r sess req status2
        let pg ← (if status3 == 200 then validatePaging P (some sess.route) sess.parameters req.maxItemLimit
                  else pure { status := status3 } : G Paging)
        pure (finish r sess req pg)

end EgoVerif.C40
