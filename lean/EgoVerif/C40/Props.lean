import EgoVerif.C40.Model
/-
C40 — the request front end never panics.

`Total x` says that a computation in `G = Except Panic` returns a value.  Every Go partial operation of
the front end is a checked operation in Model.lean; the theorems below show, for ALL route tables,
methods, paths, query maps, header lists and authentication outcomes (and all behaviours of the external
parsers in `Prims`), that each checked operation is reached only with an index / bound / pointer for
which it succeeds.  Proofs are by induction over the segment, candidate and query lists.
-/
namespace EgoVerif.C40

def Total {α} (x : G α) : Prop := ∃ v, x = .ok v

theorem total_pure {α} (v : α) : Total (pure v : G α) := ⟨v, rfl⟩
theorem total_ok {α} (v : α) : Total (.ok v : G α) := ⟨v, rfl⟩

theorem total_bind {α β} {x : G α} {f : α → G β} (hx : Total x) (hf : ∀ v, Total (f v)) : Total (x >>= f) := by
  obtain ⟨v, rfl⟩ := hx
  exact hf v

/-- the form `do let v ← x; f v` takes after unfolding -/
theorem total_bind' {α β} {x : G α} {f : α → G β} (hx : Total x) (hf : ∀ v, x = .ok v → Total (f v)) :
    Total (x >>= f) := by
  obtain ⟨v, rfl⟩ := hx
  exact hf v rfl

theorem not_total_error {α} (e : Panic) : ¬ Total (.error e : G α) := by
  rintro ⟨v, h⟩; cases h

/-! ### the checked operations succeed exactly inside their bounds -/

theorem idx_ok {α} (xs : List α) (i : Nat) (h : i < xs.length) : idx xs i = .ok xs[i] := by
  simp [idx, List.getElem?_eq_getElem h]

theorem idx_total {α} (xs : List α) (i : Nat) (h : i < xs.length) : Total (idx xs i) := ⟨_, idx_ok xs i h⟩

theorem idx_panics {α} (xs : List α) (i : Nat) (h : xs.length ≤ i) : idx xs i = .error .index := by
  simp [idx, List.getElem?_eq_none h]

theorem sliceFrom_total {α} (xs : List α) (lo : Int) (h0 : 0 ≤ lo) (h1 : lo ≤ xs.length) :
    sliceFrom xs lo = .ok (xs.drop lo.toNat) := by
  simp [sliceFrom, h0, h1]

theorem sliceTo_total {α} (xs : List α) (hi : Int) (h0 : 0 ≤ hi) (h1 : hi ≤ xs.length) :
    sliceTo xs hi = .ok (xs.take hi.toNat) := by
  simp [sliceTo, h0, h1]

theorem slice_total {α} (xs : List α) (lo hi : Int) (h0 : 0 ≤ lo) (h1 : lo ≤ hi) (h2 : hi ≤ xs.length) :
    slice xs lo hi = .ok ((xs.take hi.toNat).drop lo.toNat) := by
  simp [slice, h0, h1, h2]

/-- `strings.Split` never returns an empty slice -/
theorem splitGo_ne_nil (sep : Nat) (s cur : Str) : splitGo sep s cur ≠ [] := by
  induction s generalizing cur with
  | nil => simp [splitGo]
  | cons c rest ih =>
    unfold splitGo
    split
    · simp
    · exact ih _

theorem splitOn_length_pos (sep : Nat) (s : Str) : 0 < (splitOn sep s).length := by
  have := splitGo_ne_nil sep s []
  unfold splitOn
  exact List.length_pos_iff.mpr this

/-! ### FindRoute -/

theorem maskLoop_total (tp : List Str) (eps : List Str) (i : Nat) (acc : List Str) :
    Total (maskLoop tp eps i acc) := by
  induction eps generalizing i acc with
  | nil => exact total_pure _
  | cons ep rest ih =>
    unfold maskLoop
    by_cases hg : isGlob ep = true
    · simp only [hg, if_true]
      by_cases hi : i < tp.length
      · simp only [hi, if_true]
        have h1 : sliceFrom tp ((i : Int) + 1) = .ok (tp.drop ((i : Int) + 1).toNat) :=
          sliceFrom_total tp _ (by omega) (by omega)
        rw [h1]
        simp only [bind, Except.bind]
        have hlen : (((acc ++ [ep]) ++ tp.drop ((i : Int) + 1).toNat).length : Int)
            = (acc.length : Int) + 1 + ((tp.length : Int) - ((i : Int) + 1)) := by
          simp only [List.length_append, List.length_drop, List.length_cons, List.length_nil]
          omega
        have h2 := sliceTo_total ((acc ++ [ep]) ++ tp.drop ((i : Int) + 1).toNat)
          ((((acc ++ [ep]) ++ tp.drop ((i : Int) + 1).toNat).length : Int) - ((tp.length : Int) - (i : Int) - 1))
          (by rw [hlen]; omega) (by omega)
        rw [h2]
        exact total_pure _
      · simp only [hi, if_false]
        exact total_pure _
    · simp only [hg, Bool.false_eq_true, if_false]
      by_cases hv : isVar ep = true
      · simp only [hv, if_true]; exact ih _ _
      · simp only [hv, Bool.false_eq_true, if_false]
        by_cases hge : i ≥ tp.length
        · simp only [hge, if_true]; exact ih _ _
        · simp only [hge, if_false]
          rw [idx_ok tp i (by omega)]
          exact ih _ _

theorem globIdxGo_le (eps : List Str) (i : Nat) : globIdxGo eps i ≤ i + eps.length := by
  induction eps generalizing i with
  | nil => simp [globIdxGo]
  | cons p rest ih =>
    unfold globIdxGo
    split
    · simp
    · have := ih (i + 1); simp only [List.length_cons]; omega

theorem prefixLoop_total (tp : List Str) (ps : List Str) (i : Nat) (h : i + ps.length ≤ tp.length) :
    Total (prefixLoop tp ps i) := by
  induction ps generalizing i with
  | nil => exact total_pure _
  | cons p rest ih =>
    unfold prefixLoop
    simp only [List.length_cons] at h
    rw [idx_ok tp i (by omega)]
    simp only [bind, Except.bind]
    split
    · exact total_pure _
    · exact ih _ (by omega)

theorem routeMatches_total (path endpoint : Str) : Total (routeMatches path endpoint) := by
  unfold routeMatches
  apply total_bind (maskLoop_total _ _ _ _)
  rintro ⟨masked, glob⟩
  cases glob with
  | false => exact total_pure _
  | true =>
    simp only [if_true]
    have hle := globIdxGo_le (split (normalize endpoint)) 0
    have h := sliceTo_total (split (normalize endpoint)) (globIdxGo (split (normalize endpoint)) 0 : Nat)
      (by omega) (by omega)
    rw [h]
    simp only [bind, Except.bind]
    split
    · apply prefixLoop_total
      simp only [Int.toNat_natCast, List.length_take]
      omega
    · exact total_pure _

theorem candidates_total (method path : Str) (tbl : List Route) : Total (candidates method path tbl) := by
  induction tbl with
  | nil => exact total_pure _
  | cons r rest ih =>
    unfold candidates
    split
    · exact total_bind ih (fun _ => total_pure _)
    · exact total_bind (routeMatches_total _ _) (fun _ => total_bind ih (fun _ => total_pure _))

/-- after the fewest-variables scan has looked at one candidate, `fewestVariables` is not nil -/
theorem fewLoop_some (cs : List Route) (st st' : Few) (h : fewLoop cs st = .inr st')
    (hs : st.fewest.isSome ∨ cs ≠ []) : st'.fewest.isSome := by
  induction cs generalizing st with
  | nil =>
    simp only [fewLoop, Sum.inr.injEq] at h
    subst h
    rcases hs with hs | hs
    · exact hs
    · exact absurd rfl hs
  | cons c rest ih =>
    unfold fewLoop at h
    split at h
    · cases h
    · apply ih _ h
      left
      by_cases hn : st.fewest.isNone = true
      · simp only [hn, Bool.true_or, if_true]
        split <;> rfl
      · have hsome : st.fewest.isSome = true := by
          cases hf : st.fewest with
          | none => simp [hf] at hn
          | some _ => rfl
        simp only [Bool.not_eq_true] at hn
        simp only [hn, Bool.false_or]
        split <;> split <;> first | rfl | exact hsome

theorem longestLoop_total (cands : List Route) (fuel index longest : Nat) (h : longest < cands.length) :
    ∃ k, longestLoop cands fuel index longest = .ok k ∧ k < cands.length := by
  induction fuel generalizing index longest with
  | zero => exact ⟨longest, rfl, h⟩
  | succ fuel ih =>
    unfold longestLoop
    by_cases hi : index < cands.length
    · simp only [hi, if_true]
      rw [idx_ok cands index hi, idx_ok cands longest h]
      simp only [bind, Except.bind]
      split
      · exact ih _ _ hi
      · exact ih _ _ h
    · simp only [hi, if_false]
      exact ⟨longest, rfl, h⟩

/-- FindRoute's final switch returns a value, and with status 200 the route is never nil -/
theorem selectRoute_spec (method path : Str) (cands : List Route) :
    ∃ r st, selectRoute method path cands = .ok (r, st) ∧ (st = 200 → r.isSome) ∧ (r = none → st = 404 ∨ st = 405) := by
  unfold selectRoute
  match hc : cands with
  | [] => exact ⟨none, 404, rfl, by simp, by simp⟩
  | [c] =>
    simp only [List.length_cons, List.length_nil]
    rw [idx_ok [c] 0 (by simp)]
    simp only [bind, Except.bind, List.getElem_cons_zero]
    split
    · exact ⟨some c, 200, rfl, by simp, by simp⟩
    · exact ⟨none, 405, rfl, by simp, by simp⟩
  | c :: d :: rest =>
    simp only [List.length_cons]
    split
    · exact ⟨_, 200, rfl, by simp, by simp⟩
    · split
      · exact ⟨_, 200, rfl, by simp, by simp⟩
      · rename_i st hst
        split
        · have hsome := fewLoop_some (c :: d :: rest) {} st hst (Or.inr (by simp))
          cases hf : st.fewest with
          | none => simp [hf] at hsome
          | some f =>
            simp only [deref, bind, Except.bind]
            exact ⟨some f, 200, rfl, by simp, by simp⟩
        · split
          · exact ⟨_, 200, rfl, by simp, by simp⟩
          · obtain ⟨k, hk, hlt⟩ := longestLoop_total (c :: d :: rest) (rest.length + 1 + 1) 1 0 (by simp)
            rw [hk]
            simp only [bind, Except.bind]
            rw [idx_ok _ k hlt]
            exact ⟨_, 200, rfl, by simp, by simp⟩

theorem findRoute_spec (tbl : List Route) (method path : Str) :
    ∃ r st, findRoute tbl method path = .ok (r, st) ∧ (st = 200 → r.isSome) ∧ (r = none → st = 404 ∨ st = 405) := by
  unfold findRoute
  obtain ⟨cs, hcs⟩ := candidates_total (upper method) (normalize path) tbl
  show ∃ r st, (candidates (upper method) (normalize path) tbl >>= fun cs =>
      selectRoute (upper method) (normalize path) (sortRoutes cs)) = .ok (r, st) ∧ _ ∧ _
  rw [hcs]
  exact selectRoute_spec _ _ _

/-- **FindRoute never panics** — no index, slice or nil fault for any table, method and path. -/
theorem C40_findRoute_total (tbl : List Route) (method path : Str) : Total (findRoute tbl method path) := by
  obtain ⟨r, st, h, _⟩ := findRoute_spec tbl method path
  exact ⟨_, h⟩

/-- **A found route is never nil**: FindRoute answers status 200 only together with a route, which is what makes
the unguarded `route.requiredPermissions`, `session.User`, `route.redirect`, `route.lightweight` in ServeHTTP safe. -/
theorem C40_found_route_non_nil (tbl : List Route) (method path : Str) (r : Option Route)
    (h : findRoute tbl method path = .ok (r, 200)) : r.isSome := by
  obtain ⟨r', st, h', h200, _⟩ := findRoute_spec tbl method path
  rw [h] at h'
  cases h'
  exact h200 rfl

/-! ### partsMap -/

theorem partsLoop_total (pp : List Str) (pat : List Str) (i : Nat) (m : List (Str × PartVal)) :
    Total (partsLoop pp pat i m) := by
  induction pat generalizing i m with
  | nil => exact total_pure _
  | cons part rest ih =>
    unfold partsLoop
    split
    · split
      · rename_i hi
        rw [sliceFrom_total pp (i : Int) (by omega) (by omega)]
        exact total_pure _
      · exact total_pure _
    · split
      · split
        · rename_i hi
          rw [idx_ok pp i hi]
          exact ih _ _
        · exact ih _ _
      · split
        · exact ih _ _
        · rename_i hi
          rw [idx_ok pp i (by omega)]
          exact ih _ _

/-- **partsMap never panics**: `segments[0]`, `pathParts[index:]`, `pathParts[index]` are always in range. -/
theorem C40_partsMap_total (endpoint path : Str) : Total (partsMap endpoint path) := by
  have h := idx_ok (splitOn 63 (trimSlashes path)) 0 (splitOn_length_pos _ _)
  simp only [partsMap, h, bind, Except.bind]
  exact partsLoop_total _ _ _ _

/-! ### parameter validation -/

/-- a string whose first two (lower-cased) bytes are a radix prefix has at least two bytes -/
theorem hasPrefix_two_len (s : Str) (a c : Nat) (h : hasPrefix (lower (s.take (min s.length 2))) [a, c] = true) :
    2 ≤ s.length := by
  match s with
  | [] => simp [hasPrefix, lower] at h
  | [_] => simp [hasPrefix, lower] at h
  | _ :: _ :: _ => simp

theorem egoAtoi_total (P : Prims) (s0 : Str) : Total (egoAtoi P s0) := by
  unfold egoAtoi
  generalize trimSpace s0 = s
  have hq : Total (if s.length > 1 then (do
      let a ← idx s 0
      if a = 39 then (do
        let b ← idx s (s.length - 1)
        pure (b == 39))
      else pure false)
    else pure false : G Bool) := by
    split
    · rename_i h
      rw [idx_ok s 0 (by omega)]
      simp only [bind, Except.bind]
      split
      · rw [idx_ok s (s.length - 1) (by omega)]
        exact total_pure _
      · exact total_pure _
    · exact total_pure _
  apply total_bind' hq
  intro quoted hquoted
  cases quoted with
  | true =>
    simp only [if_true]
    have hlen : s.length > 1 := by
      by_cases hn : s.length > 1
      · exact hn
      · simp only [hn, if_false] at hquoted
        cases hquoted
    rw [slice_total s 1 ((s.length : Int) - 1) (by omega) (by omega) (by omega)]
    exact total_pure _
  | false =>
    simp only [Bool.false_eq_true, if_false]
    rw [sliceTo_total s (min s.length 2 : Nat) (by omega) (by omega)]
    simp only [bind, Except.bind, Int.toNat_natCast]
    split
    · rename_i b hb
      have h2 : 2 ≤ s.length := by
        split at hb
        · rename_i h; exact hasPrefix_two_len s _ _ h
        · split at hb
          · rename_i h; exact hasPrefix_two_len s _ _ h
          · split at hb
            · rename_i h; exact hasPrefix_two_len s _ _ h
            · cases hb
      rw [sliceFrom_total s 2 (by omega) (by omega)]
      simp only []
      split <;> exact total_pure _
    · exact total_pure _

theorem validateOne_total (P : Prims) (kind : Str) (values : List Str) : Total (validateOne P kind values) := by
  unfold validateOne
  simp only []
  split
  · split
    · exact total_pure _
    · rename_i h
      have h1 : values.length = 1 := by simpa using h
      rw [idx_ok values 0 (by omega)]
      exact total_pure _
  · split
    · split
      · exact total_pure _
      · rename_i h
        have h1 : values.length = 1 := by simpa using h
        rw [idx_ok values 0 (by omega)]
        simp only [bind, Except.bind]
        obtain ⟨ok, hok⟩ := egoAtoi_total P values[0]
        rw [hok]
        exact total_pure _
    · split
      · split
        · exact total_pure _
        · split
          · rename_i h
            have h1 : values.length = 1 := by simpa using h
            rw [idx_ok values 0 (by omega)]
            simp only [bind, Except.bind]
            split
            · exact total_pure _
            · exact total_pure _
          · exact total_pure _
      · split
        · exact total_pure _
        · split
          · exact total_pure _
          · split
            · split
              · exact total_pure _
              · split
                · rename_i h
                  have h1 : values.length = 1 := by simpa using h
                  rw [idx_ok values 0 (by omega)]
                  simp only [bind, Except.bind]
                  split
                  · exact total_pure _
                  · exact total_pure _
                · exact total_pure _
            · exact total_pure _

/-- **ValidateParameters never panics**, whatever the query map, the declared types and the parsers do. -/
theorem C40_validateParameters_total (P : Prims) (validation : Option (List (Str × Str))) (q : Query) :
    Total (validateParameters P validation q) := by
  induction q with
  | nil => exact total_pure _
  | cons kv rest ih =>
    obtain ⟨name, values⟩ := kv
    unfold validateParameters
    split
    · apply total_bind (validateOne_total P _ _)
      intro e
      cases e with
      | some err => exact total_pure _
      | none => exact ih
    · exact total_pure _

/-- reading `vals[0]` under `len(vals) > 0` -/
theorem first_total (vals : List Str) {β} (f : Str → G β) (hf : ∀ v, Total (f v)) (g : G β) (hg : Total g) :
    Total (if vals.length > 0 then (idx vals 0 >>= f) else g) := by
  split
  · rename_i h
    rw [idx_ok vals 0 h]
    exact hf _
  · exact hg

/-- **validatePaging never panics**: nil route, nil parameter map, absent / empty / repeated start and limit. -/
theorem C40_validatePaging_total (P : Prims) (route : Option Route) (parms : Query) (maxLimit : Int) :
    Total (validatePaging P route parms maxLimit) := by
  unfold validatePaging
  split
  · exact total_pure _
  · split
    · exact total_pure _
    · simp only []
      split
      · exact total_pure _
      · apply total_bind
        · split
          · apply first_total
            · intro v; split <;> exact total_pure _
            · exact total_pure _
          · exact total_pure _
        · intro start
          cases start with
          | none => exact total_pure _
          | some st =>
            simp only []
            split
            · apply first_total
              · intro v
                repeat' split
                all_goals exact total_pure _
              · exact total_pure _
            · exact total_pure _

theorem htmlTokens_total (toks : List Str) : Total (htmlTokens toks) := by
  induction toks with
  | nil => exact total_pure _
  | cons tok more ih =>
    unfold htmlTokens
    rw [idx_ok _ 0 (splitOn_length_pos 59 tok)]
    simp only [bind, Except.bind]
    split
    · exact total_pure _
    · exact ih

/-- **requestWantsBrowserHTML never panics**: `strings.SplitN(token, ";", 2)[0]` always exists. -/
theorem C40_wantsHTML_total (accept : List Str) : Total (wantsHTML accept) := by
  induction accept with
  | nil => exact total_pure _
  | cons hv rest ih =>
    unfold wantsHTML
    apply total_bind (htmlTokens_total _)
    intro hit
    cases hit with
    | true => exact total_pure _
    | false => exact ih

/-! ### ServeHTTP up to the handler call -/

theorem mkSession_spec (route : Option Route) (req : Request) :
    ∃ s, mkSession route req = .ok s ∧ (route.isSome → s.isSome) := by
  unfold mkSession
  cases route with
  | none => exact ⟨none, rfl, by simp⟩
  | some r =>
    obtain ⟨parts, hp⟩ := C40_partsMap_total r.endpoint req.path
    simp only [hp, bind, Except.bind]
    exact ⟨_, rfl, by simp⟩

theorem ok_bind {α β} (v : α) (f : α → G β) : ((Except.ok v : G α) >>= f) = f v := rfl

theorem earlyChecks_total (r : Route) (sess : Session) (req : Request) :
    Total (earlyChecks (some r) (some sess) req) := by
  unfold earlyChecks
  simp only [deref, ok_bind]
  repeat' split
  all_goals exact total_pure _

theorem mediaCheck_total (r : Route) (sess : Session) (req : Request) :
    Total (mediaCheck (some r) (some sess) req) := by
  unfold mediaCheck
  simp only [deref, ok_bind]
  generalize ((match r.accept with | some l => !mediaOK req.accept l | none => false) ||
      (match r.content with | some l => !mediaOK req.contentType l | none => false)) = bad
  cases bad <;> exact total_pure _

theorem permCheck_total (r : Route) (sess : Session) (req : Request) (status : Nat) :
    Total (permCheck (some r) (some sess) req status) := by
  unfold permCheck
  simp only [deref, ok_bind]
  repeat' split
  all_goals exact total_pure _

theorem paramCheck_total (P : Prims) (r : Route) (sess : Session) (req : Request) (status : Nat) :
    Total (paramCheck P r sess req status) := by
  unfold paramCheck
  split
  · split
    · exact total_pure _
    · exact total_bind (C40_validateParameters_total P _ _) (fun _ => total_pure _)
  · exact total_pure _

/-- **The request front end never panics.**  For every route table, request method, path, query map, Accept and
Content-Type header lists, every outcome of authentication / permission look-ups / body reading, and every
behaviour of the external parsers, `ServeHTTP` reaches either its own response or the handler call without an
index, slice-bounds, nil-pointer or nil-function fault. -/
theorem C40_frontend_total (P : Prims) (tbl : List Route) (req : Request) : Total (serve P tbl req) := by
  unfold serve
  obtain ⟨route, st, hfr, h200, _⟩ := findRoute_spec tbl req.method req.path
  rw [hfr, ok_bind]
  simp only []
  by_cases hst : (st != 200) = true
  · simp only [hst, if_true]
    split
    · exact total_bind (C40_wantsHTML_total req.accept) (fun _ => total_pure _)
    · exact total_pure _
  · simp only [hst, Bool.false_eq_true, if_false]
    have hst' : st = 200 := by simpa using hst
    have hsome := h200 hst'
    cases route with
    | none => simp at hsome
    | some r =>
      obtain ⟨s, hs, hss⟩ := mkSession_spec (some r) req
      rw [hs, ok_bind]
      have hs2 := hss rfl
      cases s with
      | none => simp at hs2
      | some sess =>
        apply total_bind (earlyChecks_total r sess req)
        intro early
        cases early with
        | some resp => exact total_pure _
        | none =>
          simp only []
          apply total_bind (mediaCheck_total r sess req)
          intro status1
          apply total_bind (permCheck_total r sess req status1)
          intro status2
          simp only [deref, ok_bind]
          split
          · exact total_pure _
          · apply total_bind (paramCheck_total P r sess req status2)
            intro status3
            apply total_bind
            · split
              · exact C40_validatePaging_total P _ _ _
              · exact total_pure _
            · intro pg
              exact total_pure _

/-! ### the theorems are not vacuous: the same loop without its guard does panic -/

instance instDecEqExcept {ε α} [DecidableEq ε] [DecidableEq α] : DecidableEq (Except ε α) := fun a c =>
  match a, c with
  | .ok x, .ok y => if h : x = y then isTrue (by rw [h]) else isFalse (by intro h'; cases h'; exact h rfl)
  | .error x, .error y => if h : x = y then isTrue (by rw [h]) else isFalse (by intro h'; cases h'; exact h rfl)
  | .ok _, .error _ => isFalse (by intro h; cases h)
  | .error _, .ok _ => isFalse (by intro h; cases h)

/-- FindRoute's masking loop WITHOUT the guard `if i < len(testParts)` around the glob slice -/
def maskLoopUnguarded (testParts : List Str) : List Str → Nat → List Str → G (List Str × Bool)
  | [], _, acc => pure (acc, false)
  | ep :: rest, i, acc =>
    if isGlob ep then do
      let acc1 := acc ++ [ep]
      let tail ← sliceFrom testParts ((i : Int) + 1)
      let acc2 := acc1 ++ tail
      let acc3 ← sliceTo acc2 ((acc2.length : Int) - ((testParts.length : Int) - (i : Int) - 1))
      pure (acc3, true)
    else if isVar ep then maskLoopUnguarded testParts rest (i + 1) (acc ++ [ep])
    else if i ≥ testParts.length then maskLoopUnguarded testParts rest (i + 1) (acc ++ [ep])
    else do
      let t ← idx testParts i
      maskLoopUnguarded testParts rest (i + 1) (acc ++ [t])

/-- path "/" against the pattern "/a/b/{{x...}}/": without the guard the slice `testParts[4:]` of a two-element
slice is out of range — the model can express the fault, and the guard in the code is what prevents it. -/
theorem C40_unguarded_loop_panics :
    maskLoopUnguarded (split [47]) (split [47, 97, 47, 98, 47, 123, 123, 120, 46, 46, 46, 125, 125, 47]) 0 []
      = .error .slice := by decide

example : maskLoop (split [47]) (split [47, 97, 47, 98, 47, 123, 123, 120, 46, 46, 46, 125, 125, 47]) 0 []
    = .ok ([[], [], [98], [123, 123, 120, 46, 46, 46, 125, 125]], true) := by decide

example : idx ([] : List Nat) 0 = .error .index := by decide
example : deref (none : Option Nat) = .error .nilDeref := by decide

def noPrims : Prims := ⟨fun _ => none, fun _ _ => none, fun _ => 0, fun _ => false⟩

/-- a request that goes all the way to the handler: GET /u/bob?limit=… is refused (400, not an integer for these
parsers), GET /u/bob reaches the handler of "/u/{{name}}" with name = "bob" -/
example : serve noPrims
    [{ endpoint := [47, 117, 47, 123, 123, 110, 125, 125], method := [71, 69, 84] }]
    { method := [71, 69, 84], path := [47, 117, 47, 98, 111, 98] }
    = .ok (.handler [47, 117, 47, 123, 123, 110, 125, 125] [71, 69, 84] [([117], .bool true), ([110], .str [98, 111, 98])] 0 0) := by
  decide

/-- a path that matches nothing is answered 404 by the front end itself -/
example : serve noPrims
    [{ endpoint := [47, 117, 47, 123, 123, 110, 125, 125], method := [71, 69, 84] }]
    { method := [71, 69, 84], path := [47, 120] } = .ok (.status 404) := by decide

end EgoVerif.C40
