import EgoVerif.Common.Drv
import EgoVerif.C36.Model
/- line protocol:
   `run <target> <tmp> <bak> <new> <ops>` → `<target> <tmp> <bak>` | `fail <index of the failing operation> <target> <tmp> <bak>`
   contents are `absent` | `-` (empty file) | hex; `<new>` is `-` | hex;
   `<ops>` is a comma separated list of `createExcl:tmp`, `rename:tmp:target`, … (`none` = no operation)
   `check <ops>` → `atomic=<0|1> clean=<0|1> rerun=<0|1>` -/
namespace EgoVerif.C36

def parseContent (s : String) : Option (Option Bytes) :=
  if s == "absent" then some none
  else if s == "-" then some (some [])
  else (bytesOfHex s).map some

def showContent : Option Bytes → String
  | none => "absent"
  | some [] => "-"
  | some b => hexOfBytes b

def parseName (s : String) : Option Name :=
  if s == "target" then some .target else if s == "tmp" then some .tmp else if s == "bak" then some .bak else none

def parseOp (s : String) : Option Op :=
  match s.splitOn ":" with
  | [o, a] =>
    match parseName a with
    | none => none
    | some n =>
      if o == "createExcl" then some (.createExcl n) else if o == "createTrunc" then some (.createTrunc n)
      else if o == "write" then some (.write n) else if o == "close" then some (.close n)
      else if o == "sync" then some (.sync n) else if o == "stat" then some (.stat n)
      else if o == "chmod" then some (.chmod n) else if o == "remove" then some (.remove n) else none
  | [o, a, b] =>
    match parseName a, parseName b with
    | some x, some y => if o == "rename" then some (.rename x y) else none
    | _, _ => none
  | _ => none

def parseOps (s : String) : Option (List Op) :=
  if s == "none" then some [] else (s.splitOn ",").mapM parseOp

def showFS (s : FS) : String :=
  showContent (s .target) ++ " " ++ showContent (s .tmp) ++ " " ++ showContent (s .bak)

/-- run until an operation fails; reports the index of the failing operation and the state there -/
def runShow (new : Bytes) : FS → List Op → Nat → String
  | fs, [], _ => showFS fs
  | fs, op :: ops, i =>
    match exec new fs op with
    | none => s!"fail {i} " ++ showFS fs
    | some fs' => runShow new fs' ops (i + 1)

def b01 (b : Bool) : String := if b then "1" else "0"

def handle (line : String) : String :=
  match fields line with
  | ["run", t, m, b, nw, ops] =>
    match parseContent t, parseContent m, parseContent b, parseContent nw, parseOps ops with
    | some t, some m, some b, some (some nw), some ops =>
      let fs : FS := fun n => match n with
        | .target => t
        | .tmp => m
        | .bak => b
      runShow nw fs ops 0
    | _, _, _, _, _ => "bad-input"
  | ["check", ops] =>
    match parseOps ops with
    | some ops => s!"atomic={b01 (checkAtomic ops)} clean={b01 (checkClean ops)} rerun={b01 (checkRerun ops)}"
    | none => "bad-input"
  | _ => "bad-op"

def drv : Drv := Drv.pure handle

end EgoVerif.C36
