import EgoVerif.C36.Model
/-
C36 — crash safety of rewriteFile.

General results (for ANY operation list, used on the list extracted from the source):
  * `C36_atomic_of_check`  checkAtomic ops → in every crash state the target holds the complete
                            original or the complete new content (whatever stale temp/backup exists);
  * `C36_clean_of_check`   checkClean ops  → a complete run leaves target = new, no temp, no backup;
  * `C36_rerun_of_check`   checkRerun ops  → after a crash at any point of a first run, a later complete
                            run leaves exactly the new file, and a crash state whose target already is
                            the new content has no temp/backup.
Instances for the fixed code: `C36_atomic`, `C36_clean`, `C36_later_run_clean`;
for the code before the fix: `C36_old_counterexample` (the path does not exist after the 6th operation).
-/
namespace EgoVerif.C36

/-- concretisation of an abstract value -/
def γ (orig new : Bytes) : AV → Option Bytes → Prop
  | .absent, v => v = none
  | .orig, v => v = some orig
  | .new, v => v = some new
  | .empty, v => v = some []
  | .any, _ => True

def R (orig new : Bytes) (a : AFS) (fs : FS) : Prop := ∀ n, γ orig new (a n) (fs n)

theorem R_set {orig new : Bytes} {a : AFS} {fs : FS} (h : R orig new a fs) (n : Name) (av : AV) (v : Option Bytes)
    (hv : γ orig new av v) : R orig new (a.set n av) (fs.set n v) := by
  intro m
  unfold AFS.set FS.set
  by_cases hm : m = n
  · simp [hm, hv]
  · simp [hm, h m]

theorem γ_any (orig new : Bytes) (v : Option Bytes) : γ orig new .any v := trivial

/-- one operation: if it succeeds concretely, the abstract step succeeds and over-approximates it -/
theorem aexec_sound (orig new : Bytes) (a : AFS) (fs fs' : FS) (op : Op) (h : R orig new a fs)
    (he : exec new fs op = some fs') : ∃ a', aexec a op = some a' ∧ R orig new a' fs' := by
  cases op with
  | createExcl n =>
    have hn := h n
    simp only [exec] at he
    cases hf : fs n with
    | some c => rw [hf] at he; cases he
    | none =>
      rw [hf] at he hn
      cases he
      simp only [aexec]
      cases ha : a n <;> rw [ha] at hn <;> simp only [γ] at hn <;> simp only []
      · exact ⟨_, rfl, R_set h n .empty (some []) rfl⟩
      · cases hn
      · cases hn
      · cases hn
      · exact ⟨_, rfl, R_set h n .empty (some []) rfl⟩
  | createTrunc n => cases he; exact ⟨_, rfl, R_set h n .empty (some []) rfl⟩
  | write n =>
    have hn := h n
    simp only [exec] at he
    cases hf : fs n with
    | none => rw [hf] at he; cases he
    | some c =>
      rw [hf] at he hn
      cases he
      simp only [aexec]
      cases ha : a n <;> rw [ha] at hn <;> simp only [γ] at hn <;> simp only []
      · cases hn
      · exact ⟨_, rfl, R_set h n .any _ trivial⟩
      · exact ⟨_, rfl, R_set h n .any _ trivial⟩
      · cases hn; exact ⟨_, rfl, R_set h n .new _ (by simp [γ])⟩
      · exact ⟨_, rfl, R_set h n .any _ trivial⟩
  | close n => cases he; exact ⟨_, rfl, h⟩
  | sync n => cases he; exact ⟨_, rfl, h⟩
  | stat n => cases he; exact ⟨_, rfl, h⟩
  | chmod n => cases he; exact ⟨_, rfl, h⟩
  | rename x y =>
    have hx := h x
    simp only [exec] at he
    cases hf : fs x with
    | none => rw [hf] at he; cases he
    | some c =>
      rw [hf] at he hx
      simp only [aexec]
      by_cases hxy : x = y
      · simp only [hxy, if_true] at he ⊢
        cases he
        cases ha : a y <;> simp only []
        · subst hxy; rw [ha] at hx; cases hx
        all_goals exact ⟨_, rfl, h⟩
      · simp only [hxy, if_false] at he ⊢
        cases he
        cases ha : a x <;> rw [ha] at hx <;> simp only [γ] at hx <;> simp only []
        · cases hx
        · exact ⟨_, rfl, R_set (R_set h y .orig _ hx) x .absent none rfl⟩
        · exact ⟨_, rfl, R_set (R_set h y .new _ hx) x .absent none rfl⟩
        · exact ⟨_, rfl, R_set (R_set h y .empty _ hx) x .absent none rfl⟩
        · exact ⟨_, rfl, R_set (R_set h y .any _ trivial) x .absent none rfl⟩
  | remove n => cases he; exact ⟨_, rfl, R_set h n .absent none rfl⟩

/-- an operation the abstract state says must succeed does succeed -/
theorem amust_sound (orig new : Bytes) (a : AFS) (fs : FS) (op : Op) (h : R orig new a fs)
    (hm : amust a op = true) : ∃ fs', exec new fs op = some fs' := by
  cases op with
  | createExcl n =>
    have hn := h n
    simp only [amust, beq_iff_eq] at hm
    rw [hm] at hn
    simp only [γ] at hn
    simp [exec, hn]
  | write n =>
    have hn := h n
    simp only [amust, Bool.and_eq_true, bne_iff_ne, ne_eq] at hm
    cases ha : a n <;> rw [ha] at hn hm <;> simp only [γ] at hn <;> simp at hm <;> simp [exec, hn]
  | rename x y =>
    have hx := h x
    simp only [amust, Bool.and_eq_true, bne_iff_ne, ne_eq] at hm
    cases ha : a x <;> rw [ha] at hx hm <;> simp only [γ] at hx <;> simp at hm <;>
      (by_cases hxy : x = y
       · subst hxy; simp [exec, hx]
       · simp [exec, hx, hxy])
  | createTrunc n => exact ⟨_, rfl⟩
  | close n => exact ⟨_, rfl⟩
  | sync n => exact ⟨_, rfl⟩
  | stat n => exact ⟨_, rfl⟩
  | chmod n => exact ⟨_, rfl⟩
  | remove n => exact ⟨_, rfl⟩

theorem arunMust_sound (orig new : Bytes) (ops : List Op) (a a' : AFS) (fs : FS) (h : R orig new a fs)
    (hr : arunMust a ops = some a') : ∃ s, run new fs ops = some s ∧ R orig new a' s := by
  induction ops generalizing a fs with
  | nil => simp only [arunMust] at hr; cases hr; exact ⟨fs, rfl, h⟩
  | cons op ops ih =>
    simp only [arunMust] at hr
    split at hr
    · rename_i hm
      obtain ⟨fs', he⟩ := amust_sound orig new a fs op h hm
      obtain ⟨a1, ha1, hr1⟩ := aexec_sound orig new a fs fs' op h he
      rw [ha1] at hr
      obtain ⟨s, hs, hrs⟩ := ih a1 fs' hr1 hr
      exact ⟨s, by simp [run, he, hs], hrs⟩
    · cases hr

/-- every crash state is described by one of the abstract crash states -/
theorem acrash_sound (orig new : Bytes) (ops : List Op) (a : AFS) (fs s : FS) (h : R orig new a fs)
    (hs : Crash new fs ops s) : ∃ a' ∈ acrash a ops, R orig new a' s := by
  induction ops generalizing a fs with
  | nil =>
    simp only [Crash] at hs
    subst hs
    exact ⟨a, by simp [acrash], h⟩
  | cons op ops ih =>
    simp only [Crash] at hs
    rcases hs with hs | ⟨n, c, j, hop, hc, hs⟩ | ⟨fs', he, hs⟩
    · subst hs
      exact ⟨a, by simp [acrash], h⟩
    · subst hs hop
      exact ⟨a.set n .any, by simp [acrash], R_set h n .any _ trivial⟩
    · obtain ⟨a1, ha1, hr1⟩ := aexec_sound orig new a fs fs' op h he
      obtain ⟨a', ha', hr⟩ := ih a1 fs' hr1 hs
      exact ⟨a', by simp [acrash, ha1, ha'], hr⟩

/-- `Crash` contains the state after every prefix of the operation list that can be executed -/
theorem crash_prefix (new : Bytes) (ops : List Op) (fs s : FS) (k : Nat)
    (h : run new fs (ops.take k) = some s) : Crash new fs ops s := by
  induction ops generalizing fs k with
  | nil => simp [run] at h; simp [Crash, h]
  | cons op ops ih =>
    cases k with
    | zero => simp [run] at h; simp [Crash, h]
    | succ k =>
      simp only [List.take_succ_cons, run] at h
      simp only [Crash]
      right; right
      cases he : exec new fs op with
      | none => rw [he] at h; cases h
      | some fs' => rw [he] at h; exact ⟨fs', rfl, ih fs' k h⟩

theorem R_aAny (orig new : Bytes) (fs : FS) (h : fs .target = some orig) : R orig new aAny fs := by
  intro n; cases n <;> simp [aAny, γ, h]

theorem R_aNoBak (orig new : Bytes) (fs : FS) (h : fs .target = some orig) (hb : fs .bak = none) :
    R orig new aNoBak fs := by
  intro n; cases n <;> simp [aNoBak, γ, h, hb]

theorem R_aFresh (orig new : Bytes) (fs : FS) (h : fs .target = some orig) (ht : fs .tmp = none)
    (hb : fs .bak = none) : R orig new aFresh fs := by
  intro n; cases n <;> simp [aFresh, γ, h, hb, ht]

theorem clean_of_isClean (orig new : Bytes) (a : AFS) (s : FS) (h : R orig new a s) (hc : isClean a = true) :
    s .target = some new ∧ s .tmp = none ∧ s .bak = none := by
  simp only [isClean, Bool.and_eq_true, beq_iff_eq] at hc
  obtain ⟨⟨h1, h2⟩, h3⟩ := hc
  have t := h .target; have u := h .tmp; have v := h .bak
  rw [h1] at t; rw [h2] at u; rw [h3] at v
  exact ⟨t, u, v⟩

/-- **C36 (atomic), for any operation list that passes the check.**  Whatever the original and the new
content are, and whatever stale temporary/backup file exists, at every point where the process can
stop the target path holds the complete original or the complete new content. -/
theorem C36_atomic_of_check (ops : List Op) (hc : checkAtomic ops = true) (orig new : Bytes) (fs : FS)
    (h : fs .target = some orig) (s : FS) (hs : Crash new fs ops s) :
    s .target = some orig ∨ s .target = some new := by
  obtain ⟨a', ha', hr⟩ := acrash_sound orig new ops aAny fs s (R_aAny orig new fs h) hs
  have hok := List.all_eq_true.1 hc a' ha'
  simp only [targetOK, Bool.or_eq_true, beq_iff_eq] at hok
  have t := hr .target
  rcases hok with hok | hok <;> rw [hok] at t
  · left; exact t
  · right; exact t

/-- **C36 (clean), for any operation list that passes the check.**  A complete run succeeds and leaves
the new content at the path and neither a temporary nor a backup file (a stale temporary file is consumed). -/
theorem C36_clean_of_check (ops : List Op) (hc : checkClean ops = true) (orig new : Bytes) (fs : FS)
    (h : fs .target = some orig) (hb : fs .bak = none) :
    ∃ s, run new fs ops = some s ∧ s .target = some new ∧ s .tmp = none ∧ s .bak = none := by
  simp only [checkClean, cleanAfter] at hc
  split at hc
  · cases hc
  · rename_i a' ha
    obtain ⟨s, hs, hr⟩ := arunMust_sound orig new ops aNoBak a' fs (R_aNoBak orig new fs h hb) ha
    exact ⟨s, hs, clean_of_isClean orig new a' s hr hc⟩

/-- **C36 (later run), for any operation list that passes the check.**  Start with only the original
file; stop a first run anywhere.  Then a later complete run succeeds and leaves exactly the new file, and
if the path already held the new content nothing else was left behind. -/
theorem C36_rerun_of_check (ops : List Op) (hc : checkRerun ops = true) (orig new : Bytes) (hne : orig ≠ new)
    (fs : FS) (h : fs .target = some orig) (ht : fs .tmp = none) (hb : fs .bak = none)
    (s : FS) (hs : Crash new fs ops s) :
    (∃ s2, run new s ops = some s2 ∧ s2 .target = some new ∧ s2 .tmp = none ∧ s2 .bak = none) ∧
    (s .target = some new → s .tmp = none ∧ s .bak = none) := by
  obtain ⟨a', ha', hr⟩ := acrash_sound orig new ops aFresh fs s (R_aFresh orig new fs h ht hb) hs
  have hok := List.all_eq_true.1 hc a' ha'
  simp only [Bool.and_eq_true, Bool.or_eq_true, beq_iff_eq] at hok
  obtain ⟨h1, h2⟩ := hok
  constructor
  · simp only [cleanAfter] at h1
    split at h1
    · cases h1
    · rename_i a2 ha2
      obtain ⟨s2, hs2, hr2⟩ := arunMust_sound orig new ops a' a2 s hr ha2
      exact ⟨s2, hs2, clean_of_isClean orig new a2 s2 hr2 h1⟩
  · intro hnew
    rcases h2 with h2 | ⟨h2, h3⟩
    · have t := hr .target
      rw [h2] at t
      simp only [γ] at t
      rw [t] at hnew
      exact absurd (Option.some.inj hnew) hne
    · have u := hr .tmp; have v := hr .bak
      rw [h2] at u; rw [h3] at v
      exact ⟨u, v⟩

/-! ### the fixed code -/

theorem C36_atomic (orig new : Bytes) (fs : FS) (h : fs .target = some orig) (s : FS)
    (hs : Crash new fs steps s) : s .target = some orig ∨ s .target = some new :=
  C36_atomic_of_check steps (by decide) orig new fs h s hs

/-- in particular after every prefix of the operations -/
theorem C36_atomic_prefix (orig new : Bytes) (fs s : FS) (h : fs .target = some orig) (k : Nat)
    (hk : run new fs (steps.take k) = some s) : s .target = some orig ∨ s .target = some new :=
  C36_atomic orig new fs h s (crash_prefix new steps fs s k hk)

theorem C36_clean (orig new : Bytes) (fs : FS) (h : fs .target = some orig) (hb : fs .bak = none) :
    ∃ s, run new fs steps = some s ∧ s .target = some new ∧ s .tmp = none ∧ s .bak = none :=
  C36_clean_of_check steps (by decide) orig new fs h hb

theorem C36_later_run_clean (orig new : Bytes) (hne : orig ≠ new) (fs : FS) (h : fs .target = some orig)
    (ht : fs .tmp = none) (hb : fs .bak = none) (s : FS) (hs : Crash new fs steps s) :
    (∃ s2, run new s steps = some s2 ∧ s2 .target = some new ∧ s2 .tmp = none ∧ s2 .bak = none) ∧
    (s .target = some new → s .tmp = none ∧ s .bak = none) :=
  C36_rerun_of_check steps (by decide) orig new hne fs h ht hb s hs

/-! ### the code before the fix -/

/-- **counterexample**: with the rename-aside sequence the path does not exist after the 6th
operation (`Rename(path, bak)`), for every original and new content. -/
theorem C36_old_counterexample (orig new : Bytes) (fs : FS) (h : fs .target = some orig) (ht : fs .tmp = none) :
    ∃ s, Crash new fs oldSteps s ∧ s .target = none := by
  have hr : run new fs (oldSteps.take 6) =
      some ((((fs.set .tmp (some [])).set .tmp (some ([] ++ new))).set .bak (some orig)).set .target none) := by
    simp [oldSteps, run, exec, FS.set, ht, h]
  exact ⟨_, crash_prefix new oldSteps fs _ 6 hr, by simp [FS.set]⟩

/-- the checker rejects the old sequence (so the obligation generated from the unpatched source fails) -/
theorem C36_old_rejected : checkAtomic oldSteps = false := by decide

/-- a CreateTemp variant with a single rename is accepted as atomic (the checker is not tied to one fix) -/
example : checkAtomic [.createExcl .tmp, .write .tmp, .close .tmp, .stat .target, .chmod .tmp, .rename .tmp .target] = true := by
  decide

/-- non-vacuity: a concrete run of the fixed code from a directory with a stale temporary file -/
example : ((run [3] (fun n => match n with | .target => some [1, 2] | .tmp => some [9] | .bak => none) steps).map
    fun s => (s .target, s .tmp)) = some (some [3], none) := by decide

example : ∃ s, Crash [3] (fun n => match n with | .target => some [1] | _ => none) steps s ∧ s .tmp = some [] :=
  ⟨_, crash_prefix [3] steps _ _ 1 rfl, by decide⟩

end EgoVerif.C36
