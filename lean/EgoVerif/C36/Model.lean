/-
C36 — model of the file-system operations of `rewriteFile` (tools/langlint/lint.go), core Lean only.

A rewrite touches three names in one directory: the target path, the temporary file and (in the
code before fixes/C36.patch) the backup name.  A file system is a map from these names to
contents; an operation either fails (then the function stops) or yields the next file system.
`steps` is the success path of the FIXED rewriteFile; `oldSteps` the one before the fix.  The list
actually present in the source is re-extracted by tools/extract_c36 at every check and must
equal `steps`, and the crash theorems are re-proved for the extracted list.
-/
namespace EgoVerif.C36

inductive Name where
  | target | tmp | bak
  deriving DecidableEq, Repr

abbrev Bytes := List UInt8
abbrev FS := Name → Option Bytes

def FS.set (fs : FS) (n : Name) (v : Option Bytes) : FS := fun m => if m = n then v else fs m

inductive Op where
  | createExcl (n : Name)      -- os.CreateTemp / O_CREATE|O_EXCL : new empty file, fails if it exists
  | createTrunc (n : Name)     -- os.OpenFile O_CREATE|O_TRUNC / os.Create : empty file, old content dropped
  | write (n : Name)           -- tmp.Write(newContent) on the descriptor (appends at the offset)
  | close (n : Name)
  | sync (n : Name)
  | stat (n : Name)
  | chmod (n : Name)
  | rename (a b : Name)        -- os.Rename: atomically replaces b
  | remove (n : Name)
  deriving DecidableEq, Repr

/-- effect of one operation; `new` is the content being written.  `none`: the operation fails
(the file to create exists, the file to write or rename is missing) — rewriteFile then leaves through
an error branch and performs no further operation of the success path. -/
def exec (new : Bytes) (fs : FS) : Op → Option FS
  | .createExcl n => match fs n with
    | some _ => none
    | none => some (fs.set n (some []))
  | .createTrunc n => some (fs.set n (some []))
  | .write n => match fs n with
    | some c => some (fs.set n (some (c ++ new)))
    | none => none
  | .close _ => some fs
  | .sync _ => some fs
  | .stat _ => some fs
  | .chmod _ => some fs
  | .rename a b => match fs a with
    | none => none
    | some c => if a = b then some fs else some ((fs.set b (some c)).set a none)
  | .remove n => some (fs.set n none)

def run (new : Bytes) : FS → List Op → Option FS
  | fs, [] => some fs
  | fs, op :: ops =>
    match exec new fs op with
    | none => none
    | some fs' => run new fs' ops

/-- the states in which the process can stop while performing `ops` from `fs`: before or after any
operation, or in the middle of a `write` (any prefix of the data has reached the file) -/
def Crash (new : Bytes) : FS → List Op → FS → Prop
  | fs, [], s => s = fs
  | fs, op :: ops, s =>
    s = fs ∨
    (∃ n c j, op = .write n ∧ fs n = some c ∧ s = fs.set n (some (c ++ new.take j))) ∨
    (∃ fs', exec new fs op = some fs' ∧ Crash new fs' ops s)

/-- rewriteFile after fixes/C36.patch: OpenFile(tmp, O_CREATE|O_TRUNC), Write, Close, Stat(path),
    Chmod(tmp), Rename(tmp, path) -/
def steps : List Op :=
  [.createTrunc .tmp, .write .tmp, .close .tmp, .stat .target, .chmod .tmp, .rename .tmp .target]

/-- rewriteFile before the fix: CreateTemp, Write, Close, Stat, Chmod, Rename(path, bak),
    Rename(tmp, path), Remove(bak) -/
def oldSteps : List Op :=
  [.createExcl .tmp, .write .tmp, .close .tmp, .stat .target, .chmod .tmp, .rename .target .bak,
   .rename .tmp .target, .remove .bak]

/-! ## abstract interpretation used to check an arbitrary (extracted) operation list -/

inductive AV where
  | absent | orig | new | empty | any
  deriving DecidableEq, Repr

abbrev AFS := Name → AV

def AFS.set (a : AFS) (n : Name) (v : AV) : AFS := fun m => if m = n then v else a m

/-- abstract step; `none`: the operation certainly fails -/
def aexec (a : AFS) : Op → Option AFS
  | .createExcl n => match a n with
    | .absent => some (a.set n .empty)
    | .any => some (a.set n .empty)          -- it succeeded, so the name was free
    | _ => none
  | .createTrunc n => some (a.set n .empty)
  | .write n => match a n with
    | .absent => none
    | .empty => some (a.set n .new)
    | _ => some (a.set n .any)
  | .close _ => some a
  | .sync _ => some a
  | .stat _ => some a
  | .chmod _ => some a
  | .rename x y => match a x with
    | .absent => none
    | v => if x = y then some a else some ((a.set y v).set x .absent)
  | .remove n => some (a.set n .absent)

/-- the operation certainly succeeds -/
def amust (a : AFS) : Op → Bool
  | .createExcl n => a n == .absent
  | .write n => a n != .absent && a n != .any
  | .rename x _ => a x != .absent && a x != .any
  | _ => true

/-- abstract complete run in which every operation certainly succeeds -/
def arunMust : AFS → List Op → Option AFS
  | a, [] => some a
  | a, op :: ops =>
    if amust a op then
      match aexec a op with
      | none => none
      | some a' => arunMust a' ops
    else none

def acrash (a : AFS) : List Op → List AFS
  | [] => [a]
  | op :: ops =>
    a :: ((match op with
      | .write n => [a.set n .any]
      | _ => []) ++
      (match aexec a op with
      | none => []
      | some a' => acrash a' ops))

def targetOK (a : AFS) : Bool := a .target == .orig || a .target == .new
def isClean (a : AFS) : Bool := a .target == .new && a .tmp == .absent && a .bak == .absent

/-- the target holds the original; a temporary or backup file of unknown content may be lying around -/
def aAny : AFS := fun n => match n with
  | .target => .orig
  | _ => .any

/-- as `aAny`, but no backup file -/
def aNoBak : AFS := fun n => match n with
  | .target => .orig
  | .tmp => .any
  | .bak => .absent

/-- only the target exists -/
def aFresh : AFS := fun n => match n with
  | .target => .orig
  | _ => .absent

def checkAtomic (ops : List Op) : Bool := (acrash aAny ops).all targetOK
def cleanAfter (a : AFS) (ops : List Op) : Bool :=
  match arunMust a ops with
  | none => false
  | some a' => isClean a'
def checkClean (ops : List Op) : Bool := cleanAfter aNoBak ops
/-- every crash state of a first run is repaired by a later complete run, and needs no repair
    when the target already holds the new content -/
def checkRerun (ops : List Op) : Bool :=
  (acrash aFresh ops).all fun a =>
    cleanAfter a ops && (a .target == .orig || (a .tmp == .absent && a .bak == .absent))

end EgoVerif.C36
