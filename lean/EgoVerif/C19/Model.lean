/-
C19 — model of `egostrings.JSONMinify` (internal/util/strings/json.go), core Lean only.

The Go function is one `for _, char := range input` loop over runes with two booleans.
`step` below is that loop body, `minify` the loop.  `isSpace` is `unicode.IsSpace`.
-/
namespace EgoVerif.C19

/-- Go's `unicode.IsSpace` (White_Space property): the Latin-1 set plus the table `White_Space`. -/
def isSpace (c : Char) : Bool :=
  let n := c.toNat
  n == 0x20 || (0x09 ≤ n && n ≤ 0x0d) || n == 0x85 || n == 0xa0 || n == 0x1680 ||
  (0x2000 ≤ n && n ≤ 0x200a) || n == 0x2028 || n == 0x2029 || n == 0x202f || n == 0x205f || n == 0x3000

structure St where
  inQuotes : Bool
  escape : Bool
  deriving Repr, DecidableEq

/-- one iteration of the loop: returns the new state and the (0 or 1) characters written -/
def step (s : St) (c : Char) : St × List Char :=
  if c == '"' && !s.escape then
    ({ inQuotes := !s.inQuotes, escape := (c == '\\' && !s.escape) }, [c])
  else if !s.inQuotes && isSpace c then
    (s, [])                                   -- `continue`: nothing written, flags untouched
  else
    ({ s with escape := (c == '\\' && !s.escape) }, [c])

def run : St → List Char → List Char
  | _, [] => []
  | s, c :: cs => (step s c).2 ++ run (step s c).1 cs

def minify (input : List Char) : List Char := run ⟨false, false⟩ input

end EgoVerif.C19

namespace EgoVerif.C19

/-- `WriteMaybeCompressed` (internal/util/compress.go): the decision whether the payload sent
is the gzip of the body.  `gzLen = none` models `gzipBytes` failing. -/
def compressDecision (threshold : Nat) (acceptsGzip : Bool) (bodyLen : Nat) (gzLen : Option Nat) : Bool :=
  let compress := decide (threshold > 0) && decide (bodyLen ≥ threshold) && acceptsGzip
  if compress then
    match gzLen with
    | none => false
    | some g => if g ≥ bodyLen then false else true
  else false

/-- gzip as a parameter: the only fact used is that gunzip inverts gzip. -/
structure Gz where
  gzip : List UInt8 → Option (List UInt8)
  gunzip : List UInt8 → Option (List UInt8)
  inv : ∀ b c, gzip b = some c → gunzip c = some b

/-- (Content-Encoding: gzip present?, payload bytes) -/
def respond (gz : Gz) (threshold : Nat) (acceptsGzip : Bool) (body : List UInt8) : Bool × List UInt8 :=
  match gz.gzip body with
  | none => (false, body)
  | some c =>
    if compressDecision threshold acceptsGzip body.length (some c.length) then (true, c) else (false, body)

/-- what a client does with the response -/
def clientDecode (gz : Gz) (r : Bool × List UInt8) : Option (List UInt8) :=
  if r.1 then gz.gunzip r.2 else some r.2

end EgoVerif.C19
