import EgoVerif.Common.Drv
import EgoVerif.C19.Model
/- line protocol:  `min <hex utf8>`  →  `<hex utf8 of minify>`
   `resp <threshold> <accepts 0|1> <bodyLen> <gzLen|fail>` → `gzip` | `plain` -/
namespace EgoVerif.C19

def handle (line : String) : String :=
  match fields line with
  | ["min", h] =>
    match stringOfHex h with
    | some s => hexOfString (String.ofList (minify s.toList))
    | none => "bad-input"
  | ["resp", th, acc, bl, gl] =>
    match th.toNat?, bl.toNat? with
    | some t, some b =>
      let g : Option Nat := if gl == "fail" then none else gl.toNat?
      if compressDecision t (acc == "1") b g then "gzip" else "plain"
    | _, _ => "bad-input"
  | _ => "bad-op"

def drv : Drv := Drv.pure handle

end EgoVerif.C19
