import EgoVerif.C19.Model
/-
C19 — property theorems for JSONMinify.

A JSON text is, lexically, a sequence of tokens separated by optional whitespace, where a
token is either a string literal  `"` item* `"`  (an item is a character other than `"` and
`\`, or a backslash followed by ANY character) or a single non-space character that is not
a quote or a backslash (punctuation, and the characters of numbers / true / false / null).
`renderGaps` writes such a token list with arbitrary whitespace gaps (what MarshalIndent
produces); `renderTight` writes it with none (what Marshal produces).

Main theorem: for every token list and every choice of gaps,
    minify (renderGaps …) = renderTight …
so the minified body has exactly the tokens of the handler's JSON: no string content is
altered (whitespace, backslashes and quotes inside strings included) and no token is lost.
-/
namespace EgoVerif.C19

inductive SItem where
  | plain (c : Char)
  | esc (c : Char)
  deriving Repr

def SItem.ok : SItem → Bool
  | .plain c => c != '"' && c != '\\'
  | .esc _ => true

def SItem.chars : SItem → List Char
  | .plain c => [c]
  | .esc c => ['\\', c]

inductive Tok where
  | str (items : List SItem)
  | atom (c : Char)
  deriving Repr

def Tok.ok : Tok → Bool
  | .str items => items.all SItem.ok
  | .atom c => !isSpace c && c != '"' && c != '\\'

def bodyChars (items : List SItem) : List Char := items.flatMap SItem.chars

def Tok.chars : Tok → List Char
  | .str items => '"' :: (bodyChars items ++ ['"'])
  | .atom c => [c]

def renderTight (toks : List Tok) : List Char := toks.flatMap Tok.chars

/-- tokens each preceded by a gap, plus a trailing gap -/
def renderGaps (toks : List (List Char × Tok)) (trail : List Char) : List Char :=
  toks.flatMap (fun p => p.1 ++ p.2.chars) ++ trail

def gapsOk (toks : List (List Char × Tok)) (trail : List Char) : Bool :=
  toks.all (fun p => p.1.all isSpace && p.2.ok) && trail.all isSpace

/-! ### helper lemmas (about `run`) -/

theorem run_append (s : St) (a b : List Char) :
    run s (a ++ b) = run s a ++ run (a.foldl (fun st c => (step st c).1) s) b := by
  induction a generalizing s with
  | nil => simp [run]
  | cons c cs ih => simp [run, ih, List.append_assoc]

theorem isSpace_quote : isSpace '"' = false := by decide
theorem isSpace_bslash : isSpace '\\' = false := by decide

/-- outside a string, a whitespace gap is dropped and leaves the state alone -/
theorem run_gap (g rest : List Char) (hg : g.all isSpace = true) :
    run ⟨false, false⟩ (g ++ rest) = run ⟨false, false⟩ rest := by
  induction g with
  | nil => rfl
  | cons c cs ih =>
    simp only [List.all_cons, Bool.and_eq_true] at hg
    have hc : (c == '"') = false := by
      cases h : c == '"'
      · rfl
      · have : c = '"' := by simpa using h
        rw [this, isSpace_quote] at hg; exact absurd hg.1 (by decide)
    simp [run, step, hc, hg.1, ih hg.2]

/-- inside a string (not escaped), the body items are copied verbatim and the state returns
    to "inside, not escaped" -/
theorem run_body (items : List SItem) (rest : List Char) (h : items.all SItem.ok = true) :
    run ⟨true, false⟩ (bodyChars items ++ rest) = bodyChars items ++ run ⟨true, false⟩ rest := by
  induction items with
  | nil => rfl
  | cons it its ih =>
    simp only [List.all_cons, Bool.and_eq_true] at h
    cases it with
    | plain c =>
      have hok := h.1
      simp only [SItem.ok, Bool.and_eq_true, bne_iff_ne, ne_eq] at hok
      have h1 : (c == '"') = false := by simpa using hok.1
      have h2 : (c == '\\') = false := by simpa using hok.2
      have := ih h.2
      simp [bodyChars, SItem.chars] at this ⊢
      simp [run, step, h1, h2, this]
    | esc c =>
      have := ih h.2
      simp [bodyChars, SItem.chars] at this ⊢
      have hq : ('\\' == '"') = false := by decide
      by_cases hc : c = '\\'
      · subst hc
        simp [run, step, hq, this]
      · have h2 : (c == '\\') = false := by simpa using hc
        by_cases hcq : c = '"'
        · subst hcq; simp [run, step, this]
        · have h1 : (c == '"') = false := by simpa using hcq
          simp [run, step, hq, h1, h2, this]

theorem run_tok (t : Tok) (rest : List Char) (h : t.ok = true) :
    run ⟨false, false⟩ (t.chars ++ rest) = t.chars ++ run ⟨false, false⟩ rest := by
  cases t with
  | atom c =>
    simp only [Tok.ok, Bool.and_eq_true, Bool.not_eq_true', bne_iff_ne, ne_eq] at h
    have h1 : (c == '"') = false := by simpa using h.1.2
    have h2 : (c == '\\') = false := by simpa using h.2
    simp [Tok.chars, run, step, h1, h2, h.1.1]
  | str items =>
    simp only [Tok.ok] at h
    have hb := run_body items ('"' :: rest) h
    simp [Tok.chars, run, step, List.append_assoc] at hb ⊢
    simp [hb]

/-! ### property theorems -/

/-- **C19 (full strength, token level).** Minifying any whitespace-padded rendering of a
token list yields exactly the unpadded rendering. -/
theorem C19_minify_tokens (toks : List (List Char × Tok)) (trail : List Char)
    (h : gapsOk toks trail = true) :
    minify (renderGaps toks trail) = renderTight (toks.map Prod.snd) := by
  unfold minify renderGaps renderTight
  simp only [gapsOk, Bool.and_eq_true] at h
  obtain ⟨ht, htr⟩ := h
  induction toks with
  | nil =>
    have := run_gap trail [] htr
    simpa [run] using this
  | cons p ps ih =>
    simp only [List.all_cons, Bool.and_eq_true] at ht
    obtain ⟨⟨hg, hok⟩, hps⟩ := ht
    simp only [List.flatMap_cons, List.map_cons, List.append_assoc]
    rw [run_gap _ _ hg, run_tok _ _ hok, ih hps]

/-- String contents are never altered: a string token survives verbatim wherever it is. -/
theorem C19_string_verbatim (pre post : List (List Char × Tok)) (g trail : List Char)
    (items : List SItem)
    (h : gapsOk (pre ++ (g, Tok.str items) :: post) trail = true) :
    ∃ a b, minify (renderGaps (pre ++ (g, Tok.str items) :: post) trail)
        = a ++ ('"' :: (bodyChars items ++ ['"'])) ++ b := by
  refine ⟨renderTight (pre.map Prod.snd), renderTight (post.map Prod.snd), ?_⟩
  rw [C19_minify_tokens _ _ h]
  simp [renderTight, Tok.chars]

/-- Minification is idempotent on JSON texts. -/
theorem C19_idempotent (toks : List (List Char × Tok)) (trail : List Char)
    (h : gapsOk toks trail = true) :
    minify (minify (renderGaps toks trail)) = minify (renderGaps toks trail) := by
  rw [C19_minify_tokens _ _ h]
  have h2 : gapsOk ((toks.map Prod.snd).map (fun t => (([] : List Char), t))) [] = true := by
    simp only [gapsOk, Bool.and_eq_true] at h ⊢
    refine ⟨?_, by simp⟩
    simp only [List.all_eq_true] at h ⊢
    intro p hp
    simp only [List.map_map, List.mem_map, Function.comp] at hp
    obtain ⟨q, hq, rfl⟩ := hp
    have := h.1 q hq
    simp only [Bool.and_eq_true] at this
    simp [this.2]
  have := C19_minify_tokens _ [] h2
  simp only [renderGaps, List.map_map] at this
  simpa [renderTight, List.flatMap_map, Function.comp] using this

/-! ### non-vacuity: the pre-fix failing input `{"a": "x\\", "b": "y z"}` meets the hypotheses
    and is minified correctly by the model of the repaired code -/
def exToks : List (List Char × Tok) :=
  [([], .atom '{'), ([], .str [.plain 'a']), ([], .atom ':'),
   ([' '], .str [.plain 'x', .esc '\\']), ([], .atom ','),
   ([' '], .str [.plain 'b']), ([], .atom ':'), ([' '], .str [.plain 'y', .plain ' ', .plain 'z']),
   (['\n'], .atom '}')]

example : gapsOk exToks ['\n'] = true := by decide
example : String.ofList (minify (renderGaps exToks ['\n'])) = "{\"a\":\"x\\\\\",\"b\":\"y z\"}" := by decide

end EgoVerif.C19

namespace EgoVerif.C19

/-- **C19 (compression is transparent).** Whatever the threshold, the Accept-Encoding verdict
and the body, the client recovers exactly the body. -/
theorem C19_compress_transparent (gz : Gz) (threshold : Nat) (accepts : Bool) (body : List UInt8) :
    clientDecode gz (respond gz threshold accepts body) = some body := by
  unfold respond clientDecode
  cases h : gz.gzip body with
  | none => simp
  | some c =>
    by_cases hd : compressDecision threshold accepts body.length (some c.length) = true
    · simp [hd, gz.inv body c h]
    · simp [hd]

/-- a compressed body is only ever sent to a client that accepts gzip, and only when it is smaller -/
theorem C19_compress_only_if_accepted (threshold : Nat) (accepts : Bool) (n : Nat) (g : Option Nat)
    (h : compressDecision threshold accepts n g = true) :
    accepts = true ∧ threshold > 0 ∧ n ≥ threshold ∧ ∃ k, g = some k ∧ k < n := by
  unfold compressDecision at h
  cases g with
  | none => simp at h
  | some k =>
    by_cases hc : (decide (threshold > 0) && decide (n ≥ threshold) && accepts) = true
    · simp only [hc, if_true] at h
      simp only [Bool.and_eq_true, decide_eq_true_eq] at hc
      by_cases hk : k ≥ n
      · simp [hk] at h
      · exact ⟨hc.2, hc.1.1, hc.1.2, k, rfl, by omega⟩
    · simp [hc] at h

end EgoVerif.C19
