import EgoVerif.Common.Drv
import EgoVerif.C01.Run
/- line protocol:  `run <go|dynamic|relaxed|strict> <fuel> <program tokens…>`
     →  `<finished|aborted:<kind>:<hex msg>|outOfFuel|stuck> <hex stdout>`
   program tokens:  MAIN NF func* NN node*      (see the parsers below; all numbers decimal,
   strings hex, kinds by name, `-` = no kind) -/
namespace EgoVerif.C01

abbrev P (α : Type) := List String → Option (α × List String)

def pTok : P String
  | [] => none
  | t :: ts => some (t, ts)

def pNat : P Nat := fun ts => match ts with
  | t :: ts => t.toNat?.map (·, ts)
  | [] => none

def pInt : P Int := fun ts => match ts with
  | t :: ts => t.toInt?.map (·, ts)
  | [] => none

def pBool : P Bool := fun ts => match ts with
  | "1" :: ts => some (true, ts)
  | "0" :: ts => some (false, ts)
  | _ => none

def pStr : P Str := fun ts => match ts with
  | "-" :: ts => some ([], ts)
  | t :: ts => (bytesOfHex t).map fun bs => (bs.map (·.toNat), ts)
  | [] => none

def kindOf : String → Option Kind
  | "byte" => some .byte | "int8" => some .int8 | "int16" => some .int16 | "uint16" => some .uint16
  | "int32" => some .int32 | "uint32" => some .uint32 | "int" => some .int | "uint" => some .uint
  | "int64" => some .int64 | "uint64" => some .uint64 | _ => none

def pKind : P Kind := fun ts => match ts with
  | t :: ts => (kindOf t).map (·, ts)
  | [] => none

def pOptKind : P (Option Kind) := fun ts => match ts with
  | "-" :: ts => some (none, ts)
  | t :: ts => (kindOf t).map fun k => (some k, ts)
  | [] => none

def pMany {α} (f : P α) : Nat → P (List α)
  | 0, ts => some ([], ts)
  | n + 1, ts => match f ts with
    | some (a, ts) => match pMany f n ts with
      | some (as, ts) => some (a :: as, ts)
      | none => none
    | none => none

def pList {α} (f : P α) : P (List α) := fun ts => match pNat ts with
  | some (n, ts) => pMany f n ts
  | none => none

def pPair {α β} (f : P α) (g : P β) : P (α × β) := fun ts => match f ts with
  | some (a, ts) => match g ts with
    | some (b, ts) => some ((a, b), ts)
    | none => none
  | none => none

def binOf : String → Option BinOp
  | "add" => some .add | "sub" => some .sub | "mul" => some .mul | "div" => some .div
  | "mod" => some .mod | "eq" => some .eq | "ne" => some .ne | "lt" => some .lt | "le" => some .le
  | "gt" => some .gt | "ge" => some .ge | "xor" => some .xor | _ => none

def pBin : P BinOp := fun ts => match ts with
  | t :: ts => (binOf t).map (·, ts)
  | [] => none

def pZero : P Val := fun ts => match ts with
  | "b" :: ts => some (.bool false, ts)
  | "s" :: ts => some (.str [], ts)
  | "n" :: ts => some (.nil, ts)
  | t :: ts => (kindOf t).map fun k => (.int k 0, ts)
  | [] => none

def pAct : P Act := fun ts => match ts with
  | "bin" :: ts => (pBin ts).map fun (o, ts) => (.bin o, ts)
  | "neg" :: ts => some (.un .neg, ts)
  | "not" :: ts => some (.un .not, ts)
  | "conv" :: ts => (pKind ts).map fun (k, ts) => (.conv k, ts)
  | "strofint" :: ts => some (.un .strOfInt, ts)
  | "call" :: ts => (pNat ts).map fun (f, ts) => (.call f, ts)
  | "callv" :: ts => some (.callv, ts)
  | "len" :: ts => some (.len, ts)
  | "index" :: ts => some (.index, ts)
  | "mkslice" :: ts => some (.mkslice, ts)
  | "slicelit" :: ts => some (.slicelit, ts)
  | "append" :: ts => some (.append, ts)
  | "mkmap" :: ts => some (.mkmap, ts)
  | "field" :: ts => (pNat ts).map fun (i, ts) => (.field i, ts)
  | "mkstruct" :: ts => some (.mkstruct, ts)
  | "decl" :: ts => (pPair pNat pOptKind ts).map fun ((x, k), ts) => (.decl x k, ts)
  | "assign" :: ts => (pNat ts).map fun (x, ts) => (.assign x, ts)
  | "opassign" :: ts => (pPair pBin pNat ts).map fun ((o, x), ts) => (.opassign o x, ts)
  | "incdec" :: ts => (pPair pNat pBool ts).map fun ((x, b), ts) => (.incdec x b, ts)
  | "setindex" :: ts => (pNat ts).map fun (x, ts) => (.setindex x, ts)
  | "setfield" :: ts => (pPair pNat pNat ts).map fun ((x, i), ts) => (.setfield x i, ts)
  | "setmap" :: ts => (pNat ts).map fun (x, ts) => (.setmap x, ts)
  | "mapget" :: ts => (pPair (pPair pNat pNat) (pPair pNat pNat) ts).map
      fun (((a, b), (c, d)), ts) => (.mapget a b c d, ts)
  | "multi" :: ts => (pPair (pList pNat) pBool ts).map fun ((xs, d), ts) => (.multi xs d, ts)
  | "println" :: ts => some (.println, ts)
  | "printf" :: ts => (pStr ts).map fun (f, ts) => (.printf f, ts)
  | "panic" :: ts => some (.panic, ts)
  | "ret" :: ts => some (.ret, ts)
  | "drop" :: ts => some (.drop, ts)
  | "deferfn" :: ts => (pNat ts).map fun (f, ts) => (.defer (.fn f), ts)
  | "deferclo" :: ts => some (.defer .clo, ts)
  | "deferprintln" :: ts => some (.defer .println, ts)
  | _ => none

def pNode : P Node := fun ts => match ts with
  | "lit" :: ts => (pInt ts).map fun (n, ts) => (.lit n, ts)
  | "blit" :: ts => (pBool ts).map fun (b, ts) => (.blit b, ts)
  | "slit" :: ts => (pStr ts).map fun (s, ts) => (.slit s, ts)
  | "var" :: ts => (pNat ts).map fun (x, ts) => (.var x, ts)
  | "fnlit" :: ts => (pNat ts).map fun (f, ts) => (.fnlit f, ts)
  | "op" :: ts => (pPair pAct (pList pNat) ts).map fun ((a, as), ts) => (.op a as, ts)
  | "and" :: ts => (pPair pNat pNat ts).map fun ((a, b), ts) => (.andalso a b, ts)
  | "or" :: ts => (pPair pNat pNat ts).map fun ((a, b), ts) => (.orelse a b, ts)
  | "seq" :: ts => (pList pNat ts).map fun (ss, ts) => (.seq ss, ts)
  | "ite" :: ts => (pPair pNat (pPair pNat pNat) ts).map fun ((c, t, e), ts) => (.ite c t e, ts)
  | "loop" :: ts => (pPair (pMany pNat 5) (pList pNat) ts).bind fun
      | (([l, i, c, po, b], vs), ts) => some (.loop l i c po b vs, ts)
      | _ => none
  | "range" :: ts => (pMany pNat 5 ts).bind fun
      | ([l, xi, xv, e, b], ts) => some (.range l xi xv e b, ts)
      | _ => none
  | "brk" :: ts => (pNat ts).map fun (l, ts) => (.brk l, ts)
  | "cont" :: ts => (pNat ts).map fun (l, ts) => (.cont l, ts)
  | "switch" :: ts => (pPair pNat (pPair (pList (pPair (pList pInt) pNat)) pNat) ts).map
      fun ((e, cs, d), ts) => (.switch e cs d, ts)
  | "recov" :: ts => (pMany pNat 3 ts).bind fun
      | ([x, t, e], ts) => some (.recov x t e, ts)
      | _ => none
  | _ => none

def pFunc : P Func := fun ts =>
  match pPair (pList (pPair pNat pOptKind)) (pPair (pList (pPair pNat pZero)) (pPair pBool pNat)) ts with
  | some ((ps, rs, nm, b), ts) => some ({ params := ps, results := rs, named := nm, body := b }, ts)
  | none => none

def pProg : P Prog := fun ts =>
  match pPair pNat (pPair (pList pFunc) (pList pNode)) ts with
  | some ((m, fs, ns), ts) => some ({ nodes := ns, funcs := fs, main := m }, ts)
  | none => none

def hexOfStr (s : Str) : String :=
  if s.isEmpty then "-" else hexOfBytes (s.map UInt8.ofNat)

def showKind : AbortKind → String
  | .divZero => "divzero" | .index => "index" | .panic => "panic" | .typeErr => "typeerr"

def showOutcome (o : Outcome) : String :=
  let e := match o.end with
    | .finished => "finished"
    | .aborted k m => "aborted:" ++ showKind k ++ ":" ++ hexOfStr m
    | .outOfFuel => "outOfFuel"
    | .stuck => "stuck"
  e ++ " " ++ hexOfStr o.stdout.flatten

def dialectOf : String → Option Dialect
  | "go" => some goDialect
  | "dynamic" => some (egoDialect .dynamic)
  | "relaxed" => some (egoDialect .relaxed)
  | "strict" => some (egoDialect .strict)
  | _ => none

def handle (line : String) : String :=
  match fields line with
  | "run" :: d :: f :: rest =>
    match dialectOf d, f.toNat?, pProg rest with
    | some D, some fuel, some (p, []) => showOutcome (run D p fuel)
    | _, _, _ => "bad-input"
  | _ => "bad-op"

def drv : Drv := Drv.pure handle

end EgoVerif.C01
