/-
C01 — MiniGo: a reference interpreter for the Go-compatible core of Ego (core Lean only).

`run (D : Dialect) (p : Prog) (fuel : Nat) : Outcome` is a small-step abstract machine over a
program given as NODE TABLES (every expression/statement is a `Node` whose children are indices
into `p.nodes`; functions and function literals are entries of `p.funcs`).  Everything on which
Go and Ego can differ is a REQUEST (`Req`) answered by the dialect:
  * `goDialect`       — the Go specification (mixed-kind operands = `stuck` = "does not compile");
  * `egoDialect mode` — Ego's rules for the same operations, mirroring
      data.Normalize / Coerce (internal/language/data/coerce.go), add/sub/mul/div/mod/negate/
      incrementByteCode (bytecode/math.go), Context.checkType (the Store boundary),
      compiler/return.go (RunDefers placement, reverse evaluation of a return list),
      compiler/assignment.go (index/map stores evaluate the right-hand side first),
      bytecode/run.go + defer.go (a runtime error ends the run without running deferred calls).
The machine itself (`prestep`) never looks at the dialect.
Strings are byte lists (`Str`); all variables live in heap cells so closures share them.
-/
namespace EgoVerif.C01

/-- integer kinds, promotion order of data/types.go -/
inductive Kind where
  | byte | int8 | int16 | uint16 | int32 | uint32 | int | uint | int64 | uint64
  deriving DecidableEq, Repr, Inhabited

def Kind.ord : Kind → Nat
  | .byte => 2 | .int8 => 3 | .int16 => 4 | .uint16 => 5 | .int32 => 6 | .uint32 => 7
  | .int => 8 | .uint => 9 | .int64 => 10 | .uint64 => 11

def Kind.bits : Kind → Nat
  | .byte | .int8 => 8
  | .int16 | .uint16 => 16
  | .int32 | .uint32 => 32
  | .int | .uint | .int64 | .uint64 => 64

def Kind.signed : Kind → Bool
  | .int8 | .int16 | .int32 | .int | .int64 => true
  | _ => false

/-- two's-complement wrap to the kind's width (Go's overflow / conversion behaviour) -/
def wrap (k : Kind) (n : Int) : Int :=
  if k.signed then Int.bmod n (2 ^ k.bits) else n % (2 ^ k.bits : Int)

def inRange (k : Kind) (n : Int) : Bool := wrap k n == n

abbrev Str := List Nat

inductive Val where
  | int (k : Kind) (n : Int)
  | cst (n : Int)                         -- untyped integer constant (a literal)
  | bool (b : Bool)
  | str (s : Str)
  | ref (a : Nat)                         -- slice / map / struct object on the heap
  | clo (f : Nat) (env : List (Nat × Nat)) -- function literal + captured cells
  | nil
  deriving DecidableEq, Repr, Inhabited

inductive BinOp where
  | add | sub | mul | div | mod | eq | ne | lt | le | gt | ge
  | xor                                    -- `^` : outside the common subset (Ego: exponent)
  deriving DecidableEq, Repr

inductive UnOp where
  | neg | not
  | strOfInt                               -- string(v): outside the common subset (Ego: decimal)
  deriving DecidableEq, Repr

inductive AbortKind where
  | divZero | index | panic | typeErr
  deriving DecidableEq, Repr

/-- structural points where the current Ego tree behaves differently from Go -/
inductive Quirk where
  | deferEarly        -- `return <expr>` (unnamed results): deferred calls run BEFORE <expr> is evaluated
  | retReverse        -- `return e1, e2` (unnamed results): e2 is evaluated before e1
  | assignRhsFirst    -- `s[i] = e` / `m[k] = e`: e is evaluated before i / k
  | faultSkipsDefers  -- a runtime error (÷0, index) ends the run without running deferred calls
  deriving DecidableEq, Repr

/-- requests the machine's control part may issue (never carry an operator from the program) -/
inductive CReq where
  | caseEq (v : Val) (l : Int)             -- switch tag == case constant
  | store (old new : Val)                  -- assignment into a variable currently holding `old`
  | declare (k : Option Kind) (v : Val)    -- `var x T = v`; none = `x := v`
  | arg (k : Option Kind) (v : Val)        -- parameter passing
  | quirk (q : Quirk)
  deriving DecidableEq, Repr

inductive Req where
  | bin (op : BinOp) (a b : Val)
  | un (op : UnOp) (a : Val)
  | incr (inc : Bool) (a : Val)            -- x++ / x--
  | conv (k : Kind) (v : Val)              -- T(v)
  | core (c : CReq)
  deriving DecidableEq, Repr

inductive Resp where
  | val (v : Val)
  | flag (b : Bool)
  | abort (k : AbortKind)
  | stuck
  deriving DecidableEq, Repr

/-- everything on which Ego and Go could differ -/
structure Dialect where
  binop : BinOp → Val → Val → Resp
  unop : UnOp → Val → Resp
  incr : Bool → Val → Resp
  conv : Kind → Val → Resp
  store : Val → Val → Resp
  declare : Option Kind → Val → Resp
  arg : Option Kind → Val → Resp
  quirk : Quirk → Bool

def Dialect.apply (D : Dialect) : Req → Resp
  | .bin op a b => D.binop op a b
  | .un op a => D.unop op a
  | .incr i a => D.incr i a
  | .conv k v => D.conv k v
  | .core (.caseEq v l) => D.binop .eq v (.cst l)
  | .core (.store o n) => D.store o n
  | .core (.declare k v) => D.declare k v
  | .core (.arg k v) => D.arg k v
  | .core (.quirk q) => .flag (D.quirk q)

/-! ### arithmetic shared by both dialects on operands of ONE kind
(each `case T: v1.(T) op v2.(T)` of math.go is Go arithmetic on the Go type) -/

def toU (k : Kind) (n : Int) : Nat := (n % (2 ^ k.bits : Int)).toNat

def strLt : Str → Str → Bool
  | [], [] => false
  | [], _ :: _ => true
  | _ :: _, [] => false
  | a :: as, b :: bs => if a < b then true else if b < a then false else strLt as bs

def cmpInt (op : BinOp) (x y : Int) : Option Bool :=
  match op with
  | .eq => some (x == y) | .ne => some (x != y) | .lt => some (x < y) | .le => some (x ≤ y)
  | .gt => some (x > y) | .ge => some (x ≥ y) | _ => none

def arith (op : BinOp) (k : Kind) (x y : Int) : Resp :=
  match op with
  | .add => .val (.int k (wrap k (x + y)))
  | .sub => .val (.int k (wrap k (x - y)))
  | .mul => .val (.int k (wrap k (x * y)))
  | .div => if y == 0 then .abort .divZero else .val (.int k (wrap k (Int.tdiv x y)))
  | .mod => if y == 0 then .abort .divZero else .val (.int k (wrap k (Int.tmod x y)))
  | .xor => .val (.int k (wrap k (Int.ofNat (Nat.xor (toU k x) (toU k y)))))
  | op => match cmpInt op x y with
    | some b => .val (.bool b)
    | none => .stuck

def strBin (op : BinOp) (a b : Str) : Resp :=
  match op with
  | .add => .val (.str (a ++ b))
  | .eq => .val (.bool (a == b)) | .ne => .val (.bool (a != b))
  | .lt => .val (.bool (strLt a b)) | .le => .val (.bool (!strLt b a))
  | .gt => .val (.bool (strLt b a)) | .ge => .val (.bool (!strLt a b))
  | _ => .stuck

def boolBin (op : BinOp) (a b : Bool) : Resp :=
  match op with
  | .eq => .val (.bool (a == b)) | .ne => .val (.bool (a != b))
  | _ => .stuck

/-- the cases on which the two dialects share one definition: operands of one kind / sort -/
def sameBin (op : BinOp) (a b : Val) : Option Resp :=
  match a, b with
  | .int k x, .int k' y => if k = k' then some (arith op k x y) else none
  | .str x, .str y => some (strBin op x y)
  | .bool x, .bool y => some (boolBin op x y)
  | _, _ => none

/-- UTF-8 of a rune (Go's string(int)) -/
def utf8 (n : Nat) : Str :=
  if n < 0x80 then [n]
  else if n < 0x800 then [0xC0 + n / 64, 0x80 + n % 64]
  else if (0xD800 ≤ n ∧ n < 0xE000) ∨ n > 0x10FFFF then [0xEF, 0xBF, 0xBD]
  else if n < 0x10000 then [0xE0 + n / 4096, 0x80 + n / 64 % 64, 0x80 + n % 64]
  else [0xF0 + n / 262144, 0x80 + n / 4096 % 64, 0x80 + n / 64 % 64, 0x80 + n % 64]

def showNat (n : Nat) : Str := (Nat.toDigits 10 n).map Char.toNat
def showInt (i : Int) : Str := if i < 0 then 45 :: showNat i.natAbs else showNat i.natAbs


/-! ### the Go dialect (the language specification, for the modelled subset) -/

def constBin (op : BinOp) (x y : Int) : Resp :=
  match op with
  | .add => .val (.cst (x + y)) | .sub => .val (.cst (x - y)) | .mul => .val (.cst (x * y))
  | .div => if y == 0 then .stuck else .val (.cst (Int.tdiv x y))
  | .mod => if y == 0 then .stuck else .val (.cst (Int.tmod x y))
  | .xor => .stuck
  | op => match cmpInt op x y with
    | some b => .val (.bool b)
    | none => .stuck

def isDivMod : BinOp → Bool
  | .div | .mod => true
  | _ => false

def goBin (op : BinOp) (a b : Val) : Resp :=
  match sameBin op a b with
  | some r => r
  | none =>
    match a, b with
    | .int k x, .cst c =>
      if inRange k c && !(isDivMod op && c == 0) then arith op k x c else .stuck
    | .cst c, .int k y => if inRange k c then arith op k c y else .stuck
    | .cst x, .cst y => constBin op x y
    | _, _ => .stuck

def goStrOfInt (v : Val) : Resp :=
  match v with
  | .int _ x => .val (.str (if x < 0 then utf8 0xFFFD else utf8 x.toNat))
  | .cst x => .val (.str (if x < 0 then utf8 0xFFFD else utf8 x.toNat))
  | _ => .stuck

def goUn (op : UnOp) (a : Val) : Resp :=
  match op, a with
  | .neg, .int k x => .val (.int k (wrap k (-x)))
  | .neg, .cst c => .val (.cst (-c))
  | .not, .bool b => .val (.bool (!b))
  | .strOfInt, v => goStrOfInt v
  | _, _ => .stuck

def goIncr (inc : Bool) (a : Val) : Resp :=
  match a with
  | .int k x => .val (.int k (wrap k (if inc then x + 1 else x - 1)))
  | _ => .stuck

def goConv (k : Kind) (v : Val) : Resp :=
  match v with
  | .int _ x => .val (.int k (wrap k x))
  | .cst c => if inRange k c then .val (.int k c) else .stuck
  | _ => .stuck

def isRefLike : Val → Bool
  | .ref _ | .clo .. | .nil => true
  | _ => false

/-- assignability of `new` to a variable holding `old` (types of reference values are not modelled) -/
def goStore (old new : Val) : Resp :=
  match old, new with
  | .int k _, .int k' _ => if k = k' then .val new else .stuck
  | .int k _, .cst c => if inRange k c then .val (.int k c) else .stuck
  | .bool _, .bool _ => .val new
  | .str _, .str _ => .val new
  | o, n => if isRefLike o && isRefLike n then .val n else .stuck

def goDeclare (k : Option Kind) (v : Val) : Resp :=
  match k, v with
  | some k, .int k' _ => if k = k' then .val v else .stuck
  | some k, .cst c => if inRange k c then .val (.int k c) else .stuck
  | some _, _ => .stuck
  | none, .cst c => if inRange .int c then .val (.int .int c) else .stuck
  | none, v => .val v

def goDialect : Dialect :=
  { binop := goBin, unop := goUn, incr := goIncr, conv := goConv,
    store := goStore, declare := goDeclare, arg := goDeclare, quirk := fun _ => false }

/-! ### the Ego dialect -/

inductive Mode where
  | dynamic | relaxed | strict
  deriving DecidableEq, Repr

def Mode.isStrict : Mode → Bool
  | .strict => true
  | _ => false

/-- data.Normalize + the per-type dispatch of math.go / equal.go on two operands -/
def egoBin (m : Mode) (op : BinOp) (a b : Val) : Resp :=
  match sameBin op a b with
  | some r => r
  | none =>
    match a, b with
    | .int k x, .cst c =>        -- exactly one constant: it adapts to the other operand's kind
      if m.isStrict && !inRange k c then .abort .typeErr else arith op k x (wrap k c)
    | .cst c, .int k y =>
      if m.isStrict && !inRange k c then .abort .typeErr else arith op k (wrap k c) y
    | .cst x, .cst y => arith op .int x y        -- two `int` literals: the result is a plain int
    | .int k x, .int k' y =>                     -- k ≠ k' here
      if m.isStrict then .abort .typeErr
      else if k.ord < k'.ord then arith op k' (wrap k' x) y else arith op k x (wrap k y)
    | _, _ => .abort .typeErr

def egoStrOfInt (v : Val) : Resp :=
  match v with
  | .int _ x => .val (.str (showInt x))
  | .cst x => .val (.str (showInt x))
  | _ => .abort .typeErr

def egoUn (op : UnOp) (a : Val) : Resp :=
  match op, a with
  | .neg, .int k x => .val (.int k (wrap k (-x)))
  | .neg, .cst c => .val (.cst (-c))
  | .not, .bool b => .val (.bool (!b))
  | .strOfInt, v => egoStrOfInt v
  | _, _ => .abort .typeErr

/-- x++ / x--: Load x; Push constant 1; Add/Sub; Store x (compiler/assignment.go, for.go) -/
def egoIncr (inc : Bool) (a : Val) : Resp :=
  match a with
  | .int k x => .val (.int k (wrap k (if inc then x + 1 else x - 1)))
  | _ => .abort .typeErr

def egoConv (k : Kind) (v : Val) : Resp :=
  match v with
  | .int _ x => .val (.int k (wrap k x))
  | .cst c => .val (.int k (wrap k c))
  | _ => .abort .typeErr

/-- Context.checkType at the Store boundary -/
def egoStore (m : Mode) (old new : Val) : Resp :=
  match old, new with
  | .int k _, .int k' n =>
    if k = k' then .val new
    else match m with
      | .dynamic => .val new
      | .relaxed => .val (.int k (wrap k n))
      | .strict => .abort .typeErr
  | .int k _, .cst c =>
    match m with
    | .dynamic => .val (.int .int (wrap .int c))   -- an int literal re-types the variable
    | .relaxed => .val (.int k (wrap k c))
    | .strict => if inRange k c then .val (.int k c) else .abort .typeErr
  | .bool _, .bool _ => .val new
  | .str _, .str _ => .val new
  | o, n =>
    if isRefLike o && isRefLike n then .val n
    else match m, n with
      | .dynamic, .cst c => .val (.int .int (wrap .int c))
      | .dynamic, n => .val n
      | _, _ => .abort .typeErr

def egoDeclare (m : Mode) (k : Option Kind) (v : Val) : Resp :=
  match k, v with
  | some k, .int k' n =>
    if k = k' then .val v else if m.isStrict then .abort .typeErr else .val (.int k (wrap k n))
  | some k, .cst c =>
    if m.isStrict && !inRange k c then .abort .typeErr else .val (.int k (wrap k c))
  | some _, _ => .abort .typeErr
  | none, .cst c => .val (.int .int (wrap .int c))
  | none, v => .val v

/-- argument passing: in strict mode an `int` literal is not accepted by a parameter of another
    integer type (bytecode "incorrect function argument type") -/
def egoArg (m : Mode) (k : Option Kind) (v : Val) : Resp :=
  match m, k, v with
  | .strict, some k, .cst c =>
    -- a literal outside the int32 range is an int64 constant for Ego's lexer
    if k = .int && inRange .int32 c then egoDeclare m (some k) v else .abort .typeErr
  | _, _, _ => egoDeclare m k v

def egoDialect (m : Mode) : Dialect :=
  { binop := egoBin m, unop := egoUn, incr := egoIncr, conv := egoConv,
    store := egoStore m, declare := egoDeclare m, arg := egoArg m, quirk := fun _ => true }

end EgoVerif.C01
