import EgoVerif.C01.Machine
/- C01 — transitions: `applyAct` (operators fetched from the table), `prestepCore` (control). -/
namespace EgoVerif.C01

def elemsOf (s : St) : Val → Option (List Val)
  | .nil => some []
  | .ref a => match s.heap[a]? with
    | some (.arr xs) => some xs
    | _ => none
  | _ => none

def inBounds (n : Int) (len : Nat) : Bool := 0 ≤ n && n < (len : Int)

/-- the operation of an `op` node applied to its evaluated operands -/
def applyAct (p : Prog) (s : St) (a : Act) (vs : List Val) : Pending AReq :=
  match a, vs with
  | .bin _, [x, y] => askVal s (.bin x y) s.deliver
  | .un _, [x] => askVal s (.un x) s.deliver
  | .conv k, [x] => askVal s (.conv k x) s.deliver
  | .call f, vs =>
    match p.funcs[f]? with
    | some fn => .next { s with ctl := .bindp f fn.params vs [] false }
    | none => .next s.stuck
  | .callv, .clo f env :: vs =>
    match p.funcs[f]? with
    | some fn => .next { s with ctl := .bindp f fn.params vs env false }
    | none => .next s.stuck
  | .len, [.str x] => .next (s.deliver (.int .int x.length))
  | .len, [.nil] => .next (s.deliver (.int .int 0))
  | .len, [.ref a] =>
    match s.heap[a]? with
    | some (.arr xs) => .next (s.deliver (.int .int xs.length))
    | some (.map kv) => .next (s.deliver (.int .int kv.length))
    | _ => .next s.stuck
  | .index, [b, i] =>
    match elemsOf s b, toIdx i with
    | some xs, some n =>
      if inBounds n xs.length then
        match xs[n.toNat]? with
        | some v => .next (s.deliver v)
        | none => .next s.stuck
      else .next (s.fault .index)
    | _, _ => .next s.stuck
  | .mkslice, [n] =>
    match toIdx n with
    | some k =>
      if 0 ≤ k then
        let (a, s') := s.alloc (.arr (List.replicate k.toNat (.int .int 0)))
        .next (s'.deliver (.ref a))
      else .next s.stuck
    | none => .next s.stuck
  | .slicelit, vs =>
    match vs.mapM normElem with
    | some xs => let (a, s') := s.alloc (.arr xs); .next (s'.deliver (.ref a))
    | none => .next s.stuck
  | .append, [b, v] =>
    match elemsOf s b, normElem v with
    | some xs, some w => let (a, s') := s.alloc (.arr (xs ++ [w])); .next (s'.deliver (.ref a))
    | _, _ => .next s.stuck
  | .mkmap, vs =>
    match evenOdd vs with
    | some kv => let (a, s') := s.alloc (.map kv); .next (s'.deliver (.ref a))
    | none => .next s.stuck
  | .field i, [.ref a] =>
    match s.heap[a]? with
    | some (.strct fs) => match fs[i]? with
      | some v => .next (s.deliver v)
      | none => .next s.stuck
    | _ => .next s.stuck
  | .mkstruct, vs =>
    match vs.mapM normElem with
    | some xs => let (a, s') := s.alloc (.strct xs); .next (s'.deliver (.ref a))
    | none => .next s.stuck
  | .decl x k, [v] => askVal s (.core (.declare k v)) fun w => (s.bind x w).deliver .nil
  | .assign x, [v] => .next { s with ctl := .assignv x v }
  | .opassign _ x, [v] =>
    match readVar s x with
    | some (_, old) => askVal s (.bin old v) fun w => { s with ctl := .assignv x w }
    | none => .next s.stuck
  | .incdec x inc, [] =>
    match readVar s x with
    | some (a, old) => askVal s (.incr inc old) fun w => (s.write a (.cell w)).deliver .nil
    | none => .next s.stuck
  | .setindex x, [i, e] =>
    match readVar s x, toIdx i, normElem e with
    | some (_, .ref a), some n, some w =>
      match s.heap[a]? with
      | some (.arr xs) =>
        if inBounds n xs.length then .next ((s.write a (.arr (xs.set n.toNat w))).deliver .nil)
        else .next (s.fault .index)
      | _ => .next s.stuck
    | some (_, .nil), some _, some _ => .next (s.fault .index)
    | _, _, _ => .next s.stuck
  | .setfield x i, [e] =>
    match readVar s x, normElem e with
    | some (_, .ref a), some w =>
      match s.heap[a]? with
      | some (.strct fs) =>
        if i < fs.length then .next ((s.write a (.strct (fs.set i w))).deliver .nil) else .next s.stuck
      | _ => .next s.stuck
    | _, _ => .next s.stuck
  | .setmap x, [k, e] =>
    match readVar s x, toIdx k, normElem e with
    | some (_, .ref a), some n, some w =>
      match s.heap[a]? with
      | some (.map kv) => .next ((s.write a (.map (mapSet kv n w))).deliver .nil)
      | _ => .next s.stuck
    | _, _, _ => .next s.stuck
  | .mapget xv xok t e, [.ref a, k] =>
    match s.heap[a]?, toIdx k with
    | some (.map kv), some n =>
      match kv.lookup n with
      | some v => .next { (s.bind xv v).bind xok (.bool true) with ctl := .eval t }
      | none => .next { s.bind xok (.bool false) with ctl := .eval e }
    | _, _ => .next s.stuck
  | .multi xs d, [_] => .next { s with ctl := .multi xs s.ret d }
  | .println, vs =>
    match showLine vs with
    | some l => .next ({ s with out := l :: s.out }.deliver .nil)
    | none => .next s.stuck
  | .printf fmt, vs =>
    match format fmt vs with
    | some l => .next ({ s with out := l :: s.out }.deliver .nil)
    | none => .next s.stuck
  | .panic, [v] => .next { s with panic := some (.panic, v), ctl := .panicking }
  | .ret, vs =>
    match p.funcs[s.frame.fn]? with
    | some fn => .next { s with ctl := .setres fn.results vs }
    | none => .next s.stuck
  | .drop, [_] => .next (s.deliver .nil)
  | .defer (.fn f), vs =>
    .next ({ s with frame := { s.frame with defers := ⟨.fn f, .nil, vs⟩ :: s.frame.defers } }.deliver .nil)
  | .defer .clo, c :: vs =>
    .next ({ s with frame := { s.frame with defers := ⟨.clo, c, vs⟩ :: s.frame.defers } }.deliver .nil)
  | .defer .println, vs =>
    .next ({ s with frame := { s.frame with defers := ⟨.println, .nil, vs⟩ :: s.frame.defers } }.deliver .nil)
  | _, _ => .next s.stuck

def fnNamed (p : Prog) (s : St) : Bool :=
  match p.funcs[s.frame.fn]? with
  | some fn => fn.named
  | none => true

def evalNode (p : Prog) (s : St) (n : Nat) : Pending CReq :=
  match p.nodes[n]? with
  | none => .next s.stuck
  | some (.lit c) => .next (s.deliver (.cst c))
  | some (.blit b) => .next (s.deliver (.bool b))
  | some (.slit x) => .next (s.deliver (.str x))
  | some (.var x) =>
    match readVar s x with
    | some (_, v) => .next (s.deliver v)
    | none => .next s.stuck
  | some (.fnlit f) => .next (s.deliver (.clo f s.frame.env))
  | some (.op a args) =>
    match a with
    | .ret =>
      if !s.frame.defers.isEmpty && !fnNamed p s && nonSimple p args ≥ 1 then
        askFlag s (.quirk .deferEarly) fun b =>
          if b then { s with kont := .afterDefers n :: s.kont, ctl := .rundefers }
          else { s with ctl := .evalArgs n }
      else .next { s with ctl := .evalArgs n }
    | _ => .next { s with ctl := .evalArgs n }
  | some (.andalso a b) => .next { s with kont := .andK b :: s.kont, ctl := .eval a }
  | some (.orelse a b) => .next { s with kont := .orK b :: s.kont, ctl := .eval a }
  | some (.seq []) => .next (s.deliver .nil)
  | some (.seq (x :: rest)) => .next { s with kont := .seq rest :: s.kont, ctl := .eval x }
  | some (.ite c t e) => .next { s with kont := .ite t e :: s.kont, ctl := .eval c }
  | some (.loop _ init _ _ _ _) => .next { s with kont := .loopI n :: s.kont, ctl := .eval init }
  | some (.range _ _ _ e _) => .next { s with kont := .rangeS n :: s.kont, ctl := .eval e }
  | some (.brk l) => .next { s with ctl := .brk l }
  | some (.cont l) => .next { s with ctl := .cont l }
  | some (.switch e _ _) => .next { s with kont := .sw n :: s.kont, ctl := .eval e }
  | some (.recov x t e) =>
    if s.frame.isDeferred then
      match s.panic with
      | some (_, v) => .next { ({ s with panic := none }.bind x v) with ctl := .eval t }
      | none => .next { s with ctl := .eval e }
    else .next { s with ctl := .eval e }

def startArgs (s : St) (n : Nat) (args : List Nat) (perm : Bool) : St :=
  match (if perm then args.reverse else args) with
  | [] => { s with ctl := .apply n [] }
  | x :: rest => { s with kont := .args n perm rest [] :: s.kont, ctl := .eval x }

def evalArgs (p : Prog) (s : St) (n : Nat) : Pending CReq :=
  match p.nodes[n]? with
  | some (.op a args) =>
    let q : Option Quirk := match a with
      | .ret => if !fnNamed p s && nonSimple p args ≥ 2 then some .retReverse else none
      | .setindex _ | .setmap _ => if nonSimple p args ≥ 2 then some .assignRhsFirst else none
      | _ => none
    match q with
    | some q => askFlag s (.quirk q) fun b => startArgs s n args b
    | none => .next (startArgs s n args false)
  | _ => .next s.stuck

end EgoVerif.C01
