import EgoVerif.C01.Model
/-
C01 — the MiniGo abstract machine.  `prestep` is the dialect-independent transition function:
it either produces the next state or a request with a continuation.  Frames of the continuation
hold node INDICES only; an operator is always (re-)fetched from the program table in the step
that uses it, so a syntactic restriction of the table restricts the requests (Props.lean).
-/
namespace EgoVerif.C01

inductive DKind where
  | fn (f : Nat) | clo | println
  deriving DecidableEq, Repr

inductive Act where
  | bin (op : BinOp) | un (op : UnOp) | conv (k : Kind)
  | call (f : Nat) | callv | len | index | mkslice | slicelit | append | mkmap
  | field (i : Nat) | mkstruct
  | decl (x : Nat) (k : Option Kind) | assign (x : Nat) | opassign (op : BinOp) (x : Nat)
  | incdec (x : Nat) (inc : Bool)
  | setindex (x : Nat) | setfield (x i : Nat) | setmap (x : Nat)
  | mapget (xv xok t e : Nat)              -- if v, ok := m[k]; ok { t } else { e }
  | multi (xs : List Nat) (decl : Bool)    -- a, b := f(...)   /  a, b = f(...)
  | println | printf (fmt : Str) | panic | ret | drop
  | defer (d : DKind)
  deriving DecidableEq, Repr

inductive Node where
  | lit (n : Int) | blit (b : Bool) | slit (s : Str) | var (x : Nat) | fnlit (f : Nat)
  | op (a : Act) (args : List Nat)
  | andalso (a b : Nat) | orelse (a b : Nat)
  | seq (ss : List Nat)
  | ite (c t e : Nat)
  | loop (lbl init cond post body : Nat) (vars : List Nat)
  | range (lbl xi xv e body : Nat)          -- variable id 0 = blank
  | brk (lbl : Nat) | cont (lbl : Nat)
  | switch (e : Nat) (cases : List (List Int × Nat)) (dflt : Nat)
  | recov (x t e : Nat)                     -- if x := recover(); x != nil { t } else { e }
  deriving DecidableEq, Repr

structure Func where
  params : List (Nat × Option Kind)
  results : List (Nat × Val)                -- result variables with their zero values
  named : Bool
  body : Nat
  deriving DecidableEq, Repr

structure Prog where
  nodes : List Node
  funcs : List Func
  main : Nat
  deriving Repr

structure DCall where
  kind : DKind
  callee : Val
  args : List Val
  deriving DecidableEq, Repr

structure Frame where
  env : List (Nat × Nat) := []
  defers : List DCall := []
  fn : Nat := 0
  isDeferred : Bool := false
  deriving DecidableEq, Repr

inductive Obj where
  | cell (v : Val) | arr (xs : List Val) | map (kv : List (Int × Val)) | strct (fs : List Val)
  deriving DecidableEq, Repr

inductive K where
  | args (n : Nat) (perm : Bool) (todo : List Nat) (done : List Val)
  | seq (rest : List Nat)
  | ite (t e : Nat) | andK (b : Nat) | orK (b : Nat)
  | loopI (n : Nat) | loopC (n : Nat) | loopB (n : Nat) | loopP (n : Nat)
  | rangeS (n : Nat) | rangeB (n a len i : Nat)
  | sw (n : Nat)
  | call (saved : Frame) | deferRet | finishRet | finishPanic | afterDefers (n : Nat)
  | halt
  deriving DecidableEq, Repr

inductive End where
  | finished | aborted (k : AbortKind) (msg : Str) | outOfFuel | stuck
  deriving DecidableEq, Repr

inductive Ctl where
  | eval (n : Nat) | evalArgs (n : Nat) | apply (n : Nat) (vs : List Val)
  | ret (v : Val) | brk (l : Nat) | cont (l : Nat)
  | bindp (f : Nat) (ps : List (Nat × Option Kind)) (vs : List Val) (env : List (Nat × Nat)) (dfr : Bool)
  | setres (rs : List (Nat × Val)) (vs : List Val)
  | assignv (x : Nat) (v : Val)
  | multi (xs : List Nat) (vs : List Val) (decl : Bool)
  | swtest (v : Val) (labels : List Int) (body : Nat) (rest : List (List Int × Nat)) (dflt : Nat)
  | returning | rundefers | panicking | fault (k : AbortKind)
  | done (e : End)
  deriving DecidableEq, Repr

structure St where
  ctl : Ctl
  kont : List K
  frame : Frame
  heap : Array Obj
  out : List Str            -- chunks, most recent first
  ret : List Val
  panic : Option (AbortKind × Val)
  deriving DecidableEq, Repr

/-- requests of `applyAct`: the operator is NOT part of the request; `prestep` takes it from the
    node it has just fetched (`AReq.toReq`) -/
inductive AReq where
  | bin (a b : Val) | un (a : Val) | incr (inc : Bool) (a : Val) | conv (k : Kind) (v : Val)
  | core (c : CReq)

def Act.binop : Act → BinOp
  | .bin op => op
  | .opassign op _ => op
  | _ => .add

def Act.unop : Act → UnOp
  | .un op => op
  | _ => .not

def AReq.toReq (a : Act) : AReq → Req
  | .bin x y => .bin a.binop x y
  | .un x => .un a.unop x
  | .incr i x => .incr i x
  | .conv k v => .conv k v
  | .core c => .core c

inductive Pending (ρ : Type) where
  | next (s : St)
  | ask (r : ρ) (k : Resp → St)

def St.stuck (s : St) : St := { s with ctl := .done .stuck }
def St.deliver (s : St) (v : Val) : St := { s with ctl := .ret v }
def St.fault (s : St) (k : AbortKind) : St := { s with ctl := .fault k }

def askVal {ρ} (s : St) (r : ρ) (f : Val → St) : Pending ρ :=
  .ask r fun | .val v => f v | _ => s.stuck

def askFlag {ρ} (s : St) (r : ρ) (f : Bool → St) : Pending ρ :=
  .ask r fun | .flag b => f b | _ => s.stuck

def readVar (s : St) (x : Nat) : Option (Nat × Val) :=
  match s.frame.env.lookup x with
  | some a => match s.heap[a]? with
    | some (.cell v) => some (a, v)
    | _ => none
  | none => none

def St.alloc (s : St) (o : Obj) : Nat × St := (s.heap.size, { s with heap := s.heap.push o })

def St.bind (s : St) (x : Nat) (v : Val) : St :=
  if x = 0 then s else
  let (a, s) := s.alloc (.cell v)
  { s with frame := { s.frame with env := (x, a) :: s.frame.env } }

def St.write (s : St) (a : Nat) (o : Obj) : St := { s with heap := s.heap.setIfInBounds a o }

/-- slice / struct / map elements are `int`: an untyped constant becomes an int -/
def normElem : Val → Option Val
  | .cst c => if inRange .int c then some (.int .int c) else none
  | v => some v

def toIdx : Val → Option Int
  | .int _ n => some n
  | .cst n => some n
  | _ => none

def isSimple (p : Prog) (n : Nat) : Bool :=
  match p.nodes[n]? with
  | some (.lit _) | some (.blit _) | some (.slit _) | some (.var _) => true
  | _ => false

def nonSimple (p : Prog) (args : List Nat) : Nat := (args.filter fun a => !isSimple p a).length

def showVal : Val → Option Str
  | .int _ n => some (showInt n)
  | .cst n => some (showInt n)
  | .bool b => some (if b then [116, 114, 117, 101] else [102, 97, 108, 115, 101])
  | .str s => some s
  | _ => none

def showLine : List Val → Option Str
  | [] => some [10]
  | [v] => (showVal v).map (· ++ [10])
  | v :: vs => match showVal v, showLine vs with
    | some a, some b => some (a ++ 32 :: b)
    | _, _ => none

/-- Printf with the verbs %d %v %s %t and %% -/
def format : Str → List Val → Option Str
  | [], [] => some []
  | [], _ :: _ => none
  | 37 :: 37 :: rest, vs => (format rest vs).map (37 :: ·)
  | 37 :: c :: rest, v :: vs =>
    let ok := match c, v with
      | 100, .int .. => true | 100, .cst _ => true
      | 118, _ => true
      | 115, .str _ => true
      | 116, .bool _ => true
      | _, _ => false
    if ok then
      match showVal v, format rest vs with
      | some a, some b => some (a ++ b)
      | _, _ => none
    else none
  | c :: rest, vs => if c = 37 then none else (format rest vs).map (c :: ·)

/-- drop the frames of the current function activation: the top becomes its `call` frame -/
def dropToCall : List K → Option (List K)
  | [] => none
  | .call f :: rest => some (.call f :: rest)
  | .halt :: _ => none
  | _ :: rest => dropToCall rest

def pendingDefers (s : St) : Bool :=
  !s.frame.defers.isEmpty || s.kont.any fun | .call f => !f.defers.isEmpty | _ => false

def bindAll (s : St) : List (Nat × Val) → St
  | [] => s
  | (x, v) :: rest => bindAll (s.bind x v) rest

def readAll (s : St) : List (Nat × Val) → List Val
  | [] => []
  | (x, _) :: rest => (match readVar s x with | some (_, v) => v | none => .nil) :: readAll s rest

def evenOdd : List Val → Option (List (Int × Val))
  | [] => some []
  | k :: v :: rest => match toIdx k, normElem v, evenOdd rest with
    | some i, some w, some r => some ((i, w) :: r)
    | _, _, _ => none
  | [_] => none

def mapSet (kv : List (Int × Val)) (k : Int) (v : Val) : List (Int × Val) :=
  if kv.any (·.1 == k) then kv.map fun e => if e.1 == k then (k, v) else e else kv ++ [(k, v)]

/-- the continuation after a function's deferred calls have all run -/
def finishReturn (p : Prog) (s : St) (rest : List K) : St :=
  match rest with
  | .call saved :: rest' =>
    match p.funcs[s.frame.fn]? with
    | some fn =>
      let vals := readAll s fn.results
      { s with kont := rest', frame := saved, ret := vals, ctl := .ret (vals.headD .nil) }
    | none => s.stuck
  | _ => s.stuck

/-- start iteration `i` of a range loop (frame `rangeB` already popped), or finish the loop -/
def rangeIter (p : Prog) (s : St) (n a len i : Nat) (rest : List K) : St :=
  match p.nodes[n]? with
  | some (.range _ xi xv _ body) =>
    if i < len then
      match s.heap[a]? with
      | some (.arr xs) =>
        match xs[i]? with
        | some v =>
          let s := (s.bind xi (.int .int i)).bind xv v
          { s with kont := .rangeB n a len i :: rest, ctl := .eval body }
        | none => s.stuck
      | _ => s.stuck
    else { s with kont := rest, ctl := .ret .nil }
  | _ => s.stuck

/-- copy the loop variables into fresh cells (Go 1.22 per-iteration semantics) -/
def copyVars (s : St) : List Nat → St
  | [] => s
  | x :: xs => match readVar s x with
    | some (_, v) => copyVars (s.bind x v) xs
    | none => copyVars s xs

end EgoVerif.C01
