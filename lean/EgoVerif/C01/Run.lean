import EgoVerif.C01.Step
/- C01 — control transitions, `prestep`, `step`, `run`. -/
namespace EgoVerif.C01

def loopLabel (p : Prog) (n : Nat) : Option Nat :=
  match p.nodes[n]? with
  | some (.loop l ..) => some l
  | some (.range l ..) => some l
  | _ => none

/-- deliver the value `v` to the top continuation frame -/
def deliverTo (p : Prog) (s : St) (v : Val) : St :=
  match s.kont with
  | [] => s.stuck
  | .halt :: _ => { s with ctl := .done .finished }
  | .args n perm todo done :: rest =>
    match todo with
    | [] => { s with kont := rest, ctl := .apply n (if perm then v :: done else (v :: done).reverse) }
    | t :: ts => { s with kont := .args n perm ts (v :: done) :: rest, ctl := .eval t }
  | .seq [] :: rest => { s with kont := rest, ctl := .ret .nil }
  | .seq (x :: xs) :: rest => { s with kont := .seq xs :: rest, ctl := .eval x }
  | .ite t e :: rest =>
    match v with
    | .bool true => { s with kont := rest, ctl := .eval t }
    | .bool false => { s with kont := rest, ctl := .eval e }
    | _ => s.stuck
  | .andK b :: rest =>
    match v with
    | .bool true => { s with kont := rest, ctl := .eval b }
    | .bool false => { s with kont := rest, ctl := .ret (.bool false) }
    | _ => s.stuck
  | .orK b :: rest =>
    match v with
    | .bool false => { s with kont := rest, ctl := .eval b }
    | .bool true => { s with kont := rest, ctl := .ret (.bool true) }
    | _ => s.stuck
  | .loopI n :: rest =>
    match p.nodes[n]? with
    | some (.loop _ _ cond _ _ _) => { s with kont := .loopC n :: rest, ctl := .eval cond }
    | _ => s.stuck
  | .loopC n :: rest =>
    match p.nodes[n]?, v with
    | some (.loop _ _ _ _ body _), .bool true => { s with kont := .loopB n :: rest, ctl := .eval body }
    | some (.loop ..), .bool false => { s with kont := rest, ctl := .ret .nil }
    | _, _ => s.stuck
  | .loopB n :: rest =>
    match p.nodes[n]? with
    | some (.loop _ _ _ post _ vars) =>
      { copyVars s vars with kont := .loopP n :: rest, ctl := .eval post }
    | _ => s.stuck
  | .loopP n :: rest =>
    match p.nodes[n]? with
    | some (.loop _ _ cond _ _ _) => { s with kont := .loopC n :: rest, ctl := .eval cond }
    | _ => s.stuck
  | .rangeS n :: rest =>
    match v with
    | .ref a =>
      match s.heap[a]? with
      | some (.arr xs) => rangeIter p s n a xs.length 0 rest
      | _ => s.stuck
    | .nil => { s with kont := rest, ctl := .ret .nil }
    | _ => s.stuck
  | .rangeB n a len i :: rest => rangeIter p s n a len (i + 1) rest
  | .sw n :: rest =>
    match p.nodes[n]? with
    | some (.switch _ cases dflt) => { s with kont := rest, ctl := .swtest v [] 0 cases dflt }
    | _ => s.stuck
  | .call _ :: _ => { s with ctl := .returning }
  | .deferRet :: rest => { s with kont := rest, ctl := .rundefers }
  | .finishRet :: rest => finishReturn p s rest
  | .finishPanic :: rest =>
    match s.panic with
    | none => finishReturn p s rest
    | some _ =>
      match rest with
      | .call saved :: rest' => { s with kont := rest', frame := saved, ctl := .panicking }
      | _ => s.stuck
  | .afterDefers n :: rest => { s with kont := rest, ctl := .evalArgs n }

/-- `break l` / `continue l`: unwind one continuation frame per step -/
def unwindLoop (p : Prog) (s : St) (l : Nat) (isBreak : Bool) : St :=
  match s.kont with
  | [] => s.stuck
  | .loopB n :: rest =>
    if loopLabel p n = some l then
      if isBreak then { s with kont := rest, ctl := .ret .nil } else { s with ctl := .ret .nil }
    else { s with kont := rest }
  | .rangeB n a len i :: rest =>
    if loopLabel p n = some l then
      if isBreak then { s with kont := rest, ctl := .ret .nil } else { s with ctl := .ret .nil }
    else { s with kont := rest }
  | .call _ :: _ | .halt :: _ | .deferRet :: _ | .finishRet :: _ | .finishPanic :: _
  | .afterDefers _ :: _ => s.stuck
  | _ :: rest => { s with kont := rest }

def panicMsg (s : St) : AbortKind × Str :=
  match s.panic with
  | some (.panic, .str m) => (.panic, m)
  | some (k, _) => (k, [])
  | none => (.panic, [])

def runDefer (p : Prog) (s : St) : St :=
  match s.frame.defers with
  | [] => s.deliver .nil
  | d :: ds =>
    let s := { s with frame := { s.frame with defers := ds }, kont := .deferRet :: s.kont }
    match d.kind, d.callee with
    | .println, _ =>
      match showLine d.args with
      | some l => { s with out := l :: s.out, ctl := .ret .nil }
      | none => s.stuck
    | .fn f, _ =>
      match p.funcs[f]? with
      | some fn => { s with ctl := .bindp f fn.params d.args [] true }
      | none => s.stuck
    | .clo, .clo f env =>
      match p.funcs[f]? with
      | some fn => { s with ctl := .bindp f fn.params d.args env true }
      | none => s.stuck
    | .clo, _ => s.stuck

def prestepCore (p : Prog) (s : St) : Pending CReq :=
  match s.ctl with
  | .done _ => .next s
  | .apply .. => .next s.stuck
  | .eval n => evalNode p s n
  | .evalArgs n => evalArgs p s n
  | .ret v => .next (deliverTo p s v)
  | .brk l => .next (unwindLoop p s l true)
  | .cont l => .next (unwindLoop p s l false)
  | .bindp f ps vs env dfr =>
    match ps, vs with
    | [], [] =>
      match p.funcs[f]? with
      | some fn =>
        let s1 := { s with kont := .call s.frame :: s.kont,
                           frame := { env := env, defers := [], fn := f, isDeferred := dfr } }
        .next { bindAll s1 fn.results with ctl := .eval fn.body }
      | none => .next s.stuck
    | (x, k) :: ps, v :: vs =>
      askVal s (.arg k v) fun w =>
        let (a, s') := s.alloc (.cell w)
        { s' with ctl := .bindp f ps vs ((x, a) :: env) dfr }
    | _, _ => .next s.stuck
  | .setres rs vs =>
    match rs, vs with
    | _, [] => .next { s with ctl := .returning }
    | (x, _) :: rs, v :: vs =>
      match readVar s x with
      | some (a, old) =>
        -- the compiler coerces a returned value to the declared result type (return.go c.coercions)
        let r : CReq := match old with
          | .int k _ => .declare (some k) v
          | _ => .store old v
        askVal s r fun w => { s.write a (.cell w) with ctl := .setres rs vs }
      | none => .next s.stuck
    | [], _ :: _ => .next s.stuck
  | .assignv x v =>
    match readVar s x with
    | some (a, old) => askVal s (.store old v) fun w => (s.write a (.cell w)).deliver .nil
    | none => .next s.stuck
  | .multi xs vs d =>
    match xs, vs with
    | [], [] => .next (s.deliver .nil)
    | x :: xs, v :: vs =>
      if d then askVal s (.declare none v) fun w => { s.bind x w with ctl := .multi xs vs d }
      else if x = 0 then .next { s with ctl := .multi xs vs d }
      else match readVar s x with
        | some (a, old) => askVal s (.store old v) fun w => { s.write a (.cell w) with ctl := .multi xs vs d }
        | none => .next s.stuck
    | _, _ => .next s.stuck
  | .swtest v labels body rest dflt =>
    match labels with
    | l :: ls =>
      askVal s (.caseEq v l) fun
        | .bool true => { s with ctl := .eval body }
        | .bool false => { s with ctl := .swtest v ls body rest dflt }
        | _ => s.stuck
    | [] =>
      match rest with
      | (ls, b) :: rest' => .next { s with ctl := .swtest v ls b rest' dflt }
      | [] => .next { s with ctl := .eval dflt }
  | .returning =>
    match dropToCall s.kont with
    | some k => .next { s with kont := .finishRet :: k, ctl := .rundefers }
    | none => .next s.stuck
  | .rundefers => .next (runDefer p s)
  | .panicking =>
    match dropToCall s.kont with
    | some k => .next { s with kont := .finishPanic :: k, ctl := .rundefers }
    | none => let (k, m) := panicMsg s; .next { s with ctl := .done (.aborted k m) }
  | .fault k =>
    if pendingDefers s then
      askFlag s (.quirk .faultSkipsDefers) fun b =>
        if b then { s with ctl := .done (.aborted k []) }
        else { s with panic := some (k, .str []), ctl := .panicking }
    else .next { s with ctl := .done (.aborted k []) }

def Pending.lift : Pending CReq → Pending Req
  | .next s => .next s
  | .ask r k => .ask (.core r) k

/-- the dialect-independent transition: next state, or a request plus continuation -/
def prestep (p : Prog) (s : St) : Pending Req :=
  match s.ctl with
  | .apply n vs =>
    match p.nodes[n]? with
    | some (.op a _) =>
      match applyAct p s a vs with
      | .next s' => .next s'
      | .ask r k => .ask (r.toReq a) k
    | _ => .next s.stuck
  | _ => (prestepCore p s).lift

def step (D : Dialect) (p : Prog) (s : St) : St :=
  match prestep p s with
  | .next s' => s'
  | .ask r k =>
    match D.apply r with
    | .abort a => { s with ctl := .fault a }
    | .stuck => { s with ctl := .done .stuck }
    | resp => k resp

def isDone (s : St) : Bool :=
  match s.ctl with
  | .done _ => true
  | _ => false

def iter (D : Dialect) (p : Prog) : Nat → St → St
  | 0, s => s
  | n + 1, s => if isDone s then s else iter D p n (step D p s)

def init (p : Prog) : St :=
  { ctl := .bindp p.main [] [] [] false, kont := [.halt], frame := {}, heap := #[], out := [],
    ret := [], panic := none }

structure Outcome where
  stdout : List Str
  «end» : End
  deriving DecidableEq, Repr

def outcome (s : St) : Outcome :=
  match s.ctl with
  | .done e => ⟨s.out.reverse, e⟩
  | _ => ⟨s.out.reverse, .outOfFuel⟩

def run (D : Dialect) (p : Prog) (fuel : Nat) : Outcome := outcome (iter D p fuel (init p))

end EgoVerif.C01
