import EgoVerif.C01.Table
/-
C01 — theorems about the MiniGo machine (all by induction on the fuel / case analysis of requests;
nothing is sampled).  Table.lean: InCommonSubset, prestep_common, the agreement table
C01_ego_refines_go (+ C01_binop_same_kind, C01_unop_incr_same).  Here:

  run_fuel_mono            more fuel never changes a finished / aborted / stuck outcome
  run_congr                two dialects that agree on every request issued during a run give equal runs
  run_refine               a dialect that answers every issued request like D₁ — wherever D₁ is not
                           `stuck` — reproduces every non-stuck run of D₁
  along_common             a program of the common subset only issues common-subset requests, along any run
  C01_refines_go_general   InCommonSubset p → KnownFree m p f → Go's run not stuck → run (egoDialect m) = run goDialect
  C01_refines_go_partial   … → run go = finished out → ∀ mode, run ego = finished out
  C01_refines_go_abort_partial   the same for `aborted kind msg` (÷0, index, unrecovered panic)
  C01_refines_go_any_fuel  … and for every larger fuel
  C01_refines_go_counterexample / _abort_counterexample
                           the statement without KnownFree is false on the current tree (witness programs)
-/
namespace EgoVerif.C01

/-! ### generic facts about `iter` -/

theorem iter_of_done (D : Dialect) (p : Prog) (s : St) (h : isDone s = true) : ∀ n, iter D p n s = s
  | 0 => rfl
  | n + 1 => by simp [iter, h]

theorem iter_done_add (D : Dialect) (p : Prog) :
    ∀ (n k : Nat) (s : St), isDone (iter D p n s) = true → iter D p (n + k) s = iter D p n s := by
  intro n
  induction n with
  | zero => intro k s h; simpa [iter] using iter_of_done D p s (by simpa [iter] using h) k
  | succ n ih =>
    intro k s h
    have e : n + 1 + k = (n + k) + 1 := by omega
    rw [e]
    by_cases hd : isDone s = true
    · simp [iter, hd]
    · simp only [iter, hd] at h ⊢
      exact ih k _ h

theorem outcome_done {s : St} (h : (outcome s).end ≠ .outOfFuel) : isDone s = true := by
  unfold outcome at h
  unfold isDone
  split <;> simp_all

/-- more fuel never changes an outcome that is not `outOfFuel` -/
theorem run_fuel_mono (D : Dialect) (p : Prog) (f f' : Nat)
    (h : (run D p f).end ≠ .outOfFuel) (hle : f ≤ f') : run D p f' = run D p f := by
  obtain ⟨k, rfl⟩ : ∃ k, f' = f + k := ⟨f' - f, by omega⟩
  unfold run at *
  rw [iter_done_add D p f k (init p) (outcome_done h)]

/-! ### requests issued along a run -/

/-- every request issued during the first `n` steps of `D`'s run from `s` satisfies `P` -/
def Along (D : Dialect) (p : Prog) (P : Req → Prop) : Nat → St → Prop
  | 0, _ => True
  | n + 1, s =>
    if isDone s then True
    else (match prestep p s with
          | .ask r _ => P r
          | .next _ => True) ∧ Along D p P n (step D p s)

theorem Along.mono {D : Dialect} {p : Prog} {P Q : Req → Prop} (hpq : ∀ r, P r → Q r) :
    ∀ (n : Nat) (s : St), Along D p P n s → Along D p Q n s := by
  intro n
  induction n with
  | zero => intro s _; trivial
  | succ n ih =>
    intro s h
    unfold Along at h ⊢
    split
    · trivial
    · rename_i hd
      simp only [hd] at h
      refine ⟨?_, ih _ h.2⟩
      have h1 := h.1
      split at h1 <;> simp_all

theorem Along.and {D : Dialect} {p : Prog} {P Q : Req → Prop} :
    ∀ (n : Nat) (s : St), Along D p P n s → Along D p Q n s → Along D p (fun r => P r ∧ Q r) n s := by
  intro n
  induction n with
  | zero => intro s _ _; trivial
  | succ n ih =>
    intro s h1 h2
    unfold Along at h1 h2 ⊢
    split
    · trivial
    · rename_i hd
      simp only [hd] at h1 h2
      refine ⟨?_, ih _ h1.2 h2.2⟩
      have a := h1.1
      have b := h2.1
      split at a <;> simp_all

theorem step_congr {D1 D2 : Dialect} {p : Prog} {s : St}
    (h : match prestep p s with
         | .ask r _ => D1.apply r = D2.apply r
         | .next _ => True) : step D1 p s = step D2 p s := by
  unfold step
  cases hp : prestep p s with
  | next s' => rfl
  | ask r k =>
    rw [hp] at h
    simp only at h
    dsimp only
    rw [h]

theorem iter_congr (D1 D2 : Dialect) (p : Prog) :
    ∀ (n : Nat) (s : St), Along D1 p (fun r => D1.apply r = D2.apply r) n s →
      iter D1 p n s = iter D2 p n s := by
  intro n
  induction n with
  | zero => intro s _; rfl
  | succ n ih =>
    intro s h
    unfold Along at h
    by_cases hd : isDone s = true
    · simp [iter, hd]
    · simp only [hd] at h
      simp only [iter, hd]
      rw [← step_congr h.1]
      exact ih _ h.2

/-- two dialects that agree on every request issued during the run give equal runs -/
theorem run_congr (D1 D2 : Dialect) (p : Prog) (f : Nat)
    (h : Along D1 p (fun r => D1.apply r = D2.apply r) f (init p)) : run D1 p f = run D2 p f := by
  unfold run
  rw [iter_congr D1 D2 p f (init p) h]

/-! ### refinement: D₂ answers like D₁ wherever D₁ is not stuck -/

def isStuck (s : St) : Bool := s.ctl == .done .stuck

theorem step_refine {D1 D2 : Dialect} {p : Prog} {s : St}
    (h : match prestep p s with
         | .ask r _ => Refines D1 D2 r
         | .next _ => True) :
    step D2 p s = step D1 p s ∨ step D1 p s = { s with ctl := .done .stuck } := by
  unfold step
  cases hp : prestep p s with
  | next s' => left; rfl
  | ask r k =>
    rw [hp] at h
    simp only at h
    rcases h with h | h
    · right; simp [h]
    · left; simp [h]

theorem iter_refine (D1 D2 : Dialect) (p : Prog) :
    ∀ (n : Nat) (s : St), Along D1 p (Refines D1 D2) n s → isStuck (iter D1 p n s) = false →
      iter D2 p n s = iter D1 p n s := by
  intro n
  induction n with
  | zero => intro s _ _; rfl
  | succ n ih =>
    intro s h hs
    unfold Along at h
    by_cases hd : isDone s = true
    · simp [iter, hd]
    · simp only [hd] at h
      simp only [iter, hd] at hs ⊢
      rcases step_refine h.1 with e | e
      · rw [e]; exact ih _ h.2 hs
      · exfalso
        rw [e, iter_of_done D1 p _ (by simp [isDone]) n] at hs
        simp [isStuck] at hs

theorem outcome_not_stuck {s : St} (h : (outcome s).end ≠ .stuck) : isStuck s = false := by
  unfold outcome at h
  unfold isStuck
  split at h <;> simp_all

/-- if D₂ refines D₁ on every request D₁'s run issues, D₂ reproduces every non-stuck run of D₁ -/
theorem run_refine (D1 D2 : Dialect) (p : Prog) (f : Nat)
    (h : Along D1 p (Refines D1 D2) f (init p)) (hs : (run D1 p f).end ≠ .stuck) :
    run D2 p f = run D1 p f := by
  unfold run at *
  rw [iter_refine D1 D2 p f (init p) h (outcome_not_stuck hs)]

/-! ### C01: Ego refines Go on the common subset -/

theorem along_common (D : Dialect) {p : Prog} (hp : InCommonSubset p) :
    ∀ (n : Nat) (s : St), Along D p (fun r => r.common = true) n s := by
  intro n
  induction n with
  | zero => intro s; trivial
  | succ n ih =>
    intro s
    unfold Along
    split
    · trivial
    · refine ⟨?_, ih _⟩
      cases h : prestep p s with
      | next s' => trivial
      | ask r k => exact prestep_common hp h

/-- Go's run of `p` with fuel `f` issues no request of a known-divergent class (decidable by running) -/
def KnownFree (m : Mode) (p : Prog) (f : Nat) : Prop :=
  Along goDialect p (fun r => r.known m = false) f (init p)

/-- general form: every run of Go that does not get stuck is reproduced by Ego, in every mode -/
theorem C01_refines_go_general (m : Mode) (p : Prog) (f : Nat) (hp : InCommonSubset p)
    (hk : KnownFree m p f) (hs : (run goDialect p f).end ≠ .stuck) :
    run (egoDialect m) p f = run goDialect p f := by
  apply run_refine goDialect (egoDialect m) p f _ hs
  have h := Along.and f (init p) (along_common goDialect hp f (init p)) hk
  exact Along.mono (fun r hr => C01_ego_refines_go m r hr.1 hr.2) f (init p) h

/-- C01 (finished runs), with the known-divergent request classes excluded:
    a program of the common subset that Go runs to completion with output `out` is run to
    completion by Ego with the same output, in every type mode. -/
theorem C01_refines_go_partial (p : Prog) (f : Nat) (out : List Str) (hp : InCommonSubset p)
    (hk : ∀ m, KnownFree m p f) (hr : run goDialect p f = ⟨out, .finished⟩) :
    ∀ m : Mode, run (egoDialect m) p f = ⟨out, .finished⟩ := by
  intro m
  rw [C01_refines_go_general m p f hp (hk m) (by rw [hr]; simp), hr]

/-- C01 (aborting runs): where Go aborts (÷0, index out of range, unrecovered panic with message
    `msg`) after printing `out`, Ego aborts in the same way after the same output. -/
theorem C01_refines_go_abort_partial (p : Prog) (f : Nat) (out : List Str) (k : AbortKind) (msg : Str)
    (hp : InCommonSubset p) (hk : ∀ m, KnownFree m p f)
    (hr : run goDialect p f = ⟨out, .aborted k msg⟩) :
    ∀ m : Mode, run (egoDialect m) p f = ⟨out, .aborted k msg⟩ := by
  intro m
  rw [C01_refines_go_general m p f hp (hk m) (by rw [hr]; simp), hr]

/-- and the result does not depend on the fuel once Go's run has ended -/
theorem C01_refines_go_any_fuel (p : Prog) (f f' : Nat) (out : List Str) (hp : InCommonSubset p)
    (hk : ∀ m, KnownFree m p f) (hr : run goDialect p f = ⟨out, .finished⟩) (hle : f ≤ f') :
    ∀ m : Mode, run (egoDialect m) p f' = ⟨out, .finished⟩ := by
  intro m
  have h := C01_refines_go_partial p f out hp hk hr m
  rw [run_fuel_mono (egoDialect m) p f f' (by rw [h]; simp) hle, h]

/-! ### the full statement is false on the current tree: witnesses -/

/-- `func f0(a int) int { Println(a); return a }; func f1() (int, int) { return f0(1), f0(2) };
    func main() { f1() }` -/
def cexRet : Prog :=
  { nodes := [.var 1, .op .println [0], .var 1, .op .ret [2], .seq [1, 3],
              .lit 1, .op (.call 0) [5], .lit 2, .op (.call 0) [7], .op .ret [6, 8], .seq [9],
              .op (.call 1) [], .op .drop [11], .seq [12]],
    funcs := [{ params := [(1, some .int)], results := [(2, .int .int 0)], named := false, body := 4 },
              { params := [], results := [(3, .int .int 0), (4, .int .int 0)], named := false, body := 10 },
              { params := [], results := [], named := false, body := 13 }],
    main := 2 }

/-- `func main() { defer Println("bye"); z := 0; Println(10 / z) }` -/
def cexFault : Prog :=
  { nodes := [.slit [98, 121, 101], .op (.defer .println) [0], .lit 0, .op (.decl 1 none) [2],
              .lit 10, .var 1, .op (.bin .div) [4, 5], .op .println [6], .seq [1, 3, 7]],
    funcs := [{ params := [], results := [], named := false, body := 8 }],
    main := 0 }

/-- finished runs: Go prints 1 then 2, Ego (every mode) prints 2 then 1 -/
theorem C01_refines_go_counterexample :
    InCommonSubset cexRet ∧ run goDialect cexRet 100 = ⟨[[49, 10], [50, 10]], .finished⟩ ∧
    ∀ m : Mode, run (egoDialect m) cexRet 100 = ⟨[[50, 10], [49, 10]], .finished⟩ := by
  refine ⟨by decide +kernel, by decide +kernel, ?_⟩
  intro m; cases m <;> decide +kernel

/-- aborting runs: Go runs the deferred call before dying of ÷0, Ego does not -/
theorem C01_refines_go_abort_counterexample :
    InCommonSubset cexFault ∧ run goDialect cexFault 100 = ⟨[[98, 121, 101, 10]], .aborted .divZero []⟩ ∧
    ∀ m : Mode, run (egoDialect m) cexFault 100 = ⟨[], .aborted .divZero []⟩ := by
  refine ⟨by decide +kernel, by decide +kernel, ?_⟩
  intro m; cases m <;> decide +kernel

/-! ### non-vacuity: the hypotheses of the partial theorems are met by programs with real work -/

/-- `func main() { var x int8 = 127; x++; Println(x); for i := 0; i < 2; i++ { Println(i * 3) } }` -/
def okProg : Prog :=
  { nodes := [.lit 127, .op (.decl 1 (some .int8)) [0], .op (.incdec 1 true) [], .var 1, .op .println [3],
              .lit 0, .op (.decl 2 none) [5], .var 2, .lit 2, .op (.bin .lt) [7, 8], .op (.incdec 2 true) [],
              .var 2, .lit 3, .op (.bin .mul) [11, 12], .op .println [13], .seq [14],
              .loop 1 6 9 10 15 [2], .seq [1, 2, 4, 16]],
    funcs := [{ params := [], results := [], named := false, body := 17 }],
    main := 0 }

/-- executable form of `Along` (used to discharge `KnownFree` for concrete programs) -/
def alongB (D : Dialect) (p : Prog) (P : Req → Bool) : Nat → St → Bool
  | 0, _ => true
  | n + 1, s =>
    if isDone s then true
    else (match prestep p s with
          | .ask r _ => P r
          | .next _ => true) && alongB D p P n (step D p s)

theorem alongB_sound (D : Dialect) (p : Prog) (P : Req → Bool) :
    ∀ (n : Nat) (s : St), alongB D p P n s = true → Along D p (fun r => P r = true) n s := by
  intro n
  induction n with
  | zero => intro s _; trivial
  | succ n ih =>
    intro s h
    unfold alongB at h
    unfold Along
    split
    · trivial
    · rename_i hd
      simp only [hd, Bool.false_eq_true, if_false, Bool.and_eq_true] at h
      refine ⟨?_, ih _ h.2⟩
      have h1 := h.1
      split at h1 <;> simp_all

theorem knownFree_of_check (m : Mode) (p : Prog) (f : Nat)
    (h : alongB goDialect p (fun r => !r.known m) f (init p) = true) : KnownFree m p f :=
  Along.mono (fun r hr => by simpa using hr) f (init p) (alongB_sound goDialect p _ f (init p) h)

example : InCommonSubset okProg := by decide +kernel
example : ∀ m, KnownFree m okProg 200 := fun m => knownFree_of_check _ _ _ (by cases m <;> decide +kernel)
example : run goDialect okProg 200 = ⟨[[45, 49, 50, 56, 10], [48, 10], [51, 10]], .finished⟩ := by
  decide +kernel

end EgoVerif.C01
