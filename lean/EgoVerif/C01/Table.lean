import EgoVerif.C01.Run
/-
C01 — the syntactic common subset and the dialect agreement table.
-/
namespace EgoVerif.C01

/-! ### the common subset (syntactic, decidable) -/

def Act.common : Act → Bool
  | .bin .xor => false            -- `^` is exponentiation in Ego
  | .opassign .xor _ => false     -- compound operators other than += -= *= /=
  | .un .strOfInt => false        -- string(int) is decimal in Ego
  | _ => true

def Node.common : Node → Bool
  | .op a _ => a.common
  | _ => true

/-- every node of the program table is a construct of the documented common subset -/
def InCommonSubset (p : Prog) : Prop := p.nodes.all Node.common = true

instance (p : Prog) : Decidable (InCommonSubset p) := by unfold InCommonSubset; infer_instance

def Req.common : Req → Bool
  | .bin .xor _ _ => false
  | .un .strOfInt _ => false
  | _ => true

theorem toReq_common {a : Act} (ha : a.common = true) (r : AReq) : (r.toReq a).common = true := by
  cases r with
  | bin x y =>
    cases a with
    | bin op => cases op <;> simp_all [Act.common, AReq.toReq, Act.binop, Req.common]
    | opassign op v => cases op <;> simp_all [Act.common, AReq.toReq, Act.binop, Req.common]
    | _ => rfl
  | un x =>
    cases a with
    | un op => cases op <;> simp_all [Act.common, AReq.toReq, Act.unop, Req.common]
    | _ => rfl
  | _ => rfl

theorem lift_common {x : Pending CReq} {r : Req} {k : Resp → St} (h : x.lift = .ask r k) :
    r.common = true := by
  cases x with
  | next s => simp [Pending.lift] at h
  | ask c k' =>
    simp only [Pending.lift, Pending.ask.injEq] at h
    obtain ⟨rfl, _⟩ := h
    rfl

/-- a program of the common subset only issues common-subset requests -/
theorem prestep_common {p : Prog} (hp : InCommonSubset p) {s : St} {r : Req} {k : Resp → St}
    (h : prestep p s = .ask r k) : r.common = true := by
  unfold prestep at h
  split at h
  · rename_i n vs
    split at h
    · rename_i a args hn
      have hmem : Node.op a args ∈ p.nodes := List.mem_of_getElem? hn
      have ha : a.common = true := by
        have := List.all_eq_true.mp hp _ hmem
        simpa [Node.common] using this
      split at h
      · cases h
      · simp only [Pending.ask.injEq] at h
        obtain ⟨rfl, _⟩ := h
        exact toReq_common ha _
    · cases h
  · exact lift_common h

/-! ### the agreement table -/

/-- D₂ answers the request like D₁, unless D₁ is stuck on it ("Go would not compile this") -/
def Refines (D1 D2 : Dialect) (r : Req) : Prop := D1.apply r = .stuck ∨ D2.apply r = D1.apply r

theorem wrap_of_inRange {k : Kind} {c : Int} (h : inRange k c = true) : wrap k c = c := by
  simpa [inRange] using h

/-- request classes on which the CURRENT Ego tree is known to answer differently from Go -/
def Req.known (m : Mode) : Req → Bool
  | .core (.quirk _) => true                    -- the four structural quirks
  | .bin _ (.cst _) (.cst _) => true            -- constant-expression operand: typed int by Ego
  | .core (.caseEq (.cst _) _) => true          -- (same family: switch on a constant)
  | .core (.arg (some k) (.cst c)) =>           -- strict mode: literal argument, narrower parameter
    m.isStrict && !(k == .int && inRange .int32 c)
  | .core (.store (.int k _) (.cst _)) =>       -- dynamic mode: `x = <literal>` re-types a non-int x
    m == .dynamic && k != .int
  | _ => false

theorem bin_agree (m : Mode) (op : BinOp) (a b : Val) (hk : Req.known m (.bin op a b) = false) :
    goBin op a b = .stuck ∨ egoBin m op a b = goBin op a b := by
  unfold goBin egoBin
  cases h : sameBin op a b with
  | some r => right; rfl
  | none =>
    cases a <;> cases b <;> simp only [] <;> (try simp [Req.known] at hk) <;> (try (left; trivial))
    · rename_i k x c
      by_cases hr : inRange k c = true
      · by_cases hz : (isDivMod op && c == 0) = true
        · left; simp [hr, hz]
        · right; simp [hr, hz, wrap_of_inRange hr]
      · left; simp [hr]
    · rename_i c k y
      by_cases hr : inRange k c = true
      · right; simp [hr, wrap_of_inRange hr]
      · left; simp [hr]

theorem un_agree (op : UnOp) (a : Val) (hc : Req.common (.un op a) = true) :
    goUn op a = .stuck ∨ egoUn op a = goUn op a := by
  cases op <;> cases a <;> simp [goUn, egoUn, Req.common] at hc ⊢

theorem incr_agree (i : Bool) (a : Val) : goIncr i a = .stuck ∨ egoIncr i a = goIncr i a := by
  cases a <;> simp [goIncr, egoIncr]

theorem conv_agree (k : Kind) (a : Val) : goConv k a = .stuck ∨ egoConv k a = goConv k a := by
  cases a <;> simp [goConv, egoConv]
  rename_i c
  by_cases hr : inRange k c = true
  · right; simp [hr, wrap_of_inRange hr]
  · left; simp [hr]

theorem store_agree (m : Mode) (o n : Val) (hk : Req.known m (.core (.store o n)) = false) :
    goStore o n = .stuck ∨ egoStore m o n = goStore o n := by
  cases o <;> cases n <;> simp [goStore, egoStore, isRefLike]
  · rename_i k _ k' _
    by_cases hk : k = k'
    · right; simp [hk]
    · left; exact hk
  · rename_i k _ c
    by_cases hr : inRange k c = true
    · right
      cases m
      · simp [Req.known] at hk
        subst hk
        simp [hr, wrap_of_inRange hr]
      · simp [hr, wrap_of_inRange hr]
      · simp [hr]
    · left; simpa using hr

theorem declare_agree (m : Mode) (k : Option Kind) (v : Val) :
    goDeclare k v = .stuck ∨ egoDeclare m k v = goDeclare k v := by
  cases k <;> cases v <;> simp [goDeclare, egoDeclare]
  · rename_i c
    by_cases hr : inRange .int c = true
    · right; simp [hr, wrap_of_inRange hr]
    · left; simpa using hr
  · rename_i k k' _
    by_cases hk : k = k'
    · right; simp [hk]
    · left; exact hk
  · rename_i k c
    by_cases hr : inRange k c = true
    · right; simp [hr, wrap_of_inRange hr]
    · left; simpa using hr

theorem arg_agree (m : Mode) (k : Option Kind) (v : Val)
    (hk : Req.known m (.core (.arg k v)) = false) :
    goDeclare k v = .stuck ∨ egoArg m k v = goDeclare k v := by
  have hd := declare_agree m k v
  cases m <;> first
    | (simp only [egoArg]; exact hd)
    | (cases k <;> cases v <;> simp only [egoArg] <;> try exact hd
       rename_i k c
       simp [Req.known, Mode.isStrict] at hk
       obtain ⟨rfl, h32⟩ := hk
       simp [h32]
       exact hd)

/-- THE AGREEMENT TABLE.  For every request of the common subset outside the known-divergent
    classes and for every type mode: either Go is stuck on it (the program would not compile —
    mixed kinds, overflowing constant) or Ego answers exactly like Go. -/
theorem C01_ego_refines_go (m : Mode) (r : Req) (hc : r.common = true) (hk : r.known m = false) :
    Refines goDialect (egoDialect m) r := by
  unfold Refines
  cases r with
  | bin op a b => exact bin_agree m op a b hk
  | un op a => exact un_agree op a hc
  | incr i a => exact incr_agree i a
  | conv k v => exact conv_agree k v
  | core c =>
    cases c with
    | caseEq v l =>
      have : Req.known m (.bin .eq v (.cst l)) = false := by
        cases v <;> simp_all [Req.known]
      exact bin_agree m .eq v (.cst l) this
    | store o n => exact store_agree m o n hk
    | declare k v => exact declare_agree m k v
    | arg k v => exact arg_agree m k v hk
    | quirk q => simp [Req.known] at hk

/-- the same-kind cells of the table, stated directly: no hypothesis other than equal kinds -/
theorem C01_binop_same_kind (m : Mode) (op : BinOp) (k : Kind) (x y : Int) :
    (egoDialect m).binop op (.int k x) (.int k y) = goDialect.binop op (.int k x) (.int k y) := by
  simp [egoDialect, goDialect, egoBin, goBin, sameBin]

theorem C01_unop_incr_same (m : Mode) (k : Kind) (x : Int) (i : Bool) :
    (egoDialect m).unop .neg (.int k x) = goDialect.unop .neg (.int k x) ∧
    (egoDialect m).incr i (.int k x) = goDialect.incr i (.int k x) ∧
    (egoDialect m).store (.int k x) (.int k x) = goDialect.store (.int k x) (.int k x) := by
  simp [egoDialect, goDialect, egoUn, goUn, egoIncr, goIncr, egoStore, goStore]

end EgoVerif.C01
