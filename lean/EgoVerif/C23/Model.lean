/-
C23 — model of the single-use redemption of OAuth authorization codes and refresh tokens
(internal/server/oauth/authserver/codes.go `consumeCode` / `consumeRefreshToken`,
internal/caches/find.go `Find`, internal/caches/delete.go `Delete`, internal/caches/add.go `Add`)
and of the PKCE / grant decision of `handleAuthorizationCodeGrant` (token.go).  Core Lean only.

`caches.Find`, `caches.Delete` and `caches.Add` each run under `cacheLock` from their first
to their last access of the `Items` map, so each is ONE atomic step on the cache.  A token
request is therefore a little program of two atomic steps

    val, found := caches.Find(cache, key)        -- step 1
    if !found { return fail }
    deleted := caches.Delete(cache, key)         -- step 2

and concurrent requests interleave at step granularity.  Two protocols are modelled:

  * `Proto.twoStep`        the code of the unpatched tree: the result of `Delete` is ignored,
                           every request that saw the entry in step 1 succeeds;
  * `Proto.deleteDecides`  the code after fixes/C23.patch: only the request whose `Delete`
                           returned true (it removed the entry itself) succeeds.

Keys (the opaque code / token strings) and stored values (the PendingAuthorization /
RefreshTokenData records) are numbered by `Nat`.
-/
namespace EgoVerif.C23

/-! ### the cache (one cache class: `cacheList[id].Items`) -/

/-- `Items map[any]Item` of one cache class: key ↦ stored value -/
abbrev Cache := Nat → Option Nat

def Cache.empty : Cache := fun _ => none

/-- `caches.Find`: the stored value, if any (the refresh of `Expires` is not observable here) -/
def Cache.find (c : Cache) (k : Nat) : Option Nat := c k

/-- `caches.Delete`: removes the entry; the boolean is true iff an entry was there -/
def Cache.delete (c : Cache) (k : Nat) : Cache × Bool :=
  (fun j => if j = k then none else c j, (c k).isSome)

/-- `caches.Add` (`delete(cache.Items, key)` then `cache.Items[key] = item`; cache not full) -/
def Cache.add (c : Cache) (k v : Nat) : Cache := fun j => if j = k then some v else c j

/-! ### requests -/

inductive Proto where
  | twoStep         -- unpatched consumeCode / consumeRefreshToken
  | deleteDecides   -- patched: `if !caches.Delete(...) { return fail }`
  deriving DecidableEq, Repr

/-- program counter of one token request inside `consumeCode` -/
inductive PC where
  | start                    -- `caches.Find` not yet executed
  | found (v : Nat)          -- `Find` returned (v, true); `Delete` not yet executed
  | done (r : Option Nat)    -- returned: `some v` = (v, true), `none` = (zero, false)
  deriving DecidableEq, Repr

/-- what can happen, one atomic step each -/
inductive Ev where
  | step (i : Nat)       -- request i executes its next atomic step
  | issue (k v : Nat)    -- `storeCode` / `generateRefreshToken`: `caches.Add(cache, k, v)`
  | expire (k : Nat)     -- the entry is removed by someone else (expiration sweep, Delete)
  deriving DecidableEq, Repr

structure St where
  cache : Cache
  pc : Nat → PC

def setPC (pc : Nat → PC) (i : Nat) (p : PC) : Nat → PC := fun j => if j = i then p else pc j

/-- One atomic step of request `i`, which presents key `key i`.
Returns the new state and the success it reports, if it reports one now: `(key, value)`. -/
def clientStep (p : Proto) (key : Nat → Nat) (s : St) (i : Nat) : St × Option (Nat × Nat) :=
  match s.pc i with
  | .start =>
    -- val, found := caches.Find(cache, code); if !found { return zero, false }
    match s.cache.find (key i) with
    | none => ({ s with pc := setPC s.pc i (.done none) }, none)
    | some v => ({ s with pc := setPC s.pc i (.found v) }, none)
  | .found v =>
    let d := s.cache.delete (key i)
    match p with
    | .twoStep =>
      -- caches.Delete(cache, code)           (result dropped);  return val, true
      ({ cache := d.1, pc := setPC s.pc i (.done (some v)) }, some (key i, v))
    | .deleteDecides =>
      -- if !caches.Delete(cache, code) { return zero, false };  return val, true
      if d.2 then ({ cache := d.1, pc := setPC s.pc i (.done (some v)) }, some (key i, v))
      else ({ cache := d.1, pc := setPC s.pc i (.done none) }, none)
  | .done _ => (s, none)

def evStep (p : Proto) (key : Nat → Nat) (s : St) : Ev → St × Option (Nat × Nat)
  | .step i => clientStep p key s i
  | .issue k v => ({ s with cache := s.cache.add k v }, none)
  | .expire k => ({ s with cache := (s.cache.delete k).1 }, none)

/-- run a history; the list collects the successful redemptions `(key, value)` in order -/
def run (p : Proto) (key : Nat → Nat) : St → List Ev → St × List (Nat × Nat)
  | s, [] => (s, [])
  | s, e :: es =>
    let r := evStep p key s e
    let rest := run p key r.1 es
    (rest.1, r.2.toList ++ rest.2)

/-- number of successful redemptions of key `k` in a success list -/
def countKey (k : Nat) (l : List (Nat × Nat)) : Nat := l.countP (fun x => x.1 == k)

/-- number of times key `k` is issued in a history -/
def issued (k : Nat) : List Ev → Nat
  | [] => 0
  | .issue k' _ :: es => (if k' = k then 1 else 0) + issued k es
  | _ :: es => issued k es

/-- 1 if key `k` is in the cache, else 0 -/
def pres (s : St) (k : Nat) : Nat := if (s.cache k).isSome then 1 else 0

/-- all requests at the start of `consumeCode` -/
def allStart : Nat → PC := fun _ => .start

/-- a schedule in the narrow sense: a list of request ids -/
def sched (l : List Nat) : List Ev := l.map Ev.step

/-- successes for key `k` when requests run under schedule `l` from cache `c` -/
def successes (p : Proto) (key : Nat → Nat) (c : Cache) (l : List Nat) (k : Nat) : Nat :=
  countKey k (run p key ⟨c, allStart⟩ (sched l)).2

/-! ### PKCE and the decision of `handleAuthorizationCodeGrant` after the code is consumed -/

inductive Pkce where
  | ok | badMethod | mismatch
  deriving DecidableEq, Repr

/-- `verifyPKCE` (codes.go).  `s256 v` stands for `BASE64URL(SHA256(v))`. -/
def verifyPKCE (s256 : String → String) (challenge method verifier : String) : Pkce :=
  if challenge = "" then .ok
  else if method ≠ "S256" then .badMethod
  else if s256 verifier ≠ challenge then .mismatch
  else .ok

/-- the part of `PendingAuthorization` the token endpoint looks at -/
structure Pending where
  clientID : String
  redirectURI : String
  challenge : String
  method : String
  deriving DecidableEq, Repr

inductive Grant where
  | invalidClient        -- 401 invalid_client
  | unauthorizedClient   -- 400 unauthorized_client
  | invalidGrant         -- 400 invalid_grant
  | ok                   -- 200 with tokens
  deriving DecidableEq, Repr

/-- Does the request reach `consumeCode` at all?  (`findClient`, `validateClientSecret`,
`clientAllowsGrant` come first and touch no cache.) -/
def reachesConsume (clientOk allowsGrant : Bool) : Bool := clientOk && allowsGrant

/-- `handleAuthorizationCodeGrant` (token.go), given what `consumeCode` returned.
`isPublic` is `client.ClientSecretHash == ""`. -/
def codeGrant (s256 : String → String) (clientOk allowsGrant isPublic : Bool)
    (reqClient reqRedirect verifier : String) (consumed : Option Pending) : Grant :=
  if !clientOk then .invalidClient
  else if !allowsGrant then .unauthorizedClient
  else match consumed with
    | none => .invalidGrant
    | some p =>
      if p.clientID ≠ reqClient then .invalidClient
      else if p.redirectURI ≠ reqRedirect then .invalidGrant
      else if isPublic && p.challenge = "" then .invalidGrant
      else match verifyPKCE s256 p.challenge p.method verifier with
        | .ok => .ok
        | _ => .invalidGrant

/-- `handleRefreshTokenGrant` (token.go), given what `consumeRefreshToken` returned
(`some owner` = the ClientID stored with the token). -/
def refreshGrant (clientOk allowsGrant : Bool) (reqClient : String) (consumed : Option String) : Grant :=
  if !clientOk then .invalidClient
  else if !allowsGrant then .unauthorizedClient
  else match consumed with
    | none => .invalidGrant
    | some owner => if owner ≠ reqClient then .invalidClient else .ok

/-! ### the token endpoint, one request at a time (sequential reference) -/

/-- the two OAuth caches, keyed by the opaque code / token string -/
structure Srv where
  codes : List (String × Pending)      -- OAuthCodeCache
  refresh : List (String × String)     -- OAuthRefreshCache: token ↦ ClientID it belongs to
  deriving Repr

def Srv.empty : Srv := ⟨[], []⟩

/-- `storeCode`: `caches.Add` replaces an existing entry -/
def Srv.issueCode (s : Srv) (code : String) (p : Pending) : Srv :=
  { s with codes := (code, p) :: s.codes.filter (fun e => e.1 ≠ code) }

/-- `generateRefreshToken` -/
def Srv.issueRefresh (s : Srv) (tok owner : String) : Srv :=
  { s with refresh := (tok, owner) :: s.refresh.filter (fun e => e.1 ≠ tok) }

/-- one `grant_type=authorization_code` request, run alone: the code is consumed as soon as
the client checks pass — also when a later check (client binding, redirect, PKCE) fails -/
def Srv.tokenCode (s256 : String → String) (s : Srv) (clientOk allowsGrant isPublic : Bool)
    (reqClient reqRedirect code verifier : String) : Srv × Grant :=
  if reachesConsume clientOk allowsGrant then
    ({ s with codes := s.codes.filter (fun e => e.1 ≠ code) },
      codeGrant s256 clientOk allowsGrant isPublic reqClient reqRedirect verifier (s.codes.lookup code))
  else (s, codeGrant s256 clientOk allowsGrant isPublic reqClient reqRedirect verifier none)

/-- one `grant_type=refresh_token` request, run alone -/
def Srv.tokenRefresh (s : Srv) (clientOk allowsGrant : Bool) (reqClient tok : String) : Srv × Grant :=
  if reachesConsume clientOk allowsGrant then
    ({ s with refresh := s.refresh.filter (fun e => e.1 ≠ tok) },
      refreshGrant clientOk allowsGrant reqClient (s.refresh.lookup tok))
  else (s, refreshGrant clientOk allowsGrant reqClient none)

end EgoVerif.C23
