import EgoVerif.C23.Model
/-
C23 — property theorems: authorization codes and refresh tokens are single-use under every
interleaving of the two atomic cache steps of a token request; PKCE.

  * `C23_two_step_counterexample`   the unpatched protocol redeems one code twice under the
                                    schedule  find₀ find₁ delete₀ delete₁;
  * `C23_two_step_unbounded`        … and N times for every N (all N requests find first);
  * `C23_two_step_partial`          the unpatched protocol IS single-use when requests do not
                                    interleave (each request's two steps adjacent);
  * `C23_single_use_general`        patched protocol, every history of request steps, issues
                                    and foreign removals, from ANY state:
                                        successes k ≤ issues k + [k in cache initially];
  * `C23_single_use`                the headline: N requests, any schedule ⇒ successes ≤ 1;
  * `C23_exactly_one`               and if the code is there and the schedule lets one request
                                    finish, exactly one request gets it (the fix rejects nobody
                                    it should not);
  * `C23_pkce`, `C23_pkce_matching`, `C23_grant_needs_verifier`, `C23_public_requires_pkce`.
-/
namespace EgoVerif.C23

/-! ### bookkeeping lemmas -/

theorem countKey_append (k : Nat) (a b : List (Nat × Nat)) :
    countKey k (a ++ b) = countKey k a + countKey k b := by
  simp [countKey, List.countP_append]

@[simp] theorem countKey_nil (k : Nat) : countKey k [] = 0 := rfl

theorem countKey_single (k a v : Nat) : countKey k [(a, v)] = if a = k then 1 else 0 := by
  by_cases h : a = k <;> simp [countKey, h]

theorem run_append (p : Proto) (key : Nat → Nat) (s : St) (a b : List Ev) :
    run p key s (a ++ b) =
      ((run p key (run p key s a).1 b).1, (run p key s a).2 ++ (run p key (run p key s a).1 b).2) := by
  induction a generalizing s with
  | nil => simp [run]
  | cons e es ih => simp [run, ih, List.append_assoc]

theorem issued_append (k : Nat) (a b : List Ev) : issued k (a ++ b) = issued k a + issued k b := by
  induction a with
  | nil => simp [issued]
  | cons e es ih => cases e <;> simp [issued, ih, Nat.add_assoc]

theorem issued_sched (k : Nat) (l : List Nat) : issued k (sched l) = 0 := by
  induction l with
  | nil => rfl
  | cons i is ih => simpa [sched, issued] using ih

theorem pres_le_one (s : St) (k : Nat) : pres s k ≤ 1 := by
  unfold pres; split <;> omega


/-! ### `clientStep` case by case -/

theorem cs_done (p : Proto) (key : Nat → Nat) (s : St) (i : Nat) (r : Option Nat)
    (h : s.pc i = .done r) : clientStep p key s i = (s, none) := by
  simp [clientStep, h]

theorem cs_start_none (p : Proto) (key : Nat → Nat) (s : St) (i : Nat)
    (h : s.pc i = .start) (hc : s.cache (key i) = none) :
    clientStep p key s i = (⟨s.cache, setPC s.pc i (.done none)⟩, none) := by
  simp [clientStep, h, Cache.find, hc]

theorem cs_start_some (p : Proto) (key : Nat → Nat) (s : St) (i v : Nat)
    (h : s.pc i = .start) (hc : s.cache (key i) = some v) :
    clientStep p key s i = (⟨s.cache, setPC s.pc i (.found v)⟩, none) := by
  simp [clientStep, h, Cache.find, hc]

/-- the cache after `Delete(key)` -/
def without (c : Cache) (k : Nat) : Cache := fun j => if j = k then none else c j

theorem cs_found_two (key : Nat → Nat) (s : St) (i v : Nat) (h : s.pc i = .found v) :
    clientStep .twoStep key s i =
      (⟨without s.cache (key i), setPC s.pc i (.done (some v))⟩, some (key i, v)) := by
  simp [clientStep, h, Cache.delete]; rfl

theorem cs_found_dd_some (key : Nat → Nat) (s : St) (i v w : Nat) (h : s.pc i = .found v)
    (hc : s.cache (key i) = some w) :
    clientStep .deleteDecides key s i =
      (⟨without s.cache (key i), setPC s.pc i (.done (some v))⟩, some (key i, v)) := by
  simp [clientStep, h, Cache.delete, hc]; rfl

theorem cs_found_dd_none (key : Nat → Nat) (s : St) (i v : Nat) (h : s.pc i = .found v)
    (hc : s.cache (key i) = none) :
    clientStep .deleteDecides key s i =
      (⟨without s.cache (key i), setPC s.pc i (.done none)⟩, none) := by
  simp [clientStep, h, Cache.delete, hc]; rfl

theorem pres_without (c : Cache) (pc : Nat → PC) (k k' : Nat) :
    pres ⟨without c k', pc⟩ k = if k = k' then 0 else pres ⟨c, pc⟩ k := by
  by_cases h : k = k' <;> simp [pres, without, h]


/-! ### the patched protocol: one event keeps  successes + presence ≤ presence + issues -/

/-- with request steps only, the patched protocol conserves  successes + presence  exactly -/
theorem step_dd_conserve (key : Nat → Nat) (s : St) (i k : Nat) :
    countKey k (clientStep .deleteDecides key s i).2.toList + pres (clientStep .deleteDecides key s i).1 k
      = pres s k := by
  cases hpc : s.pc i with
  | done r => rw [cs_done _ _ _ _ r hpc]; simp
  | start =>
    cases hc : s.cache (key i) with
    | none => rw [cs_start_none _ _ _ _ hpc hc]; simp [pres]
    | some v => rw [cs_start_some _ _ _ _ v hpc hc]; simp [pres]
  | found v =>
    cases hc : s.cache (key i) with
    | none =>
      rw [cs_found_dd_none _ _ _ _ hpc hc, pres_without]
      by_cases hk : k = key i
      · subst hk; simp [pres, hc]
      · simp [hk, pres]
    | some w =>
      rw [cs_found_dd_some _ _ _ _ w hpc hc, pres_without]
      by_cases hk : k = key i
      · subst hk; simp [pres, hc, countKey_single]
      · have hk' : ¬ key i = k := fun e => hk e.symm
        simp [hk, hk', pres, countKey_single]

theorem evStep_dd_inv (key : Nat → Nat) (s : St) (e : Ev) (k : Nat) :
    countKey k (evStep .deleteDecides key s e).2.toList + pres (evStep .deleteDecides key s e).1 k
      ≤ pres s k + issued k [e] := by
  cases e with
  | issue k' v =>
    by_cases h : k' = k
    · subst h; simp [evStep, issued, pres, Cache.add]
    · have h' : ¬ k = k' := fun e => h e.symm
      simp [evStep, issued, pres, Cache.add, h, h']
  | expire k' =>
    by_cases h : k = k'
    · subst h; simp [evStep, issued, pres, Cache.delete]
    · simp [evStep, issued, pres, Cache.delete, h]
  | step i =>
    have := step_dd_conserve key s i k
    simp only [evStep, issued, Nat.add_zero]
    omega

/-- **C23, general form.**  Patched protocol, ANY initial state (requests may already be
between their two steps), ANY history of request steps, issues and foreign removals: the
number of successful redemptions of key `k` is at most the number of times `k` was issued,
plus one if `k` was in the cache at the start. -/
theorem C23_single_use_general (key : Nat → Nat) (s : St) (evs : List Ev) (k : Nat) :
    countKey k (run .deleteDecides key s evs).2 + pres (run .deleteDecides key s evs).1 k
      ≤ issued k evs + pres s k := by
  induction evs generalizing s with
  | nil => simp [run, issued]
  | cons e es ih =>
    have h1 := evStep_dd_inv key s e k
    have h2 := ih (evStep .deleteDecides key s e).1
    have h3 : issued k (e :: es) = issued k [e] + issued k es := issued_append k [e] es
    simp only [run, countKey_append]
    omega

/-- **C23.**  N concurrent token requests (request `i` presents key `key i`; nothing is said
about N: every request id that occurs in the schedule is a request), any initial cache
content, ANY schedule: every key is redeemed successfully at most once. -/
theorem C23_single_use (key : Nat → Nat) (c : Cache) (schedule : List Nat) (k : Nat) :
    successes .deleteDecides key c schedule k ≤ 1 := by
  have h := C23_single_use_general key ⟨c, allStart⟩ (sched schedule) k
  have hp := pres_le_one ⟨c, allStart⟩ k
  rw [issued_sched] at h
  unfold successes
  omega

/-- the same with the number of requests explicit: ids below `N`, all presenting one code -/
theorem C23_single_use_N (N : Nat) (c : Cache) (schedule : List Nat) (_h : ∀ i ∈ schedule, i < N)
    (code : Nat) : successes .deleteDecides (fun _ => code) c schedule code ≤ 1 :=
  C23_single_use _ c schedule code

/-- a key that is not in the cache and is never issued is never redeemed -/
theorem C23_unknown_code_fails (key : Nat → Nat) (c : Cache) (schedule : List Nat) (k : Nat)
    (hk : c k = none) : successes .deleteDecides key c schedule k = 0 := by
  have h := C23_single_use_general key ⟨c, allStart⟩ (sched schedule) k
  rw [issued_sched] at h
  have : pres ⟨c, allStart⟩ k = 0 := by simp [pres, hk]
  unfold successes
  omega

/-- Tokens are handed out only by requests whose consume step succeeded and whose later
checks (`post`: client binding, redirect URI, PKCE) pass: at most one token response per key. -/
theorem C23_handler_single_use (key : Nat → Nat) (c : Cache) (schedule : List Nat) (k : Nat)
    (post : Nat × Nat → Bool) :
    countKey k ((run .deleteDecides key ⟨c, allStart⟩ (sched schedule)).2.filter post) ≤ 1 := by
  have h := C23_single_use key c schedule k
  unfold successes at h
  have : countKey k ((run .deleteDecides key ⟨c, allStart⟩ (sched schedule)).2.filter post)
      ≤ countKey k (run .deleteDecides key ⟨c, allStart⟩ (sched schedule)).2 := by
    unfold countKey
    rw [List.countP_filter]
    apply List.countP_mono_left
    intro x _ hx
    simp only [Bool.and_eq_true] at hx
    exact hx.1
  omega

/-! ### the unpatched protocol -/

/-- code 0 holds value 7; requests 0 and 1 present it; schedule find₀ find₁ delete₀ delete₁ -/
def cex_cache : Cache := Cache.empty.add 0 7

theorem C23_two_step_counterexample :
    ∃ schedule : List Nat, successes .twoStep (fun _ => 0) cex_cache schedule 0 = 2 :=
  ⟨[0, 1, 0, 1], by decide⟩

/-- the very same schedule under the patched protocol: one success -/
example : successes .deleteDecides (fun _ => 0) cex_cache [0, 1, 0, 1] 0 = 1 := by decide

/-- the successes of the witness schedule carry the same stored value (both get tokens for it) -/
example : (run .twoStep (fun _ => 0) ⟨cex_cache, allStart⟩ (sched [0, 1, 0, 1])).2 = [(0, 7), (0, 7)] := by
  decide

/-- requests `n, n+1, …, n+m-1` -/
def ids (n : Nat) : Nat → List Nat
  | 0 => []
  | m + 1 => n :: ids (n + 1) m

/-- all of `ids n m` execute Find while the entry is there: all reach `found v`, cache unchanged -/
theorem two_step_finds (code v : Nat) (c : Cache) (hc : c code = some v) (pc : Nat → PC) (n m : Nat)
    (hstart : ∀ j, n ≤ j → pc j = .start) :
    ∃ pc', run .twoStep (fun _ => code) ⟨c, pc⟩ (sched (ids n m)) = (⟨c, pc'⟩, []) ∧
      (∀ j, n ≤ j → j < n + m → pc' j = .found v) ∧ (∀ j, j < n → pc' j = pc j) := by
  induction m generalizing n pc with
  | zero => exact ⟨pc, by simp [ids, sched, run], by intro j h1 h2; omega, by intros; rfl⟩
  | succ m ih =>
    have hn : pc n = .start := hstart n (Nat.le_refl n)
    obtain ⟨pc', hrun, hf, hkeep⟩ := ih (setPC pc n (.found v)) (n + 1) (by
      intro j hj
      have : ¬ j = n := by omega
      simp [setPC, this, hstart j (by omega)])
    refine ⟨pc', ?_, ?_, ?_⟩
    · simp only [ids, sched, List.map_cons, run, evStep]
      rw [cs_start_some _ _ _ _ v hn hc]
      simp only [sched] at hrun
      rw [hrun]; rfl
    · intro j h1 h2
      by_cases hj : j = n
      · subst hj
        rw [hkeep j (by omega)]; simp [setPC]
      · exact hf j (by omega) (by omega)
    · intro j hj
      rw [hkeep j (by omega)]
      have : ¬ j = n := by omega
      simp [setPC, this]

/-- all of `ids n m` are at `found v` and execute Delete under the unpatched protocol: all succeed -/
theorem two_step_deletes (code v : Nat) (c : Cache) (pc : Nat → PC) (n m : Nat)
    (hfound : ∀ j, n ≤ j → j < n + m → pc j = .found v) :
    countKey code (run .twoStep (fun _ => code) ⟨c, pc⟩ (sched (ids n m))).2 = m := by
  induction m generalizing n pc c with
  | zero => simp [ids, sched, run]
  | succ m ih =>
    have hn : pc n = .found v := hfound n (Nat.le_refl n) (by omega)
    have := ih (c.delete code).1 (setPC pc n (.done (some v))) (n + 1) (by
      intro j h1 h2
      have : ¬ j = n := by omega
      simp [setPC, this, hfound j (by omega) (by omega)])
    simp only [ids, sched, List.map_cons, run, evStep, clientStep, hn, Option.toList,
      countKey_append, countKey_single]
    simp only [sched] at this
    simp [this]; omega

/-- **The defect is unbounded.**  With the unpatched protocol, for every N there is a schedule
of N requests (all Find, then all Delete) under which all N redeem the same code. -/
theorem C23_two_step_unbounded (N code v : Nat) (c : Cache) (hc : c code = some v) :
    ∃ schedule : List Nat, (∀ i ∈ schedule, i < N) ∧
      successes .twoStep (fun _ => code) c schedule code = N := by
  refine ⟨ids 0 N ++ ids 0 N, ?_, ?_⟩
  · have hid : ∀ n m i, i ∈ ids n m → i < n + m := by
      intro n m
      induction m generalizing n with
      | zero => simp [ids]
      | succ m ih =>
        intro i hi
        simp only [ids, List.mem_cons] at hi
        rcases hi with h | h
        · omega
        · have := ih (n + 1) i h; omega
    intro i hi
    simp only [List.mem_append] at hi
    rcases hi with h | h <;> simpa using hid 0 N i h
  · obtain ⟨pc', hrun, hf, _⟩ := two_step_finds code v c hc allStart 0 N (by intros; rfl)
    unfold successes
    simp only [sched, List.map_append]
    rw [run_append]
    simp only [sched] at hrun
    rw [hrun]
    simp only [List.nil_append]
    have := two_step_deletes code v c pc' 0 N (by intro j h1 h2; exact hf j h1 (by omega))
    simpa [sched] using this

/-- no request is between its Find and its Delete -/
def noneMidway (s : St) : Prop := ∀ j v, s.pc j ≠ .found v

/-- a request runs both its steps back to back -/
def serial (order : List Nat) : List Ev := order.flatMap (fun i => [Ev.step i, Ev.step i])

theorem setPC_self (pc : Nat → PC) (i : Nat) (p : PC) : setPC pc i p i = p := by simp [setPC]
theorem setPC_other (pc : Nat → PC) (i j : Nat) (p : PC) (h : j ≠ i) : setPC pc i p j = pc j := by
  simp [setPC, h]
theorem setPC_setPC (pc : Nat → PC) (i : Nat) (p q : PC) : setPC (setPC pc i p) i q = setPC pc i q := by
  funext j; by_cases h : j = i <;> simp [setPC, h]

theorem noneMidway_done (c c' : Cache) (pc : Nat → PC) (i : Nat) (r : Option Nat)
    (h : noneMidway ⟨c, pc⟩) : noneMidway ⟨c', setPC pc i (.done r)⟩ := by
  intro j w
  by_cases hj : j = i
  · subst hj; simp [setPC]
  · simp only [setPC, hj, if_false]; exact h j w

theorem two_step_pair (key : Nat → Nat) (s : St) (i k : Nat) (h : noneMidway s) :
    noneMidway (run .twoStep key s [.step i, .step i]).1 ∧
    countKey k (run .twoStep key s [.step i, .step i]).2 + pres (run .twoStep key s [.step i, .step i]).1 k
      ≤ pres s k := by
  cases hpc : s.pc i with
  | found v => exact absurd hpc (h i v)
  | done r =>
    simp only [run, evStep, cs_done _ _ _ _ r hpc]
    exact ⟨h, by simp⟩
  | start =>
    cases hc : s.cache (key i) with
    | none =>
      have h2 : (⟨s.cache, setPC s.pc i (.done none)⟩ : St).pc i = .done none := setPC_self _ _ _
      simp only [run, evStep, cs_start_none _ _ _ _ hpc hc, cs_done _ _ _ _ none h2]
      exact ⟨noneMidway_done _ _ _ _ _ h, by simp [pres]⟩
    | some v =>
      have h2 : (⟨s.cache, setPC s.pc i (.found v)⟩ : St).pc i = .found v := setPC_self _ _ _
      simp only [run, evStep, cs_start_some _ _ _ _ v hpc hc, cs_found_two _ _ _ v h2, setPC_setPC]
      refine ⟨noneMidway_done _ _ _ _ _ h, ?_⟩
      simp only [Option.toList, List.nil_append, List.append_nil, countKey_single, pres_without]
      by_cases hk : k = key i
      · subst hk; simp [pres, hc]
      · have hk' : ¬ key i = k := fun e => hk e.symm
        simp [hk, hk', pres]

/-- **Partial result for the unpatched protocol**: if requests never interleave (every
request runs Find and Delete back to back — what the repository's sequential tests do), a key is
redeemed at most once.  The excluded class is exactly "another request's step falls between
a request's Find and its Delete". -/
theorem C23_two_step_partial (key : Nat → Nat) (s : St) (order : List Nat) (k : Nat)
    (h : noneMidway s) :
    countKey k (run .twoStep key s (serial order)).2 + pres (run .twoStep key s (serial order)).1 k
      ≤ pres s k := by
  induction order generalizing s with
  | nil => simp [serial, run]
  | cons i is ih =>
    have hp := two_step_pair key s i k h
    have hrest := ih (run .twoStep key s [.step i, .step i]).1 hp.1
    have : serial (i :: is) = [Ev.step i, Ev.step i] ++ serial is := by simp [serial]
    rw [this, run_append]
    simp only [countKey_append]
    omega

/-- non-vacuity: the initial state has nobody midway, and a serial run does redeem once -/
example : noneMidway ⟨cex_cache, allStart⟩ := by intro j v; simp [allStart]
example : countKey 0 (run .twoStep (fun _ => 0) ⟨cex_cache, allStart⟩ (serial [0, 1, 2])).2 = 1 := by decide

/-! ### the fix rejects nobody it should not: exactly one winner -/

theorem sched_dd_conserve (key : Nat → Nat) (s : St) (l : List Nat) (k : Nat) :
    countKey k (run .deleteDecides key s (sched l)).2 + pres (run .deleteDecides key s (sched l)).1 k
      = pres s k := by
  induction l generalizing s with
  | nil => simp [sched, run]
  | cons i is ih =>
    have h1 := step_dd_conserve key s i k
    have h2 := ih (clientStep .deleteDecides key s i).1
    simp only [sched, List.map_cons, run, evStep, countKey_append] at *
    omega

/-- a request that has returned leaves its key absent (it saw it absent or removed it) -/
def doneAbsent (key : Nat → Nat) (s : St) : Prop := ∀ i r, s.pc i = .done r → s.cache (key i) = none

theorem doneAbsent_without (key : Nat → Nat) (s : St) (i : Nat) (r : Option Nat)
    (h : doneAbsent key s) : doneAbsent key ⟨without s.cache (key i), setPC s.pc i (.done r)⟩ := by
  intro j r' hj
  by_cases hji : j = i
  · subst hji; simp [without]
  · simp only [setPC, hji, if_false] at hj
    have := h j r' hj
    simp only [without]
    split
    · rfl
    · exact this

theorem step_dd_doneAbsent (key : Nat → Nat) (s : St) (i : Nat) (h : doneAbsent key s) :
    doneAbsent key (clientStep .deleteDecides key s i).1 := by
  cases hpc : s.pc i with
  | done r => rw [cs_done _ _ _ _ r hpc]; exact h
  | start =>
    cases hc : s.cache (key i) with
    | none =>
      rw [cs_start_none _ _ _ _ hpc hc]
      intro j r hj
      by_cases hji : j = i
      · subst hji; exact hc
      · simp only [setPC, hji, if_false] at hj; exact h j r hj
    | some v =>
      rw [cs_start_some _ _ _ _ v hpc hc]
      intro j r hj
      by_cases hji : j = i
      · subst hji; simp [setPC] at hj
      · simp only [setPC, hji, if_false] at hj; exact h j r hj
  | found v =>
    cases hc : s.cache (key i) with
    | none => rw [cs_found_dd_none _ _ _ _ hpc hc]; exact doneAbsent_without key s i _ h
    | some w => rw [cs_found_dd_some _ _ _ _ w hpc hc]; exact doneAbsent_without key s i _ h

/-- how far a request has got -/
def rank : PC → Nat
  | .start => 0
  | .found _ => 1
  | .done _ => 2

theorem step_dd_rank (key : Nat → Nat) (s : St) (i : Nat) :
    (min 2 (rank (s.pc i) + 1) ≤ rank ((clientStep .deleteDecides key s i).1.pc i)) ∧
    (∀ j, j ≠ i → (clientStep .deleteDecides key s i).1.pc j = s.pc j) := by
  cases hpc : s.pc i with
  | done r => rw [cs_done _ _ _ _ r hpc]; simp [hpc, rank]
  | start =>
    cases hc : s.cache (key i) with
    | none =>
      rw [cs_start_none _ _ _ _ hpc hc]
      exact ⟨by simp [setPC, rank], fun j hj => setPC_other _ _ _ _ hj⟩
    | some v =>
      rw [cs_start_some _ _ _ _ v hpc hc]
      exact ⟨by simp [setPC, rank], fun j hj => setPC_other _ _ _ _ hj⟩
  | found v =>
    cases hc : s.cache (key i) with
    | none =>
      rw [cs_found_dd_none _ _ _ _ hpc hc]
      exact ⟨by simp [setPC, rank], fun j hj => setPC_other _ _ _ _ hj⟩
    | some w =>
      rw [cs_found_dd_some _ _ _ _ w hpc hc]
      exact ⟨by simp [setPC, rank], fun j hj => setPC_other _ _ _ _ hj⟩

theorem sched_dd_rank (key : Nat → Nat) (s : St) (l : List Nat) (i : Nat) :
    min 2 (rank (s.pc i) + l.count i) ≤ rank ((run .deleteDecides key s (sched l)).1.pc i) := by
  induction l generalizing s with
  | nil =>
    simp [sched, run]
    cases s.pc i <;> simp [rank]
  | cons j js ih =>
    have hr := step_dd_rank key s j
    have := ih (clientStep .deleteDecides key s j).1
    simp only [sched, List.map_cons, run, evStep] at *
    by_cases hji : j = i
    · subst hji
      have h1 := hr.1
      simp only [List.count_cons_self]
      omega
    · have hij : i ≠ j := fun e => hji e.symm
      rw [hr.2 i hij] at this
      have hb : (j == i) = false := by simpa using hji
      simp only [List.count_cons, hb]
      simpa using this

theorem sched_dd_doneAbsent (key : Nat → Nat) (s : St) (l : List Nat) (h : doneAbsent key s) :
    doneAbsent key (run .deleteDecides key s (sched l)).1 := by
  induction l generalizing s with
  | nil => simpa [sched, run] using h
  | cons j js ih =>
    have := ih (clientStep .deleteDecides key s j).1 (step_dd_doneAbsent key s j h)
    simpa [sched, run, evStep] using this

/-- **Exactly one winner.**  Patched protocol; the code is in the cache; the schedule lets at
least one of the requests presenting it run both its steps: exactly one request redeems it. -/
theorem C23_exactly_one (key : Nat → Nat) (c : Cache) (schedule : List Nat) (k v : Nat)
    (hc : c k = some v) (i : Nat) (hi : key i = k) (hfin : 2 ≤ schedule.count i) :
    successes .deleteDecides key c schedule k = 1 := by
  have hcons := sched_dd_conserve key ⟨c, allStart⟩ schedule k
  have hrank := sched_dd_rank key ⟨c, allStart⟩ schedule i
  have habs := sched_dd_doneAbsent key ⟨c, allStart⟩ schedule (by intro j r hj; simp [allStart] at hj)
  have hdone : ∃ r, (run .deleteDecides key ⟨c, allStart⟩ (sched schedule)).1.pc i = .done r := by
    have h2 : rank ((run .deleteDecides key ⟨c, allStart⟩ (sched schedule)).1.pc i) = 2 := by
      have hle : rank ((run .deleteDecides key ⟨c, allStart⟩ (sched schedule)).1.pc i) ≤ 2 := by
        cases (run .deleteDecides key ⟨c, allStart⟩ (sched schedule)).1.pc i <;> simp [rank]
      have h0 : rank ((⟨c, allStart⟩ : St).pc i) = 0 := rfl
      rw [h0] at hrank
      omega
    cases hp : (run .deleteDecides key ⟨c, allStart⟩ (sched schedule)).1.pc i with
    | done r => exact ⟨r, rfl⟩
    | start => rw [hp] at h2; simp [rank] at h2
    | found w => rw [hp] at h2; simp [rank] at h2
  obtain ⟨r, hr⟩ := hdone
  have hnone := habs i r hr
  rw [hi] at hnone
  have hp0 : pres ⟨c, allStart⟩ k = 1 := by simp [pres, hc]
  have hp1 : pres (run .deleteDecides key ⟨c, allStart⟩ (sched schedule)).1 k = 0 := by
    simp [pres, hnone]
  unfold successes
  omega

/-- non-vacuity of `C23_exactly_one` -/
example : successes .deleteDecides (fun _ => 0) cex_cache [0, 1, 2, 1, 0, 2] 0 = 1 :=
  C23_exactly_one _ _ _ 0 7 (by decide) 1 rfl (by decide)

/-! ### PKCE -/

/-- **C23 (PKCE).**  A code issued with a challenge passes `verifyPKCE` exactly when the
method is S256 and BASE64URL(SHA256(verifier)) equals the stored challenge. -/
theorem C23_pkce (s256 : String → String) (challenge method verifier : String) (h : challenge ≠ "") :
    verifyPKCE s256 challenge method verifier = .ok ↔ (method = "S256" ∧ s256 verifier = challenge) := by
  unfold verifyPKCE
  by_cases hm : method = "S256" <;> by_cases hv : s256 verifier = challenge <;> simp [h, hm, hv]

/-- With S256 injective on the verifiers considered (collision resistance of SHA-256, and
base64url is injective), a code issued for the challenge of `v₀` is redeemed by `v` iff `v = v₀`. -/
theorem C23_pkce_matching (s256 : String → String) (inj : ∀ a b, s256 a = s256 b → a = b)
    (v₀ v : String) (h : s256 v₀ ≠ "") :
    verifyPKCE s256 (s256 v₀) "S256" v = .ok ↔ v = v₀ := by
  rw [C23_pkce s256 _ _ _ h]
  constructor
  · intro hh; exact inj _ _ hh.2
  · intro hh; subst hh; exact ⟨rfl, rfl⟩

/-- a method other than S256 ("plain", "", "s256", …) never passes with a challenge -/
theorem C23_pkce_plain_rejected (s256 : String → String) (challenge method verifier : String)
    (h : challenge ≠ "") (hm : method ≠ "S256") :
    verifyPKCE s256 challenge method verifier = .badMethod := by
  simp [verifyPKCE, h, hm]

/-- The token endpoint hands out tokens for a code issued with a challenge only to a request
whose verifier matches (and whose client and redirect URI are the ones the code was issued to). -/
theorem C23_grant_needs_verifier (s256 : String → String) (clientOk allowsGrant isPublic : Bool)
    (reqClient reqRedirect verifier : String) (p : Pending) (hch : p.challenge ≠ "")
    (hok : codeGrant s256 clientOk allowsGrant isPublic reqClient reqRedirect verifier (some p) = .ok) :
    p.method = "S256" ∧ s256 verifier = p.challenge ∧ p.clientID = reqClient ∧ p.redirectURI = reqRedirect := by
  unfold codeGrant at hok
  by_cases h1 : clientOk <;> by_cases h2 : allowsGrant <;> simp [h1, h2] at hok
  by_cases h3 : p.clientID = reqClient <;> by_cases h4 : p.redirectURI = reqRedirect <;> simp [h3, h4] at hok
  have hpk : verifyPKCE s256 p.challenge p.method verifier = .ok := by
    cases hv : verifyPKCE s256 p.challenge p.method verifier <;> simp [hv] at hok
    rfl
  have := (C23_pkce s256 _ _ _ hch).1 hpk
  exact ⟨this.1, this.2, h3, h4⟩

/-- a public client (no secret) never gets tokens for a code issued without a challenge -/
theorem C23_public_requires_pkce (s256 : String → String) (clientOk allowsGrant : Bool)
    (reqClient reqRedirect verifier : String) (p : Pending)
    (hok : codeGrant s256 clientOk allowsGrant true reqClient reqRedirect verifier (some p) = .ok) :
    p.challenge ≠ "" := by
  intro hch
  unfold codeGrant at hok
  by_cases h1 : clientOk <;> by_cases h2 : allowsGrant <;> simp [h1, h2] at hok
  by_cases h3 : p.clientID = reqClient <;> by_cases h4 : p.redirectURI = reqRedirect <;> simp [h3, h4, hch] at hok

/-- no consumed code, no tokens -/
theorem C23_grant_needs_code (s256 : String → String) (clientOk allowsGrant isPublic : Bool)
    (reqClient reqRedirect verifier : String) :
    codeGrant s256 clientOk allowsGrant isPublic reqClient reqRedirect verifier none ≠ .ok := by
  unfold codeGrant
  cases clientOk <;> cases allowsGrant <;> simp

/-- non-vacuity: a matching request is granted, a wrong verifier and a "plain" challenge are not -/
example : codeGrant (fun v => "H" ++ v) true true true "app" "cb" "v" (some ⟨"app", "cb", "Hv", "S256"⟩) = .ok := by decide
example : codeGrant (fun v => "H" ++ v) true true true "app" "cb" "w" (some ⟨"app", "cb", "Hv", "S256"⟩) = .invalidGrant := by decide
example : codeGrant (fun v => v) true true true "app" "cb" "v" (some ⟨"app", "cb", "v", "plain"⟩) = .invalidGrant := by decide

/-! ### one request at a time: replay is refused, also after a failed exchange -/

theorem lookup_filter_ne {β : Type} (l : List (String × β)) (code : String) :
    (l.filter (fun e => e.1 ≠ code)).lookup code = none := by
  induction l with
  | nil => rfl
  | cons e es ih =>
    obtain ⟨a, b⟩ := e
    simp only [List.filter_cons]
    split
    · rename_i h
      have hne : a ≠ code := by simpa using h
      have hb : (code == a) = false := by
        simp only [beq_eq_false_iff_ne, ne_eq]; exact fun x => hne x.symm
      simp only [List.lookup_cons, hb]
      exact ih
    · exact ih

theorem tokenCode_codes (s256 : String → String) (s : Srv) (isPublic : Bool) (cl rd code ver : String) :
    (Srv.tokenCode s256 s true true isPublic cl rd code ver).1.codes
      = s.codes.filter (fun e => e.1 ≠ code) := rfl

theorem tokenRefresh_refresh (s : Srv) (cl tok : String) :
    (Srv.tokenRefresh s true true cl tok).1.refresh = s.refresh.filter (fun e => e.1 ≠ tok) := rfl

/-- Any authorization_code request that reaches `consumeCode` — whether it then succeeds or
fails the client-binding, redirect or PKCE check — burns the code: every later request
presenting that code is refused (sequential single use, RFC 6749 §4.1.2). -/
theorem C23_sequential_replay (s256 s256' : String → String) (s : Srv) (isPublic ok' al' pub' : Bool)
    (cl rd code ver cl' rd' ver' : String) :
    (Srv.tokenCode s256' (Srv.tokenCode s256 s true true isPublic cl rd code ver).1
        ok' al' pub' cl' rd' code ver').2 ≠ .ok := by
  generalize hs : (Srv.tokenCode s256 s true true isPublic cl rd code ver).1 = s1
  have hl : s1.codes.lookup code = none := by
    rw [← hs, tokenCode_codes]; exact lookup_filter_ne _ _
  unfold Srv.tokenCode
  split
  · simp only [hl]; exact C23_grant_needs_code _ _ _ _ _ _ _
  · exact C23_grant_needs_code s256' ok' al' pub' cl' rd' ver'

theorem refreshGrant_none (ok al : Bool) (cl : String) : refreshGrant ok al cl none ≠ .ok := by
  unfold refreshGrant; cases ok <;> cases al <;> simp

/-- the same for refresh tokens (rotation: the old token is gone after one use) -/
theorem C23_sequential_refresh_replay (s : Srv) (ok' al' : Bool) (cl tok cl' : String) :
    (Srv.tokenRefresh (Srv.tokenRefresh s true true cl tok).1 ok' al' cl' tok).2 ≠ .ok := by
  generalize hs : (Srv.tokenRefresh s true true cl tok).1 = s1
  have hl : s1.refresh.lookup tok = none := by
    rw [← hs, tokenRefresh_refresh]; exact lookup_filter_ne _ _
  unfold Srv.tokenRefresh
  split
  · simp only [hl]; exact refreshGrant_none _ _ _
  · exact refreshGrant_none ok' al' cl'

/-- non-vacuity: the first request can succeed -/
example : (Srv.tokenCode (fun v => "H" ++ v) (Srv.empty.issueCode "c" ⟨"app", "cb", "Hv", "S256"⟩)
    true true true "app" "cb" "c" "v").2 = .ok := by decide

end EgoVerif.C23
