import EgoVerif.Common.Drv
import EgoVerif.C23.Model
/- line protocol (fields separated by blanks; strings hex-encoded, "-" = empty):

   sched <two|dd> <N> <key of request 0,…,N-1> <k:v;k:v | -> <events s<i> | i<k>:<v> | x<k>, comma separated | ->
        → result of request 0,…,N-1: `ok<v>` | `fail` | `mid<v>` (between Find and Delete) | `idle`
   burst <two|dd> <N> <present 0|1>
        → number of successes when N requests present one code and every request runs to the end,
          one after the other (for dd every complete schedule gives this number: C23_exactly_one)
   pkce <challenge> <method> <s256(verifier)>                     → ok | badmethod | mismatch
   reset                                                          → ok
   issue <code> <client> <redirect> <challenge> <method>          → ok
   rissue <token> <owner client>                                  → ok
   token <clientOk> <allows> <public> <client> <redirect> <code> <s256(verifier)>
        → ok | invalid_client | unauthorized_client | invalid_grant      (stateful: consumes)
   rtoken <clientOk> <allows> <client> <token>                    → same enum (stateful)

   SHA-256/base64url is a parameter of the model; on the wire the harness supplies
   s256(verifier) computed with Go's crypto/sha256, and the model is run with the
   constant function returning it. -/
namespace EgoVerif.C23

def parseKV (s : String) : Option (Nat × Nat) :=
  match s.splitOn ":" with
  | [a, b] => match a.toNat?, b.toNat? with
    | some x, some y => some (x, y)
    | _, _ => none
  | _ => none

def parseList (s : String) (sep : String) : List String :=
  if s == "-" then [] else (s.splitOn sep).filter (· ≠ "")

def parseEv (s : String) : Option Ev :=
  match s.toList with
  | 's' :: r => (String.ofList r).toNat?.map Ev.step
  | 'x' :: r => (String.ofList r).toNat?.map Ev.expire
  | 'i' :: r => (parseKV (String.ofList r)).map fun p => Ev.issue p.1 p.2
  | _ => none

def allSome {α : Type} : List (Option α) → Option (List α)
  | [] => some []
  | none :: _ => none
  | some a :: r => (allSome r).map (a :: ·)

def showPC : PC → String
  | .start => "idle"
  | .found v => s!"mid{v}"
  | .done none => "fail"
  | .done (some v) => s!"ok{v}"

def protoOf (s : String) : Option Proto :=
  if s == "two" then some .twoStep else if s == "dd" then some .deleteDecides else none

def grantName : Grant → String
  | .ok => "ok"
  | .invalidClient => "invalid_client"
  | .unauthorizedClient => "unauthorized_client"
  | .invalidGrant => "invalid_grant"

def pkceName : Pkce → String
  | .ok => "ok"
  | .badMethod => "badmethod"
  | .mismatch => "mismatch"

def handleSched (p n keys cache evs : String) : String :=
  match protoOf p, n.toNat?, allSome ((parseList keys ",").map String.toNat?),
        allSome ((parseList cache ";").map parseKV), allSome ((parseList evs ",").map parseEv) with
  | some proto, some n, some ks, some kvs, some es =>
    let key : Nat → Nat := fun i => ks.getD i 0
    let c : Cache := kvs.foldl (fun c kv => c.add kv.1 kv.2) Cache.empty
    let fin := (run proto key ⟨c, allStart⟩ es).1
    ",".intercalate ((List.range n).map fun i => showPC (fin.pc i))
  | _, _, _, _, _ => "bad-input"

def handleBurst (p n present : String) : String :=
  match protoOf p, n.toNat? with
  | some proto, some n =>
    let c : Cache := if present == "1" then Cache.empty.add 0 1 else Cache.empty
    let order := (List.range n).flatMap fun i => [i, i]
    toString (successes proto (fun _ => 0) c order 0)
  | _, _ => "bad-input"

def handle (srv : Srv) (line : String) : Srv × String :=
  match fields line with
  | ["sched", p, n, keys, cache, evs] => (srv, handleSched p n keys cache evs)
  | ["burst", p, n, present] => (srv, handleBurst p n present)
  | ["pkce", ch, m, sv] =>
    match stringOfHex ch, stringOfHex m, stringOfHex sv with
    | some ch, some m, some sv => (srv, pkceName (verifyPKCE (fun _ => sv) ch m ""))
    | _, _, _ => (srv, "bad-input")
  | ["reset"] => (Srv.empty, "ok")
  | ["issue", code, cl, rd, ch, m] =>
    match stringOfHex code, stringOfHex cl, stringOfHex rd, stringOfHex ch, stringOfHex m with
    | some code, some cl, some rd, some ch, some m => (srv.issueCode code ⟨cl, rd, ch, m⟩, "ok")
    | _, _, _, _, _ => (srv, "bad-input")
  | ["rissue", tok, owner] =>
    match stringOfHex tok, stringOfHex owner with
    | some tok, some owner => (srv.issueRefresh tok owner, "ok")
    | _, _ => (srv, "bad-input")
  | ["token", ok, al, pub, cl, rd, code, sv] =>
    match stringOfHex cl, stringOfHex rd, stringOfHex code, stringOfHex sv with
    | some cl, some rd, some code, some sv =>
      let r := srv.tokenCode (fun _ => sv) (ok == "1") (al == "1") (pub == "1") cl rd code ""
      (r.1, grantName r.2)
    | _, _, _, _ => (srv, "bad-input")
  | ["rtoken", ok, al, cl, tok] =>
    match stringOfHex cl, stringOfHex tok with
    | some cl, some tok =>
      let r := srv.tokenRefresh (ok == "1") (al == "1") cl tok
      (r.1, grantName r.2)
    | _, _ => (srv, "bad-input")
  | _ => (srv, "bad-op")

def drv : Drv := { σ := Srv, init := Srv.empty, step := handle }

end EgoVerif.C23
