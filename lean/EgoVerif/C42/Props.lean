import EgoVerif.C42.Model
/-
C42 theorems.  All of them quantify over EVERY list of model operations (`exec true rt init ops`):
every interleaving of the handler regions of any number of requests, including ill-formed ones
(an op whose request is not in the right phase is a no-op).
-/
namespace EgoVerif.C42

/-! ### tables -/

theorem tget_mem {t : Table} {k v} (h : tget t k = some v) : (k, v) ∈ t := by
  induction t with
  | nil => simp [tget] at h
  | cons p t ih =>
    obtain ⟨k', v'⟩ := p
    simp only [tget] at h
    split at h
    · simp_all
    · simp [ih h]

theorem tget_append (a b : Table) (k : String) :
    tget (a ++ b) k = match tget a k with | some v => some v | none => tget b k := by
  induction a with
  | nil => simp [tget]
  | cons p a ih =>
    obtain ⟨k', v'⟩ := p
    simp only [List.cons_append, tget]
    split <;> simp_all

theorem tget_tset (t : Table) (k k' : String) (v : Val) :
    tget (tset t k v) k' = if k' = k then some v else tget t k' := by
  simp [tset, tget]

/-- symbols.Merge as a finite-map equation -/
theorem tget_merge (d s : Table) (k : String) :
    tget (merge d s) k =
      if readonly k then tget d k else match tget s k with | some v => some v | none => tget d k := by
  induction s with
  | nil => simp [merge, tget]
  | cons p s ih =>
    obtain ⟨k', v'⟩ := p
    simp only [merge, tget]
    by_cases hk : k = k'
    · subst hk
      cases hr : readonly k <;> simp_all [tget_tset]
    · cases hr' : readonly k' <;> simp_all [tget_tset]

theorem parts_none (ns vs : List String) (k : String) (h : k ∉ ns) : tget (partsTbl ns vs) k = none := by
  induction ns generalizing vs with
  | nil => simp [partsTbl, tget]
  | cons n ns ih =>
    have h1 : k ≠ n := by intro e; apply h; simp [e]
    have h2 : k ∉ ns := by intro e; apply h; simp [e]
    cases vs <;> simp [partsTbl, tget_append, ih _ h2, tget, h1]

theorem parts_some (ns vs : List String) (k : String) (h : k ∈ ns) :
    ∃ s, tget (partsTbl ns vs) k = some (.str s) := by
  induction ns generalizing vs with
  | nil => simp at h
  | cons n ns ih =>
    by_cases h2 : k ∈ ns
    · cases vs with
      | nil => obtain ⟨s, hs⟩ := ih [] h2; exact ⟨s, by simp [partsTbl, tget_append, hs]⟩
      | cons v vs => obtain ⟨s, hs⟩ := ih vs h2; exact ⟨s, by simp [partsTbl, tget_append, hs]⟩
    · have h1 : k = n := by simpa [h2] using h
      subst h1
      cases vs <;> simp [partsTbl, tget_append, parts_none _ _ _ h2, tget]

theorem parts_str (ns vs : List String) (k : String) (v : Val) (h : tget (partsTbl ns vs) k = some v) :
    ∃ s, v = .str s := by
  by_cases hk : k ∈ ns
  · obtain ⟨s, hs⟩ := parts_some ns vs k hk
    exact ⟨s, by simp_all⟩
  · simp [parts_none _ _ _ hk] at h

theorem ro_all (i : Rid) (inp : ReqIn) :
    ∀ p ∈ roTbl i inp, readonly p.1 = true ∧ (∀ o, p.2 = .ref o → ∃ w, o = .req i w) := by
  simp [roTbl, readonly]

theorem ro_readonly {i inp k v} (h : tget (roTbl i inp) k = some v) : readonly k = true :=
  (ro_all i inp _ (tget_mem h)).1

theorem ro_none {i inp k} (h : readonly k = false) : tget (roTbl i inp) k = none := by
  cases hg : tget (roTbl i inp) k with
  | none => rfl
  | some v => simp [ro_readonly hg] at h

theorem ro_ref {i inp k o} (h : tget (roTbl i inp) k = some (.ref o)) : ∃ w, o = .req i w :=
  (ro_all i inp _ (tget_mem h)).2 o rfl

theorem auto_ref {rt : Route} {k v} (h : tget (autoTbl rt) k = some v) : ∃ n, v = .ref (.pkg n) := by
  have := tget_mem h
  simp only [autoTbl, List.mem_map] at this
  obtain ⟨n, _, hn⟩ := this
  exact ⟨n, by simp only [Prod.mk.injEq] at hn; exact hn.2.symm⟩

/-! ### the invariant -/

/-- the table shows exactly what request i is entitled to see -/
def ownT (rt : Route) (i : Rid) (inp : ReqIn) (t : Table) : Prop :=
  ∀ k, tget t k = tget (full rt i inp) k

/-- … except for the URL-part variables, which the request's own code may have assigned -/
def ownNP (rt : Route) (i : Rid) (inp : ReqIn) (t : Table) : Prop :=
  ∀ k, k ∉ rt.parts → tget t k = tget (full rt i inp) k

def baseT (rt : Route) (i : Rid) (inp : ReqIn) (t : Table) : Prop :=
  ∀ k, tget t k = tget (partsTbl rt.parts inp.vals ++ roTbl i inp) k

/-- every object reference in request i's table is a package or one of i's own objects
    (and those sit under "_"-names, which Merge never copies) -/
def refsOK (i : Rid) (t : Table) : Prop :=
  ∀ k o, tget t k = some (.ref o) → (∃ n, o = .pkg n) ∨ (readonly k = true ∧ ∃ w, o = .req i w)

/-- a table saved in the cache: outside the URL-part names its mergeable symbols are the packages,
    and no mergeable symbol refers to a request-owned object -/
def cachedOK (rt : Route) (t : Table) : Prop :=
  (∀ k, k ∉ rt.parts → readonly k = false → tget t k = tget (autoTbl rt) k) ∧
  (∀ k o, readonly k = false → tget t k = some (.ref o) → ∃ n, o = .pkg n)

structure ReqInv (rt : Route) (i : Rid) (r : RState) : Prop where
  early : r.phase = .setup ∨ r.phase = .found → baseT rt i r.inp r.tbl
  ready : r.phase = .ready → ownT rt i r.inp r.tbl
  late : r.phase = .ready ∨ r.phase = .ran ∨ r.phase = .done → ownNP rt i r.inp r.tbl
  refs : refsOK i r.tbl
  resp : ∀ t, r.resp = some t → ownT rt i r.inp t

structure Inv (rt : Route) (st : State) : Prop where
  reqs : ∀ i r, getReq st.reqs i = some r → ReqInv rt i r
  heap : ∀ e ent t, getEntry st.heap e = some ent → ent.s = some t → cachedOK rt t

theorem getReq_setReq (st : State) (i j : Rid) (r : RState) :
    getReq (st.setReq i r).reqs j = if j = i then some r else getReq st.reqs j := by
  simp [State.setReq, getReq]

theorem inv_init (rt : Route) : Inv rt State.init :=
  ⟨by intro i r h; simp [State.init, getReq] at h, by intro e ent t h; simp [State.init, getEntry] at h⟩

/-- replacing one request's state keeps the invariant if the new state satisfies it -/
theorem inv_setReq {rt : Route} {st : State} (h : Inv rt st) (i : Rid) (r : RState) (hr : ReqInv rt i r) :
    Inv rt (st.setReq i r) := by
  refine ⟨?_, h.heap⟩
  intro j r' hj
  rw [getReq_setReq] at hj
  split at hj
  · simp_all
  · exact h.reqs j r' hj

/-! ### the steps keep the invariant -/

/-- what Merge may be fed: nothing, or a table saved in the cache -/
def srcOK (rt : Route) (s : Table) : Prop :=
  (∀ k, k ∉ rt.parts → readonly k = false → tget s k = none ∨ tget s k = tget (autoTbl rt) k) ∧
  (∀ k o, readonly k = false → tget s k = some (.ref o) → ∃ n, o = .pkg n)

theorem srcOK_nil (rt : Route) : srcOK rt [] := ⟨fun _ _ _ => Or.inl rfl, by intro k o _ h; simp [tget] at h⟩

theorem srcOK_cached {rt : Route} {t : Table} (h : cachedOK rt t) : srcOK rt t :=
  ⟨fun k h1 h2 => Or.inr (h.1 k h1 h2), h.2⟩

theorem parts_none_iff {ns vs : List String} {k : String} (h : tget (partsTbl ns vs) k = none) : k ∉ ns := by
  intro hk
  obtain ⟨s, hs⟩ := parts_some ns vs k hk
  simp [hs] at h

/-- the table a request runs with after AutoImport, Merge of a cached table and the re-applied
    URL parts is exactly its own view -/
theorem load_own {rt : Route} {i : Rid} {inp : ReqIn} {tbl src : Table}
    (hb : baseT rt i inp tbl) (hs : srcOK rt src) :
    ownT rt i inp (reapply true rt inp (merge (autoTbl rt ++ tbl) src)) := by
  intro k
  simp only [reapply, if_true, full, tget_append]
  cases hp : tget (partsTbl rt.parts inp.vals) k with
  | some v => rfl
  | none =>
    have hk := parts_none_iff hp
    have hbk : tget tbl k = tget (roTbl i inp) k := by rw [hb k, tget_append, hp]
    simp only [tget_merge, tget_append, hbk]
    cases hr : readonly k with
    | true => simp
    | false =>
      simp only [Bool.false_eq_true, if_false]
      rcases hs.1 k hk hr with h | h
      · simp [h]
      · rw [h]; cases tget (autoTbl rt) k <;> simp

theorem load_refs {rt : Route} {i : Rid} {inp : ReqIn} {tbl src : Table}
    (hr : refsOK i tbl) (hs : srcOK rt src) :
    refsOK i (reapply true rt inp (merge (autoTbl rt ++ tbl) src)) := by
  intro k o h
  simp only [reapply, if_true, tget_append] at h
  cases hp : tget (partsTbl rt.parts inp.vals) k with
  | some v =>
    obtain ⟨s, rfl⟩ := parts_str _ _ _ _ hp
    simp [hp] at h
  | none =>
    simp only [hp, tget_merge, tget_append] at h
    have base : (match tget (autoTbl rt) k with | some v => some v | none => tget tbl k) = some (.ref o) →
        (∃ n, o = .pkg n) ∨ (readonly k = true ∧ ∃ w, o = .req i w) := by
      intro hb
      cases ha : tget (autoTbl rt) k with
      | some v =>
        obtain ⟨n, rfl⟩ := auto_ref ha
        simp [ha] at hb
        exact Or.inl ⟨n, hb.symm⟩
      | none => simp [ha] at hb; exact hr k o hb
    cases hro : readonly k with
    | true => simp [hro] at h; simpa [hro] using base h
    | false =>
      simp only [hro, Bool.false_eq_true, if_false] at h
      cases hsk : tget src k with
      | some v => simp [hsk] at h; subst h; exact Or.inl (hs.2 k o hro hsk)
      | none => simp [hsk] at h; simpa [hro] using base h

theorem base_refs (rt : Route) (i : Rid) (inp : ReqIn) : refsOK i (partsTbl rt.parts inp.vals ++ roTbl i inp) := by
  intro k o h
  rw [tget_append] at h
  cases hp : tget (partsTbl rt.parts inp.vals) k with
  | some v => obtain ⟨s, rfl⟩ := parts_str _ _ _ _ hp; simp [hp] at h
  | none => simp [hp] at h; exact Or.inr ⟨ro_readonly h, ro_ref h⟩

theorem writes_np (rt : Route) (t : Table) (ws : List (String × String)) (k : String) (hk : k ∉ rt.parts) :
    tget (applyWrites rt t ws) k = tget t k := by
  induction ws generalizing t with
  | nil => rfl
  | cons w ws ih =>
    obtain ⟨k', d⟩ := w
    simp only [applyWrites]
    rw [ih]
    split
    · rename_i h; rw [tget_tset]; have : k ≠ k' := fun e => hk (e ▸ h); simp [this]
    · rfl

theorem writes_refs (rt : Route) (i : Rid) (t : Table) (ws : List (String × String)) (h : refsOK i t) :
    refsOK i (applyWrites rt t ws) := by
  induction ws generalizing t with
  | nil => exact h
  | cons w ws ih =>
    obtain ⟨k', d⟩ := w
    simp only [applyWrites]
    apply ih
    split
    · intro k o hg
      rw [tget_tset] at hg
      split at hg
      · simp at hg
      · exact h k o hg
    · exact h

/-- a finished request's table may be saved in the cache -/
theorem late_cached {rt : Route} {i : Rid} {inp : ReqIn} {t : Table}
    (hl : ownNP rt i inp t) (hr : refsOK i t) : cachedOK rt t := by
  refine ⟨?_, ?_⟩
  · intro k hk hro
    rw [hl k hk]
    simp only [full, tget_append, parts_none _ _ _ hk, ro_none hro]
    cases tget (autoTbl rt) k <;> rfl
  · intro k o hro hg
    rcases hr k o hg with h | ⟨h, _⟩
    · exact h
    · simp [h] at hro

theorem inv_heap_cons {rt : Route} {st : State} (h : Inv rt st) (e : Nat) (ent : Entry)
    (he : ∀ t, ent.s = some t → cachedOK rt t) (c : Option Nat) :
    Inv rt { st with heap := (e, ent) :: st.heap, cur := c } := by
  refine ⟨h.reqs, ?_⟩
  intro e' ent' t hg hs
  simp only [getEntry] at hg
  split at hg
  · simp at hg; subst hg; exact he t hs
  · exact h.heap e' ent' t hg hs

theorem inv_cur {rt : Route} {st : State} (h : Inv rt st) (c : Option Nat) : Inv rt { st with cur := c } :=
  ⟨h.reqs, h.heap⟩

theorem inv_step (rt : Route) (st : State) (op : Op) (h : Inv rt st) : Inv rt (step true rt st op) := by
  cases op with
  | begin i inp =>
    simp only [step]
    split
    · exact h
    · refine inv_setReq h i _ ⟨fun _ k => rfl, by simp, by simp, base_refs rt i inp, by simp⟩
  | find i =>
    simp only [step]
    split
    · rename_i r hr
      have hi := h.reqs i r hr
      split
      · rename_i hp
        exact inv_setReq h i _ ⟨fun _ => hi.early (Or.inl hp), by simp, by simp, hi.refs, hi.resp⟩
      · exact h
    · exact h
  | load i =>
    simp only [step]
    split
    · rename_i r hr
      have hi := h.reqs i r hr
      split
      · rename_i hp
        have hb := hi.early (Or.inr hp)
        split
        · rename_i e he
          have hsrc : srcOK rt (match getEntry st.heap e with | some ent => ent.s.getD [] | none => []) := by
            split
            · rename_i ent hent
              cases hs : ent.s with
              | none => simpa using srcOK_nil rt
              | some t => simpa using srcOK_cached (h.heap e ent t hent hs)
            · exact srcOK_nil rt
          have ho := load_own (i := i) (inp := r.inp) hb hsrc
          exact inv_setReq h i _ ⟨by simp, fun _ => ho, fun _ k _ => ho k, load_refs hi.refs hsrc, hi.resp⟩
        · have ho := load_own (i := i) (inp := r.inp) hb (srcOK_nil rt)
          have hr' := load_refs (rt := rt) (inp := r.inp) hi.refs (srcOK_nil rt)
          simp only [merge] at ho hr'
          have hst : Inv rt (if rt.caching then
              { st with heap := (st.heap.length, { s := none }) :: st.heap, cur := some st.heap.length }
            else st) := by
            split
            · exact inv_heap_cons h _ _ (by simp) _
            · exact h
          exact inv_setReq hst i _ ⟨by simp, fun _ => ho, fun _ k _ => ho k, hr', hi.resp⟩
      · exact h
    · exact h
  | run i ws fail =>
    simp only [step]
    split
    · rename_i r hr
      have hi := h.reqs i r hr
      split
      · rename_i hp
        have ho := hi.ready hp
        have hnew := inv_setReq h i { r with resp := some r.tbl, tbl := applyWrites rt r.tbl ws, phase := .ran, failed := fail } ⟨by simp, by simp, fun _ k hk => by simp only [writes_np rt _ _ k hk]; exact ho k, writes_refs rt i _ ws hi.refs, by intro t ht; simp at ht; subst ht; exact ho⟩
        split
        · exact inv_cur hnew none
        · exact hnew
      · exact h
    · exact h
  | finish i =>
    simp only [step]
    split
    · rename_i r hr
      have hi := h.reqs i r hr
      split
      · rename_i hp
        have hl := hi.late (Or.inr (Or.inl hp.1))
        have hnew := inv_setReq h i { r with phase := .done } ⟨by simp, by simp, fun _ => hl, hi.refs, hi.resp⟩
        split
        · split
          · split
            · exact inv_heap_cons hnew _ { s := some r.tbl } (by intro t ht; simp at ht; subst ht; exact late_cached hl hi.refs) _
            · exact hnew
          · exact hnew
        · exact hnew
      · exact h
    · exact h
  | flush => exact inv_cur h none

theorem inv_exec (rt : Route) (ops : List Op) (st : State) (h : Inv rt st) : Inv rt (exec true rt st ops) := by
  induction ops generalizing st with
  | nil => exact h
  | cons op ops ih => exact ih _ (inv_step rt st op h)

/-! ### the theorems -/

/-- Main theorem.  In every interleaving, what the service code of request i can observe when it
    runs (every symbol of its table) is exactly `full rt i inp`: its own URL parts, its own
    "_"-symbols, and the packages — a function of request i's own input only. -/
theorem C42_response_own_request (rt : Route) (ops : List Op) (i : Rid) (r : RState) (t : Table)
    (hr : getReq (exec true rt State.init ops).reqs i = some r) (ht : r.resp = some t) :
    ∀ k, tget t k = tget (full rt i r.inp) k :=
  ((inv_exec rt ops _ (inv_init rt)).reqs i r hr).resp t ht

/-- the same request served alone observes a table (it does run) -/
theorem solo_resp (rt : Route) (i : Rid) (inp : ReqIn) (ws : List (String × String)) (fl : Bool) :
    ∃ r t, getReq (exec true rt State.init (solo i inp ws fl)).reqs i = some r ∧ r.resp = some t ∧ r.inp = inp := by
  cases hc : rt.caching <;> cases fl <;>
    simp [solo, exec, step, State.init, getReq, State.setReq, hc, getEntry]

/-- Schedule independence: whatever request i observes in ANY interleaving with any other
    requests, flushes and failures is what it observes when it is served alone from a cold start. -/
theorem C42_same_as_alone (rt : Route) (ops : List Op) (i : Rid) (r : RState) (t : Table)
    (ws : List (String × String)) (fl : Bool)
    (hr : getReq (exec true rt State.init ops).reqs i = some r) (ht : r.resp = some t) :
    ∃ r' t', getReq (exec true rt State.init (solo i r.inp ws fl)).reqs i = some r' ∧ r'.resp = some t' ∧
      ∀ k, tget t k = tget t' k := by
  obtain ⟨r', t', h1, h2, h3⟩ := solo_resp rt i r.inp ws fl
  refine ⟨r', t', h1, h2, fun k => ?_⟩
  rw [C42_response_own_request rt ops i r t hr ht k, C42_response_own_request rt _ i r' t' h1 h2 k, h3]

/-- Ownership: at every moment of every interleaving, a mutable object referenced from the tables
    of two different requests is a package-level object. -/
theorem C42_disjoint (rt : Route) (ops : List Op) (i j : Rid) (ri rj : RState) (k k' : String) (o : Owner)
    (hij : i ≠ j)
    (hi : getReq (exec true rt State.init ops).reqs i = some ri)
    (hj : getReq (exec true rt State.init ops).reqs j = some rj)
    (h1 : tget ri.tbl k = some (.ref o)) (h2 : tget rj.tbl k' = some (.ref o)) :
    ∃ n, o = .pkg n := by
  have inv := inv_exec rt ops _ (inv_init rt)
  rcases (inv.reqs i ri hi).refs k o h1 with h | ⟨_, w, hw⟩
  · exact h
  · rcases (inv.reqs j rj hj).refs k' o h2 with h | ⟨_, w', hw'⟩
    · exact h
    · rw [hw] at hw'; injection hw' with e; exact absurd e hij

/-- … and the table saved in the cache hands later requests (through Merge, which skips "_"-names)
    only package references, never an object of the request that filled the cache. -/
theorem C42_cache_shares_only_packages (rt : Route) (ops : List Op) (e : Nat) (ent : Entry) (t : Table)
    (k : String) (o : Owner)
    (he : getEntry (exec true rt State.init ops).heap e = some ent) (hs : ent.s = some t)
    (hk : readonly k = false) (h : tget t k = some (.ref o)) : ∃ n, o = .pkg n :=
  ((inv_exec rt ops _ (inv_init rt)).heap e ent t he hs).2 k o hk h

/-! ### the code as found (`fixed = false`) violates the property -/

def demoRoute : Route := { parts := ["item"], auto := ["os"], caching := true }
def demoA : ReqIn := { user := "alice", method := "GET", vals := ["A"] }
def demoB : ReqIn := { user := "bob", method := "GET", vals := ["B"] }
def demoOps : List Op := solo 0 demoA [] false ++ solo 1 demoB [] false

def seen (fixed : Bool) (rt : Route) (ops : List Op) (i : Rid) (k : String) : Option Val :=
  match getReq (exec fixed rt State.init ops).reqs i with
  | some r => match r.resp with
    | some t => tget t k
    | none => none
  | none => none

/-- Without the re-applied URL parts, the second request (even served strictly after the first)
    reads the FIRST request's URL part: Merge overwrites `item` with the cached table's value. -/
theorem C42_unfixed_counterexample :
    seen false demoRoute demoOps 1 "item" = some (.str "A") ∧ demoB.vals = ["B"] := by decide

/-- non-vacuity: in the fixed model the same history gives each request its own value, its own
    user, and the shared package -/
example : seen true demoRoute demoOps 1 "item" = some (.str "B") ∧
    seen true demoRoute demoOps 0 "item" = some (.str "A") ∧
    seen true demoRoute demoOps 1 "_user" = some (.str "bob") ∧
    seen true demoRoute demoOps 1 "os" = some (.ref (.pkg "os")) ∧
    seen true demoRoute demoOps 1 "_request" = some (.ref (.req 1 "request")) := by decide

/-- non-vacuity of C42_disjoint / C42_cache_shares_only_packages: two live requests do share a
    package reference, and the cache does hold a table -/
example : ∃ ri rj, getReq (exec true demoRoute State.init demoOps).reqs 0 = some ri ∧
    getReq (exec true demoRoute State.init demoOps).reqs 1 = some rj ∧
    tget ri.tbl "os" = some (.ref (.pkg "os")) ∧ tget rj.tbl "os" = some (.ref (.pkg "os")) := by
  refine ⟨_, _, rfl, rfl, ?_, ?_⟩ <;> decide

example : ∃ ent t, getEntry (exec true demoRoute State.init demoOps).heap 0 = some ent ∧ ent.s = some t ∧
    tget t "os" = some (.ref (.pkg "os")) ∧ tget t "item" = some (.str "A") := by
  refine ⟨_, _, rfl, rfl, ?_, ?_⟩ <;> decide

end EgoVerif.C42
