/-
C42 — concurrent service requests do not see each other.

Ownership model of internal/server/services: ServiceHandler (service.go), getCachedService /
addToCache / updateCachedServiceSymbols / FlushServiceCache (cache.go) and symbols.Merge
(internal/language/symbols/copy.go).

What is shared and what is per request (read off the code):
  * per request, created by ServiceHandler: the root symbol table T_i (setupServerSymbols:
    NewRootSymbolTable, parent nil), the runtime child table, the Ego request / response structs,
    the body buffer, the parameter and header maps;
  * shared: ServiceCache[endpoint] = {bytecode b, tokens t, symbol table s}.  `s` is the ROOT
    TABLE T_m OF THE FIRST REQUEST m THAT FINISHED after the entry was created
    (updateCachedServiceSymbols(…, symbolTable.Parent())), and every later request on a cache hit
    executes `T_i.Merge(s)`, which copies every symbol whose name does not start with "_"
    (defs.ReadonlyVariablePrefix) from T_m into T_i; packages (auto-imported) are shared objects.

A table is an association list, newest binding first (`set` = cons, `get` = first match), so it
denotes the finite map the Go table holds.  Values are immutable strings or references to
mutable objects tagged with their owner.  One atomic model step = one region of the handler that
touches shared state under a lock (or touches only the still-private table T_i); the locks
themselves are NOT modelled, so the op lists range over a superset of the real interleavings.

The model mirrors the code WITH fixes/C42.patch (`fixed = true`: the URL-part symbols are set
again after the merge); `fixed = false` is the code as found, kept for the counterexample.
-/
namespace EgoVerif.C42

abbrev Rid := Nat

inductive Owner where
  | pkg (name : String)            -- package-level object (shared by design)
  | req (i : Rid) (what : String)  -- object created by ServiceHandler for request i
deriving DecidableEq, Repr

inductive Val where
  | str (s : String)
  | ref (o : Owner)
deriving DecidableEq, Repr

abbrev Table := List (String × Val)

def tget : Table → String → Option Val
  | [], _ => none
  | (k, v) :: t, n => if n = k then some v else tget t n

/-- SymbolTable.SetAlways -/
def tset (t : Table) (k : String) (v : Val) : Table := (k, v) :: t

/-- strings.HasPrefix(k, defs.ReadonlyVariablePrefix) -/
def readonly (k : String) : Bool :=
  match k.toList with
  | '_' :: _ => true
  | _ => false

/-- symbols.Merge(dst ← src): every non-"_" symbol of src is SetAlways'd into dst
    (oldest binding first, so the visible binding of src wins). -/
def merge (dst : Table) : Table → Table
  | [] => dst
  | (k, v) :: rest =>
    let d := merge dst rest
    if readonly k then d else tset d k v

/-- A route: the names bound from the URL pattern (session.URLParts keys: `{{x}}` names and
    literal segments — a function of the pattern only, router/serve.go partsMap), the packages
    AutoImport/AddStandard put in a request table, and whether caching is on (MaxCachedEntries>0). -/
structure Route where
  parts : List String
  auto : List String
  caching : Bool
deriving Repr

/-- What one request brings: user, and the URL-part values (positional; missing = ""). -/
structure ReqIn where
  user : String
  method : String
  vals : List String
deriving DecidableEq, Repr

/-- `for k, v := range session.URLParts { symbolTable.SetAlways(k, v) }` (a later duplicate
    name wins, as in the Go map). -/
def partsTbl : List String → List String → Table
  | [], _ => []
  | n :: ns, [] => partsTbl ns [] ++ [(n, .str "")]
  | n :: ns, v :: vs => partsTbl ns vs ++ [(n, .str v)]

/-- setupServerSymbols + the SetAlways calls of ServiceHandler on "_"-names. -/
def roTbl (i : Rid) (inp : ReqIn) : Table :=
  [ ("_request", .ref (.req i "request")),
    ("_response_writer", .ref (.req i "response")),
    ("_user", .str inp.user),
    ("_method", .str inp.method),
    ("_session", .ref (.req i "session")),
    ("_json", .str "accept"), ("_text", .str "accept"),
    ("_pid", .str "pid"), ("_instance", .str "instance"), ("_version", .str "version"),
    ("_start_time", .str "start"), ("__exec_mode", .str "server"),
    ("__extensions", .str "ext"), ("__type_checking", .str "types") ]

def autoTbl (rt : Route) : Table := rt.auto.map fun n => (n, .ref (.pkg n))

structure Entry where
  s : Option Table
deriving Repr

inductive Phase where
  | setup | found | ready | ran | done
deriving DecidableEq, Repr

structure RState where
  inp : ReqIn
  tbl : Table            -- T_i
  hit : Option Nat       -- cache entry found by the map lookup in getCachedService
  phase : Phase
  resp : Option Table    -- what the service code could observe when it ran
  failed : Bool
deriving Repr

structure State where
  heap : List (Nat × Entry)    -- every CachedCompilationUnit ever allocated (newest state first)
  cur : Option Nat             -- ServiceCache[endpoint]
  reqs : List (Rid × RState)   -- newest state first

def State.init : State := { heap := [], cur := none, reqs := [] }

def getReq : List (Rid × RState) → Rid → Option RState
  | [], _ => none
  | (j, r) :: t, i => if i = j then some r else getReq t i

def getEntry : List (Nat × Entry) → Nat → Option Entry
  | [], _ => none
  | (j, e) :: t, i => if i = j then some e else getEntry t i

def State.setReq (st : State) (i : Rid) (r : RState) : State := { st with reqs := (i, r) :: st.reqs }

inductive Op where
  | begin (i : Rid) (inp : ReqIn)   -- ServiceHandler up to serviceConcurrency.Lock
  | find (i : Rid)                  -- getCachedService: map lookup under serviceCacheMutex
  | load (i : Rid)                  -- AutoImport; hit: Merge(cachedItem.s) / miss: compile + addToCache
  | run (i : Rid) (writes : List (String × String)) (fail : Bool)  -- ctx.Run(); error ⇒ delete entry
  | finish (i : Rid)                -- updateCachedServiceSymbols(endpoint, T_i)
  | flush                           -- FlushServiceCache / age-out of the entry
deriving Repr

/-- fixes/C42.patch: the URL-part symbols are set again after getCachedService. -/
def reapply (fixed : Bool) (rt : Route) (inp : ReqIn) (t : Table) : Table :=
  if fixed then partsTbl rt.parts inp.vals ++ t else t

/-- assignments the service code makes to variables of the request table (only the URL-part
    variables are assignable there: everything else is "_"-readonly or a package) -/
def applyWrites (rt : Route) (t : Table) : List (String × String) → Table
  | [] => t
  | (k, d) :: ws => applyWrites rt (if k ∈ rt.parts then tset t k (.str d) else t) ws

def step (fixed : Bool) (rt : Route) (st : State) : Op → State
  | .begin i inp =>
    match getReq st.reqs i with
    | some _ => st
    | none => st.setReq i { inp := inp, tbl := partsTbl rt.parts inp.vals ++ roTbl i inp, hit := none,
                            phase := .setup, resp := none, failed := false }
  | .find i =>
    match getReq st.reqs i with
    | some r => if r.phase = .setup then st.setReq i { r with hit := st.cur, phase := .found } else st
    | none => st
  | .load i =>
    match getReq st.reqs i with
    | some r =>
      if r.phase = .found then
        let base := autoTbl rt ++ r.tbl
        match r.hit with
        | some e =>
          let src := match getEntry st.heap e with
            | some ent => ent.s.getD []
            | none => []
          st.setReq i { r with tbl := reapply fixed rt r.inp (merge base src), phase := .ready }
        | none =>
          let st' : State := if rt.caching then
              { st with heap := (st.heap.length, { s := none }) :: st.heap, cur := some st.heap.length }
            else st
          st'.setReq i { r with tbl := reapply fixed rt r.inp base, phase := .ready }
      else st
    | none => st
  | .run i writes fail =>
    match getReq st.reqs i with
    | some r =>
      if r.phase = .ready then
        let st' := st.setReq i { r with resp := some r.tbl, tbl := applyWrites rt r.tbl writes,
                                        phase := .ran, failed := fail }
        if fail then { st' with cur := none } else st'
      else st
    | none => st
  | .finish i =>
    match getReq st.reqs i with
    | some r =>
      if r.phase = .ran ∧ r.failed = false then
        let st' := st.setReq i { r with phase := .done }
        match st.cur with
        | some e =>
          match getEntry st.heap e with
          | some ent =>
            match ent.s with
            | none => { st' with heap := (e, { s := some r.tbl }) :: st'.heap }
            | some _ => st'
          | none => st'
        | none => st'
      else st
    | none => st
  | .flush => { st with cur := none }

def exec (fixed : Bool) (rt : Route) : State → List Op → State
  | st, [] => st
  | st, op :: ops => exec fixed rt (step fixed rt st op) ops

/-- what a request is entitled to see: its own URL parts, the packages, its own "_"-symbols -/
def full (rt : Route) (i : Rid) (inp : ReqIn) : Table :=
  partsTbl rt.parts inp.vals ++ (autoTbl rt ++ roTbl i inp)

/-- one request served with nothing else in flight -/
def solo (i : Rid) (inp : ReqIn) (writes : List (String × String)) (fail : Bool) : List Op :=
  [.begin i inp, .find i, .load i, .run i writes fail, .finish i]

end EgoVerif.C42
