import EgoVerif.Common.Drv
import EgoVerif.C42.Model
/- line protocol (stateful; strings travel as opaque hex tokens, names as plain identifiers):
   `route <caching 0|1> <name>…`                      → `ok`            (new endpoint, cold cache)
   `req <id> <user> <method> <fail 0|1> <nw> (<name> <tok>)*nw <val>…`
        one request served with nothing else in flight (begin, find, load, run, finish)
        → `seen=<tok>,… user=<tok> cache=<none|nil|tok,…>`   (`seen=ERR` when the run failed)
   `flush`                                            → `cache=none`
   The values after `seen=` are the URL-part variables (route order) the service code read when it
   started; `cache=` is ServiceCache[endpoint]: absent, present with s == nil, or the URL-part
   symbols of the saved table. -/
namespace EgoVerif.C42

structure DState where
  rt : Route
  st : State

def showVal : Option Val → String
  | some (.str s) => s
  | some (.ref _) => "REF"
  | none => "UNSET"

def showParts (rt : Route) (t : Table) : String :=
  if rt.parts.isEmpty then "-" else ",".intercalate (rt.parts.map fun n => showVal (tget t n))

def showCache (rt : Route) (st : State) : String :=
  match st.cur with
  | none => "cache=none"
  | some e =>
    match getEntry st.heap e with
    | none => "cache=none"
    | some ent =>
      match ent.s with
      | none => "cache=nil"
      | some t => "cache=" ++ showParts rt t

def parseWrites : Nat → List String → Option (List (String × String) × List String)
  | 0, rest => some ([], rest)
  | n + 1, k :: d :: rest =>
    match parseWrites n rest with
    | some (ws, r) => some ((k, d) :: ws, r)
    | none => none
  | _ + 1, _ => none

def handle (d : DState) (line : String) : DState × String :=
  match fields line with
  | "route" :: c :: names =>
    ({ rt := { parts := names, auto := ["os", "cipher", "profile"], caching := c == "1" }, st := State.init }, "ok")
  | "req" :: id :: user :: method :: fl :: nw :: rest =>
    match id.toNat?, nw.toNat? with
    | some i, some n =>
      match parseWrites n rest with
      | some (ws, vals) =>
        let inp : ReqIn := { user := user, method := method, vals := vals }
        let st := exec true d.rt d.st (solo i inp ws (fl == "1"))
        let seen := match getReq st.reqs i with
          | some r =>
            if r.failed then "ERR" else
            match r.resp with
            | some t => showParts d.rt t ++ " user=" ++ showVal (tget t "_user")
            | none => "NORUN"
          | none => "NOREQ"
        ({ d with st := st }, "seen=" ++ seen ++ " " ++ showCache d.rt st)
      | none => (d, "bad-input")
    | _, _ => (d, "bad-input")
  | ["flush"] =>
    let st := step true d.rt d.st .flush
    ({ d with st := st }, showCache d.rt st)
  | _ => (d, "bad-op")

def drv : Drv :=
  { σ := DState, init := { rt := { parts := [], auto := [], caching := true }, st := State.init }, step := handle }

end EgoVerif.C42
