/-
C08 — model of the symbol-table sharing protocol of the Ego interpreter.

Mirrors (names the Go code it follows):
  * internal/language/symbols/tables.go   NewChildSymbolTable (new table: own id, parent pointer, shared=false
                                          after the `.Shared(false)` every bytecode caller applies),
                                          Shared(true) (marks the table AND its whole parent chain),
                                          SharedParent (first table of the parent chain with shared=true)
  * internal/language/symbols/get.go/set.go/create.go/delete.go
                                          every access: `if s.shared.Load() { lock }` then touch the map
  * internal/language/bytecode/symbols.go pushScopeByteCode / popScopeByteCode
  * internal/language/bytecode/callframe.go, callBytecodeFunction.go   call / return, closure call
                                          (new table is a child of the closure's captured scope)
  * internal/language/bytecode/stack.go   pushByteCode (a closure value captures c.symbols)
  * internal/language/bytecode/goroutine.go goByteCode: ONLY when the go target is a closure its captured
                                          scope is marked shared, BEFORE the fork; GoRoutine (runs in the new
                                          goroutine): reads the launcher's CURRENT scope, FindNextScope,
                                          SharedParent, and hangs its own root scope below that.
A table is a natural number; its parent chain never changes after creation (SetParent is not used on the
paths modelled), so the chain is stored with the table: `anc x` = x, parent x, parent (parent x), ….
Where the code picks "some ancestor" (FindNextScope at a boundary, scope of a Get that walks up) the
operation takes the depth `d` as a parameter, so every choice the code can make is covered.
Core Lean only.
-/
namespace EgoVerif.C08

/-- an interpreter context (bytecode.Context) = one thread of the Ego program -/
structure Ctx where
  live : Bool
  cur : Option Nat      -- c.symbols; none while the goroutine has not yet built its root scope
  stack : List Nat      -- scopes saved in call frames (restored by return)
  held : List Nat       -- captured scopes of the closure values this thread can call
  boot : Nat            -- the launching context (GoRoutine reads parentCtx.symbols)

/-- one access to a table's map, as made by symbols.Get/Set/…: `locked` = the lock was taken -/
structure Access where
  thread : Nat
  table : Nat
  write : Bool
  locked : Bool
deriving DecidableEq, Repr

structure State where
  next : Nat                 -- id of the next table to be created
  anc : Nat → List Nat       -- parent chain, the table itself first
  shared : Nat → Bool        -- SymbolTable.shared
  nctx : Nat
  ctx : Nat → Ctx
  pool : List Nat            -- closure values in flight in channels
  log : List Access          -- newest first

inductive Op
  | push (d : Nat)           -- pushScope: new table below the d-th table of the current chain (d=0: block scope)
  | pop                      -- popScope: back to the parent
  | call (d : Nat)           -- callFramePush: like push, the caller's scope is saved in the frame
  | ret                      -- callFramePop
  | capture                  -- pushByteCode of a function literal: closure value capturing c.symbols
  | callClosure (k : Nat)    -- call held closure k: new table below its captured scope
  | goClosure (k : Nat)      -- `go func(){…}()`: mark captured chain shared, THEN fork
  | goNamed (args : List Nat)-- `go f(args)`: fork, the held closures `args` are handed over UNMARKED
  | boot (d : Nat)           -- GoRoutine prologue, run by the new thread
  | send (k : Nat)           -- `ch <- closure`
  | recv                     -- `f := <-ch`
  | acc (w : Bool) (d : Nat) -- Get/Set reaching the d-th table of the current chain
  | exit

def nth (l : List Nat) (d : Nat) : Option Nat := l[d]?

/-- NewChildSymbolTable(name, parent).Shared(false): fresh id, chain = itself :: chain of the parent -/
def newTable (s : State) (chain : List Nat) : State :=
  { s with next := s.next + 1,
           anc := fun x => if x = s.next then s.next :: chain else s.anc x,
           shared := fun x => if x = s.next then false else s.shared x }

/-- SymbolTable.Shared(true) on a table whose chain is `l`: every table of the chain becomes shared -/
def mark (s : State) (l : List Nat) : State :=
  { s with shared := fun x => l.contains x || s.shared x }

def setCtx (s : State) (t : Nat) (c : Ctx) : State :=
  { s with ctx := fun k => if k = t then c else s.ctx k }

def chainOf (s : State) (p : Option Nat) : List Nat :=
  match p with
  | some q => s.anc q
  | none => []

/-- `go GoRoutine(fx, c, args)`: a new live context that so far only holds the values handed to it -/
def spawn (s : State) (parent : Nat) (held : List Nat) : State :=
  { s with nctx := s.nctx + 1,
           ctx := fun k => if k = s.nctx then ⟨true, none, [], held, parent⟩ else s.ctx k }

/-- SharedParent of the table picked at depth d of chain `pc` -/
def sharedParentAt (s : State) (pc : Option Nat) (d : Nat) : Option Nat :=
  match pc with
  | none => none
  | some x =>
    match nth (s.anc x) d with
    | none => none
    | some y => (s.anc y).find? (fun z => s.shared z)

def step (s : State) (t : Nat) (o : Op) : State :=
  let c := s.ctx t
  if c.live = false then s else
  match o, c.cur with
  | .boot d, none =>
      setCtx (newTable s (chainOf s (sharedParentAt s (s.ctx c.boot).cur d))) t { c with cur := some s.next }
  | .push d, some x =>
      match nth (s.anc x) d with
      | some p => setCtx (newTable s (s.anc p)) t { c with cur := some s.next }
      | none => s
  | .call d, some x =>
      match nth (s.anc x) d with
      | some p => setCtx (newTable s (s.anc p)) t { c with cur := some s.next, stack := x :: c.stack }
      | none => s
  | .pop, some x =>
      match s.anc x with
      | _ :: p :: _ => setCtx s t { c with cur := some p }
      | _ => s
  | .ret, some _ =>
      match c.stack with
      | f :: rest => setCtx s t { c with cur := some f, stack := rest }
      | [] => s
  | .capture, some x => setCtx s t { c with held := x :: c.held }
  | .callClosure k, some x =>
      match nth c.held k with
      | some cap => setCtx (newTable s (s.anc cap)) t { c with cur := some s.next, stack := x :: c.stack }
      | none => s
  | .goClosure k, some _ =>
      match nth c.held k with
      | some cap => spawn (mark s (s.anc cap)) t [cap]
      | none => s
  | .goNamed args, some _ => spawn s t (args.filterMap (nth c.held))
  | .send k, some _ =>
      match nth c.held k with
      | some cap => { s with pool := cap :: s.pool }
      | none => s
  | .recv, some _ =>
      match s.pool with
      | cap :: rest => setCtx { s with pool := rest } t { c with held := cap :: c.held }
      | [] => s
  | .acc w d, some x =>
      match nth (s.anc x) d with
      | some y => { s with log := ⟨t, y, w, s.shared y⟩ :: s.log }
      | none => s
  | .exit, _ => setCtx s t { c with live := false }
  | _, _ => s

/-- `ego run`: table 0 = symbols.RootSymbolTable (shared, root.go init), table 1 = the program's main table
    (commands/run.go initializeSymbols: NewSymbolTable(name).Shared(true)); thread 0 runs main there. -/
def init : State :=
  { next := 2,
    anc := fun x => if x = 0 then [0] else if x = 1 then [1, 0] else [],
    shared := fun x => x = 0 || x = 1,
    nctx := 1,
    ctx := fun k => if k = 0 then ⟨true, some 1, [], [], 0⟩ else ⟨false, none, [], [], 0⟩,
    pool := [],
    log := [] }

/-- an execution = an arbitrary interleaving: the schedule names, step by step, the thread that moves -/
def run (s : State) : List (Nat × Op) → State
  | [] => s
  | (t, o) :: rest => run (step s t o) rest

/-! ### trace checker (T3): validates an observed run of the real interpreter against the protocol

Events come from the verif-tagged hook (fixes/C08-hook.patch): `acc w g x l` = goroutine g touched the map of
table x (w: may write) and the shared flag it saw when deciding about the lock was l; `start g` = goroutine g
has attached its root scope (GoRoutine prologue done); `stop g` = its bytecode finished; `fork g x l` = at a
`go` of a closure, table x of the captured chain had shared flag l AFTER the marking and BEFORE the fork.
Goroutine 0 is the program's main context and is alive throughout. -/

inductive Ev
  | acc (w : Bool) (g x : Nat) (l : Bool)
  | start (g : Nat)
  | stop (g : Nat)
  | fork (g x : Nat) (l : Bool)
deriving DecidableEq, Repr

def findIdx (p : Ev → Bool) : List Ev → Nat → Option Nat
  | [], _ => none
  | e :: r, i => if p e then some i else findIdx p r (i + 1)

def isStart (g : Nat) : Ev → Bool
  | .start h => h == g
  | _ => false

def isStop (g : Nat) : Ev → Bool
  | .stop h => h == g
  | _ => false

/-- goroutine g is alive at position i of the trace -/
def liveAt (tr : List Ev) (g i : Nat) : Bool :=
  if g == 0 then true else
  (match findIdx (isStart g) tr 0 with
   | some s => decide (s ≤ i)
   | none => false) &&
  (match findIdx (isStop g) tr 0 with
   | some e => decide (i < e)
   | none => true)

/-- the access (w, g, x) made at position i conflicts with an access of another goroutine alive at i -/
def conflicts (tr : List Ev) (i : Nat) (w : Bool) (g x : Nat) : Bool :=
  tr.any fun e =>
    match e with
    | .acc w' g' x' _ => x' == x && g' != g && (w || w') && liveAt tr g' i
    | _ => false

/-- fork rule: the captured chain is shared at the fork (C08_shared_before_fork at the fork point);
    access rule: an access made without the lock has no conflicting access by a goroutine alive then
    (consequence of C08_race_free for executions without escaping closures) -/
def badAt (tr : List Ev) (i : Nat) : Ev → Bool
  | .fork _ _ l => !l
  | .acc w g x l => !l && conflicts tr i w g x
  | _ => false

def firstBad (tr : List Ev) : List Ev → Nat → Option Nat
  | [], _ => none
  | e :: r, i => if badAt tr i e then some i else firstBad tr r (i + 1)

def checkTrace (tr : List Ev) : Option Nat := firstBad tr tr 0

/-- the trace a model execution would emit: the access log, oldest first (model threads are live from the
    fork on, so no start/stop events are needed to state the access rule on it) -/
def accEvents (s : State) : List Ev := s.log.reverse.map fun a => Ev.acc a.write a.thread a.table a.locked

end EgoVerif.C08
