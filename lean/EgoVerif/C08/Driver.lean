import EgoVerif.Common.Drv
import EgoVerif.C08.Model
/- line protocol:  `trace <ev> <ev> …`  →  `ok` | `bad <index of first offending event>`
   events:  r.<g>.<x>.<l>  w.<g>.<x>.<l>  f.<g>.<x>.<l>  s.<g>  e.<g>      (l = 0|1) -/
namespace EgoVerif.C08

def parseEv (tok : String) : Option Ev :=
  match tok.splitOn "." with
  | [k, g, x, l] =>
    match g.toNat?, x.toNat?, l.toNat? with
    | some g, some x, some l =>
      if k == "r" then some (.acc false g x (l != 0))
      else if k == "w" then some (.acc true g x (l != 0))
      else if k == "f" then some (.fork g x (l != 0))
      else none
    | _, _, _ => none
  | [k, g] =>
    match g.toNat? with
    | some g => if k == "s" then some (.start g) else if k == "e" then some (.stop g) else none
    | none => none
  | _ => none

def parseAll : List String → Option (List Ev)
  | [] => some []
  | t :: r =>
    match parseEv t, parseAll r with
    | some e, some es => some (e :: es)
    | _, _ => none

def handle (line : String) : String :=
  match fields line with
  | "trace" :: toks =>
    match parseAll toks with
    | some tr =>
      match checkTrace tr with
      | none => "ok"
      | some i => "bad " ++ toString i
    | none => "bad-input"
  | _ => "bad-op"

def drv : Drv := Drv.pure handle

end EgoVerif.C08
