import EgoVerif.C08.Model
/-
C08 — theorems about the sharing protocol model (Model.lean).  Core Lean only.
-/
namespace EgoVerif.C08

/-- the scopes a context holds on to: its current scope, the scopes saved in its call frames, and the
    captured scopes of the closure values it can call -/
def roots (c : Ctx) : List Nat :=
  (match c.cur with | some x => [x] | none => []) ++ (c.stack ++ c.held)

/-- table x can be touched by context c: it lies on the parent chain of one of c's scopes -/
def reach (s : State) (c : Ctx) (x : Nat) : Prop := ∃ r, r ∈ roots c ∧ x ∈ s.anc r

/-- THE INVARIANT: a table reachable from two live contexts is marked shared -/
def Inv (s : State) : Prop :=
  ∀ i j x, i ≠ j → (s.ctx i).live = true → (s.ctx j).live = true →
    reach s (s.ctx i) x → reach s (s.ctx j) x → s.shared x = true

/-- well-formedness of the table forest -/
structure WFT (s : State) : Prop where
  lt : ∀ x y, y ∈ s.anc x → y < s.next
  up : ∀ x y, s.shared x = true → y ∈ s.anc x → s.shared y = true
  trans : ∀ x z y, z ∈ s.anc x → y ∈ s.anc z → y ∈ s.anc x

/-- every scope a context holds is an existing table -/
def RL (s : State) : Prop := ∀ i r, r ∈ roots (s.ctx i) → r < s.next

/-- operations that hand a closure value to another thread other than as the `go` target -/
def Op.noEscape : Op → Bool
  | .send _ => false
  | .recv => false
  | .goNamed args => args.isEmpty
  | _ => true

def NoEscape (sched : List (Nat × Op)) : Prop := ∀ p, p ∈ sched → p.2.noEscape = true

instance (sched : List (Nat × Op)) : Decidable (NoEscape sched) :=
  inferInstanceAs (Decidable (∀ p, p ∈ sched → p.2.noEscape = true))

/-! ### primitives -/

theorem newTable_wft {s : State} (h : WFT s) (ch : List Nat) (hch : ch = [] ∨ ∃ p, ch = s.anc p) :
    WFT (newTable s ch) := by
  have hmem : ∀ y, y ∈ ch → y < s.next := by
    intro y hy
    rcases hch with rfl | ⟨p, rfl⟩
    · simp at hy
    · exact h.lt p y hy
  have hanc : ∀ z, z < s.next → (newTable s ch).anc z = s.anc z := by
    intro z hz; simp [newTable]; omega
  refine ⟨?_, ?_, ?_⟩
  · intro x y hy
    by_cases hx : x = s.next
    · subst hx
      simp [newTable] at hy ⊢
      rcases hy with rfl | hy
      · omega
      · have := hmem y hy; omega
    · have : y < s.next := by
        simp [newTable, hx] at hy; exact h.lt x y hy
      simp [newTable]; omega
  · intro x y hsx hy
    by_cases hx : x = s.next
    · subst hx; simp [newTable] at hsx
    · simp [newTable, hx] at hsx hy
      have hy' := h.lt x y hy
      have : y ≠ s.next := by omega
      simp [newTable, this]; exact h.up x y hsx hy
  · intro x z y hz hy
    by_cases hx : x = s.next
    · subst hx
      simp [newTable] at hz ⊢
      rcases hz with rfl | hz
      · simpa [newTable] using hy
      · have hzl := hmem z hz
        rw [hanc z hzl] at hy
        right
        rcases hch with rfl | ⟨p, rfl⟩
        · simp at hz
        · exact h.trans p z y hz hy
    · simp [newTable, hx] at hz ⊢
      have hzl := h.lt x z hz
      rw [hanc z hzl] at hy
      exact h.trans x z y hz hy

theorem mark_wft {s : State} (h : WFT s) (cap : Nat) : WFT (mark s (s.anc cap)) := by
  refine ⟨h.lt, ?_, h.trans⟩
  intro x y hsx hy
  simp [mark] at hsx ⊢
  rcases hsx with hx | hx
  · left; exact h.trans cap x y hx hy
  · right; exact h.up x y hx hy

theorem setCtx_wft {s : State} (h : WFT s) (t : Nat) (c : Ctx) : WFT (setCtx s t c) := ⟨h.lt, h.up, h.trans⟩

theorem spawn_wft {s : State} (h : WFT s) (p : Nat) (l : List Nat) : WFT (spawn s p l) := ⟨h.lt, h.up, h.trans⟩

theorem not_reach_next {s : State} (h : WFT s) (c : Ctx) : ¬ reach s c s.next := by
  rintro ⟨r, _, hx⟩
  have := h.lt r _ hx
  omega

/-- frame lemma: if every (context, table) reachability of the new state is an old one, or concerns a table
    that is shared in the new state, or is the fresh table n seen by thread t alone, the invariant survives -/
theorem inv_frame {s s' : State} (n t : Nat) (h : Inv s) (hw : WFT s)
    (hs : ∀ x, x < s.next → s.shared x = true → s'.shared x = true)
    (hfresh : ∀ j, ¬ reach s (s.ctx j) n)
    (hr : ∀ i x, (s'.ctx i).live = true → reach s' (s'.ctx i) x →
      ((s.ctx i).live = true ∧ reach s (s.ctx i) x) ∨ s'.shared x = true ∨ (x = n ∧ i = t)) : Inv s' := by
  intro i j x hij li lj ri rj
  have hlt : ∀ k, reach s (s.ctx k) x → x < s.next := by
    rintro k ⟨r, _, hx⟩; exact hw.lt r x hx
  rcases hr i x li ri with ⟨li0, ri0⟩ | hsx | ⟨hx, hi⟩
  · rcases hr j x lj rj with ⟨lj0, rj0⟩ | hsx | ⟨hx, hj⟩
    · exact hs x (hlt i ri0) (h i j x hij li0 lj0 ri0 rj0)
    · exact hsx
    · subst hx; exact absurd ri0 (hfresh i)
  · exact hsx
  · rcases hr j x lj rj with ⟨lj0, rj0⟩ | hsx | ⟨hx2, hj⟩
    · subst hx; exact absurd rj0 (hfresh j)
    · exact hsx
    · omega

/-! ### the three shapes of a step -/

def Good (s : State) : Prop := WFT s ∧ RL s ∧ Inv s

theorem mem_roots_cur {c : Ctx} {x : Nat} (h : c.cur = some x) : x ∈ roots c := by simp [roots, h]

/-- shape A: thread t creates a table below a chain it can already reach (or a shared / empty chain) and
    makes it its current scope -/
theorem ok_new {s : State} (hg : Good s) (t : Nat) (ch : List Nat) (c' : Ctx)
    (hlive : c'.live = true → (s.ctx t).live = true)
    (hch : ch = [] ∨ ∃ p, ch = s.anc p)
    (hcov : ∀ x, x ∈ ch → reach s (s.ctx t) x ∨ s.shared x = true)
    (hroots : ∀ r, r ∈ roots c' → r = s.next ∨ r ∈ roots (s.ctx t)) :
    Good (setCtx (newTable s ch) t c') := by
  obtain ⟨hw, hrl, hi⟩ := hg
  have hmem : ∀ y, y ∈ ch → y < s.next := by
    intro y hy
    rcases hch with rfl | ⟨p, rfl⟩
    · simp at hy
    · exact hw.lt p y hy
  have hanc : ∀ z, z < s.next → (newTable s ch).anc z = s.anc z := by
    intro z hz; simp [newTable]; omega
  refine ⟨setCtx_wft (newTable_wft hw ch hch) t c', ?_, ?_⟩
  · intro i r hr
    by_cases hit : i = t
    · subst hit
      simp [setCtx] at hr
      rcases hroots r hr with rfl | h
      · simp [setCtx, newTable]
      · have := hrl i r h; simp [setCtx, newTable]; omega
    · simp [setCtx, hit] at hr
      have := hrl i r hr; simp [setCtx, newTable]; omega
  · apply inv_frame s.next t hi hw
    · intro x hx hsx
      have : x ≠ s.next := by omega
      simpa [setCtx, newTable, this] using hsx
    · intro j; exact not_reach_next hw _
    · intro i x li ri
      by_cases hit : i = t
      · subst hit
        simp [setCtx] at li ri
        obtain ⟨r, hr, hx⟩ := ri
        rcases hroots r hr with rfl | h
        · simp [setCtx, newTable] at hx
          rcases hx with rfl | hx
          · right; right; exact ⟨rfl, rfl⟩
          · rcases hcov x hx with h1 | h1
            · left; exact ⟨hlive li, h1⟩
            · right; left
              have : x ≠ s.next := by have := hmem x hx; omega
              simpa [setCtx, newTable, this] using h1
        · left
          refine ⟨hlive li, r, h, ?_⟩
          have hlt := hrl i r h
          have : (newTable s ch).anc r = s.anc r := hanc r hlt
          simpa [setCtx, this] using hx
      · simp [setCtx, hit] at li ri
        obtain ⟨r, hr, hx⟩ := ri
        left
        refine ⟨li, r, hr, ?_⟩
        have hlt := hrl i r hr
        have : (newTable s ch).anc r = s.anc r := hanc r hlt
        simpa [this] using hx

/-- shape B: thread t only rearranges the scopes it holds (each new one lies on a chain it already held) -/
theorem ok_set {s : State} (hg : Good s) (t : Nat) (c' : Ctx)
    (hlive : c'.live = true → (s.ctx t).live = true)
    (hroots : ∀ r, r ∈ roots c' → r ∈ roots (s.ctx t) ∨ ∃ r0, r0 ∈ roots (s.ctx t) ∧ r ∈ s.anc r0) :
    Good (setCtx s t c') := by
  obtain ⟨hw, hrl, hi⟩ := hg
  refine ⟨setCtx_wft hw t c', ?_, ?_⟩
  · intro i r hr
    by_cases hit : i = t
    · subst hit
      simp [setCtx] at hr
      rcases hroots r hr with h | ⟨r0, _, h⟩
      · exact hrl i r h
      · exact hw.lt r0 r h
    · simp [setCtx, hit] at hr; exact hrl i r hr
  · apply inv_frame s.next t hi hw
    · intro x _ hsx; simpa [setCtx] using hsx
    · intro j; exact not_reach_next hw _
    · intro i x li ri
      left
      by_cases hit : i = t
      · subst hit
        simp [setCtx] at li ri
        obtain ⟨r, hr, hx⟩ := ri
        refine ⟨hlive li, ?_⟩
        rcases hroots r hr with h | ⟨r0, h0, h⟩
        · exact ⟨r, h, hx⟩
        · exact ⟨r0, h0, hw.trans r0 r x h hx⟩
      · simp [setCtx, hit] at li ri; exact ⟨li, ri⟩

/-- shape C: a fork.  The new context so far holds only `held`; every table on those chains is shared
    in the new state (after the marking done BEFORE the fork) -/
theorem ok_spawn {s : State} (hg : Good s) (t : Nat) (held : List Nat) (l : List Nat)
    (hl : l = [] ∨ ∃ cap, l = s.anc cap)
    (hheld : ∀ r, r ∈ held → r < s.next ∧ ∀ x, x ∈ s.anc r → x ∈ l) :
    Good (spawn (mark s l) t held) := by
  obtain ⟨hw, hrl, hi⟩ := hg
  have hw1 : WFT (mark s l) := by
    rcases hl with rfl | ⟨cap, rfl⟩
    · exact ⟨hw.lt, by intro x y hsx hy; simp [mark] at hsx ⊢; exact hw.up x y hsx hy, hw.trans⟩
    · exact mark_wft hw cap
  refine ⟨spawn_wft hw1 t held, ?_, ?_⟩
  · intro i r hr
    by_cases hin : i = s.nctx
    · subst hin
      simp [spawn, mark, roots] at hr
      exact (hheld r hr).1
    · have : (spawn (mark s l) t held).ctx i = s.ctx i := by simp [spawn, mark, hin]
      rw [this] at hr; exact hrl i r hr
  · apply inv_frame s.next t hi hw
    · intro x _ hsx; simp [spawn, mark, hsx]
    · intro j; exact not_reach_next hw _
    · intro i x li ri
      by_cases hin : i = s.nctx
      · subst hin
        right; left
        obtain ⟨r, hr, hx⟩ := ri
        simp [spawn, mark, roots] at hr
        have := (hheld r hr).2 x (by simpa [spawn, mark] using hx)
        simp [spawn, mark, this]
      · have hc : (spawn (mark s l) t held).ctx i = s.ctx i := by simp [spawn, mark, hin]
        rw [hc] at li ri
        left; exact ⟨li, ri⟩

theorem mark_nil (s : State) : mark s [] = s := by
  cases s; simp [mark]

theorem nth_mem {l : List Nat} {d x : Nat} (h : nth l d = some x) : x ∈ l := by
  unfold nth at h; exact List.mem_of_getElem? h

theorem reach_of_chain {s : State} (hw : WFT s) {c : Ctx} {x p y : Nat}
    (hx : x ∈ roots c) (hp : p ∈ s.anc x) (hy : y ∈ s.anc p) : reach s c y :=
  ⟨x, hx, hw.trans x p y hp hy⟩

/-- every operation other than the escaping ones preserves well-formedness and the invariant -/
theorem step_ok (s : State) (t : Nat) (o : Op) (hne : o.noEscape = true) (hg : Good s) : Good (step s t o) := by
  unfold step
  by_cases hl : (s.ctx t).live = false
  · simp [hl]; exact hg
  · have hlt : (s.ctx t).live = true := by cases h : (s.ctx t).live <;> simp_all
    simp only [hl, if_false]
    have hw := hg.1
    cases o with
    | push d =>
      cases hcur : (s.ctx t).cur with
      | none => simpa using hg
      | some x =>
        simp only []
        cases hp : nth (s.anc x) d with
        | none => simpa using hg
        | some p =>
          simp only []
          apply ok_new hg t (s.anc p) _ (fun _ => hlt) (Or.inr ⟨p, rfl⟩)
          · intro y hy; left
            exact reach_of_chain hw (mem_roots_cur hcur) (nth_mem hp) hy
          · intro r hr
            simp [roots] at hr
            rcases hr with rfl | hr | hr
            · left; rfl
            · right; simp [roots, hr]
            · right; simp [roots, hr]
    | call d =>
      cases hcur : (s.ctx t).cur with
      | none => simpa using hg
      | some x =>
        simp only []
        cases hp : nth (s.anc x) d with
        | none => simpa using hg
        | some p =>
          simp only []
          apply ok_new hg t (s.anc p) _ (fun _ => hlt) (Or.inr ⟨p, rfl⟩)
          · intro y hy; left
            exact reach_of_chain hw (mem_roots_cur hcur) (nth_mem hp) hy
          · intro r hr
            simp [roots] at hr
            rcases hr with rfl | rfl | hr | hr
            · left; rfl
            · right; exact mem_roots_cur hcur
            · right; simp [roots, hr]
            · right; simp [roots, hr]
    | pop =>
      cases hcur : (s.ctx t).cur with
      | none => simpa using hg
      | some x =>
        simp only []
        cases hax : s.anc x with
        | nil => simpa using hg
        | cons a rest =>
          cases rest with
          | nil => simpa using hg
          | cons p rest2 =>
            simp only []
            apply ok_set hg t _ (fun _ => hlt)
            intro r hr
            simp [roots] at hr
            rcases hr with rfl | hr | hr
            · right; exact ⟨x, mem_roots_cur hcur, by simp [hax]⟩
            · left; simp [roots, hr]
            · left; simp [roots, hr]
    | ret =>
      cases hcur : (s.ctx t).cur with
      | none => simpa using hg
      | some x =>
        simp only []
        cases hst : (s.ctx t).stack with
        | nil => simpa using hg
        | cons f rest =>
          simp only []
          apply ok_set hg t _ (fun _ => hlt)
          intro r hr
          simp [roots] at hr
          left
          rcases hr with rfl | hr | hr
          · simp [roots, hst]
          · simp [roots, hst, hr]
          · simp [roots, hr]
    | capture =>
      cases hcur : (s.ctx t).cur with
      | none => simpa using hg
      | some x =>
        simp only []
        apply ok_set hg t _ (fun _ => hlt)
        intro r hr
        simp [roots, hcur] at hr
        left
        rcases hr with rfl | hr | rfl | hr
        · exact mem_roots_cur hcur
        · simp [roots, hr]
        · exact mem_roots_cur hcur
        · simp [roots, hr]
    | callClosure k =>
      cases hcur : (s.ctx t).cur with
      | none => simpa using hg
      | some x =>
        simp only []
        cases hk : nth (s.ctx t).held k with
        | none => simpa using hg
        | some cap =>
          simp only []
          have hcap : cap ∈ roots (s.ctx t) := by simp [roots, nth_mem hk]
          apply ok_new hg t (s.anc cap) _ (fun _ => hlt) (Or.inr ⟨cap, rfl⟩)
          · intro y hy; left; exact ⟨cap, hcap, hy⟩
          · intro r hr
            simp [roots] at hr
            rcases hr with rfl | rfl | hr | hr
            · left; rfl
            · right; exact mem_roots_cur hcur
            · right; simp [roots, hr]
            · right; simp [roots, hr]
    | goClosure k =>
      cases hcur : (s.ctx t).cur with
      | none => simpa using hg
      | some x =>
        simp only []
        cases hk : nth (s.ctx t).held k with
        | none => simpa using hg
        | some cap =>
          simp only []
          have hcap : cap ∈ roots (s.ctx t) := by simp [roots, nth_mem hk]
          apply ok_spawn hg t [cap] (s.anc cap) (Or.inr ⟨cap, rfl⟩)
          intro r hr
          simp at hr; subst hr
          exact ⟨hg.2.1 t r hcap, fun x hx => hx⟩
    | goNamed args =>
      cases hcur : (s.ctx t).cur with
      | none => simpa using hg
      | some x =>
        simp only []
        have ha : args = [] := by simpa [Op.noEscape] using hne
        subst ha
        have := ok_spawn hg t [] [] (Or.inl rfl) (by intro r hr; simp at hr)
        simpa [mark_nil] using this
    | boot d =>
      cases hcur : (s.ctx t).cur with
      | some x => simpa using hg
      | none =>
        simp only []
        apply ok_new hg t _ _ (fun _ => hlt)
        · unfold chainOf
          cases sharedParentAt s (s.ctx (s.ctx t).boot).cur d with
          | none => left; rfl
          | some q => right; exact ⟨q, rfl⟩
        · intro y hy
          right
          unfold chainOf at hy
          cases hsp : sharedParentAt s (s.ctx (s.ctx t).boot).cur d with
          | none => simp [hsp] at hy
          | some q =>
            simp [hsp] at hy
            have hq : s.shared q = true := by
              unfold sharedParentAt at hsp
              cases hpc : (s.ctx (s.ctx t).boot).cur with
              | none => simp [hpc] at hsp
              | some z =>
                simp [hpc] at hsp
                cases hn : nth (s.anc z) d with
                | none => simp [hn] at hsp
                | some w =>
                  simp [hn] at hsp
                  have := List.find?_some hsp
                  simpa using this
            exact hw.up q y hq hy
        · intro r hr
          simp [roots, hcur] at hr
          rcases hr with rfl | hr | hr
          · left; rfl
          · right; simp [roots, hr]
          · right; simp [roots, hr]
    | send k => simp [Op.noEscape] at hne
    | recv => simp [Op.noEscape] at hne
    | acc w d =>
      cases hcur : (s.ctx t).cur with
      | none => simpa using hg
      | some x =>
        simp only []
        cases hp : nth (s.anc x) d with
        | none => simpa using hg
        | some y =>
          simp only []
          obtain ⟨hw, hrl, hi⟩ := hg
          exact ⟨⟨hw.lt, hw.up, hw.trans⟩, hrl, hi⟩
    | exit =>
      have : Good (setCtx s t { s.ctx t with live := false }) := by
        apply ok_set hg t _ (by simp)
        intro r hr; left; simpa [roots] using hr
      cases hcur : (s.ctx t).cur <;> simpa [hcur] using this

/-! ### the theorems -/

theorem good_init : Good init := by
  refine ⟨⟨?_, ?_, ?_⟩, ?_, ?_⟩
  · intro x y hy
    simp only [init] at hy ⊢
    split at hy
    · simp at hy; omega
    · split at hy
      · simp at hy; omega
      · simp at hy
  · intro x y hsx hy
    simp only [init] at hsx hy ⊢
    split at hy
    · simp at hy; simp [hy]
    · split at hy
      · simp at hy; rcases hy with rfl | rfl <;> simp
      · simp at hy
  · intro x z y hz hy
    by_cases h0 : x = 0
    · subst h0; simp [init] at hz; subst hz; simpa [init] using hy
    · by_cases h1 : x = 1
      · subst h1
        simp [init] at hz
        rcases hz with rfl | rfl
        · simpa [init] using hy
        · simp [init] at hy; simp [init, hy]
      · simp [init, h0, h1] at hz
  · intro i r hr
    simp only [init] at hr ⊢
    split at hr
    · simp [roots] at hr; omega
    · simp [roots] at hr
  · intro i j x hij li lj _ _
    simp only [init] at li lj
    split at li
    · split at lj
      · omega
      · simp at lj
    · simp at li

theorem run_good (sched : List (Nat × Op)) : ∀ s, NoEscape sched → Good s → Good (run s sched) := by
  induction sched with
  | nil => intro s _ hg; exact hg
  | cons p rest ih =>
    intro s hne hg
    obtain ⟨t, o⟩ := p
    simp only [run]
    apply ih
    · intro q hq; exact hne q (List.mem_cons_of_mem _ hq)
    · exact step_ok s t o (hne (t, o) List.mem_cons_self) hg

/-- PARTIAL main theorem.  In EVERY state reachable under EVERY schedule that contains no escaping-closure
    operation (a closure value handed to another thread as a `go` argument or through a channel), a table
    reachable from two live contexts has shared = true — i.e. every such table was marked before the fork
    that made it reachable from the second context. -/
theorem C08_shared_before_fork_partial (sched : List (Nat × Op)) (h : NoEscape sched) :
    Inv (run init sched) :=
  (run_good sched init h good_init).2.2

/-- the schedule of the counterexample: main opens a block (table 2), creates a closure there, and
    launches a NAMED function with that closure as an argument (`go worker(inc)`) -/
def escapeSched : List (Nat × Op) := [(0, .push 0), (0, .capture), (0, .goNamed [0])]

/-- COUNTEREXAMPLE on the code as it is: goByteCode marks only the captured scope of the go TARGET, so after
    `go worker(inc)` table 2 is reachable from the launcher (its current scope) and from the new context
    (through the closure it was handed) and is NOT shared. -/
theorem C08_shared_before_fork_counterexample : ¬ Inv (run init escapeSched) := by
  intro h
  have := h 0 1 2 (by decide) (by decide) (by decide)
    ⟨2, by decide, by decide⟩ ⟨2, by decide, by decide⟩
  revert this
  decide

/-! ### the marked chain must be the RAW parent chain

`reach` (and the model's `acc`) follow `anc`, the raw parent chain — the chain the boundary-ignoring walks of the
code follow (symbols.GetAnyScope, used by the ArgCheck opcode on every Ego function entry; InPackage; runtime info).
With ego.runtime.deep.scope=true (profile default) the scope captured by a closure in a helper function has the
private block tables of the helper's callers on that chain, behind the helper's scope boundary.  `goClosureSub` is
NOT the code: it is `go` of a closure with a marking that keeps only the tables `keep` selects (for instance the
chain a boundary-respecting Get walks, FindNextScope by FindNextScope).  Any such marking that leaves out one
unshared table the launcher itself still reaches breaks the invariant — so Shared(true) can mark no less than the
whole raw chain, and the harness reads the fork-time state along that chain (`fork` events). -/

def goClosureSub (s : State) (t cap : Nat) (keep : Nat → Bool) : State :=
  spawn (mark s ((s.anc cap).filter keep)) t [cap]

/-- with `keep` = everything this is exactly what `step` does for `.goClosure` -/
theorem goClosureSub_all (s : State) (t k x cap : Nat) (hl : (s.ctx t).live = true) (hc : (s.ctx t).cur = some x)
    (hk : nth (s.ctx t).held k = some cap) :
    step s t (.goClosure k) = goClosureSub s t cap (fun _ => true) := by
  have hf : (s.anc cap).filter (fun _ => true) = s.anc cap := List.filter_eq_self.mpr (fun _ _ => rfl)
  simp [step, hl, hc, hk, goClosureSub, hf]

theorem C08_mark_subchain_breaks_inv (s : State) (t cap x : Nat) (keep : Nat → Bool)
    (ht : t ≠ s.nctx) (hlive : (s.ctx t).live = true)
    (hx : x ∈ s.anc cap) (hr : reach s (s.ctx t) x)
    (hk : keep x = false) (hs : s.shared x = false) :
    ¬ Inv (goClosureSub s t cap keep) := by
  intro h
  have h1 : ((goClosureSub s t cap keep).ctx t) = s.ctx t := by
    simp [goClosureSub, spawn, mark, ht]
  have h2 : ((goClosureSub s t cap keep).ctx s.nctx) = ⟨true, none, [], [cap], t⟩ := by
    simp [goClosureSub, spawn, mark]
  have ha : (goClosureSub s t cap keep).anc = s.anc := rfl
  have hsh : (goClosureSub s t cap keep).shared x = false := by
    simp [goClosureSub, spawn, mark, hs, hk]
  have := h t s.nctx x ht (by rw [h1]; exact hlive) (by rw [h2])
    (by rw [h1]; obtain ⟨r, hr1, hr2⟩ := hr; exact ⟨r, hr1, by rw [ha]; exact hr2⟩)
    (by rw [h2]; exact ⟨cap, by simp [roots], by rw [ha]; exact hx⟩)
  rw [hsh] at this
  exact Bool.false_ne_true this

/-- main (thread 0, file table 1) opens a block (table 2) and calls a helper from it (frame table 3, a scope
    boundary whose parent is the caller's block 2); the helper opens a block (4) and creates a closure there -/
def helperSched : List (Nat × Op) := [(0, .push 0), (0, .call 0), (0, .push 0), (0, .capture)]

/-- COUNTEREXAMPLE for the sub-chain marking: the scope chain of table 4 seen by a boundary-respecting Get is
    4, 3, then past the boundary to 1, 0 — it skips the caller's block 2.  Marking only that chain at the `go`
    leaves table 2 reachable from the launcher (saved in its call frame) and from the new goroutine (raw chain
    of the captured scope) and NOT shared. -/
theorem C08_mark_subchain_counterexample :
    ¬ Inv (goClosureSub (run init helperSched) 0 4 (fun x => x != 2)) :=
  C08_mark_subchain_breaks_inv (run init helperSched) 0 4 2 _ (by decide) (by decide) (by decide)
    ⟨2, by decide, by decide⟩ (by decide) (by decide)

/-- non-vacuity / contrast: the code's marking (the whole raw chain) leaves the same state inside the invariant,
    and table 2 is then shared -/
example : (run init helperSched).anc 4 = [4, 3, 2, 1, 0] := by decide
example : Inv (run init (helperSched ++ [(0, .goClosure 0)])) :=
  C08_shared_before_fork_partial _ (by decide)
example : (run init (helperSched ++ [(0, .goClosure 0)])).shared 2 = true := by decide
example : (goClosureSub (run init helperSched) 0 4 (fun x => x != 2)).shared 2 = false := by decide

/-- RACE FREEDOM of the model: in any state reachable without escaping closures, when thread t performs a
    Get/Set that reaches table e.table while another LIVE context can reach the same table, the access is
    made under that table's lock.  Hence of any two accesses (by different threads) to a table that both
    threads can reach at both moments, both are made under the table's lock (sync.RWMutex then orders
    them: trusted). -/
theorem C08_race_free (sched : List (Nat × Op)) (h : NoEscape sched) (t : Nat) (w : Bool) (d : Nat) (e : Access)
    (hlog : (step (run init sched) t (.acc w d)).log = e :: (run init sched).log)
    (j : Nat) (hj : j ≠ e.thread) (hlive : ((run init sched).ctx j).live = true)
    (hreach : reach (run init sched) ((run init sched).ctx j) e.table) : e.locked = true := by
  have hg := run_good sched init h good_init
  generalize run init sched = s at *
  unfold step at hlog
  by_cases hl : (s.ctx t).live = false
  · simp [hl] at hlog
  · have hlt : (s.ctx t).live = true := by cases h : (s.ctx t).live <;> simp_all
    simp only [hl, if_false] at hlog
    cases hcur : (s.ctx t).cur with
    | none => simp [hcur] at hlog
    | some x =>
      simp only [hcur] at hlog
      cases hp : nth (s.anc x) d with
      | none => simp [hp] at hlog
      | some y =>
        simp only [hp] at hlog
        have he : e = ⟨t, y, w, s.shared y⟩ := by
          have := List.cons.inj hlog
          exact this.1.symm
        subst he
        simp only at hj hreach ⊢
        exact hg.2.2 t j y (fun h => hj h.symm) hlt hlive ⟨x, mem_roots_cur hcur, nth_mem hp⟩ hreach

/-- the lock is taken exactly when the table is shared (get.go: `if s.shared.Load() { s.RLock() … }`) -/
theorem C08_lock_iff_shared (s : State) (t : Nat) (w : Bool) (d : Nat) (e : Access)
    (hlog : (step s t (.acc w d)).log = e :: s.log) : e.locked = s.shared e.table := by
  unfold step at hlog
  by_cases hl : (s.ctx t).live = false
  · simp [hl] at hlog
  · simp only [hl, if_false] at hlog
    cases hcur : (s.ctx t).cur with
    | none => simp [hcur] at hlog
    | some x =>
      simp only [hcur] at hlog
      cases hp : nth (s.anc x) d with
      | none => simp [hp] at hlog
      | some y =>
        simp only [hp] at hlog
        have := (List.cons.inj hlog).1
        subst this
        rfl

/-! ### non-vacuity -/

/-- a closure goroutine: main opens a block, creates a closure, `go`es it; the new thread builds its
    root scope, calls the closure and writes a variable of the captured block (table 2) -/
def closureSched : List (Nat × Op) :=
  [(0, .push 0), (0, .capture), (0, .goClosure 0), (1, .boot 1), (1, .callClosure 0), (1, .acc true 1),
   (0, .acc false 0)]

example : NoEscape closureSched := by decide

/-- the hypotheses of C08_race_free are met non-trivially: both threads are live, both reach table 2, the
    two logged accesses conflict, and both were made under the lock -/
example : (run init closureSched).log = [⟨0, 2, false, true⟩, ⟨1, 2, true, true⟩] := by decide
example : ((run init closureSched).ctx 0).live = true ∧ ((run init closureSched).ctx 1).live = true := by decide
example : reach (run init closureSched) ((run init closureSched).ctx 0) 2 := ⟨2, by decide, by decide⟩
example : reach (run init closureSched) ((run init closureSched).ctx 1) 2 := ⟨2, by decide, by decide⟩
/-- before the fork the same table is private and accessed without the lock -/
example : (run init [(0, .push 0), (0, .acc true 0)]).log = [⟨0, 2, true, false⟩] := by decide
/-- the counterexample's unlocked conflicting accesses -/
example : (run init (escapeSched ++ [(1, .boot 1), (1, .callClosure 0), (1, .acc false 1), (0, .acc true 0)])).log
    = [⟨0, 2, true, false⟩, ⟨1, 2, false, false⟩] := by decide

/-! ### trace checker: sanity and the (unproved) soundness statement -/

/-- the checker accepts the model's closure-goroutine run and rejects the escaping-closure run -/
example : checkTrace (accEvents (run init closureSched)) = none := by decide
example : checkTrace (accEvents (run init
    (escapeSched ++ [(1, .boot 1), (1, .callClosure 0), (1, .acc false 1), (0, .acc true 0)]))) = some 0 := by decide
example : checkTrace [.acc true 0 5 false, .start 1, .acc false 1 5 true, .stop 1] = none := by decide
example : checkTrace [.start 1, .acc true 0 5 false, .acc false 1 5 true, .stop 1] = some 1 := by decide
example : checkTrace [.fork 0 5 false] = some 0 := by decide

/-- NOT PROVED (stated only): every execution of the model without escaping closures emits an access
    sequence the trace checker accepts.  The check run on real traces is justified informally from
    C08_race_free plus "a live thread never gains reach to a table that already exists". -/
def C08_trace_sound_statement : Prop :=
  ∀ sched, NoEscape sched → checkTrace (accEvents (run init sched)) = none

/-! ### the synchronised fragment: cells only touched under a mutex / through channels

Thread t has a list of pending increments `p t`; one step of thread t applies its next increment atomically
(that is what `mu.Lock(); acc = acc + k; mu.Unlock()` and `ch <- k … sum = sum + <-ch` amount to).  Whatever
the schedule, once every thread is done the cell holds the same value. -/

def lsum : List Int → Int
  | [] => 0
  | k :: r => k + lsum r

def pend : Nat → (Nat → List Int) → Int
  | 0, _ => 0
  | n + 1, p => pend n p + lsum (p n)

def sstep (n : Nat) (pc : (Nat → List Int) × Int) (t : Nat) : (Nat → List Int) × Int :=
  if t < n then
    match pc.1 t with
    | [] => pc
    | k :: r => (fun u => if u = t then r else pc.1 u, pc.2 + k)
  else pc

def srun (n : Nat) (pc : (Nat → List Int) × Int) : List Nat → (Nat → List Int) × Int
  | [] => pc
  | t :: rest => srun n (sstep n pc t) rest

def Complete (n : Nat) (p : Nat → List Int) : Prop := ∀ t, t < n → p t = []

theorem pend_update (p : Nat → List Int) (t : Nat) (k : Int) (r : List Int) (h : p t = k :: r) :
    ∀ n, pend n (fun u => if u = t then r else p u) + (if t < n then k else 0) = pend n p := by
  intro n
  induction n with
  | zero => simp [pend]
  | succ m ih =>
    simp only [pend]
    by_cases htm : t = m
    · subst htm
      have h1 : ¬ t < t := by omega
      have h2 : t < t + 1 := by omega
      simp only [h1, if_false] at ih
      simp [h2, h, lsum]
      omega
    · have hm : (if m = t then r else p m) = p m := by
        have : m ≠ t := fun e => htm e.symm
        simp [this]
      rw [hm]
      by_cases hlt : t < m
      · have h2 : t < m + 1 := by omega
        simp only [hlt, if_true] at ih
        simp only [h2, if_true]
        omega
      · have h2 : ¬ t < m + 1 := by omega
        simp only [hlt, if_false] at ih
        simp only [h2, if_false]
        omega

theorem sstep_conserves (n : Nat) (pc : (Nat → List Int) × Int) (t : Nat) :
    pend n (sstep n pc t).1 + (sstep n pc t).2 = pend n pc.1 + pc.2 := by
  unfold sstep
  by_cases hlt : t < n
  · simp only [hlt, if_true]
    cases h : pc.1 t with
    | nil => rfl
    | cons k r =>
      simp only []
      have := pend_update pc.1 t k r h n
      simp only [hlt, if_true] at this
      omega
  · simp [hlt]

theorem srun_conserves (n : Nat) (sched : List Nat) :
    ∀ pc, pend n (srun n pc sched).1 + (srun n pc sched).2 = pend n pc.1 + pc.2 := by
  induction sched with
  | nil => intro pc; rfl
  | cons t rest ih =>
    intro pc
    simp only [srun]
    rw [ih, sstep_conserves]

theorem pend_complete (n : Nat) (p : Nat → List Int) (h : Complete n p) : pend n p = 0 := by
  induction n with
  | zero => rfl
  | succ m ih =>
    simp only [pend]
    have h1 : p m = [] := h m (by omega)
    have h2 : pend m p = 0 := ih (fun t ht => h t (by omega))
    simp [h1, h2, lsum]

/-- for the synchronised fragment the result is schedule independent: any two complete schedules leave the
    same value in the cell (namely start value + all increments) -/
theorem C08_sync_deterministic (n : Nat) (p : Nat → List Int) (c : Int) (s1 s2 : List Nat)
    (h1 : Complete n (srun n (p, c) s1).1) (h2 : Complete n (srun n (p, c) s2).1) :
    (srun n (p, c) s1).2 = (srun n (p, c) s2).2 := by
  have e1 := srun_conserves n s1 (p, c)
  have e2 := srun_conserves n s2 (p, c)
  rw [pend_complete n _ h1] at e1
  rw [pend_complete n _ h2] at e2
  omega

/-- non-vacuity: two threads, two complete schedules with different interleavings -/
example : (srun 2 (fun t => if t = 0 then [1, 2] else if t = 1 then [10] else [], 0) [0, 1, 0]).2 = 13 := by decide
example : (srun 2 (fun t => if t = 0 then [1, 2] else if t = 1 then [10] else [], 0) [1, 0, 0]).2 = 13 := by decide

end EgoVerif.C08
