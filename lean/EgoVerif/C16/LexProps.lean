import EgoVerif.C16.LexLemmas
/-
C16 — the token list of a printed expression (`toks`), the shape of parser-produced expressions (`canon`),
well-formedness (`wf`), and the theorem that the lexer reads `fmt e` as `toks e`.
-/
namespace EgoVerif.C16

/-! ### the token list of a printed expression, and the shape of parser-produced expressions -/

def idTok (w : List Char) : Tok := .ident w (!isBareIdent w)

def toks : Expr → List Tok
  | .int d => [.num d]
  | .str v => [.str v]
  | .null => [.ident "NULL".toList false]
  | .bool b => [.ident (if b then "TRUE".toList else "FALSE".toList) false]
  | .col s t c =>
    (if s = [] then [] else [idTok s, .punct '.']) ++ ((if t = [] then [] else [idTok t, .punct '.']) ++ [idTok c])
  | .paren x => .punct '(' :: (toks x ++ [.punct ')'])
  | .not x => .ident "NOT".toList false :: toks x
  | .un op x => .op op.text :: toks x
  | .bin op x y => toks x ++ (binTok op :: toks y)

/-- `canon l e`: `e` has the shape `parseAt _ l` produces (operands of a tier-t operator: left at tier ≥ t, right at tier > t) -/
def canon : Nat → Expr → Bool
  | l, .bin op x y => decide (l ≤ op.level) && canon op.level x && canon (op.level + 1) y
  | l, .not x => decide (l ≤ 2) && canon 2 x
  | l, .un _ x => decide (l ≤ 8) && canon 8 x
  | l, .paren x => decide (l ≤ 9) && canon 0 x
  | l, _ => decide (l ≤ 9)

/-- words the expression parser reacts to where an operand may start -/
def kwBad : List (List Char) :=
  ["null".toList, "true".toList, "false".toList, "case".toList, "cast".toList, "exists".toList, "not".toList,
   "select".toList, "with".toList]

/-- the identifier is not one that `printer.ident` writes bare although it is such a word -/
def nameSafe (w : List Char) : Bool := !(isBareIdent w && kwBad.contains (w.map lowerAscii))

def firstPart (s t c : List Char) : List Char := if s = [] then (if t = [] then c else t) else s

/-- well-formed literals and column references:
digits of an integer literal; a schema only with a table; `IdSafe`: first printed name part not a bare keyword -/
def wf : Expr → Bool
  | .int d => !d.isEmpty && d.all isDigit
  | .col s t c => (s.isEmpty || !t.isEmpty) && nameSafe (firstPart s t c)
  | .paren x => wf x
  | .not x => wf x
  | .un _ x => wf x
  | .bin _ x y => wf x && wf y
  | _ => true

theorem fmtIdent_head (w : List Char) : ∃ c r, fmtIdent w = c :: r ∧ (isIdentStart c = true ∨ c = '"') := by
  unfold fmtIdent
  by_cases h : isBareIdent w = true
  · cases w with
    | nil => simp [isBareIdent] at h
    | cons c cs =>
      have h' := h
      simp [isBareIdent] at h'
      exact ⟨c, cs, by simp [h], Or.inl h'.1⟩
  · simp only [h]
    exact ⟨'"', _, rfl, Or.inr rfl⟩

theorem lex_ident {w s : List Char} {r : List Tok} (h1 : isIdentCont (peek0 s) = false)
    (h2 : (peek0 s == '\'') = false) (h3 : (peek0 s == '"') = false)
    (h : Ev (fun n => lexN n s) (some r)) :
    Ev (fun n => lexN n (fmtIdent w ++ s)) (some (idTok w :: r)) := by
  unfold fmtIdent idTok
  by_cases hb : isBareIdent w = true
  · simp only [hb, if_true]
    exact lex_bare hb h1 h2 h
  · simp only [hb]
    simp only [Bool.not_eq_true] at hb
    simp only [hb, Bool.not_false]
    exact lex_quoted h3 h

theorem identStart_not_digit {c : Char} (h : isIdentStart c = true ∨ c = '"') : isDigit c = false := by
  rcases h with h | rfl
  · have := identStart_cases h
    simp [isDigit]; omega
  · decide

/-- lexing `name.` -/
theorem lex_ident_dot {w s : List Char} {r : List Tok} (hd : isDigit (peek0 s) = false)
    (h : Ev (fun n => lexN n s) (some r)) :
    Ev (fun n => lexN n ((fmtIdent w ++ ['.']) ++ s)) (some (idTok w :: .punct '.' :: r)) := by
  have hp := lex_punct (c := '.') (Or.inr (Or.inr ⟨rfl, hd⟩)) h
  have := lex_ident (w := w) (s := '.' :: s) (by show isIdentCont '.' = false; decide)
    (by show ('.' == '\'') = false; decide) (by show ('.' == '"') = false; decide) hp
  simpa using this


theorem identStartQ_ne {c : Char} (h : isIdentStart c = true ∨ c = '"') : c ≠ '>' ∧ c ≠ '-' := by
  rcases h with h | rfl
  · have := identStart_cases h
    constructor <;> apply char_ne_of_toNat
    · simp only [show '>'.toNat = 62 from rfl]; omega
    · simp only [show '-'.toNat = 45 from rfl]; omega
  · decide

theorem canon_bin_level {l : Nat} {op : BinOp} {x y : Expr} (h : canon l (.bin op x y) = true) : l ≤ 7 := by
  simp [canon] at h
  have : op.level ≤ 7 := by cases op <;> simp [BinOp.level]
  omega

/-- first character of a printed unary operand: never `>`, and `-` only for a nested unary minus -/
theorem fmt_head {x : Expr} (hc : canon 8 x = true) (hw : wf x = true) :
    ∃ c r, fmt x = c :: r ∧ c ≠ '>' ∧ (c = '-' → ∃ y, x = .un .neg y) := by
  cases x with
  | int d =>
    cases d with
    | nil => simp [wf] at hw
    | cons c cs =>
      simp [wf] at hw
      have hd := digit_facts hw.1
      refine ⟨c, cs, rfl, ?_, ?_⟩
      · intro e; subst e; exact absurd hw.1 (by decide)
      · intro e; subst e; exact absurd hw.1 (by decide)
  | str v => exact ⟨'\'', _, rfl, by decide, fun e => absurd e (by decide)⟩
  | null => exact ⟨'N', _, rfl, by decide, fun e => absurd e (by decide)⟩
  | bool b =>
    cases b
    · exact ⟨'F', _, rfl, by decide, fun e => absurd e (by decide)⟩
    · exact ⟨'T', _, rfl, by decide, fun e => absurd e (by decide)⟩
  | col s t c =>
    by_cases hs : s = []
    · by_cases ht : t = []
      · obtain ⟨c', r, he, hq⟩ := fmtIdent_head c
        have := identStartQ_ne hq
        exact ⟨c', r, by simp [fmt, hs, ht, he], this.1, fun e => absurd e this.2⟩
      · obtain ⟨c', r, he, hq⟩ := fmtIdent_head t
        have := identStartQ_ne hq
        exact ⟨c', _, by simp [fmt, hs, ht, he]; rfl, this.1, fun e => absurd e this.2⟩
    · obtain ⟨c', r, he, hq⟩ := fmtIdent_head s
      have := identStartQ_ne hq
      exact ⟨c', _, by simp [fmt, hs, he]; rfl, this.1, fun e => absurd e this.2⟩
  | paren x => exact ⟨'(', _, rfl, by decide, fun e => absurd e (by decide)⟩
  | not x => simp [canon] at hc
  | un op x =>
    cases op
    · exact ⟨'-', _, rfl, by decide, fun _ => ⟨x, rfl⟩⟩
    · exact ⟨'+', _, rfl, by decide, fun e => absurd e (by decide)⟩
    · exact ⟨'~', _, rfl, by decide, fun e => absurd e (by decide)⟩
  | bin op x y => have := canon_bin_level hc; omega

theorem unSep_cases (op : UnOp) (x : Expr) :
    (unSep op x = [' '] ) ∨ (unSep op x = [] ∧ (op = .neg → ∀ y, x ≠ .un .neg y)) := by
  cases op <;> cases x <;> simp [unSep]
  rename_i o _
  cases o <;> simp

theorem delim_space (s : List Char) : Delim (' ' :: s) := Or.inr (Or.inl rfl)
theorem delim_rparen (s : List Char) : Delim (')' :: s) := Or.inr (Or.inr rfl)

/-- **the lexer reads the printed text of an expression as its token list** -/
theorem lex_fmt (e : Expr) : ∀ l, canon l e = true → wf e = true → ∀ (s : List Char) (r : List Tok), Delim s →
    Ev (fun n => lexN n s) (some r) → Ev (fun n => lexN n (fmt e ++ s)) (some (toks e ++ r)) := by
  induction e with
  | int d =>
    intro l _ hw s r hs h
    have hw' := hw
    simp only [wf, Bool.and_eq_true, Bool.not_eq_true', List.isEmpty_eq_false_iff] at hw'
    exact lex_num (d := d) hw'.1 hw'.2 hs h
  | str v =>
    intro l _ _ s r hs h
    exact lex_string (delim_facts hs).2.2.1 h
  | null =>
    intro l _ _ s r hs h
    exact lex_bare (w := "NULL".toList) (by decide) (delim_facts hs).2.1 (delim_facts hs).2.2.1 h
  | bool b =>
    intro l _ _ s r hs h
    cases b
    · exact lex_bare (w := "FALSE".toList) (by decide) (delim_facts hs).2.1 (delim_facts hs).2.2.1 h
    · exact lex_bare (w := "TRUE".toList) (by decide) (delim_facts hs).2.1 (delim_facts hs).2.2.1 h
  | col a t c =>
    intro l _ _ s r hs h
    have hf := delim_facts hs
    have hc := lex_ident (w := c) hf.2.1 hf.2.2.1 hf.2.2.2.1 h
    have hdc : isDigit (peek0 (fmtIdent c ++ s)) = false := by
      obtain ⟨c', r', he, hq⟩ := fmtIdent_head c
      rw [he]; exact identStart_not_digit hq
    have ht : Ev (fun n => lexN n ((if t = [] then [] else fmtIdent t ++ ['.']) ++ (fmtIdent c ++ s)))
        (some ((if t = [] then [] else [idTok t, .punct '.']) ++ (idTok c :: r))) := by
      by_cases h0 : t = []
      · simpa [h0] using hc
      · simp only [h0, if_false]
        exact lex_ident_dot hdc hc
    have hdt : isDigit (peek0 ((if t = [] then [] else fmtIdent t ++ ['.']) ++ (fmtIdent c ++ s))) = false := by
      by_cases h0 : t = []
      · simpa [h0] using hdc
      · obtain ⟨c', r', he, hq⟩ := fmtIdent_head t
        simp only [h0, if_false, he]; exact identStart_not_digit hq
    by_cases h0 : a = []
    · simpa [fmt, toks, h0] using ht
    · have := lex_ident_dot (w := a) hdt ht
      simpa [fmt, toks, h0] using this
  | paren x ih =>
    intro l hc hw s r hs h
    simp [canon] at hc
    simp [wf] at hw
    have h1 := lex_punct (c := ')') (Or.inr (Or.inl rfl)) h
    have h2 := ih 0 hc.2 hw (')' :: s) _ (delim_rparen s) h1
    have h3 := lex_punct (c := '(') (Or.inl rfl) h2
    simpa [fmt, toks] using h3
  | not x ih =>
    intro l hc hw s r hs h
    simp [canon] at hc
    simp [wf] at hw
    have h2 := ih 2 hc.2 hw s r hs h
    have h3 := lex_bare (w := "NOT".toList) (s := ' ' :: (fmt x ++ s)) (by decide)
      (by show isIdentCont ' ' = false; decide) (by show (' ' == '\'') = false; decide) (lex_space h2)
    simpa [fmt, toks] using h3
  | un op x ih =>
    intro l hc hw s r hs h
    simp [canon] at hc
    simp [wf] at hw
    have h2 := ih 8 hc.2 hw s r hs h
    obtain ⟨c, rest, hfx, hgt, hminus⟩ := fmt_head hc.2 hw
    rcases unSep_cases op x with hsep | ⟨hsep, hne⟩
    · have h3 := lex_unop (op := op) (s := ' ' :: (fmt x ++ s)) (fun _ => ⟨by show (' ' == '-') = false; decide, by show (' ' == '>') = false; decide⟩) (lex_space h2)
      simpa [fmt, toks, hsep] using h3
    · have h3 := lex_unop (op := op) (s := fmt x ++ s) (fun hop => by
        rw [hfx]
        refine ⟨?_, ?_⟩
        · show (c == '-') = false
          simp only [beq_eq_false_iff_ne, ne_eq]
          intro e
          obtain ⟨y, hy⟩ := hminus e
          exact hne hop y hy
        · show (c == '>') = false
          simp only [beq_eq_false_iff_ne, ne_eq]; exact hgt) h2
      simpa [fmt, toks, hsep] using h3
  | bin op x y ihx ihy =>
    intro l hc hw s r hs h
    simp [canon] at hc
    simp [wf] at hw
    have h2 := ihy _ hc.2 hw.2 s r hs h
    have h3 := lex_binop (op := op) h2
    have h4 := ihx _ hc.1.2 hw.1 (' ' :: (op.text ++ ' ' :: (fmt y ++ s))) _ (delim_space _) (lex_space h3)
    simpa [fmt, toks] using h4

end EgoVerif.C16
