import EgoVerif.C16.LexProps
/-
C16 — helper lemmas, part 2: unfolding of the precedence ladder, the loops of the binary tiers,
what may follow an operand (`Follow`), first-token facts.
-/
namespace EgoVerif.C16

/-! ### unfolding the ladder -/

theorem parseAt_bin (n l : Nat) (ts : List Tok) (h2 : l ≠ 2) (h8 : l ≠ 8) (h9 : l < 9) :
    parseAt (n + 1) l ts = (match parseAt n (l + 1) ts with | .ok a r => loop n l a r | o => o) := by
  have h9' : ¬ 9 ≤ l := by omega
  cases h : parseAt n (l + 1) ts <;> simp [parseAt, h2, h8, h9', h]

theorem binAt_self (op : BinOp) : binAt op.level (binTok op) = some op := by
  cases op <;> decide

theorem binAt_other (op : BinOp) (l : Nat) (h : l ≠ op.level) : binAt l (binTok op) = none := by
  have key : ∀ k : Nat, l ≠ k → (k == l) = false := fun k hk => by simp; omega
  cases op <;> simp only [BinOp.level] at h <;>
    simp [binAt, binTok, isKw, lowerAscii, allBinOps, BinOp.level, BinOp.text, List.find?, h, key _ h]

theorem binAt_punct (l : Nat) (c : Char) : binAt l (.punct c) = none := rfl

theorem cmpOutside_binTok (op : BinOp) (rest : List Tok) : cmpOutside (binTok op) rest = false := by
  cases op <;> simp [cmpOutside, binTok, isKw, likeFamily, lowerAscii]

theorem cmpOutside_punct (c : Char) (rest : List Tok) : cmpOutside (.punct c) rest = false := by
  simp [cmpOutside, isKw, likeFamily]


/-- what may follow an operand in a token list: nothing, `)`, or a binary operator of tier < b -/
def Follow (b : Nat) (R : List Tok) : Prop :=
  R = [] ∨ (∃ R', R = .punct ')' :: R') ∨ (∃ op R', R = binTok op :: R' ∧ op.level < b)

theorem Follow.mono {b c : Nat} {R : List Tok} (h : Follow b R) (hbc : b ≤ c) : Follow c R := by
  rcases h with h | h | ⟨op, R', h, hl⟩
  · exact Or.inl h
  · exact Or.inr (Or.inl h)
  · exact Or.inr (Or.inr ⟨op, R', h, by omega⟩)

theorem loop_stop {l : Nat} {e : Expr} {R : List Tok} (h : Follow l R) :
    Ev (fun n => loop n l e R) (.ok e R) := by
  refine Ev.step (g := fun _ => .ok e R) (fun n => ?_) (Ev.const _)
  rcases h with rfl | ⟨R', rfl⟩ | ⟨op, R', rfl, hl⟩
  · simp [loop]
  · simp [loop, binAt_punct, cmpOutside_punct]
  · simp [loop, binAt_other op l (by omega), cmpOutside_binTok]

theorem loop_step (n l : Nat) (left : Expr) (op : BinOp) (rest : List Tok) (hl : op.level = l) :
    loop (n + 1) l left (binTok op :: rest) =
      (match parseAt n (l + 1) rest with | .ok b r => loop n l (.bin op left b) r | o => o) := by
  subst hl
  cases h : parseAt n (op.level + 1) rest <;> simp [loop, binAt_self, h]

theorem ev_bind {f : Nat → PR} {g : Nat → Expr → List Tok → PR} {a : Expr} {r : List Tok} {res : PR}
    (hf : Ev f (.ok a r)) (hg : Ev (fun n => g n a r) res) :
    Ev (fun n => match f n with | .ok a r => g n a r | o => o) res := by
  obtain ⟨N, hN⟩ := Ev.both hf hg
  exact ⟨N, fun n hn => by simp [(hN n hn).1, (hN n hn).2]⟩

/-- levels without a loop of their own (NOT, unary, primary): the loop returns its left operand -/
theorem loop_id {l : Nat} (hl : l = 2 ∨ l = 8 ∨ l = 9) (e : Expr) (R : List Tok) :
    Ev (fun n => loop n l e R) (.ok e R) := by
  refine Ev.step (g := fun _ => .ok e R) (fun n => ?_) (Ev.const _)
  have hb : ∀ t, binAt l t = none := by
    intro t
    cases t with
    | ident x q => rcases hl with rfl | rfl | rfl <;> simp [binAt]
    | op s => rcases hl with rfl | rfl | rfl <;> simp [binAt, allBinOps, BinOp.level, List.find?]
    | _ => rfl
  have h3 : (l == 3) = false := by rcases hl with rfl | rfl | rfl <;> rfl
  cases R with
  | nil => simp [loop]
  | cons t R => simp [loop, hb, h3]


theorem isKw_idTok {w k : List Char} (hs : nameSafe w = true) (hk : k ∈ kwBad) : isKw (idTok w) k = false := by
  unfold idTok
  cases hb : isBareIdent w
  · simp [isKw]
  · simp only [nameSafe, hb, Bool.true_and, Bool.not_eq_true', List.contains_eq_mem, decide_eq_false_iff_not] at hs
    simp only [isKw, Bool.not_true, beq_eq_false_iff_ne, ne_eq]
    intro e
    exact hs (e ▸ hk)

theorem toks_col_head (s t c : List Char) : ∃ rest, toks (.col s t c) = idTok (firstPart s t c) :: rest := by
  by_cases hs : s = [] <;> by_cases ht : t = [] <;> simp [toks, firstPart, hs, ht]

/-- facts about the first token of a printed expression -/
theorem toks_head (e : Expr) (hw : wf e = true) : ∃ t rest, toks e = t :: rest ∧
    isKw t "exists".toList = false ∧ isKw t "select".toList = false ∧ isKw t "with".toList = false ∧
    (∀ l, canon l e = true → 3 ≤ l → isKw t "not".toList = false) ∧
    (canon 9 e = true → unAt t = none) := by
  induction e with
  | int d => exact ⟨_, _, rfl, rfl, rfl, rfl, fun _ _ _ => rfl, fun _ => rfl⟩
  | str v => exact ⟨_, _, rfl, rfl, rfl, rfl, fun _ _ _ => rfl, fun _ => rfl⟩
  | null => exact ⟨_, _, rfl, by decide, by decide, by decide, fun _ _ _ => by decide, fun _ => rfl⟩
  | bool b => cases b <;> exact ⟨_, _, rfl, by decide, by decide, by decide, fun _ _ _ => by decide, fun _ => rfl⟩
  | col s t c =>
    obtain ⟨rest, hr⟩ := toks_col_head s t c
    simp only [wf, Bool.and_eq_true] at hw
    refine ⟨_, rest, hr, isKw_idTok hw.2 (by decide), isKw_idTok hw.2 (by decide), isKw_idTok hw.2 (by decide),
      fun _ _ _ => isKw_idTok hw.2 (by decide), fun _ => by simp [idTok, unAt]⟩
  | paren x _ => exact ⟨_, _, rfl, rfl, rfl, rfl, fun _ _ _ => rfl, fun _ => rfl⟩
  | not x _ =>
    refine ⟨_, _, rfl, by decide, by decide, by decide, fun l hc hl => ?_, fun hc => ?_⟩
    · simp [canon] at hc; omega
    · simp [canon] at hc
  | un op x _ =>
    refine ⟨_, _, rfl, rfl, rfl, rfl, fun _ _ _ => rfl, fun hc => ?_⟩
    simp [canon] at hc
  | bin op x y ihx _ =>
    simp only [wf, Bool.and_eq_true] at hw
    obtain ⟨t, rest, hr, h1, h2, h3, h4, _⟩ := ihx hw.1
    refine ⟨t, rest ++ (binTok op :: toks y), by simp [toks, hr], h1, h2, h3, fun l hc hl => ?_, fun hc => ?_⟩
    · simp [canon] at hc
      exact h4 op.level hc.1.2 (by omega)
    · have := canon_bin_level hc; omega

theorem identChain_stop {b : Nat} {R : List Tok} (h : Follow b R) (parts : List (List Char)) :
    identChain parts R = some (parts, R) := by
  rcases h with rfl | ⟨R', rfl⟩ | ⟨op, R', rfl, _⟩
  · simp [identChain]
  · cases R' with
    | nil => simp [identChain]
    | cons t R'' => cases t <;> simp [identChain]
  · cases op <;> simp [binTok, identChain]

theorem follow_head_facts {b : Nat} {R : List Tok} (h : Follow b R) :
    headKw R "collate".toList = false ∧ headPunct R '(' = false := by
  rcases h with rfl | ⟨R', rfl⟩ | ⟨op, R', rfl, _⟩
  · exact ⟨rfl, rfl⟩
  · exact ⟨rfl, rfl⟩
  · cases op <;> exact ⟨by simp [headKw, binTok, isKw, lowerAscii], rfl⟩

end EgoVerif.C16
