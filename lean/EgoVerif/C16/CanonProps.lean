import EgoVerif.C16.ParseProps
/-
C16 — every expression the ladder parser returns has the canonical shape (`parse_canon`):
mutual induction on the fuel over parseAt / loop / parsePrimary.
-/
namespace EgoVerif.C16

theorem canon_mono {e : Expr} {l l' : Nat} (h : canon l e = true) (hl : l' ≤ l) : canon l' e = true := by
  cases e <;> simp [canon] at h ⊢ <;> first | omega | (refine ⟨?_, ?_⟩ <;> first | omega | exact h.2 | (refine ⟨by omega, h.1.2⟩))

theorem binAt_level {l : Nat} {t : Tok} {op : BinOp} (h : binAt l t = some op) : op.level = l := by
  cases t with
  | ident x q =>
    simp only [binAt] at h
    split at h
    · rename_i h0; simp at h0; cases h; simp [BinOp.level, h0.1]
    · split at h
      · rename_i _ h1; simp at h1; cases h; simp [BinOp.level, h1.1]
      · cases h
  | op s =>
    simp only [binAt] at h
    have := List.find?_some h
    simp at this
    exact this.1.1
  | _ => simp [binAt] at h


theorem parse_canon_all (n : Nat) :
    (∀ l ts e r, l ≤ 9 → parseAt n l ts = .ok e r → canon l e = true) ∧
    (∀ l left ts e r, l ≤ 7 → canon l left = true → loop n l left ts = .ok e r → canon l e = true) ∧
    (∀ ts e r, parsePrimary n ts = .ok e r → canon 9 e = true) := by
  induction n with
  | zero => exact ⟨fun _ _ _ _ _ h => by simp [parseAt] at h, fun _ _ _ _ _ _ _ h => by simp [loop] at h,
      fun _ _ _ h => by simp [parsePrimary] at h⟩
  | succ n ih =>
    obtain ⟨ihA, ihB, ihC⟩ := ih
    refine ⟨?_, ?_, ?_⟩
    · intro l ts e r hl h
      by_cases h2 : l = 2
      · subst h2
        cases ts with
        | nil => simp [parseAt] at h; exact canon_mono (ihA 3 _ _ _ (by omega) h) (by omega)
        | cons t rest =>
          cases ha : isKw t ['n', 'o', 't'] <;> cases hb : headKw rest ['e', 'x', 'i', 's', 't', 's']
          · simp [parseAt, ha, hb] at h
            exact canon_mono (ihA 3 _ _ _ (by omega) h) (by omega)
          · simp [parseAt, ha, hb] at h
            exact canon_mono (ihA 3 _ _ _ (by omega) h) (by omega)
          · cases hx : parseAt n 2 rest with
            | ok x r' =>
              simp [parseAt, ha, hb, hx] at h
              obtain ⟨rfl, _⟩ := h
              simp [canon, ihA 2 _ _ _ (by omega) hx]
            | err => simp [parseAt, ha, hb, hx] at h
            | outside => simp [parseAt, ha, hb, hx] at h
          · simp [parseAt, ha, hb] at h
            exact canon_mono (ihA 3 _ _ _ (by omega) h) (by omega)
      · by_cases h8 : l = 8
        · subst h8
          cases ts with
          | nil => simp [parseAt] at h; exact canon_mono (ihA 9 _ _ _ (by omega) h) (by omega)
          | cons t rest =>
            have key : ∀ c : Bool, (isKw t ['n', 'o', 't'] && headKw rest ['e', 'x', 'i', 's', 't', 's']) = c → c = false → canon 8 e = true := by
              intro c hc hcf
              subst hcf
              cases hu : unAt t with
              | none =>
                simp [parseAt, hc, hu] at h
                exact canon_mono (ihA 9 _ _ _ (by omega) h) (by omega)
              | some op =>
                cases hx : parseAt n 8 rest with
                | ok x r' =>
                  simp [parseAt, hc, hu, hx] at h
                  obtain ⟨rfl, _⟩ := h
                  simp [canon, ihA 8 _ _ _ (by omega) hx]
                | err => simp [parseAt, hc, hu, hx] at h
                | outside => simp [parseAt, hc, hu, hx] at h
            cases hc : (isKw t ['n', 'o', 't'] && headKw rest ['e', 'x', 'i', 's', 't', 's'])
            · exact key _ hc rfl
            · simp [parseAt, hc] at h
        · by_cases h9 : 9 ≤ l
          · have : l = 9 := by omega
            subst this
            rw [parseAt_9] at h
            cases hx : parsePrimary n ts with
            | ok x r' =>
              cases hk : headKw r' ['c', 'o', 'l', 'l', 'a', 't', 'e']
              · simp [hx, hk] at h
                obtain ⟨rfl, _⟩ := h
                exact ihC _ _ _ hx
              · simp [hx, hk] at h
            | err => simp [hx] at h
            | outside => simp [hx] at h
          · rw [parseAt_bin n l ts h2 h8 (by omega)] at h
            cases ha : parseAt n (l + 1) ts with
            | ok a r' =>
              simp [ha] at h
              exact ihB l a r' e r (by omega) (canon_mono (ihA (l + 1) _ _ _ (by omega) ha) (by omega)) h
            | err => simp [ha] at h
            | outside => simp [ha] at h
    · intro l left ts e r hl hleft h
      cases ts with
      | nil => simp [loop] at h; obtain ⟨rfl, _⟩ := h; exact hleft
      | cons t rest =>
        cases hop : binAt l t with
        | some op =>
          have hlv := binAt_level hop
          cases hb : parseAt n (l + 1) rest with
          | ok b r' =>
            simp [loop, hop, hb] at h
            have hcb := ihA (l + 1) _ _ _ (by omega) hb
            refine ihB l _ r' e r hl ?_ h
            simp [canon, hlv, hleft, hcb]
          | err => simp [loop, hop, hb] at h
          | outside => simp [loop, hop, hb] at h
        | none =>
          cases hc : (l == 3 && cmpOutside t rest)
          · simp [loop, hop] at h
            simp at hc
            by_cases h3 : l = 3
            · simp [h3, hc h3] at h; obtain ⟨rfl, _⟩ := h; exact hleft
            · simp [h3] at h; obtain ⟨rfl, _⟩ := h; exact hleft
          · simp at hc
            obtain ⟨h3, hcm⟩ := hc
            subst h3
            simp [loop, hop, hcm] at h
    · intro ts e r h
      cases ts with
      | nil => simp [parsePrimary] at h
      | cons t rest =>
        cases t with
        | num d => simp [parsePrimary] at h; obtain ⟨rfl, _⟩ := h; rfl
        | str v => simp [parsePrimary] at h; obtain ⟨rfl, _⟩ := h; rfl
        | op o => by_cases ho : o = ['*'] <;> simp [parsePrimary, ho] at h
        | punct c =>
          by_cases hc : c = '('
          · subst hc
            cases hs1 : headKw rest ['s', 'e', 'l', 'e', 'c', 't'] <;> cases hs2 : headKw rest ['w', 'i', 't', 'h']
            case true.false => simp [parsePrimary, hs1, hs2] at h
            case true.true => simp [parsePrimary, hs1, hs2] at h
            case false.true => simp [parsePrimary, hs1, hs2] at h
            have hs : True := trivial
            · cases hx : parseAt n 0 rest with
              | ok x r' =>
                cases r' with
                | nil => simp [parsePrimary, hs1, hs2, hx] at h
                | cons t2 r2 =>
                  by_cases hp : isPunct t2 ')' = true
                  · simp [parsePrimary, hs1, hs2, hx, hp] at h
                    obtain ⟨rfl, _⟩ := h
                    simp [canon, ihA 0 _ _ _ (by omega) hx]
                  · by_cases hq : isPunct t2 ',' = true <;> simp [parsePrimary, hs1, hs2, hx, hp, hq] at h
              | err => simp [parsePrimary, hs1, hs2, hx] at h
              | outside => simp [parsePrimary, hs1, hs2, hx] at h
          · simp [parsePrimary, hc] at h
        | ident x q =>
          cases k1 : isKw (.ident x q) ['n', 'u', 'l', 'l']
          case true => simp [parsePrimary, k1] at h; obtain ⟨rfl, _⟩ := h; rfl
          cases k2 : isKw (.ident x q) ['t', 'r', 'u', 'e']
          case true => simp [parsePrimary, k1, k2] at h; obtain ⟨rfl, _⟩ := h; rfl
          cases k3 : isKw (.ident x q) ['f', 'a', 'l', 's', 'e']
          case true => simp [parsePrimary, k1, k2, k3] at h; obtain ⟨rfl, _⟩ := h; rfl
          cases k4 : isKw (.ident x q) ['c', 'a', 's', 'e']
          case true => simp [parsePrimary, k1, k2, k3, k4] at h
          cases k5 : isKw (.ident x q) ['c', 'a', 's', 't']
          case true => simp [parsePrimary, k1, k2, k3, k4, k5] at h
          cases k6 : isKw (.ident x q) ['e', 'x', 'i', 's', 't', 's']
          case true => simp [parsePrimary, k1, k2, k3, k4, k5, k6] at h
          cases hch : identChain [x] rest with
          | none => simp [parsePrimary, k1, k2, k3, k4, k5, k6, hch] at h
          | some pr =>
            obtain ⟨parts, r'⟩ := pr
            cases hp : headPunct r' '('
            case true => simp [parsePrimary, k1, k2, k3, k4, k5, k6, hch, hp] at h
            simp [parsePrimary, k1, k2, k3, k4, k5, k6, hch, hp] at h
            split at h <;> first | (cases h; rfl) | cases h | (simp at h; obtain ⟨rfl, _⟩ := h; rfl)

/-- **Every expression the ladder parser returns has the canonical shape.** -/
theorem parse_canon {n l : Nat} {ts : List Tok} {e : Expr} {r : List Tok} (hl : l ≤ 9)
    (h : parseAt n l ts = .ok e r) : canon l e = true :=
  (parse_canon_all n).1 l ts e r hl h

end EgoVerif.C16
