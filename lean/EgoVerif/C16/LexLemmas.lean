import EgoVerif.C16.Model
/-
C16 — helper lemmas, part 1: the 'eventually' predicate used to speak about fuel, and the lexer
reading back each kind of token the printer writes.
-/
namespace EgoVerif.C16

def Ev {α : Type} (f : Nat → α) (r : α) : Prop := ∃ N, ∀ n, N ≤ n → f n = r

theorem Ev.const {α : Type} (r : α) : Ev (fun _ => r) r := ⟨0, fun _ _ => rfl⟩

theorem Ev.step {α : Type} {f g : Nat → α} {r : α} (h : ∀ n, f (n + 1) = g n) (hg : Ev g r) : Ev f r := by
  obtain ⟨N, hN⟩ := hg
  refine ⟨N + 1, fun n hn => ?_⟩
  obtain ⟨m, rfl⟩ : ∃ m, n = m + 1 := ⟨n - 1, by omega⟩
  rw [h]; exact hN m (by omega)

theorem Ev.unique {α : Type} {f : Nat → α} {a b : α} (ha : Ev f a) (hb : Ev f b) : a = b := by
  obtain ⟨N, hN⟩ := ha
  obtain ⟨M, hM⟩ := hb
  rw [← hN (max N M) (Nat.le_max_left _ _), hM (max N M) (Nat.le_max_right _ _)]

/-- two eventual facts hold together from some point on -/
theorem Ev.both {α β : Type} {f : Nat → α} {g : Nat → β} {a : α} {b : β} (ha : Ev f a) (hb : Ev g b) :
    ∃ N, ∀ n, N ≤ n → f n = a ∧ g n = b := by
  obtain ⟨N, hN⟩ := ha
  obtain ⟨M, hM⟩ := hb
  exact ⟨max N M, fun n hn => ⟨hN n (by omega), hM n (by omega)⟩⟩

theorem Ev.congr {α : Type} {f g : Nat → α} {r : α} (h : ∀ n, f n = g n) (hg : Ev g r) : Ev f r := by
  obtain ⟨N, hN⟩ := hg
  exact ⟨N, fun n hn => by rw [h]; exact hN n hn⟩

/-! char facts -/
theorem char_ne_of_toNat {c d : Char} (h : c.toNat ≠ d.toNat) : c ≠ d := fun e => h (e ▸ rfl)

theorem beq_false_of_toNat {c d : Char} (h : c.toNat ≠ d.toNat) : (c == d) = false := by
  simp [char_ne_of_toNat h]

theorem identStart_cases {c : Char} (h : isIdentStart c = true) :
    c.toNat = 95 ∨ (97 ≤ c.toNat ∧ c.toNat ≤ 122) ∨ (65 ≤ c.toNat ∧ c.toNat ≤ 90) := by
  simp [isIdentStart, isLetter] at h
  rcases h with h | h | h
  · left; subst h; rfl
  · right; left; exact h
  · right; right; exact h


theorem identStart_facts {c : Char} (h : isIdentStart c = true) :
    isWs c = false ∧ (c == '-') = false ∧ (c == '/') = false := by
  have hc := identStart_cases h
  refine ⟨?_, ?_, ?_⟩
  · simp only [isWs, Bool.or_eq_false_iff]
    refine ⟨⟨⟨?_, ?_⟩, ?_⟩, ?_⟩ <;> apply beq_false_of_toNat <;> (simp only [show ' '.toNat = 32 from rfl, show '\t'.toNat = 9 from rfl, show '\r'.toNat = 13 from rfl, show '\n'.toNat = 10 from rfl]; omega)
  · apply beq_false_of_toNat; simp only [show '-'.toNat = 45 from rfl]; omega
  · apply beq_false_of_toNat; simp only [show '/'.toNat = 47 from rfl]; omega

theorem bareCont_identCont {c : Char} (h : isBareCont c = true) : isIdentCont c = true := by
  simp [isBareCont, isIdentCont] at *
  rcases h with (h | h) | h <;> simp [h]

theorem spanWhile_all (p : Char → Bool) (w s : List Char) (hw : w.all p = true) (hs : p (peek0 s) = false) :
    spanWhile p (w ++ s) = (w, s) := by
  induction w with
  | nil =>
    cases s with
    | nil => rfl
    | cons d r => simp [peek0] at hs; simp [spanWhile, hs]
  | cons c cs ih =>
    rw [List.all_cons, Bool.and_eq_true] at hw
    simp [spanWhile, hw.1, ih hw.2]

theorem emit_ev {t : Tok} {s r} (h : Ev (fun n => lexN n s) (some r)) :
    Ev (fun n => emit t (lexN n s)) (some (t :: r)) := by
  obtain ⟨N, hN⟩ := h
  exact ⟨N, fun n hn => by simp [hN n hn, emit]⟩

theorem lex_bare {w s : List Char} {r : List Tok} (hw : isBareIdent w = true)
    (hs : isIdentCont (peek0 s) = false) (hq : (peek0 s == '\'') = false)
    (h : Ev (fun n => lexN n s) (some r)) :
    Ev (fun n => lexN n (w ++ s)) (some (.ident w false :: r)) := by
  cases w with
  | nil => simp [isBareIdent] at hw
  | cons c cs =>
    simp [isBareIdent] at hw
    obtain ⟨hc, hcs⟩ := hw
    obtain ⟨h1, h2, h3⟩ := identStart_facts hc
    have hall : (c :: cs).all isIdentCont = true := by
      simp
      refine ⟨?_, fun x hx => bareCont_identCont (hcs x hx)⟩
      simp [isIdentStart] at hc; simp [isIdentCont]; rcases hc with hc | hc <;> simp [hc]
    have hsp := spanWhile_all isIdentCont (c :: cs) s hall hs
    refine Ev.step (g := fun n => emit (.ident (c :: cs) false) (lexN n s)) (fun n => ?_) (emit_ev h)
    show lexN (n + 1) (c :: (cs ++ s)) = _
    have hsp' : spanWhile isIdentCont (c :: (cs ++ s)) = (c :: cs, s) := hsp
    simp [lexN, h1, h2, h3, hc, hsp', hq]
/-- `scanDelim` inverts the delimiter doubling of the printer (strings with `'`, identifiers with `"`) -/
theorem scanDelim_dbl (q : Char) (v s : List Char) (hs : (peek0 s == q) = false) :
    scanDelim q (dbl q v ++ q :: s) = some (v, s) := by
  induction v with
  | nil =>
    cases s with
    | nil => simp [dbl, scanDelim]
    | cons d r => simp [peek0] at hs; simp [dbl, scanDelim, hs]
  | cons c cs ih =>
    by_cases hc : c = q
    · subst hc; simp [dbl, scanDelim, ih]
    · have hcq : (c == q) = false := by simp [hc]
      simp only [dbl, hcq, List.cons_append]
      rw [scanDelim.eq_def]
      simp [hcq, ih]

theorem lex_ws {c : Char} {s : List Char} {r : List Tok} (hc : isWs c = true)
    (h : Ev (fun n => lexN n s) (some r)) : Ev (fun n => lexN n (c :: s)) (some r) :=
  Ev.step (g := fun n => lexN n s) (fun n => by simp [lexN, hc]) h

theorem lex_space {s : List Char} {r : List Tok}
    (h : Ev (fun n => lexN n s) (some r)) : Ev (fun n => lexN n (' ' :: s)) (some r) :=
  lex_ws (by decide) h

theorem lex_quoted {w s : List Char} {r : List Tok} (hs : (peek0 s == '"') = false)
    (h : Ev (fun n => lexN n s) (some r)) :
    Ev (fun n => lexN n (quoteIdent w ++ s)) (some (.ident w true :: r)) := by
  refine Ev.step (g := fun n => emit (.ident w true) (lexN n s)) (fun n => ?_) (emit_ev h)
  have := scanDelim_dbl '"' w s hs
  simp only [quoteIdent, List.cons_append, List.append_assoc, List.singleton_append]
  simp [lexN, isWs, isIdentStart, isLetter, this]

theorem lex_string {v s : List Char} {r : List Tok} (hs : (peek0 s == '\'') = false)
    (h : Ev (fun n => lexN n s) (some r)) :
    Ev (fun n => lexN n ('\'' :: (dbl '\'' v ++ ['\'']) ++ s)) (some (.str v :: r)) := by
  refine Ev.step (g := fun n => emit (.str v) (lexN n s)) (fun n => ?_) (emit_ev h)
  have := scanDelim_dbl '\'' v s hs
  simp only [List.cons_append, List.append_assoc, List.singleton_append]
  simp [lexN, isWs, isIdentStart, isLetter, this]

theorem lex_punct {c : Char} {s : List Char} {r : List Tok} (hc : c = '(' ∨ c = ')' ∨ (c = '.' ∧ isDigit (peek0 s) = false))
    (h : Ev (fun n => lexN n s) (some r)) : Ev (fun n => lexN n (c :: s)) (some (.punct c :: r)) := by
  refine Ev.step (g := fun n => emit (.punct c) (lexN n s)) (fun n => ?_) (emit_ev h)
  rcases hc with rfl | rfl | ⟨rfl, hd⟩
  · simp [lexN, isWs, isIdentStart, isLetter, isDigit]
  · simp [lexN, isWs, isIdentStart, isLetter, isDigit]
  · have h0 : isDigit '.' = false := by decide
    simp [lexN, isWs, isIdentStart, isLetter, hd, h0]


/-- what may follow a complete operand in printed text: end of input, a space, or a closing parenthesis -/
def Delim (s : List Char) : Prop := s = [] ∨ peek0 s = ' ' ∨ peek0 s = ')'

theorem delim_facts {s : List Char} (h : Delim s) :
    isDigit (peek0 s) = false ∧ isIdentCont (peek0 s) = false ∧ (peek0 s == '\'') = false ∧
    (peek0 s == '"') = false ∧ (peek0 s == '.') = false ∧ (peek0 s == 'e') = false ∧ (peek0 s == 'E') = false ∧
    (peek0 s == 'x') = false ∧ (peek0 s == 'X') = false := by
  rcases h with rfl | h | h
  · decide
  · rw [h]; decide
  · rw [h]; decide

theorem digit_facts {c : Char} (h : isDigit c = true) :
    isWs c = false ∧ (c == '-') = false ∧ (c == '/') = false ∧ isIdentStart c = false ∧ (c == '"') = false ∧
    (c == '`') = false ∧ (c == '[') = false ∧ (c == '\'') = false ∧ (c == 'x') = false ∧ (c == 'X') = false := by
  simp [isDigit] at h
  have e1 : ' '.toNat = 32 := rfl
  have e2 : '\t'.toNat = 9 := rfl
  have e3 : '\r'.toNat = 13 := rfl
  have e4 : '\n'.toNat = 10 := rfl
  have e5 : '-'.toNat = 45 := rfl
  have e6 : '/'.toNat = 47 := rfl
  have e7 : '_'.toNat = 95 := rfl
  have e8 : '"'.toNat = 34 := rfl
  have e9 : '`'.toNat = 96 := rfl
  have e10 : '['.toNat = 91 := rfl
  have e11 : '\''.toNat = 39 := rfl
  have e12 : 'x'.toNat = 120 := rfl
  have e13 : 'X'.toNat = 88 := rfl
  refine ⟨?_, ?_, ?_, ?_, ?_, ?_, ?_, ?_, ?_, ?_⟩
  · simp only [isWs, Bool.or_eq_false_iff]
    refine ⟨⟨⟨?_, ?_⟩, ?_⟩, ?_⟩ <;> apply beq_false_of_toNat <;> omega
  · apply beq_false_of_toNat; omega
  · apply beq_false_of_toNat; omega
  · simp only [isIdentStart, isLetter, Bool.or_eq_false_iff]
    refine ⟨beq_false_of_toNat (by omega), ?_, ?_⟩
    · simp; omega
    · simp; omega
  all_goals (apply beq_false_of_toNat; omega)

theorem peek0_append_digits {cs s : List Char} (hall : cs.all isDigit = true) (hs : Delim s) :
    (peek0 (cs ++ s) == 'x') = false ∧ (peek0 (cs ++ s) == 'X') = false := by
  cases cs with
  | nil => exact ⟨(delim_facts hs).2.2.2.2.2.2.2.1, (delim_facts hs).2.2.2.2.2.2.2.2⟩
  | cons c cs =>
    rw [List.all_cons, Bool.and_eq_true] at hall
    have := digit_facts hall.1
    simp [peek0, this.2.2.2.2.2.2.2.2.1, this.2.2.2.2.2.2.2.2.2]

theorem lex_num {d s : List Char} {r : List Tok} (hd : d ≠ []) (hall : d.all isDigit = true) (hs : Delim s)
    (h : Ev (fun n => lexN n s) (some r)) :
    Ev (fun n => lexN n (d ++ s)) (some (.num d :: r)) := by
  cases d with
  | nil => exact absurd rfl hd
  | cons c cs =>
    have hall' := hall
    rw [List.all_cons, Bool.and_eq_true] at hall'
    obtain ⟨f1, f2, f3, f4, f5, f6, f7, f8, f9, f10⟩ := digit_facts hall'.1
    obtain ⟨g1, g2, g3, g4, g5, g6, g7, g8, g9⟩ := delim_facts hs
    obtain ⟨p1, p2⟩ := peek0_append_digits hall'.2 hs
    have hsp := spanWhile_all isDigit (c :: cs) s hall g1
    have hsn : scanNum (c :: (cs ++ s)) = some (c :: cs, s) := by
      have hsp' : spanWhile isDigit (c :: (cs ++ s)) = (c :: cs, s) := hsp
      simp [scanNum, hsp', peek0, p1, p2, g5, g6, g7]
      simp [peek0] at p1 p2 g5 g6 g7
      simp [p1, p2, g5, g6, g7]
    refine Ev.step (g := fun n => emit (.num (c :: cs)) (lexN n s)) (fun n => ?_) (emit_ev h)
    show lexN (n + 1) (c :: (cs ++ s)) = _
    simp [lexN, f1, f2, f3, f4, f5, f6, f7, f8, hall'.1, hsn]


/-- the token the printer's text for a binary operator lexes to -/
def binTok (op : BinOp) : Tok :=
  match op with
  | .or => .ident "OR".toList false
  | .and => .ident "AND".toList false
  | o => .op o.text

theorem lex_binop {op : BinOp} {s : List Char} {r : List Tok}
    (h : Ev (fun n => lexN n s) (some r)) :
    Ev (fun n => lexN n (op.text ++ ' ' :: s)) (some (binTok op :: r)) := by
  have hsp := lex_space h
  cases op
  case or => exact lex_bare (w := "OR".toList) (by decide) (by show isIdentCont ' ' = false; decide) (by show (' ' == '\'') = false; decide) hsp
  case and => exact lex_bare (w := "AND".toList) (by decide) (by show isIdentCont ' ' = false; decide) (by show (' ' == '\'') = false; decide) hsp
  all_goals
    refine Ev.step (g := fun n => emit _ (lexN n (' ' :: s))) (fun n => ?_) (emit_ev hsp)
    simp [BinOp.text, binTok, lexN, isWs, isIdentStart, isLetter, isDigit, peek0, scanOp, multiOps, singleOps, List.isPrefixOf]

theorem lex_unop {op : UnOp} {s : List Char} {r : List Tok}
    (hneg : op = .neg → (peek0 s == '-') = false ∧ (peek0 s == '>') = false)
    (h : Ev (fun n => lexN n s) (some r)) :
    Ev (fun n => lexN n (op.text ++ s)) (some (.op op.text :: r)) := by
  refine Ev.step (g := fun n => emit _ (lexN n s)) (fun n => ?_) (emit_ev h)
  cases op
  case neg =>
    obtain ⟨h1, h2⟩ := hneg rfl
    cases s with
    | nil => simp [UnOp.text, lexN, isWs, isIdentStart, isLetter, isDigit, peek0, scanOp, multiOps, singleOps, List.isPrefixOf]
    | cons d t =>
      have h1' : (d == '-') = false := h1
      have h2' : (d == '>') = false := h2
      have h3 : ('>' == d) = false := by
        simp only [beq_eq_false_iff_ne, ne_eq] at h2' ⊢
        exact fun e => h2' e.symm
      simp [UnOp.text, lexN, isWs, isIdentStart, isLetter, isDigit, peek0, scanOp, multiOps, singleOps, List.isPrefixOf, List.find?, h1', h2', h3]
  all_goals
    simp [UnOp.text, lexN, isWs, isIdentStart, isLetter, isDigit, peek0, scanOp, multiOps, singleOps, List.isPrefixOf]

end EgoVerif.C16
