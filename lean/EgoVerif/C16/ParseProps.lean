import EgoVerif.C16.ParseLemmas
/-
C16 — the ladder parser reads the token list of a parser-shaped, well-formed expression back (`parse_toks`).
-/
namespace EgoVerif.C16

/-- the parse statement at one level: after `toks e`, the level's loop continues with `e` as its left operand -/
def ParsesAt (e : Expr) (l : Nat) : Prop :=
  ∀ (R : List Tok) (res : PR), Follow (l + 1) R → Ev (fun n => loop n l e R) res →
    Ev (fun n => parseAt n l (toks e ++ R)) res

theorem parseAt_9 (n : Nat) (ts : List Tok) :
    parseAt (n + 1) 9 ts =
      (match parsePrimary n ts with
       | .ok x r => if headKw r "collate".toList then .outside else .ok x r
       | o => o) := by
  cases h : parsePrimary n ts <;> simp [parseAt, h]

theorem ev_primary {e : Expr} {ts : List Tok} {R : List Tok}
    (hp : Ev (fun n => parsePrimary n ts) (.ok e R)) (hF : Follow 10 R) : ∀ res,
    Ev (fun n => loop n 9 e R) res → Ev (fun n => parseAt n 9 ts) res := by
  intro res hres
  have hr : res = .ok e R := Ev.unique hres (loop_id (Or.inr (Or.inr rfl)) e R)
  subst hr
  refine Ev.step (parseAt_9 · ts) ?_
  obtain ⟨N, hN⟩ := hp
  have hk : headKw R ['c', 'o', 'l', 'l', 'a', 't', 'e'] = false := (follow_head_facts hF).1
  exact ⟨N, fun n hn => by simp [hN n hn, hk]⟩

/-- an expression of a tighter tier passes through level `l` untouched -/
theorem pass_through {e : Expr} {l : Nat} (hl : l < 9) (hc : canon (l + 1) e = true) (hw : wf e = true)
    (hnext : ParsesAt e (l + 1)) : ParsesAt e l := by
  intro R res hF hres
  have hnx := hnext R (.ok e R) (hF.mono (by omega)) (loop_stop hF)
  obtain ⟨t, rest, htk, _, _, _, hnot, hun⟩ := toks_head e hw
  by_cases h2 : l = 2
  · subst h2
    have hr : res = .ok e R := Ev.unique hres (loop_id (Or.inl rfl) e R)
    subst hr
    refine Ev.step (g := fun n => parseAt n 3 (toks e ++ R)) (fun n => ?_) hnx
    have this : isKw t ['n', 'o', 't'] = false := hnot 3 hc (by omega)
    simp [htk, parseAt, this]
  · by_cases h8 : l = 8
    · subst h8
      have hr : res = .ok e R := Ev.unique hres (loop_id (Or.inr (Or.inl rfl)) e R)
      subst hr
      refine Ev.step (g := fun n => parseAt n 9 (toks e ++ R)) (fun n => ?_) hnx
      have h1 : isKw t ['n', 'o', 't'] = false := hnot 9 hc (by omega)
      have h2' := hun hc
      simp [htk, parseAt, h1, h2']
    · exact Ev.step (parseAt_bin · l _ h2 h8 hl) (ev_bind hnx hres)

/-- from the top level of a primary down to any level -/
theorem descend {e : Expr} (hw : wf e = true) (h9 : ParsesAt e 9)
    (hmono : ∀ l, l ≤ 9 → canon l e = true) : ∀ k l, l + k = 9 → ParsesAt e l := by
  intro k
  induction k with
  | zero => intro l hl; have : l = 9 := by omega
            subst this; exact h9
  | succ k ih =>
    intro l hl
    exact pass_through (by omega) (hmono _ (by omega)) hw (ih (l + 1) (by omega))


theorem ev_step_of {f g : Nat → PR} {a b : PR} (h : ∀ n, g n = a → f (n + 1) = b) (hg : Ev g a) : Ev f b := by
  obtain ⟨N, hN⟩ := hg
  refine ⟨N + 1, fun n hn => ?_⟩
  obtain ⟨m, rfl⟩ : ∃ m, n = m + 1 := ⟨n - 1, by omega⟩
  exact h m (hN m (by omega))

theorem ev_const_step {f : Nat → PR} {r : PR} (h : ∀ n, f (n + 1) = r) : Ev f r :=
  Ev.step (g := fun _ => r) h (Ev.const r)

theorem canon_leaf_mono {e : Expr} (h : ∀ l, canon l e = decide (l ≤ 9)) : ∀ l, l ≤ 9 → canon l e = true := by
  intro l hl; rw [h]; simpa using hl

/-- **the ladder parser reads the token list of a parser-shaped expression back** -/
theorem parse_toks (e : Expr) : ∀ k l, l + k = 9 → canon l e = true → wf e = true → ParsesAt e l := by
  induction e with
  | int d =>
    intro k l hl _ hw
    refine descend hw (fun R res hF => ev_primary ?_ hF res) (canon_leaf_mono fun _ => rfl) k l hl
    exact ev_const_step fun n => by simp [toks, parsePrimary]
  | str v =>
    intro k l hl _ hw
    refine descend hw (fun R res hF => ev_primary ?_ hF res) (canon_leaf_mono fun _ => rfl) k l hl
    exact ev_const_step fun n => by simp [toks, parsePrimary]
  | null =>
    intro k l hl _ hw
    refine descend hw (fun R res hF => ev_primary ?_ hF res) (canon_leaf_mono fun _ => rfl) k l hl
    exact ev_const_step fun n => by simp [toks, parsePrimary, isKw, lowerAscii]
  | bool b =>
    intro k l hl _ hw
    refine descend hw (fun R res hF => ev_primary ?_ hF res) (canon_leaf_mono fun _ => rfl) k l hl
    cases b <;> exact ev_const_step fun n => by simp [toks, parsePrimary, isKw, lowerAscii]
  | col s t c =>
    intro k l hl _ hw
    refine descend hw (fun R res hF => ev_primary ?_ hF res) (canon_leaf_mono fun _ => rfl) k l hl
    have hw' := hw
    simp only [wf, Bool.and_eq_true] at hw'
    have k1 : isKw (idTok (firstPart s t c)) ['n', 'u', 'l', 'l'] = false := isKw_idTok hw'.2 (by decide)
    have k2 : isKw (idTok (firstPart s t c)) ['t', 'r', 'u', 'e'] = false := isKw_idTok hw'.2 (by decide)
    have k3 : isKw (idTok (firstPart s t c)) ['f', 'a', 'l', 's', 'e'] = false := isKw_idTok hw'.2 (by decide)
    have k4 : isKw (idTok (firstPart s t c)) ['c', 'a', 's', 'e'] = false := isKw_idTok hw'.2 (by decide)
    have k5 : isKw (idTok (firstPart s t c)) ['c', 'a', 's', 't'] = false := isKw_idTok hw'.2 (by decide)
    have k6 : isKw (idTok (firstPart s t c)) ['e', 'x', 'i', 's', 't', 's'] = false := isKw_idTok hw'.2 (by decide)
    have hch := fun parts => identChain_stop hF parts
    have hpar := (follow_head_facts hF).2
    refine ev_const_step fun n => ?_
    by_cases hs : s = []
    · by_cases ht : t = []
      · simp only [firstPart, hs, ht, if_true] at k1 k2 k3 k4 k5 k6
        simp only [idTok] at k1 k2 k3 k4 k5 k6
        simp [toks, hs, ht, idTok, parsePrimary, k1, k2, k3, k4, k5, k6, hch, hpar]
      · simp only [firstPart, hs, ht, if_true, if_false] at k1 k2 k3 k4 k5 k6
        simp only [idTok] at k1 k2 k3 k4 k5 k6
        simp [toks, hs, ht, idTok, parsePrimary, k1, k2, k3, k4, k5, k6, identChain, hch, hpar]
    · have ht : t ≠ [] := by
        intro e; simp [hs, e] at hw'
      simp only [firstPart, hs, if_false] at k1 k2 k3 k4 k5 k6
      simp only [idTok] at k1 k2 k3 k4 k5 k6
      simp [toks, hs, ht, idTok, parsePrimary, k1, k2, k3, k4, k5, k6, identChain, hch, hpar]
  | paren x ih =>
    intro k l hl hc hw
    have hcx : canon 0 x = true := by cases l <;> simp [canon] at hc <;> simp [hc]
    have hwx : wf x = true := by simpa [wf] using hw
    refine descend hw (fun R res hF => ev_primary ?_ hF res) (fun l hl => by simp [canon, hcx, hl]) k l hl
    have hx := ih 9 0 (by omega) hcx hwx (.punct ')' :: R) (.ok x (.punct ')' :: R)) (Or.inr (Or.inl ⟨R, rfl⟩))
      (loop_stop (Or.inr (Or.inl ⟨R, rfl⟩)))
    obtain ⟨t, rest, htk, _, hsel, hwith, _, _⟩ := toks_head x hwx
    have hsel' : isKw t ['s', 'e', 'l', 'e', 'c', 't'] = false := hsel
    have hwith' : isKw t ['w', 'i', 't', 'h'] = false := hwith
    refine ev_step_of (fun n hn => ?_) hx
    rw [htk, List.cons_append] at hn
    simp [toks, parsePrimary, htk, headKw, hsel', hwith', hn, isPunct]
  | not x ih =>
    intro k
    induction k with
    | zero => intro l hl hc; simp [canon] at hc; omega
    | succ k ihk =>
      intro l hl hc hw
      by_cases h2 : l = 2
      · subst h2
        intro R res hF hres
        have hr : res = .ok (.not x) R := Ev.unique hres (loop_id (Or.inl rfl) _ R)
        subst hr
        have hcx : canon 2 x = true := by simpa [canon] using hc
        have hwx : wf x = true := by simpa [wf] using hw
        have hx := ih 7 2 (by omega) hcx hwx R (.ok x R) hF (loop_id (Or.inl rfl) x R)
        obtain ⟨t, rest, htk, hex, _, _, _, _⟩ := toks_head x hwx
        have hex' : isKw t ['e', 'x', 'i', 's', 't', 's'] = false := hex
        refine ev_step_of (fun n hn => ?_) hx
        rw [htk, List.cons_append] at hn
        have hN : isKw (Tok.ident ['N', 'O', 'T'] false) ['n', 'o', 't'] = true := by decide
        simp [toks, parseAt, hN, htk, headKw, hex', hn]
      · have hc' : canon (l + 1) (.not x) = true := by
          simp [canon] at hc ⊢; exact ⟨by omega, hc.2⟩
        exact pass_through (by omega) hc' hw (ihk (l + 1) (by omega) hc' hw)
  | un op x ih =>
    intro k
    induction k with
    | zero => intro l hl hc; simp [canon] at hc; omega
    | succ k ihk =>
      intro l hl hc hw
      by_cases h8 : l = 8
      · subst h8
        intro R res hF hres
        have hr : res = .ok (.un op x) R := Ev.unique hres (loop_id (Or.inr (Or.inl rfl)) _ R)
        subst hr
        have hcx : canon 8 x = true := by simpa [canon] using hc
        have hwx : wf x = true := by simpa [wf] using hw
        have hx := ih 1 8 (by omega) hcx hwx R (.ok x R) hF (loop_id (Or.inr (Or.inl rfl)) x R)
        refine ev_step_of (fun n hn => ?_) hx
        cases op <;> simp [toks, parseAt, isKw, unAt, UnOp.text, hn]
      · have hc' : canon (l + 1) (.un op x) = true := by
          simp [canon] at hc ⊢; exact ⟨by omega, hc.2⟩
        exact pass_through (by omega) hc' hw (ihk (l + 1) (by omega) hc' hw)
  | bin op x y ihx ihy =>
    intro k
    induction k with
    | zero => intro l hl hc; have := canon_bin_level hc; omega
    | succ k ihk =>
      intro l hl hc hw
      have hop7 : op.level ≤ 7 := by cases op <;> simp [BinOp.level]
      have hc0 := hc
      simp only [canon, Bool.and_eq_true, decide_eq_true_eq] at hc0
      have hw0 := hw
      simp only [wf, Bool.and_eq_true] at hw0
      by_cases hlev : l = op.level
      · subst hlev
        intro R res hF hres
        have hy := ihy (8 - op.level) (op.level + 1) (by omega) hc0.2 hw0.2 R (.ok y R) (hF.mono (by omega)) (loop_stop hF)
        have hloop : Ev (fun n => loop n op.level x (binTok op :: (toks y ++ R))) res :=
          Ev.step (loop_step · op.level x op (toks y ++ R) rfl)
            (ev_bind (g := fun n b r => loop n op.level (.bin op x b) r) hy hres)
        have hx := ihx (9 - op.level) op.level (by omega) hc0.1.2 hw0.1 (binTok op :: (toks y ++ R)) res
          (Or.inr (Or.inr ⟨op, _, rfl, by omega⟩)) hloop
        simpa [toks] using hx
      · have hc' : canon (l + 1) (.bin op x y) = true := by
          simp only [canon, Bool.and_eq_true, decide_eq_true_eq]
          exact ⟨⟨by omega, hc0.1.2⟩, hc0.2⟩
        exact pass_through (by omega) hc' hw (ihk (l + 1) (by omega) hc' hw)

end EgoVerif.C16
