import EgoVerif.Common.Drv
import EgoVerif.C16.Model
/- line protocol
   `ast <sexp>`  →  `<hex of fmt e> <reading of that text>`
   `txt <hex>`   →  `<reading of the text>`
   reading = prefix form of the parsed expression | `lexerr` | `err` | `trail` | `outside` (construct outside the modelled fragment)
   sexp    = I h | S h | Z | T | F | C1 h | C2 h h | C3 h h h | P e | N e | U neg|pos|bnot e | B <op> e e     (h = hex utf8, "-" empty) -/
namespace EgoVerif.C16

def binName : BinOp → String
  | .or => "or" | .and => "and" | .eq => "eq" | .eq2 => "eq2" | .ne => "ne" | .ne2 => "ne2"
  | .lt => "lt" | .le => "le" | .gt => "gt" | .ge => "ge" | .shl => "shl" | .shr => "shr"
  | .band => "band" | .bor => "bor" | .add => "add" | .sub => "sub" | .mul => "mul" | .div => "div"
  | .mod => "mod" | .cat => "cat" | .arr => "arr" | .arr2 => "arr2"

def unName : UnOp → String
  | .neg => "neg" | .pos => "pos" | .bnot => "bnot"

def hx (cs : List Char) : String := hexOfString (String.ofList cs)

def sexp : Expr → String
  | .int d => "I " ++ hx d
  | .str v => "S " ++ hx v
  | .null => "Z"
  | .bool b => if b then "T" else "F"
  | .col s t c =>
    if s ≠ [] then "C3 " ++ hx s ++ " " ++ hx t ++ " " ++ hx c
    else if t ≠ [] then "C2 " ++ hx t ++ " " ++ hx c
    else "C1 " ++ hx c
  | .paren x => "P " ++ sexp x
  | .not x => "N " ++ sexp x
  | .un op x => "U " ++ unName op ++ " " ++ sexp x
  | .bin op x y => "B " ++ binName op ++ " " ++ sexp x ++ " " ++ sexp y

def unhx (h : String) : Option (List Char) := (stringOfHex h).map String.toList

def build : Nat → List String → Option (Expr × List String)
  | 0, _ => none
  | n + 1, fs =>
    match fs with
    | "I" :: h :: r => (unhx h).map fun d => (.int d, r)
    | "S" :: h :: r => (unhx h).map fun d => (.str d, r)
    | "Z" :: r => some (.null, r)
    | "T" :: r => some (.bool true, r)
    | "F" :: r => some (.bool false, r)
    | "C1" :: c :: r => (unhx c).map fun c => (.col [] [] c, r)
    | "C2" :: t :: c :: r =>
      match unhx t, unhx c with
      | some t, some c => some (.col [] t c, r)
      | _, _ => none
    | "C3" :: s :: t :: c :: r =>
      match unhx s, unhx t, unhx c with
      | some s, some t, some c => some (.col s t c, r)
      | _, _, _ => none
    | "P" :: r => (build n r).map fun (x, r) => (.paren x, r)
    | "N" :: r => (build n r).map fun (x, r) => (.not x, r)
    | "U" :: o :: r =>
      match [UnOp.neg, .pos, .bnot].find? (fun u => unName u == o), build n r with
      | some u, some (x, r) => some (.un u x, r)
      | _, _ => none
    | "B" :: o :: r =>
      match allBinOps.find? (fun b => binName b == o), build n r with
      | some b, some (x, r) =>
        match build n r with
        | some (y, r) => some (.bin b x y, r)
        | none => none
      | _, _ => none
    | _ => none

def fuelFor (text : List Char) : Nat := 16 * (text.length + 4)

def reading (text : List Char) : String :=
  let n := fuelFor text
  match lexN n text with
  | none => "lexerr"
  | some ts =>
    match parseAt n 0 ts with
    | .err => "err"
    | .outside => "outside"
    | .ok e [] => sexp e
    | .ok _ (_ :: _) => "trail"

def handle (line : String) : String :=
  match fields line with
  | "ast" :: fs =>
    match build (fs.length + 1) fs with
    | some (e, []) => hx (fmt e) ++ " " ++ reading (fmt e)
    | _ => "bad-input"
  | ["txt", h] =>
    match stringOfHex h with
    | some s => reading s.toList
    | none => "bad-input"
  | _ => "bad-op"

def drv : Drv := Drv.pure handle

end EgoVerif.C16
