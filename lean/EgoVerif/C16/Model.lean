/-
C16 — model of the SQL expression printer, lexer and expression parser of `internal/sqlparse`
(core Lean only).

Fragment modelled (everything else is answered "outside the model" — `PR.outside` by the parser, `none` by the
lexer's hex / float / blob / placeholder / back-quote branches — never a wrong answer):
  AST       : integer literal, string literal, NULL, TRUE/FALSE, column reference (1–3 parts),
              parenthesised expression, NOT, unary - + ~, and every BinaryExpr operator of expr.go
              (OR, AND, = == <> != < <= > >=, << >> & |, + -, * / %, || -> ->>).
  printer   : `printer.expr`, `literal`, `columnRef`, `ident`, `isBareIdent`, `quoteIdent`,
              `unaryExpr` (format.go, format_expr.go) — with the proposed fix (fixes/C16.patch):
              a space between a unary minus and an operand that is itself a unary minus.
  lexer     : `skipTrivia`, `scanToken`, `scanIdentOrPrefixedLiteral`, `scanQuotedIdent` ("…" form),
              `scanString`, `scanNumber` (digit runs; the float / hex / exponent branches answer `none`),
              `scanOperator` with `multiCharOps` (lexer.go).
  parser    : the precedence ladder parseOrExpr … parsePrimary of expr.go as `parseAt fuel level`.
              Levels: 0 OR, 1 AND, 2 NOT, 3 comparison, 4 bit, 5 additive, 6 multiplicative,
              7 concat, 8 unary, 9 collate+primary.
`unicode.IsLetter` / `unicode.IsDigit` are modelled on ASCII.
-/
namespace EgoVerif.C16

/-! ### tokens (token.go) -/

inductive Tok where
  | ident (text : List Char) (quoted : Bool)
  | num (text : List Char)
  | str (text : List Char)
  | punct (c : Char)
  | op (text : List Char)
  deriving DecidableEq, Repr

/-! ### AST fragment (ast/expr.go) -/

inductive BinOp where
  | or | and | eq | eq2 | ne | ne2 | lt | le | gt | ge | shl | shr | band | bor
  | add | sub | mul | div | mod | cat | arr | arr2
  deriving DecidableEq, Repr

inductive UnOp where
  | neg | pos | bnot
  deriving DecidableEq, Repr

inductive Expr where
  | int (digits : List Char)
  | str (v : List Char)
  | null
  | bool (b : Bool)
  | col (schema table column : List Char)
  | paren (x : Expr)
  | not (x : Expr)
  | un (op : UnOp) (x : Expr)
  | bin (op : BinOp) (x y : Expr)
  deriving DecidableEq, Repr

/-- the tier (ladder level) at which expr.go consumes the operator -/
def BinOp.level : BinOp → Nat
  | .or => 0 | .and => 1
  | .eq | .eq2 | .ne | .ne2 | .lt | .le | .gt | .ge => 3
  | .shl | .shr | .band | .bor => 4
  | .add | .sub => 5
  | .mul | .div | .mod => 6
  | .cat | .arr | .arr2 => 7

/-- BinaryExpr.Op as the parser stores it and the printer writes it -/
def BinOp.text : BinOp → List Char
  | .or => "OR".toList | .and => "AND".toList
  | .eq => "=".toList | .eq2 => "==".toList | .ne => "<>".toList | .ne2 => "!=".toList
  | .lt => "<".toList | .le => "<=".toList | .gt => ">".toList | .ge => ">=".toList
  | .shl => "<<".toList | .shr => ">>".toList | .band => "&".toList | .bor => "|".toList
  | .add => "+".toList | .sub => "-".toList | .mul => "*".toList | .div => "/".toList | .mod => "%".toList
  | .cat => "||".toList | .arr => "->".toList | .arr2 => "->>".toList

def UnOp.text : UnOp → List Char
  | .neg => ['-'] | .pos => ['+'] | .bnot => ['~']

def allBinOps : List BinOp :=
  [.or, .and, .eq, .eq2, .ne, .ne2, .lt, .le, .gt, .ge, .shl, .shr, .band, .bor, .add, .sub, .mul, .div, .mod, .cat, .arr, .arr2]

/-! ### character classes (lexer.go isIdentStart / isIdentCont, format.go isBareIdent) -/

def isLetter (c : Char) : Bool := (97 ≤ c.toNat && c.toNat ≤ 122) || (65 ≤ c.toNat && c.toNat ≤ 90)
def isDigit (c : Char) : Bool := 48 ≤ c.toNat && c.toNat ≤ 57
def isIdentStart (c : Char) : Bool := c == '_' || isLetter c
def isIdentCont (c : Char) : Bool := c == '_' || c == '$' || isLetter c || isDigit c
def isBareCont (c : Char) : Bool := c == '_' || isLetter c || isDigit c

/-- format.go isBareIdent -/
def isBareIdent : List Char → Bool
  | [] => false
  | c :: cs => isIdentStart c && cs.all isBareCont

/-! ### printer (format.go, format_expr.go) -/

/-- doubling of the delimiter: `strings.ReplaceAll(v, "'", "''")` and the loop of `quoteIdent` -/
def dbl (q : Char) : List Char → List Char
  | [] => []
  | c :: cs => if c == q then q :: q :: dbl q cs else c :: dbl q cs

def quoteIdent (name : List Char) : List Char := '"' :: (dbl '"' name ++ ['"'])

/-- `printer.ident` for the sqlite3 dialect -/
def fmtIdent (name : List Char) : List Char := if isBareIdent name then name else quoteIdent name

/-- `printer.unaryExpr` (with the fix): the separator written after a symbolic operator -/
def unSep : UnOp → Expr → List Char
  | .neg, .un .neg _ => [' ']
  | _, _ => []

def fmt : Expr → List Char
  | .int d => d
  | .str v => '\'' :: (dbl '\'' v ++ ['\''])
  | .null => "NULL".toList
  | .bool b => if b then "TRUE".toList else "FALSE".toList
  | .col s t c =>
    (if s = [] then [] else fmtIdent s ++ ['.']) ++ ((if t = [] then [] else fmtIdent t ++ ['.']) ++ fmtIdent c)
  | .paren x => '(' :: (fmt x ++ [')'])
  | .not x => 'N' :: 'O' :: 'T' :: ' ' :: fmt x
  | .un op x => op.text ++ (unSep op x ++ fmt x)
  | .bin op x y => fmt x ++ (' ' :: (op.text ++ (' ' :: fmt y)))

/-! ### lexer (lexer.go) -/

def spanWhile (p : Char → Bool) : List Char → List Char × List Char
  | [] => ([], [])
  | c :: cs => if p c then ((spanWhile p cs).1.cons c, (spanWhile p cs).2) else ([], c :: cs)

/-- body of a quoted token after its opening delimiter: `scanString` (isEscape = false) and
`scanQuotedIdent` for `"`; `none` = unterminated -/
def scanDelim (q : Char) : List Char → Option (List Char × List Char)
  | [] => none
  | c :: cs =>
    if c == q then
      match cs with
      | d :: cs' =>
        if d == q then
          match scanDelim q cs' with
          | some (v, r) => some (q :: v, r)
          | none => none
        else some ([], d :: cs')
      | [] => some ([], [])
    else
      match scanDelim q cs with
      | some (v, r) => some (c :: v, r)
      | none => none

/-- rest of the input after the `*/` closing a block comment (argument: text after `/*`) -/
def skipBlock : List Char → Option (List Char)
  | [] => none
  | c :: cs =>
    if c == '*' then
      match cs with
      | d :: cs' => if d == '/' then some cs' else skipBlock cs
      | [] => none
    else skipBlock cs

def multiOps : List (List Char) :=
  ["->>".toList, "::".toList, "->".toList, "<<".toList, ">>".toList, "<=".toList, ">=".toList,
   "<>".toList, "!=".toList, "==".toList, "||".toList]

def singleOps : List Char := ['=', '<', '>', '+', '-', '*', '/', '%', '~', '&', '|']

/-- `scanOperator`: longest match over `multiCharOps`, then the single-character operators -/
def scanOp (s : List Char) : Option (List Char × List Char) :=
  match multiOps.find? (fun o => o.isPrefixOf s) with
  | some o => some (o, s.drop o.length)
  | none =>
    match s with
    | c :: cs => if singleOps.contains c then some ([c], cs) else none
    | [] => none

def peek0 (s : List Char) : Char := s.head?.getD (Char.ofNat 0)

/-- `scanNumber`; `none` = hex / fraction / exponent spelling (outside the model) -/
def scanNum (s : List Char) : Option (List Char × List Char) :=
  if peek0 s == '0' && (peek0 s.tail == 'x' || peek0 s.tail == 'X') then none
  else
    let d := (spanWhile isDigit s).1
    let r := (spanWhile isDigit s).2
    let next := peek0 r.tail
    if peek0 r == '.' && (isDigit next || (!isIdentStart next && next != '.')) then none
    else if peek0 r == 'e' || peek0 r == 'E' then
      let la := peek0 r.tail
      if isDigit la || ((la == '+' || la == '-') && isDigit (peek0 r.tail.tail)) then none
      else some (d, r)
    else some (d, r)

def emit (t : Tok) (r : Option (List Tok)) : Option (List Tok) :=
  match r with
  | some ts => some (t :: ts)
  | none => none

def isWs (c : Char) : Bool := c == ' ' || c == '\t' || c == '\r' || c == '\n'

/-- `tokenize` = loop of `skipTrivia` + `scanToken`; the fuel bounds the number of iterations.
The token list has no EOF token: the parser model reads `[]` as EOF. -/
def lexN : Nat → List Char → Option (List Tok)
  | 0, _ => none
  | _ + 1, [] => some []
  | n + 1, c :: cs =>
    if isWs c then lexN n cs
    else if c == '-' && peek0 cs == '-' then lexN n (cs.tail.dropWhile (fun r => r != '\n'))
    else if c == '/' && peek0 cs == '*' then
      match skipBlock cs.tail with
      | some r => lexN n r
      | none => none
    else if isIdentStart c then
      let w := (spanWhile isIdentCont (c :: cs)).1
      let r := (spanWhile isIdentCont (c :: cs)).2
      if peek0 r == '\'' && (w == ['x'] || w == ['X'] || w == ['e'] || w == ['E']) then none
      else emit (.ident w false) (lexN n r)
    else if c == '"' then
      match scanDelim '"' cs with
      | some (v, r) => emit (.ident v true) (lexN n r)
      | none => none
    else if c == '`' || c == '[' then none
    else if c == '\'' then
      match scanDelim '\'' cs with
      | some (v, r) => emit (.str v) (lexN n r)
      | none => none
    else if isDigit c || (c == '.' && isDigit (peek0 cs)) then
      match scanNum (c :: cs) with
      | some (d, r) => emit (.num d) (lexN n r)
      | none => none
    else if c == '?' then none
    else if (c == ':' || c == '@') && isIdentStart (peek0 cs) then none
    else if c == '$' && isDigit (peek0 cs) then none
    else if c == '(' || c == ')' || c == ',' || c == ';' || c == '.' then emit (.punct c) (lexN n cs)
    else
      match scanOp (c :: cs) with
      | some (o, r) => emit (.op o) (lexN n r)
      | none => none

/-! ### parser (parser.go, expr.go) -/

def lowerAscii (c : Char) : Char := if 65 ≤ c.toNat && c.toNat ≤ 90 then Char.ofNat (c.toNat + 32) else c

/-- `token.is(word)`: unquoted identifier equal to `word` ignoring ASCII case -/
def isKw (t : Tok) (w : List Char) : Bool :=
  match t with
  | .ident x false => x.map lowerAscii == w
  | _ => false

def headKw (ts : List Tok) (w : List Char) : Bool :=
  match ts with
  | t :: _ => isKw t w
  | [] => false

/-- operator recognised by the loop of binary tier `l` -/
def binAt (l : Nat) (t : Tok) : Option BinOp :=
  match t with
  | .ident _ _ =>
    if l == 0 && isKw t "or".toList then some .or
    else if l == 1 && isKw t "and".toList then some .and
    else none
  | .op s => allBinOps.find? (fun o => o.level == l && 2 < l && o.text == s)
  | _ => none

def unAt (t : Tok) : Option UnOp :=
  match t with
  | .op s => if s == ['-'] then some .neg else if s == ['+'] then some .pos else if s == ['~'] then some .bnot else none
  | _ => none

def likeFamily : List (List Char) := ["like".toList, "glob".toList, "regexp".toList, "match".toList, "ilike".toList]

/-- the comparison tier's constructs that are outside the model: IS, ISNULL, NOTNULL, [NOT] BETWEEN / IN / LIKE… -/
def cmpOutside (t : Tok) (rest : List Tok) : Bool :=
  isKw t "is".toList || isKw t "isnull".toList || isKw t "notnull".toList ||
  isKw t "between".toList || isKw t "in".toList || likeFamily.any (isKw t) ||
  (isKw t "not".toList && (headKw rest "between".toList || headKw rest "in".toList || likeFamily.any (headKw rest)))

/-- `parseIdentPrimary`'s loop over `.name`; `none` = `t.*` (outside the model) -/
def identChain : List (List Char) → List Tok → Option (List (List Char) × List Tok)
  | parts, .punct c :: .ident y q :: r => if c == '.' then identChain (parts ++ [y]) r else some (parts, .punct c :: .ident y q :: r)
  | parts, .punct c :: .op o :: r => if c == '.' && o == ['*'] then none else some (parts, .punct c :: .op o :: r)
  | parts, r => some (parts, r)

def isPunct (t : Tok) (c : Char) : Bool :=
  match t with
  | .punct d => d == c
  | _ => false

/-- parser outcome: a parse, a syntax error, or a construct outside the modelled fragment -/
inductive PR where
  | ok (e : Expr) (rest : List Tok)
  | err
  | outside
  deriving DecidableEq, Repr

def headPunct (ts : List Tok) (c : Char) : Bool :=
  match ts with
  | t :: _ => isPunct t c
  | [] => false

mutual
/-- the ladder: `parseAt fuel level tokens` -/
def parseAt : Nat → Nat → List Tok → PR
  | 0, _, _ => .err
  | n + 1, l, ts =>
    if l == 2 then
      -- parseNotExpr
      match ts with
      | t :: rest =>
        if isKw t "not".toList && !headKw rest "exists".toList then
          match parseAt n 2 rest with
          | .ok x r => .ok (.not x) r
          | o => o
        else parseAt n 3 ts
      | [] => parseAt n 3 ts
    else if l == 8 then
      -- parseUnaryExpr
      match ts with
      | t :: rest =>
        if isKw t "not".toList && headKw rest "exists".toList then .outside
        else
          match unAt t with
          | some op =>
            match parseAt n 8 rest with
            | .ok x r => .ok (.un op x) r
            | o => o
          | none => parseAt n 9 ts
      | [] => parseAt n 9 ts
    else if 9 ≤ l then
      -- parseCollateExpr (COLLATE itself is outside the model) over parsePrimary
      match parsePrimary n ts with
      | .ok x r => if headKw r "collate".toList then .outside else .ok x r
      | o => o
    else
      -- parseOrExpr, parseAndExpr, parseComparisonExpr, parseBitOrExpr, parseAdditiveExpr,
      -- parseMultiplicativeExpr, parseConcatExpr: one operand of the next tier, then the loop
      match parseAt n (l + 1) ts with
      | .ok a r => loop n l a r
      | o => o

/-- the `for` loop of a binary tier -/
def loop : Nat → Nat → Expr → List Tok → PR
  | 0, _, _, _ => .err
  | n + 1, l, left, ts =>
    match ts with
    | [] => .ok left []
    | t :: rest =>
      match binAt l t with
      | some op =>
        match parseAt n (l + 1) rest with
        | .ok b r => loop n l (.bin op left b) r
        | o => o
      | none => if l == 3 && cmpOutside t rest then .outside else .ok left (t :: rest)

/-- parsePrimary / parseParenGroup / parseIdentPrimary -/
def parsePrimary : Nat → List Tok → PR
  | 0, _ => .err
  | n + 1, ts =>
    match ts with
    | [] => .err
    | .num d :: rest => .ok (.int d) rest
    | .str v :: rest => .ok (.str v) rest
    | .op o :: _ => if o == ['*'] then .outside else .err
    | .punct c :: rest =>
      if c == '(' then
        if headKw rest "select".toList || headKw rest "with".toList then .outside
        else
          match parseAt n 0 rest with
          | .ok x (t :: r) => if isPunct t ')' then .ok (.paren x) r else if isPunct t ',' then .outside else .err
          | .ok _ [] => .err
          | o => o
      else .err
    | .ident x q :: rest =>
      let t := Tok.ident x q
      if isKw t "null".toList then .ok .null rest
      else if isKw t "true".toList then .ok (.bool true) rest
      else if isKw t "false".toList then .ok (.bool false) rest
      else if isKw t "case".toList || isKw t "cast".toList || isKw t "exists".toList then .outside
      else
        match identChain [x] rest with
        | some (parts, r) =>
          if headPunct r '(' then .outside
          else
            match parts with
            | [c] => .ok (.col [] [] c) r
            | [t, c] => .ok (.col [] t c) r
            | [s, t, c] => .ok (.col s t c) r
            | _ => .err
        | none => .outside
end

/-- lexer + `parseExpr` + "all input consumed", with one fuel for both -/
def readN (n : Nat) (text : List Char) : Option Expr :=
  match lexN n text with
  | some ts =>
    match parseAt n 0 ts with
    | .ok e [] => some e
    | _ => none
  | none => none

end EgoVerif.C16
