import EgoVerif.C16.CanonProps
/-
C16 — property theorems: SQL reformatting preserves (the expression fragment of) statements.

Fragment: integer and string literals, NULL, TRUE/FALSE, column references (1–3 parts, any characters,
quoted as `printer.ident` does for sqlite3), parentheses, NOT, unary - + ~, all 22 binary operators.
`canon 0 e` says `e` has the shape the ladder parser produces (`C16_parse_canon`: it always does);
`wf e` says integer literals are digit strings, a schema part comes with a table part, and (`IdSafe`)
the first printed part of a column reference is not a keyword that `printer.ident` leaves unquoted.

Fuel: the model's lexer and parser recurse on a fuel bound; `Ev f r` = "f n = r for every n from some
point on".  The round trip is stated for all sufficiently large fuel.
-/
namespace EgoVerif.C16

/-- **Round trip.** Lexing and parsing the printed text of a parser-shaped, well-formed expression gives
the expression back, with all input consumed. -/
theorem C16_expr_roundtrip (e : Expr) (hc : canon 0 e = true) (hw : wf e = true) :
    Ev (fun n => readN n (fmt e)) (some e) := by
  have hlex : Ev (fun n => lexN n (fmt e)) (some (toks e)) := by
    have := lex_fmt e 0 hc hw [] [] (Or.inl rfl) (Ev.step (g := fun _ => some []) (fun n => rfl) (Ev.const _))
    simpa using this
  have hparse : Ev (fun n => parseAt n 0 (toks e)) (.ok e []) := by
    have := parse_toks e 9 0 (by omega) hc hw [] (.ok e []) (Or.inl rfl) (loop_stop (Or.inl rfl))
    simpa using this
  obtain ⟨N, hN⟩ := Ev.both hlex hparse
  exact ⟨N, fun n hn => by simp [readN, (hN n hn).1, (hN n hn).2]⟩

/-- **Idempotence.** Formatting the re-parsed formatted text changes nothing. -/
theorem C16_idempotent (e : Expr) (hc : canon 0 e = true) (hw : wf e = true) :
    Ev (fun n => (readN n (fmt e)).map fmt) (some (fmt e)) := by
  obtain ⟨N, hN⟩ := C16_expr_roundtrip e hc hw
  exact ⟨N, fun n hn => by simp [hN n hn]⟩

/-- **Literals and identifiers.** For EVERY character list `v` (quotes, newlines, comment markers, … included):
the string literal `'…'` with `'` doubled, and the identifier `"…"` with `"` doubled, scan back to `v`;
and an identifier written bare lexes to the same name.  (`s` is any continuation that does not start with
the delimiter, resp. with an identifier character.) -/
theorem C16_literal_ident_roundtrip (v s : List Char) :
    ((peek0 s == '\'') = false → scanDelim '\'' (dbl '\'' v ++ '\'' :: s) = some (v, s)) ∧
    ((peek0 s == '"') = false → scanDelim '"' (dbl '"' v ++ '"' :: s) = some (v, s)) ∧
    (∀ r, isIdentCont (peek0 s) = false → (peek0 s == '\'') = false → (peek0 s == '"') = false →
      Ev (fun n => lexN n s) (some r) → Ev (fun n => lexN n (fmtIdent v ++ s)) (some (.ident v (!isBareIdent v) :: r))) :=
  ⟨scanDelim_dbl '\'' v s, scanDelim_dbl '"' v s, fun _ h1 h2 h3 h => lex_ident h1 h2 h3 h⟩

/-- **Parser outputs are canonical**: whatever the ladder parser returns at level `l` satisfies `canon l`, so
`C16_expr_roundtrip` applies to every parsed expression (given `wf`). -/
theorem C16_parse_canon {n l : Nat} {ts : List Tok} {e : Expr} {r : List Tok} (hl : l ≤ 9)
    (h : parseAt n l ts = .ok e r) : canon l e = true := parse_canon hl h

/-! ### the excluded class is needed, and the unfixed printer is wrong -/

def eNull : Expr := .col [] [] "null".toList

theorem readN_null : Ev (fun n => readN n (fmt eNull)) (some .null) := by
  refine ⟨12, fun n hn => ?_⟩
  obtain ⟨m, rfl⟩ : ∃ m, n = m + 12 := ⟨n - 12, by omega⟩
  simp [readN, fmt, eNull, fmtIdent, isBareIdent, isIdentStart, isBareCont, isLetter, isDigit, lexN, isWs, spanWhile,
    isIdentCont, peek0, emit, parseAt, parsePrimary, isKw, lowerAscii, headKw, loop, unAt]

/-- the code as it is in /repo today: no separator after a symbolic unary operator -/
def fmt0 : Expr → List Char
  | .un op x => op.text ++ fmt0 x
  | .paren x => '(' :: (fmt0 x ++ [')'])
  | .not x => 'N' :: 'O' :: 'T' :: ' ' :: fmt0 x
  | .bin op x y => fmt0 x ++ (' ' :: (op.text ++ (' ' :: fmt0 y)))
  | e => fmt e

def eNegNeg : Expr := .un .neg (.un .neg (.col [] [] ['x']))

theorem parsePrimary_nil (n : Nat) : parsePrimary n [] = .err := by
  cases n <;> simp [parsePrimary]

theorem parseAt_nil : ∀ n l, parseAt n l [] = .err := by
  intro n
  induction n with
  | zero => intro l; simp [parseAt]
  | succ n ih =>
    intro l
    by_cases h2 : l = 2
    · subst h2; simp [parseAt, ih]
    · by_cases h8 : l = 8
      · subst h8; simp [parseAt, ih]
      · by_cases h9 : 9 ≤ l
        · simp [parseAt, h2, h8, h9, parsePrimary_nil]
        · simp [parseAt, h2, h8, h9, ih]

theorem readN_negneg : ∀ n, readN n (fmt0 eNegNeg) = none := by
  intro n
  have h : fmt0 eNegNeg = ['-', '-', 'x'] := rfl
  rw [h]
  match n with
  | 0 => simp [readN, lexN]
  | 1 => simp [readN, lexN, isWs, peek0]
  | m + 2 => simp [readN, lexN, isWs, peek0, parseAt_nil]


/-- **IdSafe is necessary (recorded finding `keyword-ident`).** The column named `null` (written `"null"` in the
source) is parser-shaped, but `printer.ident` writes it bare and the text reads back as the NULL literal. -/
theorem C16_keyword_ident_counterexample :
    canon 0 eNull = true ∧ wf eNull = false ∧ Ev (fun n => readN n (fmt eNull)) (some .null) ∧
    ¬ Ev (fun n => readN n (fmt eNull)) (some eNull) :=
  ⟨by decide, by decide, readN_null, fun h => by
    have := Ev.unique h readN_null
    simp [eNull] at this⟩

/-- **The code before fixes/C16.patch violates the property**: `- -x` is parser-shaped and well-formed, the
unfixed printer writes `--x`, which lexes as a comment; no fuel reads it back. -/
theorem C16_negneg_unfixed_counterexample :
    canon 0 eNegNeg = true ∧ wf eNegNeg = true ∧ fmt0 eNegNeg = ['-', '-', 'x'] ∧ ∀ n, readN n (fmt0 eNegNeg) ≠ some eNegNeg :=
  ⟨by decide, by decide, rfl, fun n => by simp [readN_negneg n]⟩

/-! ### non-vacuity: the hypotheses of the round trip are met by non-trivial expressions -/

/-- `NOT - -a.b + 'it''s' * (1 OR "x y")`-like shape: every tier, nested minus, quoting -/
def eSample : Expr :=
  .not (.bin .lt (.bin .add (.un .neg (.un .neg (.col [] ['a'] ['b']))) (.bin .mul (.str ['i', 't', '\'', 's'])
    (.paren (.bin .or (.int ['1']) (.col [] [] ['x', ' ', 'y']))))) (.un .bnot .null))

example : canon 0 eSample = true ∧ wf eSample = true := by decide
example : fmt eSample = "NOT - -a.b + 'it''s' * (1 OR \"x y\") < ~NULL".toList := by decide
example : Ev (fun n => readN n (fmt eSample)) (some eSample) := C16_expr_roundtrip _ (by decide) (by decide)
example : canon 0 eNegNeg = true ∧ wf eNegNeg = true ∧ fmt eNegNeg = ['-', ' ', '-', 'x'] := by decide
example : (peek0 [' '] == '\'') = false := by decide

end EgoVerif.C16
