import EgoVerif.C29.Model
/-
C29 — cluster cache invalidation is bounded and complete; a received flush is never re-broadcast.

All theorems quantify over every membership table (clusters of ANY size), every process configuration
(`cluster : Nat → Option Nat`), and every sequence of steps (purges on arbitrary nodes, deliveries in any order,
losses, membership changes, injected foreign requests).
-/
namespace EgoVerif.C29

/-! ## specification vocabulary (independent of the model's filter chain) -/

/-- `p` is an active peer of node `self` (whose ClusterName is `k`) in table `t` -/
def IsActivePeer (self k : Nat) (t : List Row) (p : Nat) : Prop :=
  ∃ r ∈ t, r.id = p ∧ r.name = k ∧ r.active = true ∧ p ≠ self

/-- the number of peers of `self` known to the table: all rows but its own -/
def peerCount (self : Nat) (t : List Row) : Nat := (t.filter (fun r => r.id != self)).length

/-! ## per-node facts -/

theorem mem_listActiveMembers {self k : Nat} {t : List Row} {r : Row} :
    r ∈ listActiveMembers self k t ↔ r ∈ t ∧ r.name = k ∧ r.active = true ∧ r.id ≠ self := by
  simp only [listActiveMembers, listMembers, List.mem_filter, Bool.and_eq_true, bne_iff_ne, beq_iff_eq, ne_eq]
  constructor
  · rintro ⟨⟨h1, h2⟩, h3, h4⟩; exact ⟨h1, h2, h3, h4⟩
  · rintro ⟨h1, h2, h3, h4⟩; exact ⟨⟨h1, h2⟩, h3, h4⟩

theorem listActiveMembers_length_le (self k : Nat) (t : List Row) :
    (listActiveMembers self k t).length ≤ peerCount self t := by
  unfold listActiveMembers listMembers peerCount
  induction t with
  | nil => simp
  | cons r t ih =>
    simp only [List.filter_cons]
    by_cases h1 : r.name == k <;> by_cases h2 : r.id != self <;> by_cases h3 : r.active <;>
      simp [h1, h2, h3] at ih ⊢ <;> omega

theorem broadcast_length_le (self : Nat) (cl : Option Nat) (db : Bool) (t : List Row) (c : Int) (pid : Option Nat) :
    (broadcastCacheFlush self cl db t c pid).length ≤ peerCount self t := by
  unfold broadcastCacheFlush
  cases cl with
  | none => simp
  | some k =>
    cases db <;> simp
    exact listActiveMembers_length_le self k t

theorem peerCount_le_length (self : Nat) (t : List Row) : peerCount self t ≤ t.length :=
  List.length_filter_le _ _

/-- a node that has its own row in the table has at most `|table| - 1` peers -/
theorem peerCount_lt_of_mem {self : Nat} {t : List Row} (h : self ∈ t.map Row.id) :
    peerCount self t + 1 ≤ t.length := by
  unfold peerCount
  induction t with
  | nil => simp at h
  | cons r t ih =>
    simp only [List.filter_cons, List.length_cons]
    by_cases hr : r.id = self
    · have : (r.id != self) = false := by simp [hr]
      simp only [this]
      have := List.length_filter_le (fun r => r.id != self) t
      simp; omega
    · have : (r.id != self) = true := by simp [hr]
      simp only [this, if_true, List.length_cons]
      have hm : self ∈ t.map Row.id := by
        simp only [List.map_cons, List.mem_cons] at h
        rcases h with h | h
        · exact absurd h.symm hr
        · exact h
      have := ih hm
      omega

/-- **C29_bounded (one purge).** Whatever the configuration, the requests sent for one purge number at most
    the peers of that node — in particular none goes to the node itself and none to an inactive member. -/
theorem C29_purge_bounded (self : Nat) (cl : Option Nat) (db hook on notify : Bool) (t : List Row) (c : Int)
    (pid : Option Nat) :
    (purgeNode self cl db hook on notify t c pid).2.2.length ≤ peerCount self t := by
  unfold purgeNode
  simp only
  split
  · exact broadcast_length_le ..
  · simp

/-- The requests of one purge are exactly one per active peer: same cache, hop count 1, the sender's identity
    and token. -/
theorem C29_purge_targets_exact (self k : Nat) (t : List Row) (c : Int) (pid : Option Nat) (m : Msg) :
    m ∈ (purgeNode self (some k) true true true true t c pid).2.2 ↔
      IsActivePeer self k t m.dest ∧
        m = { dest := m.dest, cache := c, sender := self, hops := 1, tok := some k, wf := true,
              accept := true, pid := pid } := by
  simp only [purgeNode, cachePurge, broadcastCacheFlush, Bool.not_true, Bool.false_eq_true, if_false,
    Bool.and_self, if_true, List.mem_map, mem_listActiveMembers, sendCacheFlush, originHopCount, IsActivePeer]
  constructor
  · rintro ⟨r, ⟨hr, hn, ha, hi⟩, rfl⟩
    exact ⟨⟨r, hr, rfl, hn, ha, hi⟩, rfl⟩
  · rintro ⟨⟨r, hr, hid, hn, ha, hi⟩, hm⟩
    refine ⟨r, ⟨hr, hn, ha, hid ▸ hi⟩, ?_⟩
    rw [hm, hid]

/-- no request is addressed to the sender itself -/
theorem C29_never_to_self (self : Nat) (cl : Option Nat) (db hook on notify : Bool) (t : List Row) (c : Int)
    (pid : Option Nat) (m : Msg) (h : m ∈ (purgeNode self cl db hook on notify t c pid).2.2) : m.dest ≠ self := by
  unfold purgeNode at h
  simp only at h
  split at h
  · unfold broadcastCacheFlush at h
    cases cl with
    | none => simp at h
    | some k =>
      cases db <;> simp at h
      obtain ⟨r, hr, rfl⟩ := h
      exact (mem_listActiveMembers.1 hr).2.2.2
  · simp at h

theorem count_dest_le_one (l : List Row) (f : Row → Msg) (hf : ∀ r, (f r).dest = r.id)
    (hnd : (l.map Row.id).Nodup) (p : Nat) : ((l.map f).filter (fun m => m.dest == p)).length ≤ 1 := by
  induction l with
  | nil => simp
  | cons r l ih =>
    have hc := List.nodup_cons.1 (by simpa using hnd : (r.id :: l.map Row.id).Nodup)
    have ih := ih hc.2
    simp only [List.map_cons, List.filter_cons]
    by_cases h3 : (f r).dest == p
    · simp only [h3, if_true, List.length_cons]
      have hp : r.id = p := by rw [← hf r]; simpa using h3
      have : ((l.map f).filter (fun m => m.dest == p)) = [] := by
        rw [List.filter_eq_nil_iff]
        intro m hm
        obtain ⟨q, hq, rfl⟩ := List.mem_map.1 hm
        simp only [beq_iff_eq, hf q]
        intro hqp
        exact hc.1 (by rw [hp, ← hqp]; exact List.mem_map_of_mem hq)
      simp [this]
    · simp only [h3]
      simpa using ih

/-- with a primary key on node_id, a peer receives at most ONE request per purge -/
theorem C29_at_most_once (self : Nat) (cl : Option Nat) (db hook on notify : Bool) (t : List Row) (c : Int)
    (pid : Option Nat) (hnd : (t.map Row.id).Nodup) (p : Nat) :
    ((purgeNode self cl db hook on notify t c pid).2.2.filter (fun m => m.dest == p)).length ≤ 1 := by
  unfold purgeNode
  simp only
  split
  · unfold broadcastCacheFlush
    cases cl with
    | none => simp
    | some k =>
      cases db
      · simp
      · simp only [Bool.not_true, Bool.false_eq_true, if_false]
        apply count_dest_le_one _ _ (fun r => rfl)
        have hsub : (listActiveMembers self k t).Sublist t :=
          (List.filter_sublist).trans List.filter_sublist
        exact (hsub.map Row.id).nodup hnd
  · simp

/-- **C29_no_rebroadcast (per node).** Whatever request arrives — any token, body, hop count, cache — and
    whatever the configuration, FlushCacheHandler fires no hook and sends no request. -/
theorem C29_no_rebroadcast (self : Nat) (cl : Option Nat) (db hook on : Bool) (t : List Row) (m : Msg) :
    (flushHandler self cl db hook on t m).2.2.1 = false ∧ (flushHandler self cl db hook on t m).2.2.2 = [] := by
  unfold flushHandler purgeNode cachePurge
  split
  · simp
  · split
    · simp
    · split
      · simp
      · cases on <;> simp

/-- the same through the router: refusing at the media check sends nothing either -/
theorem C29_no_rebroadcast_routed (self : Nat) (cl : Option Nat) (db hook on : Bool) (t : List Row) (m : Msg) :
    (routeFlush self cl db hook on t m).2.2.1 = false ∧ (routeFlush self cl db hook on t m).2.2.2 = [] := by
  unfold routeFlush
  split
  · simp
  · exact C29_no_rebroadcast self cl db hook on t m

/-- the handler discards the cache iff the request is authentic, well formed and within the hop limit -/
theorem flushHandler_purged_iff (self : Nat) (cl : Option Nat) (db hook : Bool) (t : List Row) (m : Msg) :
    (flushHandler self cl db hook true t m).2.1 = true ↔
      (validateClusterToken cl m.tok = true ∧ m.wf = true ∧ m.hops ≤ maxFlushHops) := by
  unfold flushHandler purgeNode cachePurge
  by_cases h1 : validateClusterToken cl m.tok <;> by_cases h2 : m.wf <;> by_cases h3 : m.hops > maxFlushHops <;>
    simp [h1, h2, h3] <;> omega

/-- through the router the cache is discarded iff, in addition, the Accept header is admitted -/
theorem routeFlush_purged_iff (self : Nat) (cl : Option Nat) (db hook : Bool) (t : List Row) (m : Msg) :
    (routeFlush self cl db hook true t m).2.1 = true ↔
      (m.accept = true ∧ validateClusterToken cl m.tok = true ∧ m.wf = true ∧ m.hops ≤ maxFlushHops) := by
  unfold routeFlush
  cases ha : m.accept
  · simp
  · simp [flushHandler_purged_iff]

/-- a request without an admitted Accept header never reaches the handler: nothing is discarded -/
theorem C29_no_accept_refused (self : Nat) (cl : Option Nat) (db hook on : Bool) (t : List Row) (m : Msg)
    (h : m.accept = false) :
    (routeFlush self cl db hook on t m).1 = .notAcceptable ∧ (routeFlush self cl db hook on t m).2.1 = false := by
  simp [routeFlush, h]

/-- a request over the hop limit is answered 200 and ignored -/
theorem C29_hop_limit (self : Nat) (cl : Option Nat) (db hook on : Bool) (t : List Row) (m : Msg)
    (h : m.hops > maxFlushHops) : (flushHandler self cl db hook on t m).2.1 = false := by
  unfold flushHandler
  split
  · rfl
  · split
    · rfl
    · rfl

/-! ## the N-node system -/

theorem step_cluster (s : State) (st : Step) : (step s st).cluster = s.cluster := by
  cases st <;> simp only [step] <;> (try split) <;> rfl

theorem step_table_length (s : State) (st : Step) : (step s st).table.length = s.table.length := by
  cases st <;> simp only [step] <;> (try split) <;> simp

theorem step_table_ids (s : State) (st : Step) : (step s st).table.map Row.id = s.table.map Row.id := by
  cases st <;> simp only [step] <;> (try split) <;> try rfl
  simp only [List.map_map]
  apply List.map_congr_left
  intro r _
  simp only [Function.comp]
  split <;> rfl

/-- **C29_no_rebroadcast (system).** A delivery never sends: the count of sent requests is unchanged and the
    requests in flight only shrink (by exactly one when the index is valid). -/
theorem C29_deliver_never_sends (s : State) (i : Nat) :
    (step s (.deliver i)).sent = s.sent ∧
    (∀ m ∈ (step s (.deliver i)).net, m ∈ s.net) ∧
    (i < s.net.length → (step s (.deliver i)).net.length + 1 = s.net.length) := by
  simp only [step]
  cases h : s.net[i]? with
  | none =>
    refine ⟨rfl, fun m hm => hm, fun hi => ?_⟩
    have := List.getElem?_eq_none_iff.1 h
    omega
  | some m =>
    have hnr := C29_no_rebroadcast_routed m.dest (s.cluster m.dest) true (s.cluster m.dest).isSome true s.table m
    simp only [hnr.2, List.append_nil, List.length_nil, Nat.add_zero, true_and]
    refine ⟨fun m' hm' => List.mem_of_mem_eraseIdx hm', fun hi => ?_⟩
    rw [List.length_eraseIdx]
    simp [hi]; omega

/-- only a purge step ever sends -/
theorem C29_only_purge_sends (s : State) (st : Step) (h : st.isPurge = false) : (step s st).sent = s.sent := by
  cases st with
  | purge n c => simp [Step.isPurge] at h
  | deliver i => exact (C29_deliver_never_sends s i).1
  | drop i => simp only [step]; split <;> rfl
  | fill n c => rfl
  | setActive id b => rfl
  | inject m => rfl

/-- **C29_bounded (system, one purge).** A purge step sends at most `peerCount` requests. -/
theorem C29_purge_step_bounded (s : State) (n : Nat) (c : Int) :
    (step s (.purge n c)).sent ≤ s.sent + peerCount n s.table := by
  simp only [step, nodePurge]
  have := C29_purge_bounded n (s.cluster n) true (s.cluster n).isSome true true s.table c (some s.purges)
  omega

theorem run_table_length (s : State) (steps : List Step) : (run s steps).table.length = s.table.length := by
  induction steps generalizing s with
  | nil => rfl
  | cons st rest ih => simp only [run]; rw [ih, step_table_length]

theorem run_table_ids (s : State) (steps : List Step) : (run s steps).table.map Row.id = s.table.map Row.id := by
  induction steps generalizing s with
  | nil => rfl
  | cons st rest ih => simp only [run]; rw [ih, step_table_ids]

/-- **C29_bounded (total).** Over ANY step sequence the requests sent are at most purges × table size. -/
theorem C29_total_bounded (s : State) (steps : List Step) :
    (run s steps).sent ≤ s.sent + purgeCount steps * s.table.length := by
  induction steps generalizing s with
  | nil => simp [run, purgeCount]
  | cons st rest ih =>
    simp only [run]
    have ih' := ih (step s st)
    rw [step_table_length] at ih'
    cases hp : st.isPurge with
    | false =>
      have h1 := C29_only_purge_sends s st hp
      have : purgeCount (st :: rest) = purgeCount rest := by simp [purgeCount, hp]
      rw [this]; omega
    | true =>
      cases st with
      | purge n c =>
        have h1 := C29_purge_step_bounded s n c
        have h2 := peerCount_le_length n s.table
        have : purgeCount (Step.purge n c :: rest) = purgeCount rest + 1 := by
          simp [purgeCount, List.filter_cons, Step.isPurge]
        rw [this, Nat.add_mul]; omega
      | _ => simp [Step.isPurge] at hp

/-- every purging node of the sequence has its own row in the table (true after cluster.Initialize: upsertMember) -/
def PurgersHaveRows (t : List Row) (steps : List Step) : Prop :=
  ∀ n c, Step.purge n c ∈ steps → n ∈ t.map Row.id

/-- **C29_bounded (total, sharp).** In an N-row cluster, `k` purges send at most `k × (N-1)` requests, whatever
    else happens in between. -/
theorem C29_total_bounded_peers (s : State) (steps : List Step) (h : PurgersHaveRows s.table steps) :
    (run s steps).sent ≤ s.sent + purgeCount steps * (s.table.length - 1) := by
  induction steps generalizing s with
  | nil => simp [run, purgeCount]
  | cons st rest ih =>
    simp only [run]
    have hrest : PurgersHaveRows (step s st).table rest := by
      intro n c hm
      have := h n c (List.mem_cons_of_mem _ hm)
      rw [step_table_ids]; exact this
    have ih' := ih (step s st) hrest
    rw [step_table_length] at ih'
    cases hp : st.isPurge with
    | false =>
      have h1 := C29_only_purge_sends s st hp
      have : purgeCount (st :: rest) = purgeCount rest := by simp [purgeCount, hp]
      rw [this]; omega
    | true =>
      cases st with
      | purge n c =>
        have h1 := C29_purge_step_bounded s n c
        have h2 := peerCount_lt_of_mem (h n c (List.mem_cons_self))
        have : purgeCount (Step.purge n c :: rest) = purgeCount rest + 1 := by
          simp [purgeCount, List.filter_cons, Step.isPurge]
        rw [this, Nat.add_mul]; omega
      | _ => simp [Step.isPurge] at hp

/-! ## quiescence -/

def Step.isTransport : Step → Bool
  | .deliver _ => true
  | .drop _ => true
  | _ => false

/-- Once purges stop, deliveries and losses can only drain the network: nothing is ever added, so the cluster
    goes quiet after at most `|net|` effective steps. -/
theorem C29_quiescent (s : State) (steps : List Step) (h : ∀ st ∈ steps, st.isTransport = true) :
    (run s steps).sent = s.sent ∧ (run s steps).net.length ≤ s.net.length := by
  induction steps generalizing s with
  | nil => simp [run]
  | cons st rest ih =>
    simp only [run]
    have ih' := ih (step s st) (fun x hx => h x (List.mem_cons_of_mem _ hx))
    have hst := h st List.mem_cons_self
    cases st with
    | deliver i =>
      have hd := C29_deliver_never_sends s i
      by_cases hi : i < s.net.length
      · have := hd.2.2 hi; omega
      · have hnone : s.net[i]? = none := List.getElem?_eq_none_iff.2 (by omega)
        have : step s (.deliver i) = s := by simp [step, hnone]
        rw [this] at ih' ⊢; exact ih'
    | drop i =>
      have hs : (step s (.drop i)).sent = s.sent := by simp only [step]; split <;> rfl
      have hn : (step s (.drop i)).net.length ≤ s.net.length := by
        simp only [step]; split
        · exact Nat.le_refl _
        · simp [List.length_eraseIdx]; split <;> omega
      omega
    | purge n c => simp [Step.isTransport] at hst
    | fill n c => simp [Step.isTransport] at hst
    | setActive id b => simp [Step.isTransport] at hst
    | inject m => simp [Step.isTransport] at hst

/-! ## completeness -/

/-- every row was written by its own node from its own ClusterName (cluster.Initialize → upsertMember), so the
    process with node id `r.id` runs with ClusterName `r.name` -/
def Consistent (cluster : Nat → Option Nat) (t : List Row) : Prop :=
  ∀ r ∈ t, cluster r.id = some r.name

/-- an in-flight request of purge `rec` for peer `p` that `p` will accept and act on -/
def Good (s : State) (rec : PurgeRec) (p : Nat) (m : Msg) : Prop :=
  m.dest = p ∧ m.cache = rec.cache ∧ m.pid = some rec.pid ∧ m.wf = true ∧ m.accept = true ∧ m.hops = 1 ∧
    m.tok.isSome = true ∧ s.cluster p = m.tok

/-- peer `p` has been taken care of for purge `rec`: its request is still in flight, was lost, or made `p`
    discard the cache -/
def Served (s : State) (rec : PurgeRec) (p : Nat) : Prop :=
  (∃ m ∈ s.net, Good s rec p m) ∨ Ev.dropped (some rec.pid) p ∈ s.log ∨
    Ev.discard p rec.cache (some rec.pid) ∈ s.log

def Inv (s : State) : Prop :=
  ∀ rec ∈ s.hist, ∀ k, s.cluster rec.origin = some k → ∀ p, IsActivePeer rec.origin k rec.table p →
    Served s rec p

theorem Served.mono {s s' : State} {rec : PurgeRec} {p : Nat} (h : Served s rec p)
    (hc : s'.cluster = s.cluster) (hn : ∀ m ∈ s.net, m ∈ s'.net) (hl : ∀ e ∈ s.log, e ∈ s'.log) :
    Served s' rec p := by
  rcases h with ⟨m, hm, hg⟩ | h | h
  · exact Or.inl ⟨m, hn m hm, by simpa [Good, hc] using hg⟩
  · exact Or.inr (Or.inl (hl _ h))
  · exact Or.inr (Or.inr (hl _ h))

theorem mem_eraseIdx_of_ne {l : List Msg} {i : Nat} {m m' : Msg} (hi : l[i]? = some m) (hm : m' ∈ l)
    (hne : m' ≠ m) : m' ∈ l.eraseIdx i := by
  rw [List.mem_eraseIdx_iff_getElem?]
  obtain ⟨j, hj⟩ := List.mem_iff_getElem?.1 hm
  refine ⟨j, ?_, hj⟩
  intro hji
  subst hji
  rw [hi] at hj
  exact hne (Option.some.inj hj).symm

theorem consistent_step (s : State) (st : Step) (h : Consistent s.cluster s.table) :
    Consistent (step s st).cluster (step s st).table := by
  rw [step_cluster]
  cases st <;> simp only [step] <;> (try split) <;> try exact h
  intro r hr
  simp only [List.mem_map] at hr
  obtain ⟨q, hq, rfl⟩ := hr
  have := h q hq
  split <;> simpa using this

theorem inv_step (s : State) (st : Step) (hc : Consistent s.cluster s.table) (h : Inv s) : Inv (step s st) := by
  cases st with
  | purge n c =>
    intro rec hrec k hk p hp
    have hcl : (step s (.purge n c)).cluster = s.cluster := step_cluster _ _
    rw [hcl] at hk
    simp only [step, List.mem_cons] at hrec
    rcases hrec with rfl | hrec
    · -- the new purge: its request for p is now in flight
      simp only at hk hp
      refine Or.inl ?_
      obtain ⟨r, hr, hid, hname, hact, hne⟩ := hp
      refine ⟨sendCacheFlush n k r c originHopCount (some s.purges), ?_, ?_⟩
      · simp only [step, nodePurge, hk, Option.isSome_some]
        apply List.mem_append_right
        rw [C29_purge_targets_exact]
        exact ⟨⟨r, hr, rfl, hname, hact, by show r.id ≠ n; rw [hid]; exact hne⟩, rfl⟩
      · have := hc r hr
        refine ⟨hid, rfl, rfl, rfl, rfl, rfl, rfl, ?_⟩
        show s.cluster p = some k
        rw [← hid, this, hname]
    · refine (h rec hrec k hk p hp).mono hcl ?_ ?_
      · intro m hm; simp only [step]; exact List.mem_append_left _ hm
      · intro e he; simp only [step]; split
        · exact List.mem_cons_of_mem _ he
        · exact he
  | deliver i =>
    intro rec hrec k hk p hp
    have hcl : (step s (.deliver i)).cluster = s.cluster := step_cluster _ _
    rw [hcl] at hk
    cases hi : s.net[i]? with
    | none =>
      have : step s (.deliver i) = s := by simp [step, hi]
      rw [this] at hrec ⊢
      exact h rec hrec k hk p hp
    | some m =>
      have hrec' : rec ∈ s.hist := by simpa [step, hi] using hrec
      have hnr := C29_no_rebroadcast_routed m.dest (s.cluster m.dest) true (s.cluster m.dest).isSome true s.table m
      rcases h rec hrec' k hk p hp with ⟨m', hm', hg⟩ | hd | hd
      · by_cases hmm : m' = m
        · subst hmm
          obtain ⟨hdest, hcache, hpid, hwf, hacpt, hhops, htok, hcp⟩ := hg
          have hacc : (routeFlush m'.dest (s.cluster m'.dest) true (s.cluster m'.dest).isSome true s.table m').2.1
              = true := by
            rw [routeFlush_purged_iff]
            refine ⟨hacpt, ?_, hwf, by rw [hhops]; decide⟩
            rw [hdest, hcp]
            cases ht : m'.tok with
            | none => simp [ht] at htok
            | some q => simp [validateClusterToken]
          refine Or.inr (Or.inr ?_)
          simp only [step, hi, hacc, if_true]
          rw [hdest, hcache, hpid]
          exact List.mem_cons_self
        · refine Or.inl ⟨m', ?_, by simpa [Good, hcl] using hg⟩
          simp only [step, hi, hnr.2, List.append_nil]
          exact mem_eraseIdx_of_ne hi hm' hmm
      · refine Or.inr (Or.inl ?_)
        simp only [step, hi]; split <;> exact List.mem_cons_of_mem _ hd
      · refine Or.inr (Or.inr ?_)
        simp only [step, hi]; split <;> exact List.mem_cons_of_mem _ hd
  | drop i =>
    intro rec hrec k hk p hp
    have hcl : (step s (.drop i)).cluster = s.cluster := step_cluster _ _
    rw [hcl] at hk
    cases hi : s.net[i]? with
    | none =>
      have : step s (.drop i) = s := by simp [step, hi]
      rw [this] at hrec ⊢
      exact h rec hrec k hk p hp
    | some m =>
      have hrec' : rec ∈ s.hist := by simpa [step, hi] using hrec
      rcases h rec hrec' k hk p hp with ⟨m', hm', hg⟩ | hd | hd
      · by_cases hmm : m' = m
        · subst hmm
          obtain ⟨hdest, _, hpid, _⟩ := hg
          refine Or.inr (Or.inl ?_)
          simp only [step, hi]
          rw [hdest, hpid]
          exact List.mem_cons_self
        · refine Or.inl ⟨m', ?_, by simpa [Good, hcl] using hg⟩
          simp only [step, hi]
          exact mem_eraseIdx_of_ne hi hm' hmm
      · exact Or.inr (Or.inl (by simp only [step, hi]; exact List.mem_cons_of_mem _ hd))
      · exact Or.inr (Or.inr (by simp only [step, hi]; exact List.mem_cons_of_mem _ hd))
  | fill n c =>
    intro rec hrec k hk p hp
    exact (h rec hrec k hk p hp).mono rfl (fun _ hm => hm) (fun _ he => he)
  | setActive id b =>
    intro rec hrec k hk p hp
    exact (h rec hrec k hk p hp).mono rfl (fun _ hm => hm) (fun _ he => he)
  | inject m =>
    intro rec hrec k hk p hp
    refine (h rec hrec k hk p hp).mono rfl (fun x hx => ?_) (fun _ he => he)
    simp only [step]; exact List.mem_append_left _ hx

theorem inv_run (s : State) (steps : List Step) (hc : Consistent s.cluster s.table) (h : Inv s) :
    Inv (run s steps) := by
  induction steps generalizing s with
  | nil => exact h
  | cons st rest ih => exact ih (step s st) (consistent_step s st hc) (inv_step s st hc h)

theorem run_cluster (s : State) (steps : List Step) : (run s steps).cluster = s.cluster := by
  induction steps generalizing s with
  | nil => rfl
  | cons st rest ih => simp only [run]; rw [ih, step_cluster]

/-- **C29_complete.** Start any cluster (any table consistent with the processes' configuration, nothing in
    flight) and run ANY step sequence. For every purge that was originated on a clustered node and every peer
    that was active in the table that purge read: if none of the purge's requests is still in flight and none was
    lost, then that peer discarded that cache because of that purge. -/
theorem C29_complete (cluster : Nat → Option Nat) (t : List Row) (hc : Consistent cluster t)
    (steps : List Step) (rec : PurgeRec) (hrec : rec ∈ (run (init cluster t) steps).hist)
    (k : Nat) (hk : cluster rec.origin = some k) (p : Nat) (hp : IsActivePeer rec.origin k rec.table p)
    (hflight : ∀ m ∈ (run (init cluster t) steps).net, m.pid ≠ some rec.pid)
    (hlost : ∀ d, Ev.dropped (some rec.pid) d ∉ (run (init cluster t) steps).log) :
    Ev.discard p rec.cache (some rec.pid) ∈ (run (init cluster t) steps).log := by
  have hinv : Inv (run (init cluster t) steps) :=
    inv_run (init cluster t) steps hc (by intro rec hrec; simp [init] at hrec)
  have hk' : (run (init cluster t) steps).cluster rec.origin = some k := by rw [run_cluster]; exact hk
  rcases hinv rec hrec k hk' p hp with ⟨m, hm, hg⟩ | hd | hd
  · exact absurd hg.2.2.1 (hflight m hm)
  · exact absurd hd (hlost p)
  · exact hd

theorem hist_mono (s : State) (steps : List Step) (rec : PurgeRec) (h : rec ∈ s.hist) :
    rec ∈ (run s steps).hist := by
  induction steps generalizing s with
  | nil => exact h
  | cons st rest ih =>
    apply ih
    cases st <;> simp only [step] <;> (try split) <;> first | exact h | exact List.mem_cons_of_mem _ h

theorem run_append (s : State) (a b : List Step) : run s (a ++ b) = run (run s a) b := by
  induction a generalizing s with
  | nil => rfl
  | cons st rest ih => simp only [List.cons_append, run]; exact ih _

/-- **C29_complete, trace form.** For the purge `purge n c` that happens after `pre` and before `post` (any
    sequences): every peer active in the table at that moment ends up with the discard event, unless one of the
    requests of that purge is still in flight or was lost. -/
theorem C29_complete_trace (cluster : Nat → Option Nat) (t : List Row) (hc : Consistent cluster t)
    (pre post : List Step) (n : Nat) (c : Int) (k : Nat) (hk : cluster n = some k) (p : Nat) :
    let s1 := run (init cluster t) pre
    let s := run (init cluster t) (pre ++ Step.purge n c :: post)
    IsActivePeer n k s1.table p →
    (∀ m ∈ s.net, m.pid ≠ some s1.purges) → (∀ d, Ev.dropped (some s1.purges) d ∉ s.log) →
    Ev.discard p c (some s1.purges) ∈ s.log := by
  intro s1 s hp hflight hlost
  have hsplit : s = run (step s1 (.purge n c)) post := by
    show run (init cluster t) (pre ++ Step.purge n c :: post) = _
    rw [run_append]; rfl
  have hrec : ({ pid := s1.purges, origin := n, cache := c, table := s1.table } : PurgeRec) ∈ s.hist := by
    rw [hsplit]
    apply hist_mono
    simp [step]
  exact C29_complete cluster t hc _ _ hrec k hk p hp hflight hlost

/-- when a delivered request is acted on, the destination's cache is empty afterwards -/
theorem C29_deliver_discards (s : State) (i : Nat) (m : Msg) (hi : s.net[i]? = some m)
    (hacpt : m.accept = true) (htok : validateClusterToken (s.cluster m.dest) m.tok = true) (hwf : m.wf = true)
    (hh : m.hops ≤ maxFlushHops) :
    (step s (.deliver i)).filled m.dest m.cache = false := by
  have hacc := (routeFlush_purged_iff m.dest (s.cluster m.dest) true (s.cluster m.dest).isSome s.table m).2
    ⟨hacpt, htok, hwf, hh⟩
  simp [step, hi, hacc, setFilled]

/-- a purge empties the origin's own cache -/
theorem C29_purge_discards_local (s : State) (n : Nat) (c : Int) :
    (step s (.purge n c)).filled n c = false := by
  simp [step, nodePurge, purgeNode, cachePurge, setFilled]

/-! ## the hop limit is never reached by the protocol's own requests -/

def HopsOne (s : State) : Prop := ∀ m ∈ s.net, m.pid.isSome = true → m.hops = 1

theorem hopsOne_step (s : State) (st : Step) (h : HopsOne s) : HopsOne (step s st) := by
  cases st with
  | purge n c =>
    intro m hm hp
    simp only [step, List.mem_append] at hm
    rcases hm with hm | hm
    · exact h m hm hp
    · simp only [nodePurge, purgeNode] at hm
      split at hm
      · unfold broadcastCacheFlush at hm
        cases hcl : s.cluster n with
        | none => simp [hcl] at hm
        | some k =>
          simp only [hcl, Bool.not_true, Bool.false_eq_true, if_false, List.mem_map] at hm
          obtain ⟨r, _, rfl⟩ := hm
          rfl
      · simp at hm
  | deliver i =>
    intro m hm hp
    exact h m ((C29_deliver_never_sends s i).2.1 m hm) hp
  | drop i =>
    intro m hm hp
    simp only [step] at hm
    split at hm
    · exact h m hm hp
    · exact h m (List.mem_of_mem_eraseIdx hm) hp
  | fill n c => exact h
  | setActive id b => exact h
  | inject m0 =>
    intro m hm hp
    simp only [step, List.mem_append, List.mem_singleton] at hm
    rcases hm with hm | rfl
    · exact h m hm hp
    · simp at hp

/-- **C29_hops_one.** In every reachable state every request produced by the protocol carries hop count 1:
    the `maxFlushHops` circuit breaker never trips on it. -/
theorem C29_hops_one (cluster : Nat → Option Nat) (t : List Row) (steps : List Step) :
    ∀ m ∈ (run (init cluster t) steps).net, m.pid.isSome = true → m.hops = 1 ∧ m.hops ≤ maxFlushHops := by
  have : HopsOne (run (init cluster t) steps) := by
    generalize hs : init cluster t = s0
    have h0 : HopsOne s0 := by subst hs; intro m hm; simp [init] at hm
    clear hs
    induction steps generalizing s0 with
    | nil => exact h0
    | cons st rest ih => exact ih (step s0 st) (hopsOne_step s0 st h0)
  intro m hm hp
  have h1 := this m hm hp
  exact ⟨h1, by rw [h1]; decide⟩

/-! ## the ghost tags are faithful: "the requests of purge q" is well defined -/

/-- purge numbers are fresh and distinct, and every tagged request in flight was produced by the recorded purge
    with that number (same cache, sent by its origin) -/
def TagsOK (s : State) : Prop :=
  (∀ rec ∈ s.hist, rec.pid < s.purges) ∧ (s.hist.map PurgeRec.pid).Nodup ∧
  (∀ m ∈ s.net, ∀ q, m.pid = some q → ∃ rec ∈ s.hist, rec.pid = q ∧ m.cache = rec.cache ∧ m.sender = rec.origin)

theorem tagsOK_step (s : State) (st : Step) (h : TagsOK s) : TagsOK (step s st) := by
  obtain ⟨h1, h2, h3⟩ := h
  cases st with
  | purge n c =>
    refine ⟨?_, ?_, ?_⟩
    · intro rec hrec
      simp only [step, List.mem_cons] at hrec ⊢
      rcases hrec with rfl | hrec
      · exact Nat.lt_succ_self _
      · exact Nat.lt_succ_of_lt (h1 rec hrec)
    · simp only [step, List.map_cons, List.nodup_cons]
      refine ⟨?_, h2⟩
      intro hmem
      obtain ⟨rec, hrec, hp⟩ := List.mem_map.1 hmem
      have := h1 rec hrec
      omega
    · intro m hm q hq
      simp only [step, List.mem_append] at hm
      rcases hm with hm | hm
      · obtain ⟨rec, hrec, hr⟩ := h3 m hm q hq
        exact ⟨rec, by simp only [step]; exact List.mem_cons_of_mem _ hrec, hr⟩
      · refine ⟨{ pid := s.purges, origin := n, cache := c, table := s.table }, by simp [step], ?_⟩
        simp only [nodePurge, purgeNode] at hm
        split at hm
        · unfold broadcastCacheFlush at hm
          cases hcl : s.cluster n with
          | none => simp [hcl] at hm
          | some k =>
            simp only [hcl, Bool.not_true, Bool.false_eq_true, if_false, List.mem_map] at hm
            obtain ⟨r, _, rfl⟩ := hm
            simp only [sendCacheFlush] at hq
            exact ⟨(Option.some.inj hq), rfl, rfl⟩
        · simp at hm
  | deliver i =>
    have hsub := (C29_deliver_never_sends s i).2.1
    refine ⟨?_, ?_, ?_⟩
    · intro rec hrec
      have : (step s (.deliver i)).hist = s.hist := by simp only [step]; split <;> rfl
      have hp : (step s (.deliver i)).purges = s.purges := by simp only [step]; split <;> rfl
      rw [this] at hrec; rw [hp]; exact h1 rec hrec
    · have : (step s (.deliver i)).hist = s.hist := by simp only [step]; split <;> rfl
      rw [this]; exact h2
    · intro m hm q hq
      have : (step s (.deliver i)).hist = s.hist := by simp only [step]; split <;> rfl
      rw [this]; exact h3 m (hsub m hm) q hq
  | drop i =>
    have hh : (step s (.drop i)).hist = s.hist := by simp only [step]; split <;> rfl
    have hp : (step s (.drop i)).purges = s.purges := by simp only [step]; split <;> rfl
    refine ⟨by rw [hh, hp]; exact h1, by rw [hh]; exact h2, ?_⟩
    intro m hm q hq
    rw [hh]
    simp only [step] at hm
    split at hm
    · exact h3 m hm q hq
    · exact h3 m (List.mem_of_mem_eraseIdx hm) q hq
  | fill n c => exact ⟨h1, h2, h3⟩
  | setActive id b => exact ⟨h1, h2, h3⟩
  | inject m0 =>
    refine ⟨h1, h2, ?_⟩
    intro m hm q hq
    simp only [step, List.mem_append, List.mem_singleton] at hm
    rcases hm with hm | rfl
    · exact h3 m hm q hq
    · simp at hq

/-- **C29_tags_faithful.** In every reachable state, purge numbers are distinct and every request tagged `q`
    was sent by the origin of purge `q` for the cache of purge `q`. -/
theorem C29_tags_faithful (cluster : Nat → Option Nat) (t : List Row) (steps : List Step) :
    TagsOK (run (init cluster t) steps) := by
  generalize hs : init cluster t = s0
  have h0 : TagsOK s0 := by
    subst hs
    exact ⟨by intro r hr; simp [init] at hr, by simp [init], by intro m hm; simp [init] at hm⟩
  clear hs
  induction steps generalizing s0 with
  | nil => exact h0
  | cons st rest ih => exact ih (step s0 st) (tagsOK_step s0 st h0)

/-! ## non-vacuity: concrete clusters meeting the hypotheses, and the contrast with the pre-fix handler -/

/-- four nodes of cluster 7 (node 2 evicted), one node of another cluster in the same database, node 5 standalone -/
def exCluster : Nat → Option Nat := fun i => if i < 4 then some 7 else if i = 9 then some 8 else none
def exTable : List Row :=
  [⟨0, 7, true⟩, ⟨1, 7, true⟩, ⟨2, 7, false⟩, ⟨3, 7, true⟩, ⟨9, 8, true⟩]

example : Consistent exCluster exTable := by
  intro r hr
  simp only [exTable, List.mem_cons, List.not_mem_nil, or_false] at hr
  rcases hr with rfl | rfl | rfl | rfl | rfl <;> rfl

example : IsActivePeer 0 7 exTable 1 ∧ IsActivePeer 0 7 exTable 3 ∧ ¬ IsActivePeer 0 7 exTable 2 ∧
    ¬ IsActivePeer 0 7 exTable 9 ∧ ¬ IsActivePeer 0 7 exTable 0 := by
  refine ⟨⟨⟨1, 7, true⟩, by simp [exTable], rfl, rfl, rfl, by decide⟩,
          ⟨⟨3, 7, true⟩, by simp [exTable], rfl, rfl, rfl, by decide⟩, ?_, ?_, ?_⟩ <;>
  · rintro ⟨r, hr, h1, h2, h3, h4⟩
    simp only [exTable, List.mem_cons, List.not_mem_nil, or_false] at hr
    rcases hr with rfl | rfl | rfl | rfl | rfl <;> simp_all

example : PurgersHaveRows exTable [.purge 0 5, .deliver 0, .purge 3 2] := by
  intro n c h
  simp only [List.mem_cons, List.not_mem_nil, or_false] at h
  rcases h with h | h | h
  · cases h; decide
  · cases h
  · cases h; decide

/-- purge on node 0, both requests delivered (in reverse order): 2 requests for 2 active peers out of 4 known
    peers, both peers emptied the cache, nothing left in flight, nothing lost — the hypotheses of `C29_complete`
    are met and so is its conclusion. -/
example :
    let s := run (init exCluster exTable) [.fill 1 5, .fill 3 5, .fill 2 5, .purge 0 5, .deliver 1, .deliver 0]
    s.sent = 2 ∧ s.net = [] ∧ peerCount 0 exTable = 4 ∧
    Ev.discard 1 5 (some 0) ∈ s.log ∧ Ev.discard 3 5 (some 0) ∈ s.log ∧
    (∀ d ∈ [0, 1, 2, 3, 9], Ev.dropped (some 0) d ∉ s.log) ∧
    s.filled 1 5 = false ∧ s.filled 3 5 = false ∧ s.filled 2 5 = true := by
  decide

/-- a lost request is recorded as lost, and the peer keeps its stale cache: the hypothesis "nothing lost" of
    `C29_complete` cannot be dropped -/
example :
    let s := run (init exCluster exTable) [.fill 1 5, .purge 0 5, .drop 0, .deliver 0]
    s.net = [] ∧ Ev.dropped (some 0) 1 ∈ s.log ∧ Ev.discard 1 5 (some 0) ∉ s.log ∧ s.filled 1 5 = true := by
  decide

/-- requests from outside: wrong cluster token → 401, hop count 5 → ignored, hop count 4 and 0 → applied -/
example :
    (flushHandler 1 (some 7) true true true exTable ⟨1, 5, 0, 1, some 8, true, true, none⟩).1 = .unauthorized ∧
    (flushHandler 1 (some 7) true true true exTable ⟨1, 5, 0, 5, some 7, true, true, none⟩).1 = .hopLimit ∧
    (flushHandler 1 (some 7) true true true exTable ⟨1, 5, 0, 4, some 7, true, true, none⟩).1 = .purged ∧
    (flushHandler 1 (some 7) true true true exTable ⟨1, 5, 0, 0, some 7, true, true, none⟩).1 = .purged ∧
    (flushHandler 1 (some 7) true true true exTable ⟨1, 5, 0, 1, some 7, false, true, none⟩).1 = .badRequest ∧
    (flushHandler 5 none true true true exTable ⟨5, 5, 0, 1, some 7, true, true, none⟩).1 = .unauthorized ∧
    (routeFlush 1 (some 7) true true true exTable ⟨1, 5, 0, 1, some 7, true, false, none⟩).1 = .notAcceptable := by
  decide

/-- The sender WITHOUT fixes/C29.patch: SendCacheFlush sets no Accept header, so every request it produces is
    refused by the receiving router. Only used to show what the patch repairs. -/
def stepUnpatched (s : State) : Step → State
  | .purge n c =>
    let s' := step s (.purge n c)
    { s' with net := s.net ++ ((s'.net.drop s.net.length).map fun m => { m with accept := false }) }
  | st => step s st

def runUnpatched (s : State) : List Step → State
  | [] => s
  | st :: rest => runUnpatched (stepUnpatched s st) rest

/-- **Counterexample for the code as shipped.** Two active peers hold cache 5; node 0 purges it; both requests
    are delivered (nothing in flight, nothing lost) — and both peers still hold the stale cache: each request
    was answered 400 by the router. With the patch (`run`) the same schedule empties both. -/
theorem C29_unpatched_incomplete_counterexample :
    let sched := [Step.fill 1 5, .fill 3 5, .purge 0 5, .deliver 0, .deliver 0]
    let u := runUnpatched (init exCluster exTable) sched
    let s := run (init exCluster exTable) sched
    u.net = [] ∧ u.sent = 2 ∧ (∀ d ∈ [0, 1, 2, 3, 9], Ev.dropped (some 0) d ∉ u.log) ∧
    Ev.refused (some 0) 1 .notAcceptable ∈ u.log ∧ Ev.refused (some 0) 3 .notAcceptable ∈ u.log ∧
    Ev.discard 1 5 (some 0) ∉ u.log ∧ u.filled 1 5 = true ∧ u.filled 3 5 = true ∧
    s.net = [] ∧ Ev.discard 1 5 (some 0) ∈ s.log ∧ s.filled 1 5 = false ∧ s.filled 3 5 = false := by
  decide

/-- The handler as it was before CLUSTER-1: it applied a received flush with caches.Purge (notify = true).
    Only used to show what the theorems rule out. -/
def stepPreFix (s : State) : Step → State
  | .deliver i =>
    match s.net[i]? with
    | none => s
    | some m =>
      let r := nodePurge s m.dest true m.cache m.pid
      { s with net := s.net.eraseIdx i ++ r.2.2, sent := s.sent + r.2.2.length }
  | st => step s st

def runPreFix (s : State) : List Step → State
  | [] => s
  | st :: rest => runPreFix (stepPreFix s st) rest

/-- ONE purge in the 3-active-node cluster, then 12 deliveries: the pre-fix handler has sent 26 requests and 14
    are in flight (the storm), while the current handler sent 2 and is quiet — `C29_total_bounded_peers` gives
    the bound 1 × (5 - 1) for the latter. -/
theorem C29_prefix_storm_example :
    let sched := Step.purge 0 5 :: List.replicate 12 (Step.deliver 0)
    (runPreFix (init exCluster exTable) sched).sent = 26 ∧
    (runPreFix (init exCluster exTable) sched).net.length = 14 ∧
    (run (init exCluster exTable) sched).sent = 2 ∧
    (run (init exCluster exTable) sched).net.length = 0 := by
  decide

/-! ## per-peer timeouts: a slow or failing peer never affects delivery to the others -/

theorem broadcastLoop_map_fst (self k : Nat) (beh : Nat → PeerBeh) (c : Int) (pid : Option Nat) (l : List Row) :
    (broadcastLoop self k beh c pid l).map (·.1) = l.map (fun p => sendCacheFlush self k p c originHopCount pid) := by
  induction l with
  | nil => rfl
  | cons p l ih => simp [broadcastLoop, ih]

/-- **The requests issued do not depend on what any peer does** (answer, error status, hang-up, dead port, answer
    later than the client timeout): they are those of `broadcastCacheFlush`, the function the N-node composition
    uses. A request that is not received or not answered is a `drop` step there. -/
theorem C29_send_outcomes_isolated (self : Nat) (cl : Option Nat) (db : Bool) (t : List Row) (beh : Nat → PeerBeh)
    (c : Int) (pid : Option Nat) :
    (broadcastWith self cl db t beh c pid).map (·.1) = broadcastCacheFlush self cl db t c pid := by
  unfold broadcastWith broadcastCacheFlush
  cases cl with
  | none => rfl
  | some k =>
    cases db
    · simp
    · simp [broadcastLoop_map_fst]

theorem purgeNodeWith_map_fst (self : Nat) (cl : Option Nat) (db hook on notify : Bool) (t : List Row)
    (beh : Nat → PeerBeh) (c : Int) (pid : Option Nat) :
    (purgeNodeWith self cl db hook on notify t beh c pid).1 = (purgeNode self cl db hook on notify t c pid).1 ∧
    (purgeNodeWith self cl db hook on notify t beh c pid).2.1 = (purgeNode self cl db hook on notify t c pid).2.1 ∧
    (purgeNodeWith self cl db hook on notify t beh c pid).2.2.map (·.1) =
      (purgeNode self cl db hook on notify t c pid).2.2 := by
  unfold purgeNodeWith purgeNode
  refine ⟨rfl, rfl, ?_⟩
  simp only
  split
  · exact C29_send_outcomes_isolated ..
  · rfl

theorem receivedOf_loop_absent (self k : Nat) (beh : Nat → PeerBeh) (c : Int) (pid : Option Nat) (l : List Row)
    (p : Nat) (hp : p ∉ l.map Row.id) :
    (receivedOf (broadcastLoop self k beh c pid l)).filter (fun m => m.dest == p) = [] := by
  induction l with
  | nil => rfl
  | cons q l ih =>
    simp only [List.map_cons, List.mem_cons, not_or] at hp
    have ih := ih hp.2
    have hq : (q.id == p) = false := by simpa using fun h => hp.1 h.symm
    unfold receivedOf at ih ⊢
    simp only [broadcastLoop, List.filter_cons]
    split
    · simp only [List.map_cons, List.filter_cons, sendCacheFlush, hq]
      simpa using ih
    · exact ih

theorem receivedOf_loop_once (self k : Nat) (beh : Nat → PeerBeh) (c : Int) (pid : Option Nat) (l : List Row)
    (hnd : (l.map Row.id).Nodup) (r : Row) (hr : r ∈ l) (hrec : (sendResult (beh r.id)).received = true) :
    ((receivedOf (broadcastLoop self k beh c pid l)).filter (fun m => m.dest == r.id)).length = 1 := by
  induction l with
  | nil => simp at hr
  | cons q l ih =>
    have hc := List.nodup_cons.1 (by simpa using hnd : (q.id :: l.map Row.id).Nodup)
    by_cases hq : q.id = r.id
    · have habs := receivedOf_loop_absent self k beh c pid l r.id (hq ▸ hc.1)
      unfold receivedOf at habs ⊢
      simp only [broadcastLoop, List.filter_cons, hq, hrec, if_true, List.map_cons, sendCacheFlush, beq_self_eq_true,
        List.length_cons]
      rw [habs]; rfl
    · have hr' : r ∈ l := by
        rcases List.mem_cons.1 hr with h | h
        · exact absurd (h ▸ rfl) hq
        · exact h
      have ih := ih hc.2 hr'
      have hq' : (q.id == r.id) = false := by simpa using hq
      unfold receivedOf at ih ⊢
      simp only [broadcastLoop, List.filter_cons]
      split
      · simp only [List.map_cons, List.filter_cons, sendCacheFlush, hq']
        simpa using ih
      · exact ih

/-- **C29_slow_peer_isolated.** With a primary key on node_id: an active peer whose endpoint receives requests at all
    (it may answer, answer an error, hang up, or answer after the client timeout) receives EXACTLY ONE request for a
    purge — whatever every other peer does, in particular however long the peers before it in join order hold
    their requests. (`beh` is universally quantified: nothing is assumed about the others.) -/
theorem C29_slow_peer_isolated (self k : Nat) (t : List Row) (beh : Nat → PeerBeh) (c : Int) (pid : Option Nat)
    (hnd : (t.map Row.id).Nodup) (p : Nat) (hp : IsActivePeer self k t p)
    (hrec : (sendResult (beh p)).received = true) :
    ((receivedOf (purgeNodeWith self (some k) true true true true t beh c pid).2.2).filter
      (fun m => m.dest == p)).length = 1 := by
  obtain ⟨r, hr, rfl, hn, ha, hi⟩ := hp
  have hmem : r ∈ listActiveMembers self k t := mem_listActiveMembers.2 ⟨hr, hn, ha, hi⟩
  have hsub : (listActiveMembers self k t).Sublist t := (List.filter_sublist).trans List.filter_sublist
  have := receivedOf_loop_once self k beh c pid _ ((hsub.map Row.id).nodup hnd) r hmem hrec
  simpa [purgeNodeWith, cachePurge, broadcastWith] using this

/-- every endpoint except a dead port receives the request -/
theorem sendResult_received (b : PeerBeh) : (sendResult b).received = true ↔ b ≠ .unreachable := by
  cases b with
  | answers st lat => simp only [sendResult]; split <;> simp
  | hangsUp => simp [sendResult]
  | unreachable => simp [sendResult]

theorem sendResult_took_le (b : PeerBeh) : (sendResult b).tookMs ≤ clientTimeoutMs := by
  cases b with
  | answers st lat => simp only [sendResult]; split <;> simp <;> omega
  | hangsUp => simp [sendResult]
  | unreachable => simp [sendResult]

theorem elapsed_loop_le (self k : Nat) (beh : Nat → PeerBeh) (c : Int) (pid : Option Nat) (l : List Row) :
    elapsedMs (broadcastLoop self k beh c pid l) ≤ clientTimeoutMs * l.length := by
  induction l with
  | nil => simp [elapsedMs, broadcastLoop]
  | cons q l ih =>
    have h := sendResult_took_le (beh q.id)
    unfold elapsedMs at ih ⊢
    simp only [broadcastLoop, List.map_cons, List.sum_cons, List.length_cons, Nat.mul_succ]
    omega

/-- the price of per-peer timeouts: the broadcast goroutine is busy for at most 5 s per peer -/
theorem C29_broadcast_time_bounded (self : Nat) (cl : Option Nat) (db : Bool) (t : List Row) (beh : Nat → PeerBeh)
    (c : Int) (pid : Option Nat) :
    elapsedMs (broadcastWith self cl db t beh c pid) ≤ clientTimeoutMs * peerCount self t := by
  unfold broadcastWith
  cases cl with
  | none => simp [elapsedMs]
  | some k =>
    cases db
    · simp [elapsedMs]
    · simp only [Bool.not_true, Bool.false_eq_true, if_false]
      exact Nat.le_trans (elapsed_loop_le ..) (Nat.mul_le_mul_left _ (listActiveMembers_length_le self k t))

/-- non-vacuity: node 0 purges; peer 1 (first in join order) holds its request for 9 s, peer 2 answers 500, peer 3 is a
    dead port, peers 4 and 5 are healthy: 1, 2, 4, 5 each receive exactly one request, 3 none; 5 s are spent. -/
example :
    let t : List Row := [⟨1, 7, true⟩, ⟨2, 7, true⟩, ⟨0, 7, true⟩, ⟨3, 7, true⟩, ⟨4, 7, true⟩, ⟨5, 7, true⟩]
    let beh : Nat → PeerBeh := fun i =>
      if i = 1 then .answers 200 9000 else if i = 2 then .answers 500 3 else if i = 3 then .unreachable
      else .answers 200 1
    let r := (purgeNodeWith 0 (some 7) true true true true t beh 5 none).2.2
    (receivedOf r).map (·.dest) = [1, 2, 4, 5] ∧ elapsedMs r = 5005 ∧
      IsActivePeer 0 7 t 4 ∧ (sendResult (beh 4)).received = true ∧ (t.map Row.id).Nodup := by
  refine ⟨by decide, by decide, ⟨⟨4, 7, true⟩, by decide, rfl, rfl, rfl, by decide⟩, by decide, by decide⟩

/-! ## overlapping purges of one cache: every purge is announced on its own -/

theorem receivedOf_append (a b : List (Msg × SendResult)) : receivedOf (a ++ b) = receivedOf a ++ receivedOf b := by
  simp [receivedOf]

theorem broadcastLoop_pid (self k : Nat) (beh : Nat → PeerBeh) (c : Int) (pid : Option Nat) (l : List Row) :
    ∀ x ∈ broadcastLoop self k beh c pid l, x.1.pid = pid := by
  induction l with
  | nil => simp [broadcastLoop]
  | cons q l ih =>
    intro x hx
    simp only [broadcastLoop, List.mem_cons] at hx
    rcases hx with rfl | hx
    · rfl
    · exact ih x hx

/-- every request of a purge carries that purge's number -/
theorem purgeNodeWith_pid (self : Nat) (cl : Option Nat) (db hook on notify : Bool) (t : List Row)
    (beh : Nat → PeerBeh) (c : Int) (pid : Option Nat) :
    ∀ m ∈ receivedOf (purgeNodeWith self cl db hook on notify t beh c pid).2.2, m.pid = pid := by
  intro m hm
  simp only [receivedOf, List.mem_map, List.mem_filter] at hm
  obtain ⟨x, ⟨hx, _⟩, rfl⟩ := hm
  unfold purgeNodeWith at hx
  simp only at hx
  split at hx
  · unfold broadcastWith at hx
    cases cl with
    | none => simp at hx
    | some k =>
      cases db
      · simp at hx
      · exact broadcastLoop_pid self k beh c pid _ x (by simpa using hx)
  · simp at hx

/-- the requests of a burst are numbered from `pid0` upwards -/
theorem purgeBurstWith_pid_ge (self : Nat) (cl : Option Nat) (db hook on : Bool) (t : List Row) (beh : Nat → PeerBeh)
    (c : Int) (n : Nat) : ∀ pid0, ∀ m ∈ receivedOf (purgeBurstWith self cl db hook on t beh c pid0 n),
      ∃ q, m.pid = some q ∧ pid0 ≤ q := by
  induction n with
  | zero => intro pid0 m hm; simp [purgeBurstWith, receivedOf] at hm
  | succ n ih =>
    intro pid0 m hm
    rw [purgeBurstWith, receivedOf_append, List.mem_append] at hm
    rcases hm with hm | hm
    · exact ⟨pid0, purgeNodeWith_pid _ _ _ _ _ _ _ _ _ _ m hm, Nat.le_refl _⟩
    · obtain ⟨q, hq, hle⟩ := ih (pid0 + 1) m hm
      exact ⟨q, hq, by omega⟩

/-- **C29_burst_every_peer_counts.** `n` purges of one cache on a node, however they overlap with the broadcasts still
    in progress (the model keeps nothing between purges): an active peer whose endpoint receives requests at all
    receives exactly `n` of them — whatever the other peers do, in particular while one of them sits on its request. -/
theorem C29_burst_every_peer_counts (self k : Nat) (t : List Row) (beh : Nat → PeerBeh) (c : Int)
    (hnd : (t.map Row.id).Nodup) (p : Nat) (hp : IsActivePeer self k t p)
    (hrec : (sendResult (beh p)).received = true) (n : Nat) : ∀ pid0,
    ((receivedOf (purgeBurstWith self (some k) true true true t beh c pid0 n)).filter
      (fun m => m.dest == p)).length = n := by
  induction n with
  | zero => intro pid0; simp [purgeBurstWith, receivedOf]
  | succ n ih =>
    intro pid0
    rw [purgeBurstWith, receivedOf_append, List.filter_append, List.length_append, ih (pid0 + 1),
      C29_slow_peer_isolated self k t beh c (some pid0) hnd p hp hrec]
    omega

/-- **C29_overlapping_purges_each_announced.** Every single purge of the burst (the `j`-th, numbered `pid0 + j`) is
    announced to every active peer whose endpoint receives requests by EXACTLY ONE request of its own: a later purge
    is never left to a broadcast that an earlier purge started (whose requests may already have been delivered, and
    the peer's cache reloaded since). -/
theorem C29_overlapping_purges_each_announced (self k : Nat) (t : List Row) (beh : Nat → PeerBeh) (c : Int)
    (hnd : (t.map Row.id).Nodup) (p : Nat) (hp : IsActivePeer self k t p)
    (hrec : (sendResult (beh p)).received = true) (n : Nat) : ∀ pid0 j, j < n →
    ((receivedOf (purgeBurstWith self (some k) true true true t beh c pid0 n)).filter
      (fun m => m.dest == p && m.pid == some (pid0 + j))).length = 1 := by
  induction n with
  | zero => intro pid0 j hj; omega
  | succ n ih =>
    intro pid0 j hj
    rw [purgeBurstWith, receivedOf_append, List.filter_append, List.length_append]
    cases j with
    | zero =>
      -- the first purge: its own broadcast serves p; no later request carries its number
      have h1 : (receivedOf (purgeNodeWith self (some k) true true true true t beh c (some pid0)).2.2).filter
          (fun m => m.dest == p && m.pid == some (pid0 + 0)) =
          (receivedOf (purgeNodeWith self (some k) true true true true t beh c (some pid0)).2.2).filter
          (fun m => m.dest == p) := by
        apply List.filter_congr
        intro m hm
        simp [purgeNodeWith_pid _ _ _ _ _ _ _ _ _ _ m hm]
      have h2 : (receivedOf (purgeBurstWith self (some k) true true true t beh c (pid0 + 1) n)).filter
          (fun m => m.dest == p && m.pid == some (pid0 + 0)) = [] := by
        apply List.filter_eq_nil_iff.2
        intro m hm
        obtain ⟨q, hq, hle⟩ := purgeBurstWith_pid_ge _ _ _ _ _ _ _ _ _ _ m hm
        have : q ≠ pid0 := by omega
        simp [hq, this]
      rw [h1, h2, C29_slow_peer_isolated self k t beh c (some pid0) hnd p hp hrec]
      rfl
    | succ j =>
      have h1 : (receivedOf (purgeNodeWith self (some k) true true true true t beh c (some pid0)).2.2).filter
          (fun m => m.dest == p && m.pid == some (pid0 + (j + 1))) = [] := by
        apply List.filter_eq_nil_iff.2
        intro m hm
        simp [purgeNodeWith_pid _ _ _ _ _ _ _ _ _ _ m hm]
      have h2 := ih (pid0 + 1) j (by omega)
      have e : pid0 + 1 + j = pid0 + (j + 1) := by omega
      rw [e] at h2
      rw [h1, h2]
      rfl

/-- the hook fires once per purge of the burst -/
theorem C29_burst_fires_each (n : Nat) : purgeBurstFired true true n = n := by
  simp [purgeBurstFired, cachePurge]

/-- non-vacuity (the scenario of the harness corpus): node 0, peers 1 (fast), 2 (sits on its request, answers within the
    limit), 3 (fast); three purges of cache 5 while 2 holds the first: 1, 2 and 3 each receive three requests, one per
    purge number. -/
example :
    let t : List Row := [⟨0, 7, true⟩, ⟨1, 7, true⟩, ⟨2, 7, true⟩, ⟨3, 7, true⟩]
    let beh : Nat → PeerBeh := fun i => if i = 2 then .answers 200 1 else .answers 200 0
    let r := receivedOf (purgeBurstWith 0 (some 7) true true true t beh 5 10 3)
    r.map (fun m => (m.dest, m.pid)) =
        [(1, some 10), (2, some 10), (3, some 10), (1, some 11), (2, some 11), (3, some 11),
         (1, some 12), (2, some 12), (3, some 12)] ∧
      IsActivePeer 0 7 t 1 ∧ (sendResult (beh 1)).received = true ∧ (t.map Row.id).Nodup := by
  refine ⟨by decide, ⟨⟨1, 7, true⟩, by decide, rfl, rfl, rfl, by decide⟩, by decide, by decide⟩

end EgoVerif.C29
