import EgoVerif.Common.Drv
import EgoVerif.C29.Model
/- line protocol (per-node steps; cluster names and node ids are small naturals chosen by the harness,
   "-" = none/empty, booleans are 0|1):

   purge    <self> <cluster|-> <db> <hook> <on> <notify> <cache> <rows|->
        → disc=<0|1> fire=<0|1> msgs=<dest:cache:sender:hops:tok:accept,…|->
   purgeall <self> <cluster|-> <db> <hook> <on> <caches c,c,…|-> <rows|->
        → msgs=<…>                       (caches purged in ascending id order, as PurgeAll does)
   burst    <self> <cluster|-> <db> <hook> <on> <cache> <n> <rows|->
        → disc=<0|1> fire=<k> msgs=<…>   (n Purge calls of the same cache, the later ones issued while a peer still
                                          sits on a request of the first: `purgeBurstWith`; everything the peers
                                          received for the n purges, by ascending destination)
   flush    <self> <cluster|-> <db> <hook> <on> <accept> <tok|-> <wf> <cache> <hops> <rows|->
        → status=<401|400|200> disc=<0|1> fire=<0|1> msgs=<…>      (through the router: routeFlush)

   rows = id:name:active:beh,…   in join order (`joined_at`, the order BroadcastCacheFlush walks). `beh` is what
   the peer's HTTP endpoint does: ok | <status> (answers that status) | hangup | dead (nobody listens) |
   hold<ms> (receives the request, answers 200 after <ms> milliseconds — later than the sender's 5 s timeout
   when <ms> > 5000) | gate (receives the request and sits on it until the harness has issued the remaining purges
   of a burst, well inside the timeout, then answers 200; outside a burst it answers at once). The answer lists the requests the peers RECEIVE (`receivedOf` of `purgeNodeWith`): a
   request to a dead port is sent by the model but cannot be observed; a slow, failing or hanging-up peer
   receives its request and changes nothing for the others.
   Within one purge the requests are listed by ascending destination id. -/
namespace EgoVerif.C29

def optNat (s : String) : Option (Option Nat) :=
  if s == "-" then some none else s.toNat?.map some

def bit (s : String) : Option Bool :=
  if s == "1" then some true else if s == "0" then some false else none

def parseBeh (s : String) : Option PeerBeh :=
  if s == "ok" then some (.answers 200 0)
  else if s == "hangup" then some .hangsUp
  else if s == "dead" then some .unreachable
  else if s == "gate" then some (.answers 200 1)
  else match s.toList with
    | 'h' :: 'o' :: 'l' :: 'd' :: ms => (String.ofList ms).toNat?.map (fun ms => .answers 200 ms)
    | _ => s.toNat?.map (fun st => .answers st 0)

def parseRow (s : String) : Option (Row × PeerBeh) :=
  match s.splitOn ":" with
  | [i, n, a, b] =>
    match i.toNat?, n.toNat?, bit a, parseBeh b with
    | some i, some n, some a, some b => some ({ id := i, name := n, active := a }, b)
    | _, _, _, _ => none
  | _ => none

/-- the behaviour of the endpoint a row points at (rows the table does not have are never addressed) -/
def behOf (rows : List (Row × PeerBeh)) (id : Nat) : PeerBeh :=
  match rows.find? (fun r => r.1.id == id) with
  | some r => r.2
  | none => .unreachable

def parseRows (s : String) : Option (List (Row × PeerBeh)) :=
  if s == "-" then some [] else (s.splitOn ",").mapM parseRow

def parseInts (s : String) : Option (List Int) :=
  if s == "-" then some [] else (s.splitOn ",").mapM String.toInt?

def insertBy {α : Type} (lt : α → α → Bool) (x : α) : List α → List α
  | [] => [x]
  | y :: ys => if lt y x then y :: insertBy lt x ys else x :: y :: ys

def sortBy {α : Type} (lt : α → α → Bool) (l : List α) : List α := l.foldr (insertBy lt) []

def b01 (b : Bool) : String := if b then "1" else "0"

def showOpt : Option Nat → String
  | none => "-"
  | some n => toString n

def showMsg (m : Msg) : String :=
  s!"{m.dest}:{m.cache}:{m.sender}:{m.hops}:{showOpt m.tok}:{b01 m.accept}"

/-- the requests an observer at the peers sees, by ascending destination -/
def observed (sends : List (Msg × SendResult)) : List Msg :=
  sortBy (fun a b => a.dest < b.dest) (receivedOf sends)

/-- requests sent outside a purge (none, by C29_no_rebroadcast): each meets the endpoint its row points at -/
def observedMsgs (rows : List (Row × PeerBeh)) (ms : List Msg) : List Msg :=
  observed (ms.map (fun m => (m, sendResult (behOf rows m.dest))))

def showMsgs (ms : List Msg) : String :=
  if ms.isEmpty then "-" else ",".intercalate (ms.map showMsg)

def showResp : Resp → String
  | .notAcceptable => "400"
  | .unauthorized => "401"
  | .badRequest => "400"
  | .hopLimit => "200"      -- "Answer 200 rather than an error status"
  | .purged => "200"

def handle (line : String) : String :=
  match fields line with
  | ["purge", self, cl, db, hook, on, notify, cache, rows] =>
    match self.toNat?, optNat cl, bit db, bit hook, bit on, bit notify, cache.toInt?, parseRows rows with
    | some self, some cl, some db, some hook, some on, some notify, some c, some rows =>
      let r := purgeNodeWith self cl db hook on notify (rows.map (·.1)) (behOf rows) c none
      s!"disc={b01 r.1} fire={b01 r.2.1} msgs={showMsgs (observed r.2.2)}"
    | _, _, _, _, _, _, _, _ => "bad-input"
  | ["burst", self, cl, db, hook, on, cache, n, rows] =>
    match self.toNat?, optNat cl, bit db, bit hook, bit on, cache.toInt?, n.toNat?, parseRows rows with
    | some self, some cl, some db, some hook, some on, some c, some n, some rows =>
      let sends := purgeBurstWith self cl db hook on (rows.map (·.1)) (behOf rows) c 0 n
      s!"disc={b01 (cachePurge on true hook).1} fire={purgeBurstFired hook on n} msgs={showMsgs (observed sends)}"
    | _, _, _, _, _, _, _, _ => "bad-input"
  | ["purgeall", self, cl, db, hook, on, caches, rows] =>
    match self.toNat?, optNat cl, bit db, bit hook, bit on, parseInts caches, parseRows rows with
    | some self, some cl, some db, some hook, some on, some cs, some rows =>
      let cs := sortBy (fun a b => a < b) cs
      let ms := cs.flatMap (fun c => observedMsgs rows (purgeAllNode self cl db hook on (rows.map (·.1)) [c]))
      s!"msgs={showMsgs ms}"
    | _, _, _, _, _, _, _ => "bad-input"
  | ["flush", self, cl, db, hook, on, acc, tok, wf, cache, hops, rows] =>
    match self.toNat?, optNat cl, bit db, bit hook, bit on, bit acc, optNat tok, bit wf, cache.toInt?, hops.toInt?,
          parseRows rows with
    | some self, some cl, some db, some hook, some on, some acc, some tok, some wf, some c, some h, some rows =>
      let m : Msg := { dest := self, cache := c, sender := 0, hops := h, tok := tok, wf := wf, accept := acc,
                       pid := none }
      let r := routeFlush self cl db hook on (rows.map (·.1)) m
      s!"status={showResp r.1} disc={b01 r.2.1} fire={b01 r.2.2.1} msgs={showMsgs (observedMsgs rows r.2.2.2)}"
    | _, _, _, _, _, _, _, _, _, _, _ => "bad-input"
  | _ => "bad-op"

def drv : Drv := Drv.pure handle

end EgoVerif.C29
