/-
C29 — model of cluster cache invalidation (core Lean only).

Per-node functions mirror the Go code line by line:
  internal/caches/purge.go            purge(id, notify) / Purge / PurgeLocal / PurgeAll, hook OnPurge
  internal/server/cluster/membership.go  ListMembers (WHERE name = $1), ListActiveMembers
  internal/server/cluster/invalidate.go  BroadcastCacheFlush, SendCacheFlush, maxFlushHops, originHopCount
  internal/server/cluster/handlers.go    FlushCacheHandler
  internal/server/cluster/auth.go        ValidateClusterToken (HMAC abstracted: token of cluster k is accepted
                                         exactly by a node whose ClusterName is k)
  internal/server/cluster/cluster.go     Initialize registers caches.OnPurge = BroadcastCacheFlush in cluster mode
  internal/commands/server.go + internal/router/serve.go + internal/util/media.go
                                         the route POST /services/cluster/flush is declared AcceptMedia(JSON): the router
                                         answers 400 "invalid media type", without calling the handler, to a request whose
                                         Accept header is missing or names no admitted type

The model mirrors the code WITH fixes/C29.patch applied: SendCacheFlush sets `Accept: application/json`.
Without it (`accept := false`) every flush request is refused by the peer's router and no peer ever discards
its cache — see `C29_unpatched_incomplete_counterexample` in Props.lean.

The N-node composition (`State`, `step`, `run`) exists only here: the shared system-database table `cluster`,
a multiset of flush requests in flight, and per node its populated caches.
-/
namespace EgoVerif.C29

/-- one row of the shared `cluster` table (only the columns the invalidation path reads) -/
structure Row where
  id : Nat            -- node_id (primary key)
  name : Nat          -- cluster name
  active : Bool       -- state = 'active'
  deriving Repr, DecidableEq

/-- one POST /services/cluster/flush in flight. `tok`: the cluster whose bearer token it carries
    (none = missing / garbage / wrong key); `wf`: the body decodes as a ClusterFlushRequest;
    `accept`: the request has an Accept header that util.AcceptedMediaType admits for the route;
    `pid` is a ghost tag: the number of the purge that produced it (none = injected from outside). -/
structure Msg where
  dest : Nat
  cache : Int
  sender : Nat
  hops : Int
  tok : Option Nat
  wf : Bool
  accept : Bool
  pid : Option Nat
  deriving Repr, DecidableEq

/-- invalidate.go: `const maxFlushHops = 4` -/
def maxFlushHops : Int := 4
/-- invalidate.go: `const originHopCount = 1` -/
def originHopCount : Int := 1

/-- membership.go ListMembers: `WHERE name = $1` -/
def listMembers (name : Nat) (t : List Row) : List Row :=
  t.filter (fun m => m.name == name)

/-- membership.go ListActiveMembers: `m.State == ActiveState && m.NodeID != NodeID` -/
def listActiveMembers (self name : Nat) (t : List Row) : List Row :=
  (listMembers name t).filter (fun m => m.active && m.id != self)

/-- invalidate.go SendCacheFlush: the request built for one peer
    (Content-Type and — with fixes/C29.patch — Accept: application/json, Authorization: ClusterAuthHeader()) -/
def sendCacheFlush (self name : Nat) (peer : Row) (c : Int) (hops : Int) (pid : Option Nat) : Msg :=
  { dest := peer.id, cache := c, sender := self, hops := hops, tok := some name, wf := true, accept := true,
    pid := pid }

/-- invalidate.go BroadcastCacheFlush: no-op when `ClusterName == "" || systemDB == nil`, otherwise one
    SendCacheFlush(peer, cacheID, originHopCount) per active peer; a send error never aborts the loop. -/
def broadcastCacheFlush (self : Nat) (cluster : Option Nat) (db : Bool) (t : List Row) (c : Int)
    (pid : Option Nat) : List Msg :=
  match cluster with
  | none => []
  | some k =>
    if !db then [] else
    (listActiveMembers self k t).map (fun p => sendCacheFlush self k p c originHopCount pid)

/-! ### what happens to each SendCacheFlush (per-peer timeout)

`SendCacheFlush` builds its own `client := &http.Client{Timeout: 5 * time.Second}` for every call, so the time
limit starts afresh for each peer; `BroadcastCacheFlush` logs a send error and goes on to the next peer.
The functions below mirror that loop with the peers' behaviour made explicit, so that "a slow or failing
peer never affects delivery to the others" is a theorem (Props.lean, `C29_slow_peer_isolated`) and the
driver answers with what the peers actually receive. -/

/-- invalidate.go SendCacheFlush: `http.Client{Timeout: 5 * time.Second}`, in milliseconds -/
def clientTimeoutMs : Nat := 5000

/-- what the endpoint of one peer does with a request (connection set-up idealised to 0 ms) -/
inductive PeerBeh where
  | answers (status : Nat) (latencyMs : Nat)  -- receives the request, answers `status` after `latencyMs`
  | hangsUp                                   -- receives the request, closes the connection without answering
  | unreachable                               -- nobody listens on the port: the request is never received
  deriving Repr, DecidableEq

/-- outcome of one SendCacheFlush call -/
structure SendResult where
  received : Bool   -- the request reached the peer's HTTP handler
  err : Bool        -- SendCacheFlush returned a non-nil error (logged by the caller, nothing else)
  tookMs : Nat      -- time spent in the call
  deriving Repr, DecidableEq

/-- invalidate.go SendCacheFlush, `client.Do(req)` under the per-call timeout and the 2xx test -/
def sendResult : PeerBeh → SendResult
  | .answers st lat =>
    if lat > clientTimeoutMs then { received := true, err := true, tookMs := clientTimeoutMs }
    else { received := true, err := !(decide (200 ≤ st) && decide (st < 300)), tookMs := lat }
  | .hangsUp => { received := true, err := true, tookMs := 0 }
  | .unreachable => { received := false, err := true, tookMs := 0 }

/-- invalidate.go BroadcastCacheFlush, the loop `for _, peer := range peers { if sendErr := SendCacheFlush(…);
    sendErr != nil { ui.Log(…) } }`: no early exit, nothing carried from one iteration to the next. -/
def broadcastLoop (self k : Nat) (beh : Nat → PeerBeh) (c : Int) (pid : Option Nat) :
    List Row → List (Msg × SendResult)
  | [] => []
  | p :: rest =>
    (sendCacheFlush self k p c originHopCount pid, sendResult (beh p.id)) :: broadcastLoop self k beh c pid rest

/-- BroadcastCacheFlush with the peers' behaviour explicit -/
def broadcastWith (self : Nat) (cluster : Option Nat) (db : Bool) (t : List Row) (beh : Nat → PeerBeh) (c : Int)
    (pid : Option Nat) : List (Msg × SendResult) :=
  match cluster with
  | none => []
  | some k => if !db then [] else broadcastLoop self k beh c pid (listActiveMembers self k t)

/-- the requests that reached a peer's handler -/
def receivedOf (l : List (Msg × SendResult)) : List Msg := (l.filter (fun x => x.2.received)).map (·.1)

/-- time the broadcast goroutine spent -/
def elapsedMs (l : List (Msg × SendResult)) : Nat := (l.map (fun x => x.2.tookMs)).sum

/-- purge.go purge(id, notify): `(discarded, hookFired)`.
    `on` = caches `active`; `hook` = `OnPurge != nil`. -/
def cachePurge (on notify hook : Bool) : Bool × Bool :=
  if !on then (false, false)          -- `if !active { return }`
  else (true, notify && hook)         -- delete(cacheList, id); `if !notify { return }`; `if OnPurge != nil { go OnPurge(id) }`

/-- What a node does for a purge that ORIGINATES on it (caches.Purge = purge(id, true)):
    `(discarded, hookFired, requests sent)`. -/
def purgeNode (self : Nat) (cluster : Option Nat) (db hook on : Bool) (notify : Bool) (t : List Row) (c : Int)
    (pid : Option Nat) : Bool × Bool × List Msg :=
  let r := cachePurge on notify hook
  (r.1, r.2, if r.2 then broadcastCacheFlush self cluster db t c pid else [])

/-- the same with the peers' behaviour explicit: `(discarded, hookFired, sends with their outcomes)` -/
def purgeNodeWith (self : Nat) (cluster : Option Nat) (db hook on : Bool) (notify : Bool) (t : List Row)
    (beh : Nat → PeerBeh) (c : Int) (pid : Option Nat) : Bool × Bool × List (Msg × SendResult) :=
  let r := cachePurge on notify hook
  (r.1, r.2, if r.2 then broadcastWith self cluster db t beh c pid else [])

/-- `n` purges of the SAME cache issued on one node one after the other, the later ones possibly while the hook
    goroutines of the earlier ones are still sending (a peer sits on its request, up to 5 s each): purge.go keeps no
    record of notifications in flight — `if OnPurge != nil { go OnPurge(id) }` starts one goroutine per purge — and
    BroadcastCacheFlush has no state of its own, so the sends are those of `n` independent purges, numbered
    `pid0, pid0+1, …`. Nothing is coalesced: a peer contacted by an earlier broadcast may have reloaded the cache
    since, and only a request sent after the later purge makes it discard that copy. -/
def purgeBurstWith (self : Nat) (cluster : Option Nat) (db hook on : Bool) (t : List Row) (beh : Nat → PeerBeh)
    (c : Int) : Nat → Nat → List (Msg × SendResult)
  | _, 0 => []
  | pid0, n + 1 =>
    (purgeNodeWith self cluster db hook on true t beh c (some pid0)).2.2 ++
      purgeBurstWith self cluster db hook on t beh c (pid0 + 1) n

/-- the hook calls of such a burst: one per purge that fires it -/
def purgeBurstFired (hook on : Bool) (n : Nat) : Nat := if (cachePurge on true hook).2 then n else 0

/-- purge.go PurgeAll: Purge(id) for every existing cache id in ascending order -/
def purgeAllNode (self : Nat) (cluster : Option Nat) (db hook on : Bool) (t : List Row) (cs : List Int) : List Msg :=
  cs.flatMap (fun c => (purgeNode self cluster db hook on true t c none).2.2)

inductive Resp where
  | notAcceptable  -- 400 from the router: util.AcceptedMediaType failed, handler not called
  | unauthorized   -- 401: ValidateClusterToken failed
  | badRequest     -- 400: body did not decode
  | hopLimit       -- 200, nothing done: req.Hops > maxFlushHops
  | purged         -- 200 after caches.PurgeLocal
  deriving Repr, DecidableEq

/-- auth.go ValidateClusterToken: standalone nodes reject everything; otherwise the token must be the
    one derived from this node's ClusterName. -/
def validateClusterToken (cluster : Option Nat) (tok : Option Nat) : Bool :=
  match cluster, tok with
  | some k, some k' => k == k'
  | _, _ => false

/-- handlers.go FlushCacheHandler: `(response, discarded, hookFired, requests sent)`.
    The accepted path calls caches.PurgeLocal = purge(id, false). The requests sent are whatever the
    hook would send if that purge fired it — so "no re-broadcast" is a theorem, not a definition. -/
def flushHandler (self : Nat) (cluster : Option Nat) (db hook on : Bool) (t : List Row) (m : Msg) :
    Resp × Bool × Bool × List Msg :=
  if !validateClusterToken cluster m.tok then (.unauthorized, false, false, [])
  else if !m.wf then (.badRequest, false, false, [])
  else if m.hops > maxFlushHops then (.hopLimit, false, false, [])
  else
    let r := purgeNode self cluster db hook on false t m.cache none
    (.purged, r.1, r.2.1, r.2.2)

/-- router/serve.go ServeHTTP for the route declared in commands/server.go
    (`r.New(defs.ServicesClusterFlushPath, cluster.FlushCacheHandler, POST).Class(…).AcceptMedia(defs.JSONMediaType)`):
    the media check comes first; the handler runs only if the status is still 200. -/
def routeFlush (self : Nat) (cluster : Option Nat) (db hook on : Bool) (t : List Row) (m : Msg) :
    Resp × Bool × Bool × List Msg :=
  if !m.accept then (.notAcceptable, false, false, [])
  else flushHandler self cluster db hook on t m

/-! ## N-node composition -/

/-- Ghost record of one originated purge: its number, the node, the cache and the membership table it read. -/
structure PurgeRec where
  pid : Nat
  origin : Nat
  cache : Int
  table : List Row
  deriving DecidableEq

inductive Ev where
  | discard (node : Nat) (cache : Int) (pid : Option Nat)   -- the node's cache was discarded; cause = purge `pid`
  | dropped (pid : Option Nat) (dest : Nat)                 -- a request was lost (peer down, timeout, network)
  | refused (pid : Option Nat) (dest : Nat) (r : Resp)      -- a request was answered without purging
  deriving DecidableEq

structure State where
  cluster : Nat → Option Nat      -- ClusterName of the server process with node id i (none = standalone); static
  table : List Row                -- the shared system-database table
  net : List Msg                  -- requests in flight
  filled : Nat → Int → Bool       -- node i currently has cache c populated
  sent : Nat                      -- ghost: requests ever sent by nodes
  purges : Nat                    -- ghost: purges originated so far (= next pid)
  hist : List PurgeRec            -- ghost
  log : List Ev                   -- ghost

inductive Step where
  | purge (n : Nat) (c : Int)          -- caches.Purge(c) on node n
  | deliver (i : Nat)                  -- the i-th request in flight reaches its destination's router
  | drop (i : Nat)                     -- the i-th request in flight is lost
  | fill (n : Nat) (c : Int)           -- node n populates cache c
  | setActive (id : Nat) (b : Bool)    -- a row's state changes (health checker eviction, shutdown, re-join)
  | inject (m : Msg)                   -- a request from outside the protocol (older build, hand-written, hostile)

def setFilled (f : Nat → Int → Bool) (n : Nat) (c : Int) (b : Bool) : Nat → Int → Bool :=
  fun n' c' => if n' = n ∧ c' = c then b else f n' c'

/-- A clustered node (Initialize succeeded) has the hook registered and the database open; caches are always
    active in a server (caches.Active(false) has no production call site). -/
def nodePurge (s : State) (n : Nat) (notify : Bool) (c : Int) (pid : Option Nat) : Bool × Bool × List Msg :=
  purgeNode n (s.cluster n) true (s.cluster n).isSome true notify s.table c pid

def step (s : State) : Step → State
  | .purge n c =>
    let r := nodePurge s n true c (some s.purges)
    { s with
      net := s.net ++ r.2.2
      filled := if r.1 then setFilled s.filled n c false else s.filled
      sent := s.sent + r.2.2.length
      purges := s.purges + 1
      hist := { pid := s.purges, origin := n, cache := c, table := s.table } :: s.hist
      log := if r.1 then .discard n c (some s.purges) :: s.log else s.log }
  | .deliver i =>
    match s.net[i]? with
    | none => s
    | some m =>
      let r := routeFlush m.dest (s.cluster m.dest) true (s.cluster m.dest).isSome true s.table m
      { s with
        net := s.net.eraseIdx i ++ r.2.2.2
        filled := if r.2.1 then setFilled s.filled m.dest m.cache false else s.filled
        sent := s.sent + r.2.2.2.length
        log := if r.2.1 then .discard m.dest m.cache m.pid :: s.log else .refused m.pid m.dest r.1 :: s.log }
  | .drop i =>
    match s.net[i]? with
    | none => s
    | some m => { s with net := s.net.eraseIdx i, log := .dropped m.pid m.dest :: s.log }
  | .fill n c => { s with filled := setFilled s.filled n c true }
  | .setActive id b =>
    { s with table := s.table.map (fun r => if r.id = id then { r with active := b } else r) }
  | .inject m => { s with net := s.net ++ [{ m with pid := none }] }

def run (s : State) : List Step → State
  | [] => s
  | st :: rest => run (step s st) rest

def Step.isPurge : Step → Bool
  | .purge _ _ => true
  | _ => false

def purgeCount (steps : List Step) : Nat := (steps.filter Step.isPurge).length

/-- a fresh cluster: any table, any process configuration, nothing in flight -/
def init (cluster : Nat → Option Nat) (table : List Row) : State :=
  { cluster := cluster, table := table, net := [], filled := fun _ _ => false,
    sent := 0, purges := 0, hist := [], log := [] }

end EgoVerif.C29
