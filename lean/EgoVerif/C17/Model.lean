/-
C17 — executable model of the `@transaction` request handler and of the database handle
it drives.  Core Lean only.

Go code mirrored (file : function):
  internal/server/tables/scripting/handler.go : Handler          → `handler`, `taskLoop`, `condLoop`
  internal/server/tables/database/transaction.go : Begin/Commit/Rollback → `dBegin`, `dCommit`, `dRollback`
  internal/server/tables/database/open.go : Close                → `dClose`
  internal/server/tables/database/exec.go : Exec                 → `exec` (statement runs inside the
        connection's transaction when one is active, in autocommit mode otherwise)
  modernc.org/sqlite tx.go : Commit / Rollback                   → `driverCommit`, `driverRollback`
        (a failed COMMIT forces a ROLLBACK when the connection is still inside a transaction)

The per-task work (doInsert, doUpdate, doSQL, …, parsing.FormCondition, expressions.Eval) is
abstracted to its OUTCOME, which is an input of the model:
  task   : kind (plain statement | raw COMMIT | raw ROLLBACK | raw BEGIN through the `sql` opcode),
           ok (the operation handler returned no error), writes (it changed the database),
           locks (it is a write statement executed by the engine: takes the write lock),
           conds (one outcome per entry of task.Errors)
  cond   : empty (blank condition, skipped) | malformed (FormCondition error) |
           evalErr (Eval error) | isTrue | isFalse
  commit : does the driver's COMMIT succeed (deferred constraint, I/O …)
  pre    : which of the checks before `db.Begin()` fails, if any

The facts that differ between source revisions — is there a `db.Rollback()` before each
`return`, does Commit/Rollback clear `d.Transaction` when the driver fails, does the
commit-error exit report a failure status — are NOT hard-wired: they are the fields of `Cfg`,
extracted from the current source by the go/ast pass of the harness on every run (T1).
`Cfg.fixed` is the tree with fixes/C17.patch applied, `Cfg.pinned` the tree as found.
-/
namespace EgoVerif.C17

inductive Cond where
  | empty | malformed | evalErr | isTrue | isFalse
  deriving DecidableEq, Repr

inductive Kind where
  | plain | rawCommit | rawRollback | rawBegin
  deriving DecidableEq, Repr

structure Task where
  kind : Kind
  ok : Bool
  writes : Bool      -- ok ∧ the statement changes the database
  locks : Bool       -- the statement is a write statement that reaches the engine (it takes the
                     -- write lock even if it changes no row, or fails on a constraint)
  conds : List Cond
  deriving DecidableEq, Repr

/-- checks of Handler that precede `db.Begin()` -/
inductive Pre where
  | fine | decodeErr | badOpcode | noPerm | openErr | beginErr
  deriving DecidableEq, Repr

/-- source facts extracted by T1 -/
structure Cfg where
  rbMalformed : Bool        -- `db.Rollback()` precedes the return after a FormCondition error
  rbEvalErr : Bool          -- … after an Eval error
  rbCondTrue : Bool         -- … after a condition that evaluated to true
  rbOpErr : Bool            -- … after a failed operation
  commitErrFail : Bool      -- the commit-error exit reports a non-2xx status
  clearOnCommitErr : Bool   -- Database.Commit sets d.Transaction = nil also when tx.Commit fails
  clearOnRollbackErr : Bool -- Database.Rollback sets d.Transaction = nil also when tx.Rollback fails
  deriving DecidableEq, Repr

def Cfg.fixed : Cfg := ⟨true, true, true, true, true, true, true⟩
/-- the tree as found (before fixes/C17.patch) -/
def Cfg.pinned : Cfg := ⟨true, false, true, true, false, false, false⟩

/-- every exit releases the transaction -/
def Cfg.allCovered (c : Cfg) : Bool :=
  c.rbMalformed && c.rbEvalErr && c.rbCondTrue && c.rbOpErr && c.clearOnCommitErr && c.clearOnRollbackErr

/-- The database as the handler sees it.  An effect is identified by the index of the task
that wrote it. -/
structure Db where
  committed : List Nat   -- durable effects, in order
  pending : List Nat     -- effects inside the connection's open transaction
  inTx : Bool            -- the SQLite connection is inside BEGIN …
  wlock : Bool           -- … and holds the database's write lock
  txn : Bool             -- d.Transaction != nil
  handle : Bool          -- d.Handle is open (connection, file descriptors)
  deriving DecidableEq, Repr

def Db.clean (d : Db) : Bool := d.pending.isEmpty && !d.inTx && !d.wlock && !d.txn && !d.handle

/-- exec.go Exec / query.go Query: one statement with effect `e` -/
def exec (e : Nat) (d : Db) : Db :=
  if d.inTx then { d with pending := d.pending ++ [e] } else { d with committed := d.committed ++ [e] }

/-- a write statement inside a transaction takes the write lock and keeps it until the
transaction ends; in autocommit mode the lock is gone when the statement returns -/
def lockIf (b : Bool) (d : Db) : Db := if b && d.inTx then { d with wlock := true } else d

/-- the connection executes COMMIT (good = the engine accepts it) -/
def connCommit (good : Bool) (d : Db) : Db × Bool :=
  if d.inTx && good then ({ d with committed := d.committed ++ d.pending, pending := [], inTx := false, wlock := false }, true)
  else (d, false)

/-- the connection executes ROLLBACK -/
def connRollback (d : Db) : Db × Bool :=
  if d.inTx then ({ d with pending := [], inTx := false, wlock := false }, true) else (d, false)

/-- modernc.org/sqlite tx.Commit: COMMIT; on failure, ROLLBACK if still inside a transaction -/
def driverCommit (good : Bool) (d : Db) : Db × Bool :=
  match connCommit good d with
  | (d', true) => (d', true)
  | (d', false) => ((connRollback d').1, false)

def driverRollback (d : Db) : Db × Bool := connRollback d

/-- transaction.go Begin (the handle is fresh, so Transaction == nil) -/
def dBegin (d : Db) : Db := { d with txn := true, inTx := true }

/-- transaction.go Commit -/
def dCommit (c : Cfg) (good : Bool) (d : Db) : Db × Bool :=
  if !d.txn then (d, false) else
  match driverCommit good d with
  | (d', true) => ({ d' with txn := false }, true)
  | (d', false) => ({ d' with txn := !c.clearOnCommitErr }, false)

/-- transaction.go Rollback -/
def dRollback (c : Cfg) (d : Db) : Db × Bool :=
  if !d.txn then (d, false) else
  match driverRollback d with
  | (d', true) => ({ d' with txn := false }, true)
  | (d', false) => ({ d' with txn := !c.clearOnRollbackErr }, false)

/-- open.go Close: does nothing while a transaction is recorded on the handle; otherwise closes
the connection, which discards whatever transaction the connection was still inside -/
def dClose (d : Db) : Db :=
  if d.txn then d else { d with handle := false, pending := [], inTx := false, wlock := false }

/-- `if flag { _ = db.Rollback() }` -/
def rollbackIf (c : Cfg) (flag : Bool) (d : Db) : Db := if flag then (dRollback c d).1 else d

inductive Exit where
  | decodeErr | emptyList | badOpcode | noPerm | openErr | beginErr
  | malformed | evalErr | condTrue | opErr | commitErr | done
  deriving DecidableEq, Repr

/-- one operation handler (doInsert … doSQL); `i` is the task's index = its effect id -/
def runOp (i : Nat) (t : Task) (d : Db) : Db × Bool :=
  match t.kind with
  | .plain =>
    let d1 := lockIf t.locks d
    if t.ok then ((if t.writes then exec i d1 else d1), true) else (d1, false)
  | .rawCommit => connCommit t.ok d
  | .rawRollback => connRollback d
  | .rawBegin => if d.inTx then (d, false) else ({ d with inTx := true }, true)

/-- handler.go, the `for errorNumber, errorCondition := range task.Errors` loop.
`none` = fell through, `some (exit, db)` = returned -/
def condLoop (c : Cfg) (d : Db) : List Cond → Option (Exit × Db)
  | [] => none
  | .empty :: cs => condLoop c d cs
  | .isFalse :: cs => condLoop c d cs
  | .malformed :: _ => some (.malformed, rollbackIf c c.rbMalformed d)
  | .evalErr :: _ => some (.evalErr, rollbackIf c c.rbEvalErr d)
  | .isTrue :: _ => some (.condTrue, rollbackIf c c.rbCondTrue d)

/-- handler.go, the second pass `for n, task := range tasks` -/
def taskLoop (c : Cfg) (i : Nat) (d : Db) : List Task → Sum (Exit × Db) Db
  | [] => .inr d
  | t :: ts =>
    match runOp i t d with
    | (d1, true) =>
      match condLoop c d1 t.conds with
      | some r => .inl r
      | none => taskLoop c (i + 1) d1 ts
    | (d1, false) => .inl (.opErr, rollbackIf c c.rbOpErr d1)

structure Result where
  ok : Bool        -- the response status is 2xx
  exit : Exit
  db : Db
  deriving DecidableEq, Repr

/-- handler.go Handler.  `defer db.Close()` is applied on every exit after a successful Open. -/
def handler (c : Cfg) (pre : Pre) (tasks : List Task) (commitOk : Bool) (d0 : Db) : Result :=
  if pre = .decodeErr then ⟨false, .decodeErr, d0⟩ else
  if tasks.isEmpty then ⟨true, .emptyList, d0⟩ else
  match pre with
  | .decodeErr => ⟨false, .decodeErr, d0⟩
  | .badOpcode => ⟨false, .badOpcode, d0⟩
  | .noPerm => ⟨false, .noPerm, d0⟩
  | .openErr => ⟨false, .openErr, d0⟩
  | .beginErr => ⟨false, .beginErr, dClose { d0 with handle := true }⟩
  | .fine =>
    match taskLoop c 0 (dBegin { d0 with handle := true }) tasks with
    | .inl (e, d) => ⟨false, e, dClose d⟩
    | .inr d =>
      match dCommit c commitOk d with
      | (d', true) => ⟨true, .done, dClose d'⟩
      | (d', false) => ⟨!c.commitErrFail, .commitErr, dClose d'⟩

/-- The request's context.  `cancelAt = some k`: the context is cancelled (the client went away, a
deadline passed) and this is visible from just before operation `k` starts.  handler.go Handler
never reads `r.Context()`, and database.Open / Begin / Exec / Query / Commit / Rollback are the
context-free database/sql calls, so on the code that exists the run does not depend on it
(T1 fails closed as soon as Handler mentions the request's context; the harness cancels real
request contexts at every operation boundary and compares with this answer). -/
def handlerCtx (c : Cfg) (pre : Pre) (tasks : List Task) (commitOk : Bool) (_cancelAt : Option Nat)
    (d0 : Db) : Result :=
  handler c pre tasks commitOk d0

/-! ### what the property talks about -/

/-- effect ids of the tasks that write, numbering from `i` -/
def writesFrom (i : Nat) : List Task → List Nat
  | [] => []
  | t :: ts => (if t.writes then [i] else []) ++ writesFrom (i + 1) ts

/-- nothing the request opened is still held -/
def released (d : Db) : Bool := !d.txn && !d.handle && !d.inTx && !d.wlock && d.pending.isEmpty

/-- no task is a raw transaction-control statement smuggled through the `sql` opcode -/
def noTxControl (tasks : List Task) : Bool := tasks.all (fun t => t.kind == .plain)

/-- a write lock is held on the database file -/
def locked (d : Db) : Bool := d.wlock

end EgoVerif.C17
