import EgoVerif.C17.Model
/-
C17 — a `@transaction` request is all-or-nothing and releases what it opened on every exit.

All theorems quantify over EVERY source configuration `c : Cfg` satisfying the stated
coverage facts (which T1 re-extracts from the current source on every run and a generated
obligation instantiates), every pre-check outcome, every task list, every assignment of
outcomes to operations / error conditions / the final COMMIT, and every clean initial database.

  C17_released            every exit leaves no transaction, no open handle, no pending work
                          (also when raw COMMIT/ROLLBACK/BEGIN statements are smuggled through `sql`)
  C17_released_iff_covered  … and this holds exactly when every exit is covered (each missing
                          Rollback / stale d.Transaction is a leak with a concrete witness)
  C17_atomic_partial      without raw transaction-control statements: (2xx ∧ every write applied)
                          ∨ (non-2xx ∧ nothing applied)
  C17_atomic_counterexample  with a raw ROLLBACK in the script the request fails AND keeps a write
                          (known finding `sql-txcontrol`)
  C17_ok_iff              success is reported exactly when every operation succeeded, no condition
                          tripped or failed to evaluate, and COMMIT succeeded
  C17_pinned_counterexample  the tree as found: un-evaluable condition → handle and lock left held;
                          failed COMMIT → reported as 2xx
-/
namespace EgoVerif.C17

/-! ### helper lemmas: the handle-level operations -/

theorem connRollback_committed (d : Db) : (connRollback d).1.committed = d.committed := by
  unfold connRollback; split <;> rfl

theorem connRollback_txn (d : Db) : (connRollback d).1.txn = d.txn := by
  unfold connRollback; split <;> rfl

theorem connRollback_handle (d : Db) : (connRollback d).1.handle = d.handle := by
  unfold connRollback; split <;> rfl

theorem dRollback_committed (c : Cfg) (d : Db) : (dRollback c d).1.committed = d.committed := by
  unfold dRollback driverRollback
  split
  · rfl
  · have := connRollback_committed d
    split <;> simp_all

/-- with the stale-pointer fix, Rollback always leaves `d.Transaction == nil` -/
theorem dRollback_txn (c : Cfg) (hc : c.clearOnRollbackErr = true) (d : Db) :
    (dRollback c d).1.txn = false := by
  unfold dRollback driverRollback
  split
  · simp_all
  · split <;> simp_all

theorem rollbackIf_committed (c : Cfg) (f : Bool) (d : Db) : (rollbackIf c f d).committed = d.committed := by
  unfold rollbackIf; split
  · exact dRollback_committed c d
  · rfl

theorem released_close (d : Db) (h : d.txn = false) : released (dClose d) = true := by
  simp [dClose, released, h]

theorem dClose_committed (d : Db) : (dClose d).committed = d.committed := by
  unfold dClose; split <;> rfl

theorem exec_txn (e : Nat) (d : Db) : (exec e d).txn = d.txn := by
  unfold exec; split <;> rfl

theorem lockIf_txn (b : Bool) (d : Db) : (lockIf b d).txn = d.txn := by
  unfold lockIf; split <;> rfl

/-- taking the write lock changes nothing else -/
theorem lockIf_fields (b : Bool) (d : Db) :
    (lockIf b d).committed = d.committed ∧ (lockIf b d).pending = d.pending ∧
    (lockIf b d).inTx = d.inTx ∧ (lockIf b d).txn = d.txn := by
  unfold lockIf; split <;> simp

theorem runOp_txn (i : Nat) (t : Task) (d : Db) : (runOp i t d).1.txn = d.txn := by
  unfold runOp
  cases t.kind <;> simp only
  · split
    · split
      · rw [exec_txn, lockIf_txn]
      · exact lockIf_txn ..
    · exact lockIf_txn ..
  · unfold connCommit; split <;> rfl
  · exact connRollback_txn d
  · split <;> rfl

/-- a plain task: the statement either takes effect (inside the open transaction) or fails -/
theorem runOp_plain (i : Nat) (t : Task) (d : Db) (hk : t.kind = .plain) :
    runOp i t d = if t.ok then ((if t.writes then exec i (lockIf t.locks d) else lockIf t.locks d), true)
                  else (lockIf t.locks d, false) := by
  simp [runOp, hk]

/-! ### release: every exit -/

theorem condLoop_txn (c : Cfg) (hc : c.allCovered = true) (d : Db) (conds : List Cond) (e : Exit) (d' : Db)
    (h : condLoop c d conds = some (e, d')) : d'.txn = false := by
  simp [Cfg.allCovered] at hc
  induction conds with
  | nil => simp [condLoop] at h
  | cons k ks ih =>
    cases k <;> simp [condLoop] at h
    · exact ih h
    · obtain ⟨_, rfl⟩ := h; simp [rollbackIf, hc, dRollback_txn]
    · obtain ⟨_, rfl⟩ := h; simp [rollbackIf, hc, dRollback_txn]
    · obtain ⟨_, rfl⟩ := h; simp [rollbackIf, hc, dRollback_txn]
    · exact ih h

theorem taskLoop_txn (c : Cfg) (hc : c.allCovered = true) (tasks : List Task) (i : Nat) (d : Db) :
    match taskLoop c i d tasks with
    | .inl (_, d') => d'.txn = false
    | .inr d' => d'.txn = d.txn := by
  induction tasks generalizing i d with
  | nil => simp [taskLoop]
  | cons t ts ih =>
    unfold taskLoop
    have ht := runOp_txn i t d
    cases hr : runOp i t d with
    | mk d1 okk =>
      rw [hr] at ht; simp at ht
      cases okk
      · simp [Cfg.allCovered] at hc
        simp [rollbackIf, hc, dRollback_txn]
      · simp only
        cases hcl : condLoop c d1 t.conds with
        | some r =>
          obtain ⟨e, d'⟩ := r
          simp only
          exact condLoop_txn c hc d1 t.conds e d' hcl
        | none =>
          simp only
          have := ih (i + 1) d1
          rw [ht] at this
          exact this

theorem dCommit_txn (c : Cfg) (hc : c.clearOnCommitErr = true) (good : Bool) (d : Db) (h : d.txn = true) :
    (dCommit c good d).1.txn = false := by
  unfold dCommit
  simp [h]
  split <;> simp_all

/-- **Release.**  If every exit is covered (facts extracted from the source), then after the
request returns — by ANY path, for ANY task list, outcomes, and pre-check failure — the handle
holds no transaction, the connection is closed, and no statement is left pending. -/
theorem C17_released (c : Cfg) (hc : c.allCovered = true) (pre : Pre) (tasks : List Task) (commitOk : Bool)
    (d0 : Db) (h0 : d0.clean = true) :
    released (handler c pre tasks commitOk d0).db = true := by
  have hclean : released d0 = true := by
    simp [Db.clean] at h0; simp [released, h0]
  have h0t : d0.txn = false := by simp [Db.clean] at h0; simp [h0]
  unfold handler
  split
  · exact hclean
  · split
    · exact hclean
    · cases pre <;> simp only
      · -- fine
        have hl := taskLoop_txn c hc tasks 0 (dBegin { d0 with handle := true })
        cases hr : taskLoop c 0 (dBegin { d0 with handle := true }) tasks with
        | inl r =>
          obtain ⟨e, d⟩ := r
          rw [hr] at hl
          exact released_close d hl
        | inr d =>
          rw [hr] at hl
          simp [dBegin] at hl
          have hcc : c.clearOnCommitErr = true := by simp [Cfg.allCovered] at hc; simp [hc]
          have := dCommit_txn c hcc commitOk d hl
          simp only
          cases hd : dCommit c commitOk d with
          | mk d' okk =>
            rw [hd] at this
            cases okk <;> exact released_close d' this
      · exact hclean
      · exact hclean
      · exact hclean
      · exact hclean
      · exact released_close _ (by simp [h0t])

/-! ### atomicity (no raw transaction-control statements) -/

theorem condLoop_committed (c : Cfg) (d : Db) (conds : List Cond) (e : Exit) (d' : Db)
    (h : condLoop c d conds = some (e, d')) : d'.committed = d.committed := by
  induction conds with
  | nil => simp [condLoop] at h
  | cons k ks ih =>
    cases k <;> simp [condLoop] at h
    · exact ih h
    · obtain ⟨_, rfl⟩ := h; exact rollbackIf_committed ..
    · obtain ⟨_, rfl⟩ := h; exact rollbackIf_committed ..
    · obtain ⟨_, rfl⟩ := h; exact rollbackIf_committed ..
    · exact ih h

/-- loop invariant: inside the transaction nothing becomes durable, writes accumulate as pending -/
theorem taskLoop_atomic (c : Cfg) (tasks : List Task) (hn : noTxControl tasks = true) (i : Nat) (d : Db)
    (hin : d.inTx = true) :
    match taskLoop c i d tasks with
    | .inl (_, d') => d'.committed = d.committed
    | .inr d' => d'.committed = d.committed ∧ d'.inTx = true ∧ d'.txn = d.txn ∧
                 d'.pending = d.pending ++ writesFrom i tasks := by
  induction tasks generalizing i d with
  | nil => simp [taskLoop, writesFrom, hin]
  | cons t ts ih =>
    simp [noTxControl] at hn
    obtain ⟨hk, hts⟩ := hn
    have hts' : noTxControl ts = true := by simp [noTxControl]; exact hts
    unfold taskLoop
    rw [runOp_plain i t d hk]
    obtain ⟨hl1, hl2, hl3, hl4⟩ := lockIf_fields t.locks d
    generalize lockIf t.locks d = dl at hl1 hl2 hl3 hl4 ⊢
    rw [hin] at hl3
    cases hto : t.ok
    · simp only [Bool.false_eq_true, if_false]
      rw [rollbackIf_committed, hl1]
    · simp only [if_true]
      generalize hd1 : (if t.writes = true then exec i dl else dl) = d1
      have h1 : d1.committed = d.committed ∧ d1.inTx = true ∧ d1.txn = d.txn ∧
          d1.pending = d.pending ++ (if t.writes then [i] else []) := by
        subst hd1
        by_cases hw : t.writes = true <;> simp [hw, exec, hl1, hl2, hl3, hl4]
      cases hcl : condLoop c d1 t.conds with
      | some r =>
        obtain ⟨e, d'⟩ := r
        simp only
        rw [condLoop_committed c d1 t.conds e d' hcl, h1.1]
      | none =>
        simp only
        have := ih hts' (i + 1) d1 h1.2.1
        cases hl : taskLoop c (i + 1) d1 ts with
        | inl r =>
          obtain ⟨e, d'⟩ := r
          rw [hl] at this
          simp only at this ⊢
          rw [this, h1.1]
        | inr d' =>
          rw [hl] at this
          simp only at this ⊢
          obtain ⟨a, b, c', e⟩ := this
          refine ⟨by rw [a, h1.1], b, by rw [c', h1.2.2.1], ?_⟩
          rw [e, h1.2.2.2, writesFrom, List.append_assoc]

/-- the property: success with every write durable, or failure with the database as before -/
def atomic (d0 : Db) (tasks : List Task) (r : Result) : Prop :=
  (r.ok = true ∧ r.db.committed = d0.committed ++ writesFrom 0 tasks) ∨
  (r.ok = false ∧ r.db.committed = d0.committed)

/-- **Atomicity.**  Provided the commit-error exit reports a failure status (extracted fact) and
no task is a raw transaction-control statement: the request either reports success and every
write of every task is durable, or reports failure and the database is exactly as before —
whichever operation fails, whichever condition trips, is malformed or cannot be evaluated,
and whether or not COMMIT succeeds. -/
theorem C17_atomic_partial (c : Cfg) (hc : c.commitErrFail = true) (pre : Pre) (tasks : List Task)
    (commitOk : Bool) (d0 : Db) (h0 : d0.clean = true) (hn : noTxControl tasks = true) :
    atomic d0 tasks (handler c pre tasks commitOk d0) := by
  simp [Db.clean] at h0
  obtain ⟨⟨⟨⟨hp, hi⟩, _⟩, ht⟩, hh⟩ := h0
  unfold atomic handler
  split
  · right; simp
  · split
    · rename_i he
      left
      have : tasks = [] := by simpa using he
      simp [this, writesFrom]
    · cases pre <;> simp only
      · have hl := taskLoop_atomic c tasks hn 0 (dBegin { d0 with handle := true }) (by simp [dBegin])
        cases hr : taskLoop c 0 (dBegin { d0 with handle := true }) tasks with
        | inl r =>
          obtain ⟨e, d⟩ := r
          rw [hr] at hl
          right
          simp only at hl ⊢
          simp [dClose_committed, hl, dBegin]
        | inr d =>
          rw [hr] at hl
          simp only at hl
          obtain ⟨hcm, hin, htx, hpe⟩ := hl
          simp [dBegin] at hcm htx hpe
          cases commitOk
          · right
            simp [dCommit, htx, driverCommit, connCommit, hin, connRollback, hc, dClose_committed, hcm]
          · left
            simp [dCommit, htx, driverCommit, connCommit, hin, dClose_committed, hcm, hpe, hp]
      · right; simp
      · right; simp
      · right; simp
      · right; simp
      · right; simp [dClose_committed]

/-! ### when is success reported -/

def Cond.passes : Cond → Bool
  | .empty | .isFalse => true
  | _ => false

def allPass (tasks : List Task) : Bool := tasks.all (fun t => t.ok && t.conds.all Cond.passes)

theorem condLoop_none_iff (c : Cfg) (d : Db) (conds : List Cond) :
    condLoop c d conds = none ↔ conds.all Cond.passes = true := by
  induction conds with
  | nil => simp [condLoop]
  | cons k ks ih => cases k <;> simp [condLoop, Cond.passes, ih]

theorem taskLoop_inr_iff (c : Cfg) (tasks : List Task) (hn : noTxControl tasks = true) (i : Nat) (d : Db) :
    (∃ d', taskLoop c i d tasks = .inr d') ↔ allPass tasks = true := by
  induction tasks generalizing i d with
  | nil => simp [taskLoop, allPass]
  | cons t ts ih =>
    simp [noTxControl] at hn
    obtain ⟨hk, hts⟩ := hn
    have hts' : noTxControl ts = true := by simp [noTxControl]; exact hts
    unfold taskLoop
    rw [runOp_plain i t d hk]
    cases hto : t.ok
    · simp [allPass, hto]
    · simp only [if_true]
      generalize (if t.writes = true then exec i (lockIf t.locks d) else lockIf t.locks d) = d1
      cases hcl : condLoop c d1 t.conds with
      | some r =>
        have : ¬ (t.conds.all Cond.passes = true) := by
          rw [← condLoop_none_iff c d1]; simp [hcl]
        simp only [allPass, List.all_cons, hto, Bool.true_and, Bool.and_eq_true]
        constructor
        · intro ⟨_, h⟩; cases h
        · intro ⟨h, _⟩; exact absurd h this
      | none =>
        have h1 : t.conds.all Cond.passes = true := (condLoop_none_iff c d1 _).1 hcl
        simp only
        rw [ih hts' (i + 1) d1]
        simp only [allPass, List.all_cons, hto, Bool.true_and, h1]

/-- Success is reported exactly when the list is empty, or every pre-check passed, every
operation succeeded, every condition evaluated to false (or was blank) and COMMIT succeeded. -/
theorem C17_ok_iff (c : Cfg) (hc : c.commitErrFail = true) (pre : Pre) (tasks : List Task)
    (commitOk : Bool) (d0 : Db) (hn : noTxControl tasks = true) :
    (handler c pre tasks commitOk d0).ok = true ↔
      pre ≠ .decodeErr ∧ (tasks = [] ∨ (pre = .fine ∧ allPass tasks = true ∧ commitOk = true)) := by
  unfold handler
  split
  · rename_i h; simp [h]
  · rename_i hpre
    split
    · rename_i he
      have : tasks = [] := by simpa using he
      simp [this, hpre]
    · rename_i hne
      have hne' : tasks ≠ [] := by simpa using hne
      cases pre <;> simp only <;> simp [hne'] at hpre ⊢
      have hiff := taskLoop_inr_iff c tasks hn 0 (dBegin { d0 with handle := true })
      have hat := taskLoop_atomic c tasks hn 0 (dBegin { d0 with handle := true }) (by simp [dBegin])
      cases hr : taskLoop c 0 (dBegin { d0 with handle := true }) tasks with
      | inl r =>
        obtain ⟨e, d⟩ := r
        simp only
        have : ¬ (allPass tasks = true) := by
          rw [← hiff]; simp [hr]
        simp; intro h; simp [h] at this
      | inr d =>
        have hp : allPass tasks = true := hiff.1 ⟨d, hr⟩
        rw [hr] at hat
        simp only at hat
        obtain ⟨_, hin, htx, _⟩ := hat
        simp [dBegin] at htx
        cases commitOk <;>
          simp [dCommit, htx, driverCommit, connCommit, hin, connRollback, hc, hp]

/-! ### the class that stays open: raw transaction control through the `sql` opcode -/

/-- `[insert; sql "ROLLBACK"; insert]` on the FIXED configuration: the request reports failure
(the final COMMIT finds no transaction) and the third task's write is durable. -/
theorem C17_atomic_counterexample :
    let tasks := [⟨.plain, true, true, true, []⟩, ⟨.rawRollback, true, false, false, []⟩, ⟨.plain, true, true, true, []⟩]
    let r := handler Cfg.fixed .fine tasks true ⟨[], [], false, false, false, false⟩
    r.ok = false ∧ r.db.committed = [2] ∧ writesFrom 0 tasks = [0, 2] ∧ noTxControl tasks = false := by
  decide

/-- the tree as found: (1) `insert` + condition that cannot be evaluated → 4xx with the
transaction, the handle and the write lock all still held; (2) a failed COMMIT is reported 2xx
and leaves the handle open.  Both are repaired by fixes/C17.patch (`Cfg.fixed`). -/
theorem C17_pinned_counterexample :
    let d0 : Db := ⟨[], [], false, false, false, false⟩
    let r1 := handler Cfg.pinned .fine [⟨.plain, true, true, true, [.evalErr]⟩] true d0
    let r2 := handler Cfg.pinned .fine [⟨.plain, true, true, true, []⟩] false d0
    (r1.ok = false ∧ r1.db.txn = true ∧ r1.db.handle = true ∧ locked r1.db = true) ∧
    (r2.ok = true ∧ r2.db.committed = [] ∧ r2.db.handle = true) := by
  decide

/-! ### coverage is necessary: each uncovered exit leaks, with a witness -/

def cleanDb : Db := ⟨[], [], false, false, false, false⟩

/-- Every exit releases for every input  ⇔  every exit is covered.  (⇐ is `C17_released`; ⇒
exhibits, for each missing Rollback / stale-pointer case, a request that leaks.) -/
theorem C17_released_iff_covered (c : Cfg) :
    (∀ pre tasks commitOk, released (handler c pre tasks commitOk cleanDb).db = true) ↔ c.allCovered = true := by
  constructor
  · intro h
    have w1 := h .fine [⟨.plain, true, true, true, [.malformed]⟩] true
    have w2 := h .fine [⟨.plain, true, true, true, [.evalErr]⟩] true
    have w3 := h .fine [⟨.plain, true, true, true, [.isTrue]⟩] true
    have w4 := h .fine [⟨.plain, false, false, false, []⟩] true
    have w5 := h .fine [⟨.plain, true, true, true, []⟩] false
    have w6 := h .fine [⟨.rawRollback, true, false, false, []⟩, ⟨.plain, false, false, false, []⟩] true
    obtain ⟨a1, a2, a3, a4, a5, a6, a7⟩ := c
    cases a1 <;> cases a2 <;> cases a3 <;> cases a4 <;> cases a6 <;> cases a7 <;>
      first
      | rfl
      | (exfalso; revert w1 w2 w3 w4 w5 w6; cases a5 <;> decide)
  · intro hc pre tasks commitOk
    exact C17_released c hc pre tasks commitOk cleanDb (by decide)

/-! ### the request's context -/

/-- release and atomicity hold whenever (if ever) the request's context is cancelled -/
theorem C17_released_any_ctx (c : Cfg) (hc : c.allCovered = true) (pre : Pre) (tasks : List Task)
    (commitOk : Bool) (k : Option Nat) (d0 : Db) (h0 : d0.clean = true) :
    released (handlerCtx c pre tasks commitOk k d0).db = true :=
  C17_released c hc pre tasks commitOk d0 h0

theorem C17_atomic_any_ctx (c : Cfg) (hc : c.commitErrFail = true) (pre : Pre) (tasks : List Task)
    (commitOk : Bool) (k : Option Nat) (d0 : Db) (h0 : d0.clean = true) (hn : noTxControl tasks = true) :
    atomic d0 tasks (handlerCtx c pre tasks commitOk k d0) :=
  C17_atomic_partial c hc pre tasks commitOk d0 h0 hn

/-! ### non-vacuity -/

-- the hypotheses of the theorems are met by the fixed configuration and a non-trivial request
example : Cfg.fixed.allCovered = true ∧ Cfg.fixed.commitErrFail = true := by decide
example : Cfg.pinned.allCovered = false := by decide
example :
    let tasks : List Task := [⟨.plain, true, true, true, [.isFalse, .empty]⟩, ⟨.plain, true, false, false, []⟩, ⟨.plain, true, true, true, [.isFalse]⟩]
    noTxControl tasks = true ∧
    (handler Cfg.fixed .fine tasks true cleanDb).ok = true ∧
    (handler Cfg.fixed .fine tasks true cleanDb).db.committed = [0, 2] ∧
    (handler Cfg.fixed .fine tasks false cleanDb).ok = false ∧
    (handler Cfg.fixed .fine tasks false cleanDb).db.committed = [] := by decide
example :
    let tasks : List Task := [⟨.plain, true, true, true, []⟩, ⟨.plain, true, true, true, [.isFalse, .evalErr]⟩, ⟨.plain, true, true, true, []⟩]
    (handler Cfg.fixed .fine tasks true cleanDb).exit = .evalErr ∧
    (handler Cfg.fixed .fine tasks true cleanDb).db = cleanDb := by decide

end EgoVerif.C17
