import EgoVerif.Common.Drv
import EgoVerif.C17.Model
/- line protocol (one request per line):
     `h <cfg: 7 chars 0|1> <pre> <commit 0|1> <task>* [x<k>]`
   cfg   = rbMalformed rbEvalErr rbCondTrue rbOpErr commitErrFail clearOnCommitErr clearOnRollbackErr
   pre   = fine | decode | opcode | perm | open | begin
   task  = <kind p|c|r|b><ok 0|1><writes 0|1><locks 0|1>:<conds>     conds over e m v t f, `-` = none
   x<k>  = the request's context is cancelled, visible from just before operation k (0-based) on
   answer `<ok|fail> <none|all|partial> <free|locked> <closed|leaked>`
     none    = nothing durable,  all = exactly the writes of every task,  partial = anything else
     locked  = a connection still inside a transaction holds the write lock
     leaked  = the handle (connection, file descriptors) is still open -/
namespace EgoVerif.C17

def bit (c : Char) : Option Bool :=
  if c == '1' then some true else if c == '0' then some false else none

def parseCfg (s : String) : Option Cfg :=
  match s.toList.map bit with
  | [some a, some b, some c, some d, some e, some f, some g] => some ⟨a, b, c, d, e, f, g⟩
  | _ => none

def parsePre (s : String) : Option Pre :=
  if s == "fine" then some .fine else if s == "decode" then some .decodeErr
  else if s == "opcode" then some .badOpcode else if s == "perm" then some .noPerm
  else if s == "open" then some .openErr else if s == "begin" then some .beginErr else none

def parseCond (c : Char) : Option Cond :=
  if c == 'e' then some .empty else if c == 'm' then some .malformed else if c == 'v' then some .evalErr
  else if c == 't' then some .isTrue else if c == 'f' then some .isFalse else none

def parseConds : List Char → Option (List Cond)
  | [] => some []
  | c :: cs =>
    match parseCond c, parseConds cs with
    | some x, some xs => some (x :: xs)
    | _, _ => none

def parseKind (c : Char) : Option Kind :=
  if c == 'p' then some .plain else if c == 'c' then some .rawCommit
  else if c == 'r' then some .rawRollback else if c == 'b' then some .rawBegin else none

def parseTask (s : String) : Option Task :=
  match s.toList with
  | k :: o :: w :: l :: ':' :: cs =>
    let conds := if cs == ['-'] then some [] else parseConds cs
    match parseKind k, bit o, bit w, bit l, conds with
    | some k, some o, some w, some l, some cs => some ⟨k, o, w, l, cs⟩
    | _, _, _, _, _ => none
  | _ => none

def parseTasks : List String → Option (List Task)
  | [] => some []
  | s :: ss =>
    match parseTask s, parseTasks ss with
    | some t, some ts => some (t :: ts)
    | _, _ => none

/-- the optional trailing `x<k>` -/
def parseCancel (s : String) : Option Nat :=
  match s.toList with
  | 'x' :: ds => (String.ofList ds).toNat?
  | _ => none

def isCancel (s : String) : Bool := (parseCancel s).isSome

def render (tasks : List Task) (r : Result) : String :=
  let st := if r.ok then "ok" else "fail"
  let ap := if r.db.committed.isEmpty then "none"
            else if r.db.committed == writesFrom 0 tasks then "all" else "partial"
  let lk := if locked r.db then "locked" else "free"
  let cl := if r.db.handle then "leaked" else "closed"
  st ++ " " ++ ap ++ " " ++ lk ++ " " ++ cl

def handle (line : String) : String :=
  match fields line with
  | "h" :: cfg :: pre :: commit :: rest =>
    let tasks := rest.filter (fun s => !isCancel s)
    let cancelAt := (rest.filter isCancel).head?.bind parseCancel
    match parseCfg cfg, parsePre pre, (commit.toList.head?.bind bit), parseTasks tasks with
    | some c, some p, some k, some ts => render ts (handlerCtx c p ts k cancelAt ⟨[], [], false, false, false, false⟩)
    | _, _, _, _ => "bad-input"
  | _ => "bad-op"

def drv : Drv := Drv.pure handle

end EgoVerif.C17
