import EgoVerif.C21.Model
/-
C21 — native bearer tokens are honoured exactly while valid.

Specification side (functions of the HISTORY only, no server state):
  `clock h`          the time after history `h` (sum of the advances)
  `revokedIn h id`   `id` is on the revocation list after `h` (last relevant op wins)
  `issuedCur h b t`  string `b` was issued in `h` under the current key with content `t`
  `AEAD dec h`       the assumption on the crypto parameter: a presented string decrypts to `t`
                     iff its bytes are unaltered and it was issued in `h` under the current key
                     with content `t` (authenticated encryption; C27 is about the framing).

Main theorem `C21_accept_iff`: for EVERY history `h` (issue / blacklist / delete-from-blacklist /
flush / purge of any cache / advance / validations on any path, with any cache capacity) and
every presented string, the verdict of a validation made after `h` is `accepted` iff the string
is an unaltered token issued under the current key, not expired, whose id is not revoked after
`h` (the router additionally needs a non-empty user name: it authenticates *somebody*).

The core is `Inv`: every cache is a sound memo of the blacklist table —
a BlacklistCache entry says exactly whether its id is in the table, and a TokenCache entry
is a token that decrypts to the cached value, is named, and is NOT in the table.
-/
namespace EgoVerif.C21

/-! ### the cache as a container: whatever holds of all items survives every operation -/

section cache
variable {κ ν : Type}

/-- every item of the cache satisfies `P key value` -/
def Cache.Sat (c : Cache κ ν) (P : κ → ν → Prop) : Prop := ∀ e ∈ c.items, P e.key e.val

theorem Cache.sat_empty (P : κ → ν → Prop) : (Cache.empty : Cache κ ν).Sat P := by
  intro e he; simp [Cache.empty] at he

theorem Cache.sat_purge (c : Cache κ ν) (P : κ → ν → Prop) : c.purge.Sat P := by
  intro e he; simp [Cache.purge] at he

theorem Cache.sat_mono {c : Cache κ ν} {P Q : κ → ν → Prop} (h : c.Sat P)
    (hpq : ∀ k v, P k v → Q k v) : c.Sat Q := fun e he => hpq _ _ (h e he)

theorem Cache.sat_tick {c : Cache κ ν} {P : κ → ν → Prop} (h : c.Sat P) (t : Nat) : (c.tick t).Sat P := by
  unfold Cache.tick
  split
  · intro e he
    simp only [List.mem_filter] at he
    exact h e he.1
  · exact h

theorem Cache.sat_advance {P : κ → ν → Prop} (f : Nat) :
    ∀ (c : Cache κ ν) (t : Nat), c.Sat P → (Cache.advance f c t).Sat P := by
  induction f with
  | zero => intro c t h; exact h
  | succ f ih =>
    intro c t h
    unfold Cache.advance
    split
    · exact ih _ _ (Cache.sat_tick h _)
    · exact h

variable [DecidableEq κ]

theorem Cache.sat_delete {c : Cache κ ν} {P : κ → ν → Prop} (h : c.Sat P) (k : κ) : (c.delete k).Sat P := by
  intro e he
  simp only [Cache.delete, List.mem_filter] at he
  exact h e he.1

/-- after `delete k` no item has key `k` -/
theorem Cache.delete_key_ne (c : Cache κ ν) (k : κ) : ∀ e ∈ (c.delete k).items, e.key ≠ k := by
  intro e he
  simp only [Cache.delete, List.mem_filter, decide_eq_true_eq] at he
  exact he.2

/-- deleting strengthens what is known of the remaining items -/
theorem Cache.sat_delete_ne {c : Cache κ ν} {P : κ → ν → Prop} (h : c.Sat P) (k : κ) :
    (c.delete k).Sat (fun k' v => k' ≠ k ∧ P k' v) := by
  intro e he
  exact ⟨Cache.delete_key_ne c k e he, Cache.sat_delete h k e he⟩

theorem Cache.sat_find {c : Cache κ ν} {P : κ → ν → Prop} (h : c.Sat P) (now : Nat) (k : κ) :
    (c.find now k).2.Sat P := by
  unfold Cache.find
  split
  · intro e he
    simp only [List.mem_map] at he
    obtain ⟨e0, he0, rfl⟩ := he
    split
    · exact h e0 he0
    · exact h e0 he0
  · exact h

/-- a hit returns the value of an item stored under that key -/
theorem Cache.find_hit {c : Cache κ ν} {P : κ → ν → Prop} (h : c.Sat P) {now : Nat} {k : κ} {v : ν}
    (hf : (c.find now k).1 = some v) : P k v := by
  unfold Cache.find at hf
  split at hf
  · rename_i e he
    have hm := List.mem_of_find?_eq_some he
    have hk := List.find?_some he
    simp only [decide_eq_true_eq] at hk
    simp only [Option.some.injEq] at hf
    rw [← hk, ← hf]
    exact h e hm
  · simp at hf

theorem Cache.sat_add {c : Cache κ ν} {P : κ → ν → Prop} (h : c.Sat P) (m now : Nat) (k : κ) (v : ν)
    (hk : P k v) : (c.add m now k v).Sat P := by
  unfold Cache.add
  intro e he
  cases hl : c.live <;> simp only [hl, Bool.false_eq_true, if_false, if_true] at he
  · split at he
    · simp at he
    · simp only [List.nil_append, List.mem_singleton] at he
      subst he; exact hk
  · split at he
    · simp only [List.mem_filter] at he
      exact h e he.1
    · simp only [List.mem_append, List.mem_filter, List.mem_singleton] at he
      rcases he with he | he
      · exact h e he.1
      · subst he; exact hk

end cache

/-! ### the invariant -/

structure Inv (dec : Pres → Option Tok) (st : St) : Prop where
  /-- BlacklistCache: a cached answer is the table's answer -/
  bc : st.bc.Sat (fun id v => v = decide (id ∈ st.store))
  /-- TokenCache: a cached token decrypts to the cached value, is named, and is not revoked -/
  tc : st.tc.Sat (fun p t => dec p = some t ∧ t.id ∉ st.store ∧ t.user ≠ 0)

theorem inv_init (dec : Pres → Option Tok) (m : Nat) : Inv dec (St.init m) :=
  ⟨Cache.sat_empty _, Cache.sat_empty _⟩

/-- what a validation may not touch: the table, the clock, the configuration -/
structure Frame (st st' : St) : Prop where
  store : st'.store = st.store
  now : st'.now = st.now
  maxSize : st'.maxSize = st.maxSize

theorem Frame.refl (st : St) : Frame st st := ⟨rfl, rfl, rfl⟩

theorem Frame.of_tc (st : St) (tc' : Cache Pres Tok) : Frame st { st with tc := tc' } := ⟨rfl, rfl, rfl⟩

theorem Frame.trans {a b c : St} (h1 : Frame a b) (h2 : Frame b c) : Frame a c :=
  ⟨h2.store.trans h1.store, h2.now.trans h1.now, h2.maxSize.trans h1.maxSize⟩

/-! ### IsBlacklisted answers with the table's truth and keeps the invariant -/

theorem isBlacklisted_spec {dec : Pres → Option Tok} {st : St} (hi : Inv dec st) (id : Nat) :
    (isBlacklisted st id).1 = decide (id ∈ st.store) ∧
    Inv dec (isBlacklisted st id).2 ∧ Frame st (isBlacklisted st id).2 ∧
    (isBlacklisted st id).2.tc = st.tc := by
  unfold isBlacklisted
  cases hf : st.bc.find st.now id with
  | mk o bc' =>
    cases o with
    | some v =>
      have hv : (st.bc.find st.now id).1 = some v := by rw [hf]
      have hbc' : bc' = (st.bc.find st.now id).2 := by rw [hf]
      refine ⟨Cache.find_hit hi.bc hv, ⟨?_, hi.tc⟩, ⟨rfl, rfl, rfl⟩, rfl⟩
      show bc'.Sat _
      rw [hbc']
      exact Cache.sat_find hi.bc _ _
    | none =>
      refine ⟨rfl, ⟨?_, hi.tc⟩, ⟨rfl, rfl, rfl⟩, rfl⟩
      exact Cache.sat_add hi.bc _ _ _ _ rfl

/-! ### Unwrap / Validate -/

/-- the specification of one validation against the server state -/
def Valid (dec : Pres → Option Tok) (st : St) (p : Pres) (t : Tok) : Prop :=
  dec p = some t ∧ st.now ≤ t.expires ∧ t.id ∉ st.store

theorem unwrap_spec {dec : Pres → Option Tok} {st : St} (hi : Inv dec st) (p : Pres) :
    ((unwrap dec st p).1 = .accepted ↔ ∃ t, Valid dec st p t) ∧
    (∀ t, (unwrap dec st p).2.1 = some t → (unwrap dec st p).1 = .accepted ∧ Valid dec st p t) ∧
    ((unwrap dec st p).1 = .accepted → ∃ t, (unwrap dec st p).2.1 = some t) ∧
    Inv dec (unwrap dec st p).2.2 ∧ Frame st (unwrap dec st p).2.2 ∧
    (unwrap dec st p).2.2.tc = st.tc := by
  unfold unwrap
  cases hd : dec p with
  | none =>
    refine ⟨⟨fun h => by simp at h, fun ⟨t, ht, _⟩ => by simp [hd] at ht⟩, ?_, ?_, hi, Frame.refl _, rfl⟩
    · intro t h; simp at h
    · intro h; simp at h
  | some t =>
    by_cases hexp : st.now > t.expires
    · simp only [hexp, if_true]
      refine ⟨⟨fun h => by simp at h, ?_⟩, ?_, ?_, hi, Frame.refl _, by trivial⟩
      · rintro ⟨t', ht', hle, _⟩
        rw [hd] at ht'
        simp only [Option.some.injEq] at ht'
        subst ht'
        omega
      · intro t' h; simp at h
      · intro h; simp at h
    · simp only [hexp, if_false]
      obtain ⟨hb, hinv, hfr, htc⟩ := isBlacklisted_spec hi t.id
      cases hib : isBlacklisted st t.id with
      | mk b st' =>
        rw [hib] at hb hinv hfr htc
        simp only at hb hinv hfr htc
        cases b with
        | true =>
          have hmem : t.id ∈ st.store := by simpa using hb.symm
          refine ⟨⟨fun h => by simp at h, ?_⟩, ?_, ?_, hinv, hfr, htc⟩
          · rintro ⟨t', ht', _, hnot⟩
            rw [hd] at ht'
            simp only [Option.some.injEq] at ht'
            subst ht'
            exact absurd hmem hnot
          · intro t' h; simp at h
          · intro h; simp at h
        | false =>
          have hnot : t.id ∉ st.store := by simpa using hb.symm
          have hv : Valid dec st p t := ⟨hd, by omega, hnot⟩
          refine ⟨⟨fun _ => ⟨t, hv⟩, fun _ => rfl⟩, ?_, ?_, hinv, hfr, htc⟩
          · intro t' h
            simp only [Option.some.injEq] at h
            subst h
            exact ⟨rfl, hv⟩
          · intro _; exact ⟨t, rfl⟩

/-! ### GetPermissions touches only the AuthCache -/

theorem getPermissions_spec {dec : Pres → Option Tok} {st : St} (hi : Inv dec st) (u : Nat) :
    Inv dec (getPermissions st u) ∧ Frame st (getPermissions st u) := by
  unfold getPermissions
  cases hf : st.ac.find st.now u with
  | mk o ac' =>
    cases o with
    | some v => exact ⟨⟨hi.bc, hi.tc⟩, ⟨rfl, rfl, rfl⟩⟩
    | none =>
      simp only
      split
      · exact ⟨⟨hi.bc, hi.tc⟩, ⟨rfl, rfl, rfl⟩⟩
      · exact ⟨hi, Frame.refl _⟩

/-! ### the router path -/

/-- the write-back with its second look at the revocation list: from a state whose TokenCache
already holds the (valid) token, the second lookup repeats the table's answer -/
theorem writeBack_spec {dec : Pres → Option Tok} {st2 : St} (p : Pres) (tok : Tok)
    (hi : Inv dec { st2 with tc := st2.tc.add st2.maxSize st2.now p tok })
    (hnot : tok.id ∉ ({ st2 with tc := st2.tc.add st2.maxSize st2.now p tok } : St).store) :
    (writeBack st2 p tok).1 = .accepted ∧ Inv dec (writeBack st2 p tok).2 ∧
    Frame st2 (writeBack st2 p tok).2 := by
  unfold writeBack
  obtain ⟨hb, hinv, hfr, _⟩ := isBlacklisted_spec hi tok.id
  cases hib : isBlacklisted { st2 with tc := st2.tc.add st2.maxSize st2.now p tok } tok.id with
  | mk b st4 =>
    rw [hib] at hb hinv hfr
    simp only at hb hinv hfr
    cases b with
    | true => exact absurd (by simpa using hb.symm) hnot
    | false =>
      obtain ⟨hinv5, hfr5⟩ := getPermissions_spec hinv tok.user
      exact ⟨rfl, hinv5, (Frame.of_tc _ _).trans (hfr.trans hfr5)⟩

theorem routerAuth_spec {dec : Pres → Option Tok} {st : St} (hi : Inv dec st) (p : Pres) :
    ((routerAuth dec st p).1 = .accepted ↔ ∃ t, Valid dec st p t ∧ t.user ≠ 0) ∧
    Inv dec (routerAuth dec st p).2 ∧ Frame st (routerAuth dec st p).2 := by
  unfold routerAuth
  cases hf : st.tc.find st.now p with
  | mk o tc' =>
    have htc' : tc' = (st.tc.find st.now p).2 := by rw [hf]
    have hsat' : tc'.Sat (fun p t => dec p = some t ∧ t.id ∉ st.store ∧ t.user ≠ 0) := by
      rw [htc']; exact Cache.sat_find hi.tc _ _
    -- the miss path from a state `st1` that differs from `st` only in the TokenCache
    have miss : ∀ st1 : St, Inv dec st1 → Frame st st1 →
        (((match unwrap dec st1 p with
            | (.accepted, some tok, st2) =>
              if tok.user ≠ 0 then writeBack st2 p tok
              else (Verdict.denied, st2)
            | (_, _, st2) => (Verdict.denied, st2)) : Verdict × St).1 = .accepted ↔
            ∃ t, Valid dec st p t ∧ t.user ≠ 0) ∧
        Inv dec ((match unwrap dec st1 p with
            | (.accepted, some tok, st2) =>
              if tok.user ≠ 0 then writeBack st2 p tok
              else (Verdict.denied, st2)
            | (_, _, st2) => (Verdict.denied, st2)) : Verdict × St).2 ∧
        Frame st ((match unwrap dec st1 p with
            | (.accepted, some tok, st2) =>
              if tok.user ≠ 0 then writeBack st2 p tok
              else (Verdict.denied, st2)
            | (_, _, st2) => (Verdict.denied, st2)) : Verdict × St).2 := by
      intro st1 hi1 hfr1
      obtain ⟨hacc, hsome, hex, hinv2, hfr2, _⟩ := unwrap_spec (dec := dec) hi1 p
      have valid_transfer : ∀ t, Valid dec st1 p t ↔ Valid dec st p t := by
        intro t; unfold Valid; rw [hfr1.store, hfr1.now]
      cases hu : unwrap dec st1 p with
      | mk v rest =>
        cases rest with
        | mk ot st2 =>
          rw [hu] at hacc hsome hex hinv2 hfr2
          simp only at hacc hsome hex hinv2 hfr2
          have hfr02 : Frame st st2 := hfr1.trans hfr2
          -- whenever the verdict is not "accepted with a token", the answer is `denied`
          have denied_case : (¬ ∃ t, v = .accepted ∧ ot = some t) →
              ¬ ∃ t, Valid dec st p t ∧ t.user ≠ 0 := by
            intro hno ⟨t, hv, _⟩
            have := hacc.mpr ⟨t, (valid_transfer t).mpr hv⟩
            obtain ⟨t', ht'⟩ := hex this
            exact hno ⟨t', this, ht'⟩
          cases v with
          | accepted =>
            cases ot with
            | none =>
              have := denied_case (by rintro ⟨t, _, h⟩; simp at h)
              exact ⟨⟨fun h => by simp at h, fun h => absurd h this⟩, hinv2, hfr02⟩
            | some tok =>
              obtain ⟨_, hv⟩ := hsome tok rfl
              have hv0 : Valid dec st p tok := (valid_transfer tok).mp hv
              by_cases hu0 : tok.user = 0
              · simp only [hu0, ne_eq, not_true_eq_false, if_false]
                refine ⟨⟨fun h => by simp at h, ?_⟩, hinv2, hfr02⟩
                rintro ⟨t, ⟨ht, _, _⟩, hne⟩
                have : t = tok := by
                  have := hv0.1; rw [ht] at this; simpa using this
                subst this; exact absurd hu0 hne
              · simp only [ne_eq, hu0, not_false_eq_true, if_true]
                have hinv3 : Inv dec { st2 with tc := st2.tc.add st2.maxSize st2.now p tok } := by
                  refine ⟨hinv2.bc, ?_⟩
                  refine Cache.sat_add hinv2.tc _ _ _ _ ⟨hv.1, ?_, hu0⟩
                  show tok.id ∉ st2.store
                  rw [hfr2.store]; exact hv.2.2
                have hnot3 : tok.id ∉
                    ({ st2 with tc := st2.tc.add st2.maxSize st2.now p tok } : St).store := by
                  show tok.id ∉ st2.store
                  rw [hfr2.store]; exact hv.2.2
                obtain ⟨hacc4, hinv4, hfr4⟩ := writeBack_spec p tok hinv3 hnot3
                refine ⟨⟨fun _ => ⟨tok, hv0, hu0⟩, fun _ => hacc4⟩, hinv4, ?_⟩
                exact hfr02.trans hfr4
          | invalid =>
            have := denied_case (by rintro ⟨t, h, _⟩; simp at h)
            exact ⟨⟨fun h => by simp at h, fun h => absurd h this⟩, hinv2, hfr02⟩
          | expired =>
            have := denied_case (by rintro ⟨t, h, _⟩; simp at h)
            exact ⟨⟨fun h => by simp at h, fun h => absurd h this⟩, hinv2, hfr02⟩
          | blacklisted =>
            have := denied_case (by rintro ⟨t, h, _⟩; simp at h)
            exact ⟨⟨fun h => by simp at h, fun h => absurd h this⟩, hinv2, hfr02⟩
          | denied =>
            have := denied_case (by rintro ⟨t, h, _⟩; simp at h)
            exact ⟨⟨fun h => by simp at h, fun h => absurd h this⟩, hinv2, hfr02⟩
    cases o with
    | none => exact miss st hi (Frame.refl _)
    | some tok =>
      have hv : (st.tc.find st.now p).1 = some tok := by rw [hf]
      obtain ⟨hdec, hnot, hnamed⟩ := Cache.find_hit hi.tc hv
      by_cases hexp : st.now > tok.expires
      · -- cached but expired: evicted, then the full validation
        simp only [hexp, if_true]
        have hi1 : Inv dec { st with tc := tc'.delete p } :=
          ⟨hi.bc, Cache.sat_delete hsat' p⟩
        exact miss _ hi1 (Frame.of_tc _ _)
      · -- cache hit: authenticated without looking at the table — sound because of `Inv.tc`
        simp only [hexp, if_false]
        have hi1 : Inv dec { st with tc := tc' } := ⟨hi.bc, hsat'⟩
        obtain ⟨hinv4, hfr4⟩ := getPermissions_spec hi1 tok.user
        refine ⟨⟨fun _ => ⟨tok, ⟨hdec, by omega, hnot⟩, hnamed⟩, fun _ => by trivial⟩, hinv4, ?_⟩
        exact Frame.trans (Frame.of_tc _ _) hfr4

/-! ### every validation path -/

theorem validate_spec {dec : Pres → Option Tok} {st : St} (hi : Inv dec st) (path : Path) (p : Pres) :
    ((validate dec st path p).1 = .accepted ↔
        ∃ t, Valid dec st p t ∧ (path = .router → t.user ≠ 0)) ∧
    Inv dec (validate dec st path p).2 ∧ Frame st (validate dec st path p).2 := by
  obtain ⟨hacc, _, _, hinv, hfr, _⟩ := unwrap_spec (dec := dec) hi p
  obtain ⟨racc, rinv, rfr⟩ := routerAuth_spec (dec := dec) hi p
  cases path with
  | router =>
    refine ⟨?_, rinv, rfr⟩
    show (routerAuth dec st p).1 = .accepted ↔ _
    rw [racc]
    exact ⟨fun ⟨t, hv, hn⟩ => ⟨t, hv, fun _ => hn⟩, fun ⟨t, hv, hn⟩ => ⟨t, hv, hn rfl⟩⟩
  | validate | unwrap | cipherValidate | cipherExtract =>
    refine ⟨?_, hinv, hfr⟩
    show (unwrap dec st p).1 = .accepted ↔ _
    rw [hacc]
    exact ⟨fun ⟨t, hv⟩ => ⟨t, hv, fun h => by cases h⟩, fun ⟨t, hv, _⟩ => ⟨t, hv⟩⟩

/-! ### every operation keeps the invariant -/

theorem step_inv {dec : Pres → Option Tok} {st : St} (hi : Inv dec st) (op : Op) :
    Inv dec (step dec st op).1 := by
  cases op with
  | issue b c t => exact hi
  | blacklist id =>
    simp only [step]
    split
    · exact hi
    · exact ⟨Cache.sat_purge _ _, Cache.sat_purge _ _⟩
  | unblacklist id =>
    simp only [step]
    split
    · refine ⟨?_, ?_⟩
      · -- the one entry that could have become wrong is deleted
        refine Cache.sat_mono (Cache.sat_delete_ne hi.bc id) ?_
        intro k v ⟨hne, hv⟩
        show v = decide (k ∈ List.filter (fun x => decide (x ≠ id)) st.store)
        rw [hv]
        simp [List.mem_filter, hne]
      · -- the table only shrinks
        refine Cache.sat_mono hi.tc ?_
        intro p t ⟨hd, hnot, hn⟩
        refine ⟨hd, ?_, hn⟩
        intro hmem
        exact hnot (List.mem_filter.mp hmem).1
    · exact hi
  | flush =>
    refine ⟨Cache.sat_purge _ _, ?_⟩
    refine Cache.sat_mono hi.tc ?_
    intro p t ⟨hd, _, hn⟩
    exact ⟨hd, List.not_mem_nil, hn⟩
  | purge w =>
    cases w with
    | tokens => exact ⟨hi.bc, Cache.sat_purge _ _⟩
    | blacklist => exact ⟨Cache.sat_purge _ _, hi.tc⟩
    | auth => exact ⟨hi.bc, hi.tc⟩
    | all => exact ⟨Cache.sat_purge _ _, Cache.sat_purge _ _⟩
  | advance d => exact ⟨Cache.sat_advance _ _ _ hi.bc, Cache.sat_advance _ _ _ hi.tc⟩
  | validate path p => exact (validate_spec hi path p).2.1

theorem run_inv {dec : Pres → Option Tok} (h : List Op) :
    ∀ st, Inv dec st → Inv dec (run dec st h) := by
  induction h with
  | nil => intro st hi; exact hi
  | cons op ops ih => intro st hi; exact ih _ (step_inv hi op)

/-! ### the specification, as functions of the history -/

/-- the clock after `h` -/
def clockFrom : Nat → List Op → Nat
  | n, [] => n
  | n, .advance d :: ops => clockFrom (n + d) ops
  | n, _ :: ops => clockFrom n ops

def clock (h : List Op) : Nat := clockFrom 0 h

/-- the revocation list after `h`, starting from the list `r` -/
def revokedFrom : (Nat → Prop) → List Op → Nat → Prop
  | r, [] => r
  | r, .blacklist i :: ops => revokedFrom (fun x => x = i ∨ r x) ops
  | r, .unblacklist i :: ops => revokedFrom (fun x => x ≠ i ∧ r x) ops
  | _, .flush :: ops => revokedFrom (fun _ => False) ops
  | r, _ :: ops => revokedFrom r ops

def revokedIn (h : List Op) (id : Nat) : Prop := revokedFrom (fun _ => False) h id

/-- `AEAD dec h`: under the current key, exactly the unaltered strings issued (in `h`) with
that key decrypt, and to the content they were issued with. -/
def AEAD (dec : Pres → Option Tok) (h : List Op) : Prop :=
  ∀ p t, dec p = some t ↔ (p.alt = 0 ∧ issuedCur h p.base t)

/-- the model's clock and table are the specification's -/
theorem run_tracks {dec : Pres → Option Tok} (h : List Op) :
    ∀ (st : St) (r : Nat → Prop), Inv dec st → (∀ x, x ∈ st.store ↔ r x) →
      (run dec st h).now = clockFrom st.now h ∧
      (∀ x, x ∈ (run dec st h).store ↔ revokedFrom r h x) := by
  induction h with
  | nil => intro st r _ hr; exact ⟨rfl, hr⟩
  | cons op ops ih =>
    intro st r hi hr
    have hi' := step_inv (dec := dec) hi op
    cases op with
    | issue b c t => exact ih _ r hi' hr
    | blacklist id =>
      simp only [run, clockFrom, revokedFrom]
      by_cases hm : id ∈ st.store
      · have hs : (step dec st (.blacklist id)).1 = st := by simp [step, hm]
        rw [hs] at hi' ⊢
        refine ih st _ hi ?_
        intro x
        constructor
        · intro hx; exact Or.inr ((hr x).mp hx)
        · rintro (rfl | hx)
          · exact hm
          · exact (hr x).mpr hx
      · have hnow : (step dec st (.blacklist id)).1.now = st.now := by simp [step, hm]
        have hst : (step dec st (.blacklist id)).1.store = id :: st.store := by simp [step, hm]
        have := ih _ (fun x => x = id ∨ r x) hi' (by
          intro x; rw [hst]; simp [List.mem_cons, hr x])
        rw [hnow] at this
        exact this
    | unblacklist id =>
      simp only [run, clockFrom, revokedFrom]
      by_cases hm : id ∈ st.store
      · have hnow : (step dec st (.unblacklist id)).1.now = st.now := by simp [step, hm]
        have hst : (step dec st (.unblacklist id)).1.store =
            st.store.filter (fun x => decide (x ≠ id)) := by simp [step, hm]
        have := ih _ (fun x => x ≠ id ∧ r x) hi' (by
          intro x; rw [hst]; simp [List.mem_filter, hr x, and_comm])
        rw [hnow] at this
        exact this
      · have hs : (step dec st (.unblacklist id)).1 = st := by simp [step, hm]
        rw [hs] at hi' ⊢
        refine ih st _ hi ?_
        intro x
        constructor
        · intro hx
          refine ⟨?_, (hr x).mp hx⟩
          rintro rfl; exact hm hx
        · rintro ⟨_, hx⟩; exact (hr x).mpr hx
    | flush =>
      simp only [run, clockFrom, revokedFrom]
      have := ih _ (fun _ => False) hi' (by intro x; simp [step])
      simpa [step] using this
    | purge w =>
      simp only [run, clockFrom, revokedFrom]
      have hnow : (step dec st (.purge w)).1.now = st.now := by cases w <;> rfl
      have hst : (step dec st (.purge w)).1.store = st.store := by cases w <;> rfl
      have := ih _ r hi' (by intro x; rw [hst]; exact hr x)
      rw [hnow] at this
      exact this
    | advance d =>
      simp only [run, clockFrom, revokedFrom]
      exact ih _ r hi' (by intro x; exact hr x)
    | validate path p =>
      simp only [run, clockFrom, revokedFrom]
      obtain ⟨_, _, hfr⟩ := validate_spec (dec := dec) hi path p
      have hnow : (step dec st (.validate path p)).1.now = st.now := hfr.now
      have hst : (step dec st (.validate path p)).1.store = st.store := hfr.store
      have := ih _ r hi' (by intro x; rw [hst]; exact hr x)
      rw [hnow] at this
      exact this

/-- the verdict of presenting `p` on `path` to a server of cache capacity `m` that has been
through history `h` -/
def verdictAfter (dec : Pres → Option Tok) (m : Nat) (h : List Op) (path : Path) (p : Pres) : Verdict :=
  (validate dec (run dec (St.init m) h) path p).1

/-! ### main theorems -/

/-- Refinement over ALL sequential histories, no assumption on the crypto parameter:
accepted iff the string decrypts (under the current key) to a token that is unexpired and
whose id is not on the revocation list after `h`.  Caches never change the answer. -/
theorem C21_accept_iff_decrypts (dec : Pres → Option Tok) (m : Nat) (h : List Op) (path : Path) (p : Pres) :
    verdictAfter dec m h path p = .accepted ↔
      ∃ t, dec p = some t ∧ clock h ≤ t.expires ∧ ¬ revokedIn h t.id ∧ (path = .router → t.user ≠ 0) := by
  have hi := run_inv (dec := dec) h _ (inv_init dec m)
  obtain ⟨hnow, hstore⟩ := run_tracks (dec := dec) h (St.init m) (fun _ => False) (inv_init dec m)
    (by intro x; simp [St.init])
  have hnow' : (run dec (St.init m) h).now = clock h := hnow
  unfold verdictAfter
  rw [(validate_spec hi path p).1]
  constructor
  · rintro ⟨t, ⟨hd, hle, hnot⟩, hn⟩
    refine ⟨t, hd, by omega, ?_, hn⟩
    intro hr; exact hnot ((hstore _).mpr hr)
  · rintro ⟨t, hd, hle, hnot, hn⟩
    refine ⟨t, ⟨hd, by omega, ?_⟩, hn⟩
    intro hm; exact hnot ((hstore _).mp hm)

/-- THE PROPERTY.  With authenticated encryption (`AEAD`), for every history `h`, every path
and every presented string `p`: accepted ⇔ issued by this server under its current key ∧
unaltered ∧ not expired ∧ id not on the revocation list at the time of the request
(∧ it names a user, on the router path). -/
theorem C21_accept_iff (dec : Pres → Option Tok) (m : Nat) (h : List Op) (path : Path) (p : Pres)
    (haead : AEAD dec h) :
    verdictAfter dec m h path p = .accepted ↔
      ∃ t, issuedCur h p.base t ∧ p.alt = 0 ∧ clock h ≤ t.expires ∧ ¬ revokedIn h t.id ∧
        (path = .router → t.user ≠ 0) := by
  rw [C21_accept_iff_decrypts]
  constructor
  · rintro ⟨t, hd, rest⟩
    obtain ⟨ha, hiss⟩ := (haead p t).mp hd
    exact ⟨t, hiss, ha, rest⟩
  · rintro ⟨t, hiss, ha, rest⟩
    exact ⟨t, (haead p t).mpr ⟨ha, hiss⟩, rest⟩

/-- an altered string is never accepted -/
theorem C21_altered_rejected (dec : Pres → Option Tok) (m : Nat) (h : List Op) (path : Path) (p : Pres)
    (haead : AEAD dec h) (halt : p.alt ≠ 0) : verdictAfter dec m h path p ≠ .accepted := by
  intro hacc
  obtain ⟨_, _, ha, _⟩ := (C21_accept_iff dec m h path p haead).mp hacc
  exact halt ha

/-! ### revocation list: what the history-level definition says -/

theorem revokedFrom_congr (h : List Op) : ∀ (r r' : Nat → Prop), (∀ x, r x ↔ r' x) →
    ∀ x, revokedFrom r h x ↔ revokedFrom r' h x := by
  induction h with
  | nil => intro r r' hrr x; exact hrr x
  | cons op ops ih =>
    intro r r' hrr x
    cases op with
    | blacklist i => exact ih _ _ (fun y => by simp [hrr y]) x
    | unblacklist i => exact ih _ _ (fun y => by simp [hrr y]) x
    | flush => exact Iff.rfl
    | issue b c t => exact ih _ _ hrr x
    | purge w => exact ih _ _ hrr x
    | advance d => exact ih _ _ hrr x
    | validate pa p => exact ih _ _ hrr x

theorem revokedFrom_append (h : List Op) : ∀ (r : Nat → Prop) (op : Op) (x : Nat),
    revokedFrom r (h ++ [op]) x ↔ revokedFrom (revokedFrom r h) [op] x := by
  induction h with
  | nil => intro r op x; exact Iff.rfl
  | cons o ops ih =>
    intro r op x
    cases o <;> exact ih _ op x

theorem clockFrom_append (h : List Op) : ∀ (n : Nat) (op : Op),
    clockFrom n (h ++ [op]) = clockFrom (clockFrom n h) [op] := by
  induction h with
  | nil => intro n op; rfl
  | cons o ops ih =>
    intro n op
    cases o <;> exact ih _ op

/-- Revocation takes effect on the very next request, on every path, whatever was cached. -/
theorem C21_revocation_immediate (dec : Pres → Option Tok) (m : Nat) (h : List Op) (path : Path)
    (p : Pres) (t : Tok) (hd : dec p = some t) :
    verdictAfter dec m (h ++ [.blacklist t.id]) path p ≠ .accepted := by
  intro hacc
  obtain ⟨t', hd', _, hnot, _⟩ := (C21_accept_iff_decrypts dec m _ path p).mp hacc
  rw [hd] at hd'
  simp only [Option.some.injEq] at hd'
  subst hd'
  apply hnot
  unfold revokedIn
  rw [revokedFrom_append]
  exact Or.inl rfl

/-- Un-revocation (delete from the blacklist, or a flush) restores an unexpired token at once. -/
theorem C21_unrevoke_restores (dec : Pres → Option Tok) (m : Nat) (h : List Op) (path : Path)
    (p : Pres) (t : Tok) (hd : dec p = some t) (hle : clock h ≤ t.expires)
    (hn : path = .router → t.user ≠ 0) :
    verdictAfter dec m (h ++ [.unblacklist t.id]) path p = .accepted ∧
    verdictAfter dec m (h ++ [.flush]) path p = .accepted := by
  constructor
  · refine (C21_accept_iff_decrypts dec m _ path p).mpr ⟨t, hd, ?_, ?_, hn⟩
    · unfold clock; rw [clockFrom_append]; exact hle
    · unfold revokedIn; rw [revokedFrom_append]
      intro hr; exact hr.1 rfl
  · refine (C21_accept_iff_decrypts dec m _ path p).mpr ⟨t, hd, ?_, ?_, hn⟩
    · unfold clock; rw [clockFrom_append]; exact hle
    · unfold revokedIn; rw [revokedFrom_append]
      intro hr; exact hr

/-- Purging any cache (and any other validation in between) never changes a verdict. -/
theorem C21_caches_transparent (dec : Pres → Option Tok) (m : Nat) (h : List Op) (path : Path)
    (p : Pres) (w : Which) (path' : Path) (p' : Pres) :
    (verdictAfter dec m (h ++ [.purge w]) path p = .accepted ↔ verdictAfter dec m h path p = .accepted) ∧
    (verdictAfter dec m (h ++ [.validate path' p']) path p = .accepted ↔
      verdictAfter dec m h path p = .accepted) := by
  constructor <;>
  · rw [C21_accept_iff_decrypts, C21_accept_iff_decrypts]
    unfold clock revokedIn
    constructor
    · rintro ⟨t, hd, hle, hnot, hn⟩
      rw [clockFrom_append] at hle
      refine ⟨t, hd, hle, ?_, hn⟩
      intro hr; apply hnot; rw [revokedFrom_append]; exact hr
    · rintro ⟨t, hd, hle, hnot, hn⟩
      refine ⟨t, hd, ?_, ?_, hn⟩
      · rw [clockFrom_append]; exact hle
      · intro hr; apply hnot; rw [revokedFrom_append] at hr; exact hr

/-- For a token that names a user all five paths give the same yes/no. -/
theorem C21_paths_agree (dec : Pres → Option Tok) (m : Nat) (h : List Op) (p : Pres) (t : Tok)
    (hd : dec p = some t) (hn : t.user ≠ 0) (path path' : Path) :
    verdictAfter dec m h path p = .accepted ↔ verdictAfter dec m h path' p = .accepted := by
  rw [C21_accept_iff_decrypts, C21_accept_iff_decrypts]
  constructor <;>
  · rintro ⟨t', hd', hle, hnot, _⟩
    have : t' = t := by rw [hd] at hd'; simpa using hd'.symm
    subst this
    exact ⟨t', hd', hle, hnot, fun _ => hn⟩

/-! ### the AEAD assumption is satisfiable: the driver's decryption table meets it -/

/-- issued strings are fresh: no base is issued twice -/
def Fresh : List Op → Prop
  | [] => True
  | .issue b _ _ :: ops => (∀ c t, Op.issue b c t ∉ ops) ∧ Fresh ops
  | _ :: ops => Fresh ops

theorem decOf_aead (h : List Op) (hf : Fresh h) : AEAD (decOf h) h := by
  induction h with
  | nil => intro p t; simp [decOf, issuedCur]
  | cons op ops ih =>
    intro p t
    cases op with
    | issue b c t0 =>
      obtain ⟨hnew, hfr⟩ := hf
      have ih' := ih hfr p t
      unfold issuedCur at ih' ⊢
      simp only [decOf]
      by_cases hpb : p.alt = 0 ∧ p.base = b
      · rw [if_pos hpb]
        obtain ⟨ha, hb⟩ := hpb
        cases c with
        | true =>
          constructor
          · intro h
            have h' : t0 = t := by simpa using h
            subst h'
            exact ⟨ha, by rw [hb]; exact List.mem_cons.mpr (Or.inl rfl)⟩
          · rintro ⟨_, hm⟩
            rcases List.mem_cons.mp hm with heq | hm
            · injection heq with h1 h2 h3
              rw [h3]; rfl
            · rw [hb] at hm; exact absurd hm (hnew true t)
        | false =>
          constructor
          · intro h; simp at h
          · rintro ⟨_, hm⟩
            rcases List.mem_cons.mp hm with heq | hm
            · injection heq with h1 h2 h3; cases h2
            · rw [hb] at hm; exact absurd hm (hnew true t)
      · rw [if_neg hpb, ih']
        constructor
        · rintro ⟨ha, hm⟩; exact ⟨ha, List.mem_cons_of_mem _ hm⟩
        · rintro ⟨ha, hm⟩
          refine ⟨ha, ?_⟩
          rcases List.mem_cons.mp hm with heq | hm
          · injection heq with h1 h2 h3
            exact absurd ⟨ha, h1⟩ hpb
          · exact hm
    | blacklist i =>
      have ih' := ih hf p t
      unfold issuedCur at ih' ⊢
      simp only [decOf, List.mem_cons, reduceCtorEq, false_or]; exact ih'
    | unblacklist i =>
      have ih' := ih hf p t
      unfold issuedCur at ih' ⊢
      simp only [decOf, List.mem_cons, reduceCtorEq, false_or]; exact ih'
    | flush =>
      have ih' := ih hf p t
      unfold issuedCur at ih' ⊢
      simp only [decOf, List.mem_cons, reduceCtorEq, false_or]; exact ih'
    | purge w =>
      have ih' := ih hf p t
      unfold issuedCur at ih' ⊢
      simp only [decOf, List.mem_cons, reduceCtorEq, false_or]; exact ih'
    | advance d =>
      have ih' := ih hf p t
      unfold issuedCur at ih' ⊢
      simp only [decOf, List.mem_cons, reduceCtorEq, false_or]; exact ih'
    | validate pa q =>
      have ih' := ih hf p t
      unfold issuedCur at ih' ⊢
      simp only [decOf, List.mem_cons, reduceCtorEq, false_or]; exact ih'

/-- The property for the executable model the harness is compared with (decryption table
`decOf h`): no hypothesis left but freshness of issued strings. -/
theorem C21_accept_iff_model (m : Nat) (h : List Op) (hf : Fresh h) (path : Path) (p : Pres) :
    verdictAfter (decOf h) m h path p = .accepted ↔
      ∃ t, issuedCur h p.base t ∧ p.alt = 0 ∧ clock h ≤ t.expires ∧ ¬ revokedIn h t.id ∧
        (path = .router → t.user ≠ 0) :=
  C21_accept_iff (decOf h) m h path p (decOf_aead h hf)

/-! ### non-vacuity: concrete histories meeting the hypotheses, with both outcomes -/

/-- token 1 (user alice, expires at 90) is cached by the router, revoked, un-revoked, and
finally expires -/
def exHist : List Op :=
  [.issue 1 true ⟨1, 90, 1⟩, .issue 2 false ⟨2, 600, 1⟩,
   .validate .router ⟨1, 0, 0⟩, .advance 30, .validate .router ⟨1, 0, 0⟩]

example : Fresh exHist := by simp [exHist, Fresh]
example : AEAD (decOf exHist) exHist := decOf_aead _ (by simp [exHist, Fresh])
-- accepted from the cache
example : verdictAfter (decOf exHist) 1000 exHist .router ⟨1, 0, 0⟩ = .accepted := by decide
-- a case variant of the same bytes is accepted too; an altered string is not
example : verdictAfter (decOf exHist) 1000 exHist .router ⟨1, 0, 7⟩ = .accepted := by decide
example : verdictAfter (decOf exHist) 1000 exHist .router ⟨1, 5, 0⟩ = .denied := by decide
-- the foreign-key token is not
example : verdictAfter (decOf exHist) 1000 exHist .validate ⟨2, 0, 0⟩ = .invalid := by decide
-- revoked: rejected at once although the router had it cached (hypothesis of C21_revocation_immediate)
example : decOf exHist ⟨1, 0, 0⟩ = some ⟨1, 90, 1⟩ := by decide
example : verdictAfter (decOf exHist) 1000 (exHist ++ [.blacklist 1]) .router ⟨1, 0, 0⟩ = .denied := by decide
example : verdictAfter (decOf exHist) 1000 (exHist ++ [.blacklist 1]) .unwrap ⟨1, 0, 0⟩ = .blacklisted := by decide
-- un-revoked: accepted again (hypotheses of C21_unrevoke_restores: clock 30 ≤ 90)
example : clock (exHist ++ [.blacklist 1]) ≤ 90 := by decide
example : verdictAfter (decOf exHist) 1000 (exHist ++ [.blacklist 1, .unblacklist 1]) .router ⟨1, 0, 0⟩ = .accepted := by
  decide
-- exactly at expiry still accepted, one second later not (cached or not)
example : verdictAfter (decOf exHist) 1000 (exHist ++ [.advance 60]) .router ⟨1, 0, 0⟩ = .accepted := by decide
example : verdictAfter (decOf exHist) 1000 (exHist ++ [.advance 61]) .router ⟨1, 0, 0⟩ = .denied := by decide
example : verdictAfter (decOf exHist) 1000 (exHist ++ [.advance 61]) .cipherExtract ⟨1, 0, 0⟩ = .expired := by decide
-- a cache of capacity 1 changes nothing
example : verdictAfter (decOf exHist) 1 (exHist ++ [.blacklist 1]) .router ⟨1, 0, 0⟩ = .denied := by decide

end EgoVerif.C21
