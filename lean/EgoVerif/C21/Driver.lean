import EgoVerif.Common.Drv
import EgoVerif.C21.Model
/- line protocol (one history = the lines from a `cfg` to the next `cfg`):
   cfg <maxSize>                               → ok 0 0 0        (fresh server state, empty issue log)
   issue <base> <cur 0|1> <id> <expires> <user>→ ok …
   bl <id>                                     → ok | err
   del <id>                                    → ok | notfound
   flush                                       → n<rows deleted>
   purge tokens|blacklist|auth|all             → ok
   adv <seconds>                               → ok
   val v|u|cv|cx|r <base> <alt> <enc>          → accepted | invalid | expired | blacklisted | rejected | denied
   every answer is followed by the sizes of TokenCache, BlacklistCache, AuthCache.
   Decryption is `decOf` of the issue lines seen so far. -/
namespace EgoVerif.C21

structure DSt where
  st : St
  log : List Op      -- issue ops, oldest first

def showVerdict (path : Path) (v : Verdict) : String :=
  match path, v with
  | _, .accepted => "accepted"
  | .cipherValidate, _ => "rejected"        -- cipher.Validate returns only a bool
  | _, .invalid => "invalid"
  | _, .expired => "expired"
  | _, .blacklisted => "blacklisted"
  | _, .denied => "denied"

def showOut (path : Path) : Out → String
  | .ok => "ok"
  | .err => "err"
  | .notFound => "notfound"
  | .count n => s!"n{n}"
  | .verdict v => showVerdict path v

def parsePath : String → Option Path
  | "v" => some .validate
  | "u" => some .unwrap
  | "cv" => some .cipherValidate
  | "cx" => some .cipherExtract
  | "r" => some .router
  | _ => none

def parseOp (fs : List String) : Option (Op × Path) :=
  match fs with
  | ["issue", b, c, i, e, u] =>
    match b.toNat?, i.toNat?, e.toNat?, u.toNat? with
    | some b, some i, some e, some u => some (.issue b (c == "1") ⟨i, e, u⟩, .validate)
    | _, _, _, _ => none
  | ["bl", i] => i.toNat?.map fun i => (.blacklist i, .validate)
  | ["del", i] => i.toNat?.map fun i => (.unblacklist i, .validate)
  | ["flush"] => some (.flush, .validate)
  | ["purge", "tokens"] => some (.purge .tokens, .validate)
  | ["purge", "blacklist"] => some (.purge .blacklist, .validate)
  | ["purge", "auth"] => some (.purge .auth, .validate)
  | ["purge", "all"] => some (.purge .all, .validate)
  | ["adv", d] => d.toNat?.map fun d => (.advance d, .validate)
  | ["val", pa, b, a, e] =>
    match parsePath pa, b.toNat?, a.toNat?, e.toNat? with
    | some pa, some b, some a, some e => some (.validate pa ⟨b, a, e⟩, pa)
    | _, _, _, _ => none
  | _ => none

def sizes (st : St) : String := s!" {st.tc.size} {st.bc.size} {st.ac.size}"

def handle (d : DSt) (line : String) : DSt × String :=
  match fields line with
  | ["cfg", m] =>
    match m.toNat? with
    | some m => (⟨St.init m, []⟩, "ok 0 0 0")
    | none => (d, "bad-input")
  | fs =>
    match parseOp fs with
    | none => (d, "bad-op")
    | some (op, path) =>
      let log := match op with
        | .issue .. => d.log ++ [op]
        | _ => d.log
      let r := step (decOf log) d.st op
      (⟨r.1, log⟩, showOut path r.2 ++ sizes r.1)

def drv : Drv := { σ := DSt, init := ⟨St.init 1000, []⟩, step := handle }

end EgoVerif.C21
