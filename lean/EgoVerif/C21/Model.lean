/-
C21 — model of native bearer-token validation and its three caches, core Lean only.

Mirrors (Go files named at each definition):
  internal/caches/{cache,add,find,delete,purge}.go      expiring map + its sweeper goroutine
  internal/language/tokens/blacklist.go                  Blacklist / Delete / Flush / IsBlacklisted
  internal/language/tokens/{validate,unwrap}.go          Validate / Unwrap
  internal/runtime/cipher/tokens.go                      cipher.Validate / cipher.Extract
  internal/router/auth.go  (*Session).Authenticate       bearer branch, native token
  internal/server/auth/functions.go TokenUnwrap, permissions.go GetPermissions,
  internal/server/auth/users_sqldb.go ReadUser           (AuthCache fill)

Time is a `Nat` (seconds of the virtual clock).  Decryption is a PARAMETER
`dec : Pres → Option Tok` — "hex.DecodeString, util.Decrypt with the current token key,
json.Unmarshal" as one pure function of the presented string (the key is fixed for the
life of the process: tokens/key.go reads it from the environment/settings on every call).
The server keeps NO record of issued tokens (tokens.New has no server-side effect), so
`issue` leaves the state alone; it is in the history only so that the specification can
speak about "was issued".
-/
namespace EgoVerif.C21

/-- the decrypted content of a token that matters for acceptance -/
structure Tok where
  id : Nat          -- TokenID (uuid), numbered by the harness
  expires : Nat     -- Expires, absolute
  user : Nat        -- Name: 0 = "", 1 = a user present in the credentials DB, ≥2 = unknown name
  deriving Repr, DecidableEq

/-- a presented token string: which issued string it derives from (`base`), how its BYTES
were altered (`alt`, 0 = byte-identical after hex decoding) and which textual re-encoding
of the same bytes it is (`enc`, hex digit case: the TokenCache is keyed by the text). -/
structure Pres where
  base : Nat
  alt : Nat
  enc : Nat
  deriving Repr, DecidableEq

/-! ### internal/caches : one cache class -/

structure Entry (κ ν : Type) where
  key : κ
  val : ν
  exp : Nat          -- Item.Expires
  deriving Repr

/-- `live` = present in `cacheList`; `sweeping` = `expirationThreadRunning[id]`;
`wake` = the instant the `expire` goroutine's `time.Sleep` returns next. -/
structure Cache (κ ν : Type) where
  live : Bool
  items : List (Entry κ ν)
  sweeping : Bool
  wake : Nat
  deriving Repr

/-- `expireTime` and `scanTime` in cache.go: both "60s" -/
def ttl : Nat := 60
def scan : Nat := 60

def Cache.empty {κ ν : Type} : Cache κ ν := ⟨false, [], false, 0⟩

section
variable {κ ν : Type} [DecidableEq κ]

/-- find.go `Find`: a hit refreshes the item's expiration.  (`live = false` implies
`items = []` — `purge` and `empty` set both — so Go's "is the class in cacheList" test is
implied by the item lookup and is not repeated here.) -/
def Cache.find (c : Cache κ ν) (now : Nat) (k : κ) : Option ν × Cache κ ν :=
  match c.items.find? (fun e => decide (e.key = k)) with
  | some e =>
    (some e.val,
     { c with items := c.items.map (fun e' => if e'.key = k then { e' with exp := now + ttl } else e') })
  | none => (none, c)

/-- add.go `Add` (+ cache.go `newCache` when the class has no cache yet: that starts the
sweeper unless one is still running).  The existing key is deleted first; a full cache
rejects the new item. -/
def Cache.add (c : Cache κ ν) (maxSize now : Nat) (k : κ) (v : ν) : Cache κ ν :=
  let c1 : Cache κ ν :=
    if c.live then { c with items := c.items.filter (fun e => decide (e.key ≠ k)) }
    else { live := true, items := [], sweeping := true, wake := if c.sweeping then c.wake else now + scan }
  if c1.items.length ≥ maxSize then c1
  else { c1 with items := c1.items ++ [⟨k, v, now + ttl⟩] }

/-- delete.go `Delete` (same remark about `live`) -/
def Cache.delete (c : Cache κ ν) (k : κ) : Cache κ ν :=
  { c with items := c.items.filter (fun e => decide (e.key ≠ k)) }

end

section
variable {κ ν : Type}

/-- purge.go `Purge`: the class is removed from `cacheList`; the sweeper notices at its next wake -/
def Cache.purge (c : Cache κ ν) : Cache κ ν := { c with live := false, items := [] }

/-- cache.go `Size` -/
def Cache.size (c : Cache κ ν) : Nat := if c.live then c.items.length else 0

/-- cache.go `sweepExpired`, run by `expire` when its sleep ends at instant `t` -/
def Cache.tick (c : Cache κ ν) (t : Nat) : Cache κ ν :=
  if c.live then { c with items := c.items.filter (fun e => !decide (t > e.exp)), wake := t + scan }
  else { c with sweeping := false }

/-- let the sweeper run every wake-up that falls at or before instant `t` -/
def Cache.advance : Nat → Cache κ ν → Nat → Cache κ ν
  | 0, c, _ => c
  | f + 1, c, t => if c.sweeping && decide (c.wake ≤ t) then Cache.advance f (c.tick c.wake) t else c

end

/-! ### server state -/

structure St where
  now : Nat
  store : List Nat            -- rows of the `blacklist` table (column id is the primary key)
  tc : Cache Pres Tok         -- caches.TokenCache     token text → *tokens.Token
  bc : Cache Nat Bool         -- caches.BlacklistCache token id   → BlackListItem.Active
  ac : Cache Nat Unit         -- caches.AuthCache      user name  → defs.User
  maxSize : Nat               -- ego.server.cache.maxsize (MaxCacheSize)
  deriving Repr

def St.init (maxSize : Nat) : St := ⟨0, [], Cache.empty, Cache.empty, Cache.empty, maxSize⟩

inductive Path where
  | validate        -- tokens.Validate
  | unwrap          -- tokens.Unwrap
  | cipherValidate  -- cipher.Validate (runtime/cipher/tokens.go)
  | cipherExtract   -- cipher.Extract
  | router          -- (*router.Session).Authenticate, bearer branch
  deriving Repr, DecidableEq

inductive Which where
  | tokens | blacklist | auth | all
  deriving Repr, DecidableEq

inductive Verdict where
  | accepted
  | invalid       -- not hex / does not decrypt / not JSON
  | expired
  | blacklisted
  | denied        -- router: Authenticated == false
  deriving Repr, DecidableEq

inductive Op where
  | issue (base : Nat) (cur : Bool) (t : Tok)    -- tokens.New under the current key (cur) or another key
  | blacklist (id : Nat)                         -- tokens.Blacklist   (POST /admin/tokens/revoke)
  | unblacklist (id : Nat)                       -- tokens.Delete      (DELETE /admin/tokens/{id})
  | flush                                        -- tokens.Flush       (POST /admin/tokens/flush)
  | purge (w : Which)                            -- DELETE /admin/caches[?class=…]
  | advance (d : Nat)                            -- the clock moves; sweepers run
  | validate (path : Path) (p : Pres)
  deriving Repr

inductive Out where
  | ok
  | err           -- Blacklist: insert failed (id already present: primary key)
  | notFound      -- Delete: ErrNotFound
  | count (n : Nat)
  | verdict (v : Verdict)
  deriving Repr, DecidableEq

/-- blacklist.go `IsBlacklisted`: cache first, then the table; the answer is cached either way -/
def isBlacklisted (st : St) (id : Nat) : Bool × St :=
  match st.bc.find st.now id with
  | (some v, bc') => (v, { st with bc := bc' })
  | (none, _) =>
    let active := decide (id ∈ st.store)
    (active, { st with bc := st.bc.add st.maxSize st.now id active })

/-- unwrap.go `Unwrap` = validate.go `Validate` (same checks in the same order): decrypt,
expiry (`time.Since(t.Expires).Seconds() > 0`), blacklist only when not expired. -/
def unwrap (dec : Pres → Option Tok) (st : St) (p : Pres) : Verdict × Option Tok × St :=
  match dec p with
  | none => (.invalid, none, st)
  | some t =>
    if st.now > t.expires then (.expired, none, st)
    else
      match isBlacklisted st t.id with
      | (true, st') => (.blacklisted, none, st')
      | (false, st') => (.accepted, some t, st')

/-- permissions.go `GetPermissions` → users_sqldb.go `ReadUser`: AuthCache hit, else the
credentials table; only an existing user (1) is cached. -/
def getPermissions (st : St) (user : Nat) : St :=
  match st.ac.find st.now user with
  | (some _, ac') => { st with ac := ac' }
  | (none, _) => if user = 1 then { st with ac := st.ac.add st.maxSize st.now user () } else st

/-- router/auth.go `Authenticate`, after a successful TokenUnwrap (fixes/C21-2.patch): the token is
written into TokenCache FIRST and the revocation list is consulted once more; a revoked token is
taken out again and denied. (Blacklist purges TokenCache while holding the revocation list's lock,
so a lookup made after the Add either sees the revocation or precedes that purge. In a sequential
history the second lookup repeats the first one's answer.) -/
def writeBack (st2 : St) (p : Pres) (tok : Tok) : Verdict × St :=
  match isBlacklisted { st2 with tc := st2.tc.add st2.maxSize st2.now p tok } tok.id with
  | (true, st4) => (.denied, { st4 with tc := st4.tc.delete p })
  | (false, st4) => (.accepted, getPermissions st4 tok.user)

/-- router/auth.go `Authenticate`, bearer branch for a native token (no remote authority):
TokenCache hit → authenticated unless the cached token has expired (then evicted and fully
validated); miss → auth.TokenUnwrap = tokens.Unwrap, accepted only with a non-empty Name,
and then cached (`writeBack`). -/
def routerAuth (dec : Pres → Option Tok) (st : St) (p : Pres) : Verdict × St :=
  let hit : Option Tok × St :=
    match st.tc.find st.now p with
    | (some tok, tc') =>
      if st.now > tok.expires then (none, { st with tc := tc'.delete p })
      else (some tok, { st with tc := tc' })
    | (none, _) => (none, st)
  match hit with
  | (some tok, st1) => (.accepted, getPermissions st1 tok.user)
  | (none, st1) =>
    match unwrap dec st1 p with
    | (.accepted, some tok, st2) =>
      if tok.user ≠ 0 then writeBack st2 p tok
      else (.denied, st2)
    | (_, _, st2) => (.denied, st2)

def validate (dec : Pres → Option Tok) (st : St) (path : Path) (p : Pres) : Verdict × St :=
  match path with
  | .router => routerAuth dec st p
  | _ => let r := unwrap dec st p; (r.1, r.2.2)

def step (dec : Pres → Option Tok) (st : St) : Op → St × Out
  | .issue _ _ _ => (st, .ok)
  | .blacklist id =>
    if id ∈ st.store then (st, .err)
    else ({ st with store := id :: st.store, bc := st.bc.purge, ac := st.ac.purge, tc := st.tc.purge }, .ok)
  | .unblacklist id =>
    if id ∈ st.store then
      ({ st with store := st.store.filter (fun x => decide (x ≠ id)), bc := st.bc.delete id }, .ok)
    else (st, .notFound)
  | .flush => ({ st with bc := st.bc.purge, store := [] }, .count st.store.length)
  | .purge .tokens => ({ st with tc := st.tc.purge }, .ok)
  | .purge .blacklist => ({ st with bc := st.bc.purge }, .ok)
  | .purge .auth => ({ st with ac := st.ac.purge }, .ok)
  | .purge .all => ({ st with tc := st.tc.purge, bc := st.bc.purge, ac := st.ac.purge }, .ok)
  | .advance d =>
    let t := st.now + d
    ({ st with now := t, tc := st.tc.advance (t + 1) t, bc := st.bc.advance (t + 1) t,
               ac := st.ac.advance (t + 1) t }, .ok)
  | .validate path p => let r := validate dec st path p; (r.2, .verdict r.1)

def run (dec : Pres → Option Tok) : St → List Op → St
  | st, [] => st
  | st, op :: ops => run dec (step dec st op).1 ops

/-! ### the issue log (ghost: a function of the history, not of the server state) -/

/-- `base` was issued by this server with its current key, carrying `t` -/
def issuedCur (h : List Op) (base : Nat) (t : Tok) : Prop := Op.issue base true t ∈ h

/-- the decryption table the driver uses: the AEAD reading of a history — a presented string
decrypts iff its bytes are those of a string sealed with the current key (first issue wins;
issued strings are fresh: random salt, nonce and uuid). -/
def decOf : List Op → Pres → Option Tok
  | [], _ => none
  | .issue b cur t :: rest, p =>
    if p.alt = 0 ∧ p.base = b then (if cur then some t else none) else decOf rest p
  | _ :: rest, p => decOf rest p

end EgoVerif.C21
