import EgoVerif.Common.Drv
import EgoVerif.C05.Parser
import EgoVerif.C05.WFB
/- line protocol
   `wf <ast>`         → `wf` | `not-wf` (the executable `WF`; the real parser's ASTs must all be `wf`)
   `parse <pieces>`   pieces: `s<text>` (after a blank) / `g<text>` (glued); text = word or one punctuation char
                      → prefix encoding of `parseExpr (lexTokens pieces)` or `err`
   `fmt <ast>`        → hex of `render (printExpr e)`
   `tok <ast>`        → spellings of `lexTokens (printExpr e)`
   ast encoding (prefix): I<name> L<digits> P B<op> U- U! S A R D<name> X C<n> -/
namespace EgoVerif.C05

def spOfChar : Char → Option Sp
  | '+' => some .plus | '-' => some .minus | '*' => some .star | '/' => some .slash | '%' => some .pct
  | '^' => some .caret | '&' => some .amp | '|' => some .bar | '<' => some .lt | '>' => some .gt
  | '=' => some .assign | '!' => some .bang | '(' => some .lparen | ')' => some .rparen
  | '[' => some .lbrack | ']' => some .rbrack | '.' => some .dot | ',' => some .comma | ':' => some .colon
  | '{' => some .lbrace | '}' => some .rbrace
  | _ => none

def pieceOfField (f : String) : Option Piece :=
  match f.toList with
  | flag :: c :: rest =>
    let glued := flag == 'g'
    if c.isDigit then some ⟨glued, .num (String.ofList (c :: rest))⟩
    else if c.isAlpha || c == '_' then some ⟨glued, .id (String.ofList (c :: rest))⟩
    else if rest.isEmpty then (spOfChar c).map fun s => ⟨glued, .sp s⟩
    else none
  | _ => none

def allBinOps : List BinOp :=
  [.lor, .land, .eq, .ne, .lt, .le, .gt, .ge, .add, .sub, .bor, .shl, .shr, .mul, .div, .rem, .xor, .band]

mutual
def enc : Expr → List String
  | .ident s => ["I" ++ s]
  | .lit s => ["L" ++ s]
  | .paren x => "P" :: enc x
  | .binary op x y => ("B" ++ op.tok.spelling) :: (enc x ++ enc y)
  | .unary op x => ("U" ++ op.tok.spelling) :: enc x
  | .star x => "S" :: enc x
  | .addr x => "A" :: enc x
  | .recv x => "R" :: enc x
  | .sel x name => ("D" ++ name) :: enc x
  | .index x i => "X" :: (enc x ++ enc i)
  | .call f args => ("C" ++ toString (argCount args)) :: (enc f ++ encArgs args)
def encArgs : Args → List String
  | .nil => []
  | .cons a rest => enc a ++ encArgs rest
def argCount : Args → Nat
  | .nil => 0
  | .cons _ rest => argCount rest + 1
end

mutual
def dec : Nat → List String → Option (Expr × List String)
  | 0, _ => none
  | _, [] => none
  | n + 1, f :: rest =>
    match f.toList with
    | 'I' :: s => some (.ident (String.ofList s), rest)
    | 'L' :: s => some (.lit (String.ofList s), rest)
    | ['P'] => (dec n rest).map fun (x, r) => (.paren x, r)
    | 'B' :: s =>
      match allBinOps.find? (fun op => op.tok.spelling == String.ofList s) with
      | none => none
      | some op =>
        match dec n rest with
        | none => none
        | some (x, r) => (dec n r).map fun (y, r') => (.binary op x y, r')
    | ['U', '-'] => (dec n rest).map fun (x, r) => (.unary .neg x, r)
    | ['U', '!'] => (dec n rest).map fun (x, r) => (.unary .not x, r)
    | ['S'] => (dec n rest).map fun (x, r) => (.star x, r)
    | ['A'] => (dec n rest).map fun (x, r) => (.addr x, r)
    | ['R'] => (dec n rest).map fun (x, r) => (.recv x, r)
    | 'D' :: s => (dec n rest).map fun (x, r) => (.sel x (String.ofList s), r)
    | ['X'] =>
      match dec n rest with
      | none => none
      | some (x, r) => (dec n r).map fun (i, r') => (.index x i, r')
    | 'C' :: s =>
      match (String.ofList s).toNat? with
      | none => none
      | some k =>
        match dec n rest with
        | none => none
        | some (fn, r) => (decArgs n k r).map fun (as, r') => (.call fn as, r')
    | _ => none
def decArgs : Nat → Nat → List String → Option (Args × List String)
  | 0, _, _ => none
  | _, 0, rest => some (.nil, rest)
  | n + 1, k + 1, rest =>
    match dec n rest with
    | none => none
    | some (a, r) => (decArgs n k r).map fun (as, r') => (.cons a as, r')
end

def decode (fs : List String) : Option Expr :=
  match dec (fs.length + 1) fs with
  | some (e, []) => some e
  | _ => none

def handle (line : String) : String :=
  match fields line with
  | "parse" :: fs =>
    match fs.mapM pieceOfField with
    | none => "bad-input"
    | some ps =>
      match parseExpr (lexTokens ps) with
      | none => "err"
      | some e => " ".intercalate (enc e)
  | "fmt" :: fs =>
    match decode fs with
    | none => "bad-input"
    | some e => hexOfString (render (printExpr e))
  | "tok" :: fs =>
    match decode fs with
    | none => "bad-input"
    | some e => " ".intercalate ((lexTokens (printExpr e)).map Tok.text)
  | "wf" :: fs =>
    match decode fs with
    | none => "bad-input"
    | some e => if wfB e then "wf" else "not-wf"
  | _ => "bad-op"

def drv : Drv := Drv.pure handle

end EgoVerif.C05
