import EgoVerif.C05.Lex
namespace EgoVerif.C05

theorem lexStep_q {t : Tok} (hq : quietTok t) (l : List Tok) (g : Bool) (tk : Tok) :
    lexStep (t :: l) ⟨g, tk⟩ = tk :: t :: l :=
  lexStep_push _ _ (safeAcc_of_headQuiet (acc := t :: l) hq _ _)

theorem lexStep_hq {acc : List Tok} (hq : headQuiet acc) (g : Bool) (tk : Tok) :
    lexStep acc ⟨g, tk⟩ = tk :: acc :=
  lexStep_push _ _ (safeAcc_of_headQuiet hq _ _)

/-- after a blank only the two non-adjacent entries could fire, and no expression starts with "=" or "}" -/
theorem start_nonadj (a b : Sp) (h : isStart (.sp b) = true) : crushLookup a b false = none := by
  cases b <;> simp [isStart] at h <;> cases a <;> rfl

/-- " op " is re-assembled into the operator token -/
theorem binop_lex {t : Tok} (hq : quietTok t) (l : List Tok) (op : BinOp) :
    op.pieces.foldl lexStep (t :: l) = .sp op.tok :: t :: l := by
  cases op <;> simp only [BinOp.pieces, BinOp.tok, List.foldl, lexStep_q hq] <;>
    first | rfl | simp [lexStep, crushLookup]

theorem firstPiece_minus : ∀ x : Expr, WF x → 6 ≤ rank x → firstPiece x = .sp .minus → x.isNeg = true
  | .ident _, _, _, h => by simp [firstPiece] at h
  | .lit _, _, _, h => by simp [firstPiece] at h
  | .paren _, _, _, h => by simp [firstPiece] at h
  | .binary op _ _, _, hr, _ => by cases op <;> simp [rank, BinOp.prec] at hr
  | .unary .neg _, _, _, _ => rfl
  | .unary .not _, _, _, h => by simp [firstPiece, UnOp.tok] at h
  | .star _, _, _, h => by simp [firstPiece] at h
  | .addr _, _, _, h => by simp [firstPiece] at h
  | .recv _, _, _, h => by simp [firstPiece] at h
  | .sel x _, hw, _, h => by
    simp [WF] at hw
    have := firstPiece_primary x hw.2 hw.1
    simp [firstPiece] at h; rw [h] at this; simp [isPrimStart] at this
  | .index x _, hw, _, h => by
    simp [WF] at hw
    have := firstPiece_primary x hw.2.1 hw.1
    simp [firstPiece] at h; rw [h] at this; simp [isPrimStart] at this
  | .call f _, hw, _, h => by
    simp [WF] at hw
    have := firstPiece_primary f hw.2.1 hw.1
    simp [firstPiece] at h; rw [h] at this; simp [isPrimStart] at this

theorem firstPiece_amp : ∀ x : Expr, WF x → 7 ≤ rank x → firstPiece x = .sp .amp → x.isAddr = true
  | .ident _, _, _, h => by simp [firstPiece] at h
  | .lit _, _, _, h => by simp [firstPiece] at h
  | .paren _, _, _, h => by simp [firstPiece] at h
  | .binary op _ _, _, hr, _ => by cases op <;> simp [rank, BinOp.prec] at hr
  | .unary _ _, _, hr, _ => by simp [rank] at hr
  | .star _, _, _, h => by simp [firstPiece] at h
  | .addr _, _, _, _ => rfl
  | .recv _, _, _, h => by simp [firstPiece] at h
  | .sel x _, hw, _, h => by
    simp [WF] at hw
    have := firstPiece_primary x hw.2 hw.1
    simp [firstPiece] at h; rw [h] at this; simp [isPrimStart] at this
  | .index x _, hw, _, h => by
    simp [WF] at hw
    have := firstPiece_primary x hw.2.1 hw.1
    simp [firstPiece] at h; rw [h] at this; simp [isPrimStart] at this
  | .call f _, hw, _, h => by
    simp [WF] at hw
    have := firstPiece_primary f hw.2.1 hw.1
    simp [firstPiece] at h; rw [h] at this; simp [isPrimStart] at this

/-- the fixed printer: the operand of a prefix "-" / "!" never crushes with it -/
theorem safe_unary (op : UnOp) (x : Expr) (hw : WF x) (hr : 6 ≤ rank x) (acc : List Tok) :
    safeAcc (.sp op.tok :: acc) (!(op == .neg && x.isNeg)) (firstPiece x) := by
  intro a rest b hacc hb
  have hs := firstPiece_isStart x
  rw [hb] at hs
  injection hacc with h1 _
  injection h1 with h1
  subst h1
  cases op
  · by_cases hm : b = .minus
    · subst hm
      have := firstPiece_minus x hw hr hb
      simp [this, UnOp.tok, crushLookup]
    · cases b <;> simp [isStart] at hs <;> first | exact absurd rfl hm | (simp [UnOp.tok, crushLookup])
  · cases b <;> simp [isStart] at hs <;> simp [UnOp.tok, crushLookup]

theorem safe_addr (x : Expr) (hw : WF x) (hr : 7 ≤ rank x) (acc : List Tok) :
    safeAcc (.sp .amp :: acc) (!x.isAddr) (firstPiece x) := by
  intro a rest b hacc hb
  have hs := firstPiece_isStart x
  rw [hb] at hs
  injection hacc with h1 _
  injection h1 with h1
  subst h1
  by_cases hm : b = .amp
  · subst hm
    have := firstPiece_amp x hw hr hb
    simp [this, crushLookup]
  · cases b <;> simp [isStart] at hs <;> first | exact absurd rfl hm | (simp [crushLookup])

theorem safe_star (x : Expr) (acc : List Tok) : safeAcc (.sp .star :: acc) true (firstPiece x) := by
  intro a rest b hacc hb
  have hs := firstPiece_isStart x
  rw [hb] at hs
  injection hacc with h1 _
  injection h1 with h1
  subst h1
  cases b <;> simp [isStart] at hs <;> simp [crushLookup]

theorem safe_after_op (op : BinOp) (y : Expr) (acc : List Tok) :
    safeAcc (.sp op.tok :: acc) false (firstPiece y) := by
  intro a rest b hacc hb
  have hs := firstPiece_isStart y
  rw [hb] at hs
  injection hacc with h1 _
  injection h1 with h1
  subst h1
  exact start_nonadj _ _ hs

end EgoVerif.C05
