import EgoVerif.C05.Lex
/- executable form of `WF` (used by the driver's `wf` line) and its agreement with the Prop -/
namespace EgoVerif.C05

mutual
def wfB : Expr → Bool
  | .ident _ => true
  | .lit _ => true
  | .paren x => wfB x
  | .binary op x y => decide (op.prec ≤ rank x) && decide (op.prec + 1 ≤ rank y) && wfB x && wfB y
  | .unary _ x => decide (6 ≤ rank x) && wfB x
  | .star x => decide (7 ≤ rank x) && wfB x
  | .addr x => decide (7 ≤ rank x) && wfB x
  | .recv x => decide (7 ≤ rank x) && wfB x
  | .sel x _ => decide (8 ≤ rank x) && wfB x
  | .index x i => decide (8 ≤ rank x) && wfB x && wfB i
  | .call f args => decide (8 ≤ rank f) && wfB f && wfArgsB args
def wfArgsB : Args → Bool
  | .nil => true
  | .cons a rest => wfB a && wfArgsB rest
end

mutual
theorem wfB_iff : ∀ e : Expr, wfB e = true ↔ WF e
  | .ident _ => by simp [wfB, WF]
  | .lit _ => by simp [wfB, WF]
  | .paren x => by simp [wfB, WF, wfB_iff x]
  | .binary op x y => by simp [wfB, WF, wfB_iff x, wfB_iff y, and_assoc]
  | .unary _ x => by simp [wfB, WF, wfB_iff x]
  | .star x => by simp [wfB, WF, wfB_iff x]
  | .addr x => by simp [wfB, WF, wfB_iff x]
  | .recv x => by simp [wfB, WF, wfB_iff x]
  | .sel x _ => by simp [wfB, WF, wfB_iff x]
  | .index x i => by simp [wfB, WF, wfB_iff x, wfB_iff i, and_assoc]
  | .call f args => by simp [wfB, WF, wfB_iff f, wfArgsB_iff args, and_assoc]
theorem wfArgsB_iff : ∀ as : Args, wfArgsB as = true ↔ WFArgs as
  | .nil => by simp [wfArgsB, WFArgs]
  | .cons a rest => by simp [wfArgsB, WFArgs, wfB_iff a, wfArgsB_iff rest]
end

end EgoVerif.C05
