/-
C05 — model of the expression layer of `ego fmt`, core Lean only.

  * `Sp`, `Tok`, `Piece`       the token classes that matter.  A `Piece` is one RAW scanner token
                               (identifier, decimal literal, or ONE punctuation character) plus the fact
                               whether it is glued to its predecessor.  The raw scan itself (Go's
                               text/scanner + classifyTokenBySpelling) is abstracted; it is tied by the
                               `tok` correspondence lines.
  * `lexStep` / `lexTokens`    tokenizer/lexer.go, the crush loop driven by tokenizer/crusher.go
                               (`crushLookup` is the table, two-token patterns, with the `adjacent` flag)
  * `Expr`, `Args`             parse/ast: Ident, BasicLit(int), ParenExpr, BinaryExpr, UnaryExpr, StarExpr,
                               AddrExpr, RecvExpr, SelectorExpr, IndexExpr, CallExpr (no ellipsis)
  * `pp` / `printExpr`         parse/format/print_expr.go `printExpr`/`printCall` (with the proposed fix:
                               a blank between "-" "-" and between "&" "&"); `ppOld` is the code before the fix
  * `parseBinary` … `argLoop`  parse/expression.go + parse/atom.go, precedence climbing over
                               `BinOp.prec` = parse/tables.go `binaryPrecedence`
-/
namespace EgoVerif.C05

/-- spellings of the special tokens (single characters, then the crushed ones) -/
inductive Sp
  | plus | minus | star | slash | pct | caret | amp | bar | lt | gt | assign | bang
  | lparen | rparen | lbrack | rbrack | dot | comma | colon | lbrace | rbrace
  | addAssign | subAssign | mulAssign | divAssign | inc | dec | emptyBlock | recv
  | ge | le | eq | ne | define | andand | oror | shl | shr
  deriving DecidableEq, Repr

def Sp.spelling : Sp → String
  | .plus => "+" | .minus => "-" | .star => "*" | .slash => "/" | .pct => "%" | .caret => "^"
  | .amp => "&" | .bar => "|" | .lt => "<" | .gt => ">" | .assign => "=" | .bang => "!"
  | .lparen => "(" | .rparen => ")" | .lbrack => "[" | .rbrack => "]" | .dot => "." | .comma => ","
  | .colon => ":" | .lbrace => "{" | .rbrace => "}"
  | .addAssign => "+=" | .subAssign => "-=" | .mulAssign => "*=" | .divAssign => "/="
  | .inc => "++" | .dec => "--" | .emptyBlock => "{}" | .recv => "<-"
  | .ge => ">=" | .le => "<=" | .eq => "==" | .ne => "!=" | .define => ":=" | .andand => "&&"
  | .oror => "||" | .shl => "<<" | .shr => ">>"

inductive Tok
  | id (s : String)
  | num (s : String)
  | sp (s : Sp)
  deriving DecidableEq, Repr

structure Piece where
  glued : Bool
  tok : Tok
  deriving DecidableEq, Repr

/-- tokenizer/crusher.go `crushedTokens`, the two-token entries: `a` then `b` become the result;
`adjacent = true` entries fire only when `b` is glued to `a`.  (`< =` and `{ }` are not adjacent-only.) -/
def crushLookup (a b : Sp) (glued : Bool) : Option Sp :=
  match a, b with
  | .plus, .assign => if glued then some .addAssign else none
  | .minus, .assign => if glued then some .subAssign else none
  | .star, .assign => if glued then some .mulAssign else none
  | .slash, .assign => if glued then some .divAssign else none
  | .plus, .plus => if glued then some .inc else none
  | .minus, .minus => if glued then some .dec else none
  | .lbrace, .rbrace => some .emptyBlock
  | .lt, .minus => if glued then some .recv else none
  | .gt, .assign => if glued then some .ge else none
  | .lt, .assign => some .le
  | .assign, .assign => if glued then some .eq else none
  | .bang, .assign => if glued then some .ne else none
  | .colon, .assign => if glued then some .define else none
  | .amp, .amp => if glued then some .andand else none
  | .bar, .bar => if glued then some .oror else none
  | .lt, .lt => if glued then some .shl else none
  | .gt, .gt => if glued then some .shr else none
  | _, _ => none

/-- lexer.go: the new token is appended, then the first matching crush entry replaces the tail.
`acc` is the token list so far, most recent first. -/
def lexStep (acc : List Tok) (p : Piece) : List Tok :=
  match acc, p.tok with
  | .sp a :: rest, .sp b =>
    match crushLookup a b p.glued with
    | some r => .sp r :: rest
    | none => p.tok :: acc
  | _, _ => p.tok :: acc

def lexTokens (ps : List Piece) : List Tok := (ps.foldl lexStep []).reverse

/-- parse/tables.go `binaryPrecedence` -/
inductive BinOp
  | lor | land | eq | ne | lt | le | gt | ge | add | sub | bor | shl | shr | mul | div | rem | xor | band
  deriving DecidableEq, Repr

def BinOp.prec : BinOp → Nat
  | .lor => 1 | .land => 2
  | .eq | .ne | .lt | .le | .gt | .ge => 3
  | .add | .sub | .bor | .shl | .shr => 4
  | .mul | .div | .rem | .xor | .band => 5

def BinOp.tok : BinOp → Sp
  | .lor => .oror | .land => .andand | .eq => .eq | .ne => .ne | .lt => .lt | .le => .le | .gt => .gt
  | .ge => .ge | .add => .plus | .sub => .minus | .bor => .bar | .shl => .shl | .shr => .shr
  | .mul => .star | .div => .slash | .rem => .pct | .xor => .caret | .band => .amp

def binOfTok : Sp → Option BinOp
  | .oror => some .lor | .andand => some .land | .eq => some .eq | .ne => some .ne | .lt => some .lt
  | .le => some .le | .gt => some .gt | .ge => some .ge | .plus => some .add | .minus => some .sub
  | .bar => some .bor | .shl => some .shl | .shr => some .shr | .star => some .mul | .slash => some .div
  | .pct => some .rem | .caret => some .xor | .amp => some .band
  | _ => none

/-- the characters the printer writes for " op " (first one after a blank, second one glued) -/
def BinOp.pieces : BinOp → List Piece
  | .lor => [⟨false, .sp .bar⟩, ⟨true, .sp .bar⟩]
  | .land => [⟨false, .sp .amp⟩, ⟨true, .sp .amp⟩]
  | .eq => [⟨false, .sp .assign⟩, ⟨true, .sp .assign⟩]
  | .ne => [⟨false, .sp .bang⟩, ⟨true, .sp .assign⟩]
  | .le => [⟨false, .sp .lt⟩, ⟨true, .sp .assign⟩]
  | .ge => [⟨false, .sp .gt⟩, ⟨true, .sp .assign⟩]
  | .shl => [⟨false, .sp .lt⟩, ⟨true, .sp .lt⟩]
  | .shr => [⟨false, .sp .gt⟩, ⟨true, .sp .gt⟩]
  | op => [⟨false, .sp op.tok⟩]

inductive UnOp
  | neg | not
  deriving DecidableEq, Repr

def UnOp.tok : UnOp → Sp
  | .neg => .minus
  | .not => .bang

mutual
inductive Expr
  | ident (s : String)
  | lit (s : String)
  | paren (x : Expr)
  | binary (op : BinOp) (x y : Expr)
  | unary (op : UnOp) (x : Expr)
  | star (x : Expr)
  | addr (x : Expr)
  | recv (x : Expr)
  | sel (x : Expr) (name : String)
  | index (x i : Expr)
  | call (f : Expr) (args : Args)
inductive Args
  | nil
  | cons (a : Expr) (rest : Args)
end

def Expr.isNeg : Expr → Bool
  | .unary .neg _ => true
  | _ => false

def Expr.isAddr : Expr → Bool
  | .addr _ => true
  | _ => false

mutual
/-- print_expr.go `printExpr` (fixed).  `g`: is the first character glued to what was written before. -/
def pp (g : Bool) : Expr → List Piece
  | .ident s => [⟨g, .id s⟩]
  | .lit s => [⟨g, .num s⟩]
  | .paren x => ⟨g, .sp .lparen⟩ :: (pp true x ++ [⟨true, .sp .rparen⟩])
  | .binary op x y => pp g x ++ (op.pieces ++ pp false y)
  | .unary op x => ⟨g, .sp op.tok⟩ :: pp (!(op == .neg && x.isNeg)) x
  | .star x => ⟨g, .sp .star⟩ :: pp true x
  | .addr x => ⟨g, .sp .amp⟩ :: pp (!x.isAddr) x
  | .recv x => ⟨g, .sp .lt⟩ :: ⟨true, .sp .minus⟩ :: pp true x
  | .sel x name => pp g x ++ [⟨true, .sp .dot⟩, ⟨true, .id name⟩]
  | .index x i => pp g x ++ (⟨true, .sp .lbrack⟩ :: (pp true i ++ [⟨true, .sp .rbrack⟩]))
  | .call f args => pp g f ++ (⟨true, .sp .lparen⟩ :: (ppArgs true args ++ [⟨true, .sp .rparen⟩]))
/-- print_expr.go `printCall`: ", " between arguments -/
def ppArgs (first : Bool) : Args → List Piece
  | .nil => []
  | .cons a rest =>
    (if first then pp true a else ⟨true, .sp .comma⟩ :: pp false a) ++ ppArgs false rest
end

def printExpr (e : Expr) : List Piece := pp false e

mutual
/-- the printer BEFORE the fix: a prefix operator is always glued to its operand -/
def ppOld (g : Bool) : Expr → List Piece
  | .ident s => [⟨g, .id s⟩]
  | .lit s => [⟨g, .num s⟩]
  | .paren x => ⟨g, .sp .lparen⟩ :: (ppOld true x ++ [⟨true, .sp .rparen⟩])
  | .binary op x y => ppOld g x ++ (op.pieces ++ ppOld false y)
  | .unary op x => ⟨g, .sp op.tok⟩ :: ppOld true x
  | .star x => ⟨g, .sp .star⟩ :: ppOld true x
  | .addr x => ⟨g, .sp .amp⟩ :: ppOld true x
  | .recv x => ⟨g, .sp .lt⟩ :: ⟨true, .sp .minus⟩ :: ppOld true x
  | .sel x name => ppOld g x ++ [⟨true, .sp .dot⟩, ⟨true, .id name⟩]
  | .index x i => ppOld g x ++ (⟨true, .sp .lbrack⟩ :: (ppOld true i ++ [⟨true, .sp .rbrack⟩]))
  | .call f args => ppOld g f ++ (⟨true, .sp .lparen⟩ :: (ppArgsOld true args ++ [⟨true, .sp .rparen⟩]))
def ppArgsOld (first : Bool) : Args → List Piece
  | .nil => []
  | .cons a rest =>
    (if first then ppOld true a else ⟨true, .sp .comma⟩ :: ppOld false a) ++ ppArgsOld false rest
end

def Tok.text : Tok → String
  | .id s => s
  | .num s => s
  | .sp s => s.spelling

/-- the text the printer wrote: a blank before every piece that is not glued (none before the first) -/
def render : List Piece → String
  | [] => ""
  | p :: ps => ps.foldl (fun acc q => acc ++ (if q.glued then "" else " ") ++ q.tok.text) p.tok.text

end EgoVerif.C05
