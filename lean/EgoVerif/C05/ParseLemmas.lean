import EgoVerif.C05.LexMain
/- one-step unfolding lemmas of the parser model, and the fuel measure -/
namespace EgoVerif.C05

theorem binOfTok_tok (op : BinOp) : binOfTok op.tok = some op := by cases op <;> rfl

theorem parseBinary_of {n m : Nat} {ts r : List Tok} {l : Expr} (h : parseUnary n ts = some (l, r)) :
    parseBinary (n + 1) m ts = binLoop n m l r := by
  rw [parseBinary.eq_def] <;> simp [h]

theorem parseReference_of {n : Nat} {ts r : List Tok} {x : Expr} (h : parseAtom n ts = some (x, r)) :
    parseReference (n + 1) ts = refLoop n x r := by
  rw [parseReference.eq_def] <;> simp [h]

theorem parseAtom_id (n : Nat) (s : String) (rest : List Tok) :
    parseAtom (n + 1) (.id s :: rest) = some (.ident s, rest) := by rw [parseAtom.eq_def] <;> simp

theorem parseAtom_num (n : Nat) (s : String) (rest : List Tok) :
    parseAtom (n + 1) (.num s :: rest) = some (.lit s, rest) := by rw [parseAtom.eq_def] <;> simp

theorem parseAtom_lparen_of {n : Nat} {rest rest' : List Tok} {x : Expr}
    (h : parseBinary n 0 rest = some (x, .sp .rparen :: rest')) :
    parseAtom (n + 1) (.sp .lparen :: rest) = some (.paren x, rest') := by
  rw [parseAtom.eq_def] <;> simp [h]

theorem parseAtom_star_of {n : Nat} {rest r : List Tok} {x : Expr} (h : parseReference n rest = some (x, r)) :
    parseAtom (n + 1) (.sp .star :: rest) = some (.star x, r) := by
  rw [parseAtom.eq_def] <;> simp [h]

theorem parseAtom_amp_of {n : Nat} {rest r : List Tok} {x : Expr} (h : parseReference n rest = some (x, r)) :
    parseAtom (n + 1) (.sp .amp :: rest) = some (.addr x, r) := by
  rw [parseAtom.eq_def] <;> simp [h]

theorem parseAtom_recv_of {n : Nat} {rest r : List Tok} {x : Expr} (h : parseReference n rest = some (x, r)) :
    parseAtom (n + 1) (.sp .recv :: rest) = some (.recv x, r) := by
  rw [parseAtom.eq_def] <;> simp [h]

theorem refLoop_dot (n : Nat) (x : Expr) (name : String) (rest : List Tok) :
    refLoop (n + 1) x (.sp .dot :: .id name :: rest) = refLoop n (.sel x name) rest := by
  rw [refLoop.eq_def] <;> simp

theorem refLoop_lbrack_of {n : Nat} {x i : Expr} {rest rest' : List Tok}
    (h : parseBinary n 0 rest = some (i, .sp .rbrack :: rest')) :
    refLoop (n + 1) x (.sp .lbrack :: rest) = refLoop n (.index x i) rest' := by
  rw [refLoop.eq_def] <;> simp [h]

theorem refLoop_lparen_of {n : Nat} {x : Expr} {args : Args} {rest rest' : List Tok}
    (h : parseArgs n rest = some (args, .sp .rparen :: rest')) :
    refLoop (n + 1) x (.sp .lparen :: rest) = refLoop n (.call x args) rest' := by
  rw [refLoop.eq_def] <;> simp [h]

/-- the rest does not continue a reference: no ".", "[" or "(" -/
def noSuffix : List Tok → Prop
  | .sp s :: _ => s ≠ .dot ∧ s ≠ .lbrack ∧ s ≠ .lparen
  | _ => True

/-- a leading binary operator of the rest has precedence below `m` -/
def opLt (m : Nat) : List Tok → Prop
  | .sp s :: _ => ∀ op, binOfTok s = some op → op.prec < m
  | _ => True

theorem refLoop_stop (n : Nat) (x : Expr) (ts : List Tok) (h : noSuffix ts) :
    refLoop (n + 1) x ts = some (x, ts) := by
  cases ts with
  | nil => rw [refLoop.eq_def] <;> simp
  | cons t rest =>
    cases t with
    | id s => rw [refLoop.eq_def] <;> simp
    | num s => rw [refLoop.eq_def] <;> simp
    | sp s =>
      simp [noSuffix] at h
      rw [refLoop.eq_def] <;> simp [h.1, h.2.1, h.2.2]

theorem binLoop_stop (n m : Nat) (left : Expr) (ts : List Tok) (h : opLt m ts) :
    binLoop (n + 1) m left ts = some (left, ts) := by
  cases ts with
  | nil => rw [binLoop.eq_def] <;> simp
  | cons t rest =>
    cases t with
    | id s => rw [binLoop.eq_def] <;> simp
    | num s => rw [binLoop.eq_def] <;> simp
    | sp s =>
      cases hb : binOfTok s with
      | none => rw [binLoop.eq_def] <;> simp [hb]
      | some op =>
        have := h op hb
        rw [binLoop.eq_def] <;> simp [hb, this]

theorem binLoop_op_of {n m : Nat} {left right : Expr} {op : BinOp} {rest rest' : List Tok} (hm : m ≤ op.prec)
    (h : parseBinary n (op.prec + 1) rest = some (right, rest')) :
    binLoop (n + 1) m left (.sp op.tok :: rest) = binLoop n m (.binary op left right) rest' := by
  have : ¬ op.prec < m := by omega
  rw [binLoop.eq_def] <;> simp [binOfTok_tok, this, h]

theorem parseUnary_neg_of {n : Nat} {rest r : List Tok} {x : Expr} (h : parseUnary n rest = some (x, r)) :
    parseUnary (n + 1) (.sp .minus :: rest) = some (.unary .neg x, r) := by
  rw [parseUnary.eq_def] <;> simp [h]

theorem parseUnary_not_of {n : Nat} {rest r : List Tok} {x : Expr} (h : parseUnary n rest = some (x, r)) :
    parseUnary (n + 1) (.sp .bang :: rest) = some (.unary .not x, r) := by
  rw [parseUnary.eq_def] <;> simp [h]

theorem parseUnary_other (n : Nat) (t : Tok) (rest : List Tok) (h1 : t ≠ .sp .minus) (h2 : t ≠ .sp .bang) :
    parseUnary (n + 1) (t :: rest) = parseReference n (t :: rest) := by
  cases t with
  | id s => rw [parseUnary.eq_def] <;> simp
  | num s => rw [parseUnary.eq_def] <;> simp
  | sp s =>
    have a : s ≠ .minus := fun h => h1 (by rw [h])
    have b : s ≠ .bang := fun h => h2 (by rw [h])
    rw [parseUnary.eq_def] <;> simp [a, b]

mutual
/-- fuel that suffices to parse the tokens of `e` (each call of a parser function spends one unit) -/
def need : Expr → Nat
  | .ident _ => 2
  | .lit _ => 2
  | .paren x => need x + 6
  | .binary _ x y => need x + need y + 5
  | .unary _ x => need x + 1
  | .star x => need x + 2
  | .addr x => need x + 2
  | .recv x => need x + 2
  | .sel x _ => need x + 1
  | .index x i => need x + need i + 5
  | .call f args => need f + needAL args + 2
def needAL : Args → Nat
  | .nil => 0
  | .cons a rest => need a + needAL rest + 5
end

/-- first token of `toks e` -/
def firstTok : Expr → Tok
  | .ident s => .id s
  | .lit s => .num s
  | .paren _ => .sp .lparen
  | .binary _ x _ => firstTok x
  | .unary op _ => .sp op.tok
  | .star _ => .sp .star
  | .addr _ => .sp .amp
  | .recv _ => .sp .recv
  | .sel x _ => firstTok x
  | .index x _ => firstTok x
  | .call f _ => firstTok f

theorem toks_head : ∀ e : Expr, ∃ tl, toks e = firstTok e :: tl
  | .ident s => ⟨[], rfl⟩
  | .lit s => ⟨[], rfl⟩
  | .paren x => ⟨toks x ++ [.sp .rparen], by simp [toks, firstTok]⟩
  | .binary op x y => by
    obtain ⟨tl, h⟩ := toks_head x
    exact ⟨tl ++ (.sp op.tok :: toks y), by simp [toks, firstTok, h]⟩
  | .unary op x => ⟨toks x, by simp [toks, firstTok]⟩
  | .star x => ⟨toks x, by simp [toks, firstTok]⟩
  | .addr x => ⟨toks x, by simp [toks, firstTok]⟩
  | .recv x => ⟨toks x, by simp [toks, firstTok]⟩
  | .sel x name => by
    obtain ⟨tl, h⟩ := toks_head x
    exact ⟨tl ++ [.sp .dot, .id name], by simp [toks, firstTok, h]⟩
  | .index x i => by
    obtain ⟨tl, h⟩ := toks_head x
    exact ⟨tl ++ (.sp .lbrack :: (toks i ++ [.sp .rbrack])), by simp [toks, firstTok, h]⟩
  | .call f args => by
    obtain ⟨tl, h⟩ := toks_head f
    exact ⟨tl ++ (.sp .lparen :: (toksArgs true args ++ [.sp .rparen])), by simp [toks, firstTok, h]⟩

end EgoVerif.C05
