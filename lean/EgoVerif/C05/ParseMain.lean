import EgoVerif.C05.ParseSteps
/- the parser model reads `toks e` back as `e`, for every well-formed `e` (mutual structural recursion) -/
namespace EgoVerif.C05

def ALoop (args : Args) : Prop :=
  ∀ a r, args = .cons a r → ∀ n rest, needAL args ≤ n →
    argLoop n (toksArgs true args ++ .sp .rparen :: rest) = some (args, .sp .rparen :: rest)

theorem al_of_aloop {args : Args} (h : ALoop args) (n : Nat) (rest : List Tok) (hn : needAL args + 1 ≤ n) :
    parseArgs n (toksArgs true args ++ .sp .rparen :: rest) = some (args, .sp .rparen :: rest) := by
  obtain ⟨n1, rfl⟩ : ∃ n1, n = n1 + 1 := ⟨n - 1, by omega⟩
  cases args with
  | nil => simpa [toksArgs] using parseArgs_nil n1 rest
  | cons a r =>
    have := h a r rfl n1 rest (by omega)
    obtain ⟨tl, htl⟩ := toks_head a
    simp only [toksArgs, if_true, htl, List.cons_append] at this ⊢
    rw [parseArgs_other _ _ _ (firstTok_ne_rparen a)]
    exact this

theorem good_of_pr {e : Expr} (hw : WF e) (hr : 8 ≤ rank e) (h : PR e) : Good e :=
  have rf := rf_of_pr h hr
  have un := un_of_rf rf hw (by omega)
  ⟨h, rf, un, bn_of_un un (by omega)⟩

theorem good_of_rf {e : Expr} (hw : WF e) (hr : 7 ≤ rank e) (hlt : rank e < 8) (h : RF e) : Good e :=
  have un := un_of_rf h hw hr
  ⟨fun h8 => by omega, h, un, bn_of_un un (by omega)⟩

mutual
theorem good : ∀ e : Expr, WF e → Good e
  | .ident s, hw => good_of_pr hw (by simp [rank]) (by
      intro _ k n rest hn
      simp only [need] at hn
      obtain ⟨n2, rfl⟩ : ∃ n2, n = n2 + 2 := ⟨n - 2, by omega⟩
      exact ⟨n2 + 1, by omega, by simpa [toks] using parseReference_of (parseAtom_id n2 s rest)⟩)
  | .lit s, hw => good_of_pr hw (by simp [rank]) (by
      intro _ k n rest hn
      simp only [need] at hn
      obtain ⟨n2, rfl⟩ : ∃ n2, n = n2 + 2 := ⟨n - 2, by omega⟩
      exact ⟨n2 + 1, by omega, by simpa [toks] using parseReference_of (parseAtom_num n2 s rest)⟩)
  | .paren x, hw => good_of_pr hw (by simp [rank]) (by
      have gx := good x (by simpa [WF] using hw)
      intro _ k n rest hn
      simp only [need] at hn
      obtain ⟨n2, rfl⟩ : ∃ n2, n = n2 + 2 := ⟨n - 2, by omega⟩
      have hb := full_of_bn gx.bn (m := 0) (n := n2) (rest := .sp .rparen :: rest) (Nat.zero_le _)
        (by omega) (noSuffix_rparen _) (opLt_rparen _ _)
      have := parseReference_of (parseAtom_lparen_of hb)
      exact ⟨n2 + 1, by omega, by simpa [toks] using this⟩)
  | .binary op x y, hw => by
    have hw' : op.prec ≤ rank x ∧ op.prec + 1 ≤ rank y ∧ WF x ∧ WF y := by simpa [WF] using hw
    have gx := good x hw'.2.2.1
    have gy := good y hw'.2.2.2
    have hlow : ¬ 6 ≤ rank (.binary op x y) := by cases op <;> simp [rank, BinOp.prec]
    refine ⟨fun h => absurd (by omega) hlow, fun h => absurd (by omega) hlow, fun h => absurd h hlow, ?_⟩
    intro m k n rest hm hn hs ho
    simp only [need, rank] at hn hm ho
    obtain ⟨n1, hk, hp⟩ := gx.bn m (need y + 5 + k) n (.sp op.tok :: (toks y ++ rest)) (by omega) (by omega)
      (noSuffix_op _ _) (opLt_mono (opLt_op op _) (by omega))
    obtain ⟨n2, rfl⟩ : ∃ n2, n1 = n2 + 1 := ⟨n1 - 1, by omega⟩
    have hy := full_of_bn gy.bn (m := op.prec + 1) (n := n2) (rest := rest) hw'.2.1 (by omega) hs ho
    rw [binLoop_op_of hm hy] at hp
    exact ⟨n2, by omega, by simpa [toks] using hp⟩
  | .unary op x, hw => by
    have hw' : 6 ≤ rank x ∧ WF x := by simpa [WF] using hw
    have gx := good x hw'.2
    have un : UN (.unary op x) := by
      intro _ n rest hn hs
      simp only [need] at hn
      obtain ⟨n1, rfl⟩ : ∃ n1, n = n1 + 1 := ⟨n - 1, by omega⟩
      have hx := gx.un hw'.1 n1 rest (by omega) hs
      cases op
      · simpa [toks, UnOp.tok] using parseUnary_neg_of hx
      · simpa [toks, UnOp.tok] using parseUnary_not_of hx
    exact ⟨fun h => by simp [rank] at h, fun h => by simp [rank] at h, un, bn_of_un un (by simp [rank])⟩
  | .star x, hw => by
    have hw' : 7 ≤ rank x ∧ WF x := by simpa [WF] using hw
    have gx := good x hw'.2
    refine good_of_rf hw (by simp [rank]) (by simp [rank]) ?_
    intro _ n rest hn hs
    simp only [need] at hn
    obtain ⟨n2, rfl⟩ : ∃ n2, n = n2 + 2 := ⟨n - 2, by omega⟩
    have hx := gx.rf hw'.1 n2 rest (by omega) hs
    have := parseReference_of (parseAtom_star_of hx)
    rw [refLoop_stop _ _ _ hs] at this
    simpa [toks] using this
  | .addr x, hw => by
    have hw' : 7 ≤ rank x ∧ WF x := by simpa [WF] using hw
    have gx := good x hw'.2
    refine good_of_rf hw (by simp [rank]) (by simp [rank]) ?_
    intro _ n rest hn hs
    simp only [need] at hn
    obtain ⟨n2, rfl⟩ : ∃ n2, n = n2 + 2 := ⟨n - 2, by omega⟩
    have hx := gx.rf hw'.1 n2 rest (by omega) hs
    have := parseReference_of (parseAtom_amp_of hx)
    rw [refLoop_stop _ _ _ hs] at this
    simpa [toks] using this
  | .recv x, hw => by
    have hw' : 7 ≤ rank x ∧ WF x := by simpa [WF] using hw
    have gx := good x hw'.2
    refine good_of_rf hw (by simp [rank]) (by simp [rank]) ?_
    intro _ n rest hn hs
    simp only [need] at hn
    obtain ⟨n2, rfl⟩ : ∃ n2, n = n2 + 2 := ⟨n - 2, by omega⟩
    have hx := gx.rf hw'.1 n2 rest (by omega) hs
    have := parseReference_of (parseAtom_recv_of hx)
    rw [refLoop_stop _ _ _ hs] at this
    simpa [toks] using this
  | .sel x name, hw => good_of_pr hw (by simp [rank]) (by
      have hw' : 8 ≤ rank x ∧ WF x := by simpa [WF] using hw
      have gx := good x hw'.2
      intro _ k n rest hn
      simp only [need] at hn
      obtain ⟨n1, hk, hp⟩ := gx.pr hw'.1 (k + 1) n (.sp .dot :: .id name :: rest) (by omega)
      obtain ⟨n2, rfl⟩ : ∃ n2, n1 = n2 + 1 := ⟨n1 - 1, by omega⟩
      rw [refLoop_dot] at hp
      exact ⟨n2, by omega, by simpa [toks] using hp⟩)
  | .index x i, hw => good_of_pr hw (by simp [rank]) (by
      have hw' : 8 ≤ rank x ∧ WF x ∧ WF i := by simpa [WF] using hw
      have gx := good x hw'.2.1
      have gi := good i hw'.2.2
      intro _ k n rest hn
      simp only [need] at hn
      obtain ⟨n1, hk, hp⟩ := gx.pr hw'.1 (need i + 5 + k) n
        (.sp .lbrack :: (toks i ++ .sp .rbrack :: rest)) (by omega)
      obtain ⟨n2, rfl⟩ : ∃ n2, n1 = n2 + 1 := ⟨n1 - 1, by omega⟩
      have hb := full_of_bn gi.bn (m := 0) (n := n2) (rest := .sp .rbrack :: rest) (Nat.zero_le _)
        (by omega) (noSuffix_rbrack _) (opLt_rbrack _ _)
      rw [refLoop_lbrack_of hb] at hp
      exact ⟨n2, by omega, by simpa [toks] using hp⟩)
  | .call f args, hw => good_of_pr hw (by simp [rank]) (by
      have hw' : 8 ≤ rank f ∧ WF f ∧ WFArgs args := by simpa [WF] using hw
      have gf := good f hw'.2.1
      have ga := goodArgs args hw'.2.2
      intro _ k n rest hn
      simp only [need] at hn
      obtain ⟨n1, hk, hp⟩ := gf.pr hw'.1 (needAL args + 2 + k) n
        (.sp .lparen :: (toksArgs true args ++ .sp .rparen :: rest)) (by omega)
      obtain ⟨n2, rfl⟩ : ∃ n2, n1 = n2 + 1 := ⟨n1 - 1, by omega⟩
      have ha := al_of_aloop ga n2 rest (by omega)
      rw [refLoop_lparen_of ha] at hp
      exact ⟨n2, by omega, by simpa [toks] using hp⟩)

theorem goodArgs : ∀ args : Args, WFArgs args → ALoop args
  | .nil, _ => by intro a r h; cases h
  | .cons a .nil, hw => by
    have hw' : WF a := by simpa [WFArgs] using hw
    have ga := good a hw'
    intro _ _ _ n rest hn
    simp only [needAL] at hn
    obtain ⟨n1, rfl⟩ : ∃ n1, n = n1 + 1 := ⟨n - 1, by omega⟩
    have hb := full_of_bn ga.bn (m := 0) (n := n1) (rest := .sp .rparen :: rest) (Nat.zero_le _)
      (by omega) (noSuffix_rparen _) (opLt_rparen _ _)
    simpa [toksArgs] using argLoop_last hb
  | .cons a (.cons b r), hw => by
    have hw' : WF a ∧ WFArgs (.cons b r) := by simpa [WFArgs] using hw
    have ga := good a hw'.1
    have ih := goodArgs (.cons b r) hw'.2
    intro _ _ _ n rest hn
    simp only [needAL] at hn
    obtain ⟨n1, rfl⟩ : ∃ n1, n = n1 + 1 := ⟨n - 1, by omega⟩
    have h2 := ih b r rfl n1 rest (by simp only [needAL]; omega)
    obtain ⟨tl, htl⟩ := toks_head b
    have hb := full_of_bn ga.bn (m := 0) (n := n1)
      (rest := .sp .comma :: (toksArgs true (.cons b r) ++ .sp .rparen :: rest)) (Nat.zero_le _)
      (by omega) (noSuffix_comma _) (opLt_comma _ _)
    simp only [toksArgs, if_true, htl, List.cons_append, List.append_assoc] at h2 hb
    have := argLoop_more hb (firstTok_ne_rparen b) h2
    simpa [toksArgs, htl] using this
end

end EgoVerif.C05
