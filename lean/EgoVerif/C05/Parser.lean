import EgoVerif.C05.Model
/-
C05 — model of the AST parser's expression grammar (parse/expression.go, parse/atom.go), core Lean only.
Every function takes a fuel argument that decreases at each call (the Go code recurses on the token
cursor); `parseExpr` supplies more fuel than any parse of the given tokens can use (see
`Props.lean`, `need_le_fuel`).  Forms outside the fragment (type assertion `.(T)`, slices, composite
literals, function literals, `...`) make the model answer `none`.
-/
namespace EgoVerif.C05

mutual
/-- expression.go `parseBinary(minPrec)`: a unary operand, then the operator loop -/
def parseBinary : Nat → Nat → List Tok → Option (Expr × List Tok)
  | 0, _, _ => none
  | n + 1, minPrec, ts =>
    match parseUnary n ts with
    | none => none
    | some (left, rest) => binLoop n minPrec left rest

/-- the `for` loop of parseBinary: continue while the next token is a binary operator with
`prec >= minPrec`; the right operand is parsed at `prec + 1` -/
def binLoop : Nat → Nat → Expr → List Tok → Option (Expr × List Tok)
  | 0, _, _, _ => none
  | n + 1, minPrec, left, ts =>
    match ts with
    | .sp s :: rest =>
      match binOfTok s with
      | none => some (left, ts)
      | some op =>
        if op.prec < minPrec then some (left, ts)
        else
          match parseBinary n (op.prec + 1) rest with
          | none => none
          | some (right, rest') => binLoop n minPrec (.binary op left right) rest'
    | _ => some (left, ts)

/-- expression.go `parseUnary`: prefix "-" and "!" -/
def parseUnary : Nat → List Tok → Option (Expr × List Tok)
  | 0, _ => none
  | n + 1, ts =>
    match ts with
    | .sp s :: rest =>
      if s = .minus then
        match parseUnary n rest with
        | none => none
        | some (x, r) => some (.unary .neg x, r)
      else if s = .bang then
        match parseUnary n rest with
        | none => none
        | some (x, r) => some (.unary .not x, r)
      else parseReference n ts
    | _ => parseReference n ts

/-- expression.go `parseReference`: an atom, then the suffix loop -/
def parseReference : Nat → List Tok → Option (Expr × List Tok)
  | 0, _ => none
  | n + 1, ts =>
    match parseAtom n ts with
    | none => none
    | some (x, rest) => refLoop n x rest

/-- the suffix loop: `.name`, `[index]`, `(args)` -/
def refLoop : Nat → Expr → List Tok → Option (Expr × List Tok)
  | 0, _, _ => none
  | n + 1, x, ts =>
    match ts with
    | .sp s :: rest =>
      if s = .dot then
        match rest with
        | .id name :: rest' => refLoop n (.sel x name) rest'
        | _ => none
      else if s = .lbrack then
        match parseBinary n 0 rest with
        | some (i, .sp c :: rest') => if c = .rbrack then refLoop n (.index x i) rest' else none
        | _ => none
      else if s = .lparen then
        match parseArgs n rest with
        | some (args, .sp c :: rest') => if c = .rparen then refLoop n (.call x args) rest' else none
        | _ => none
      else some (x, ts)
    | _ => some (x, ts)

/-- atom.go `parseAtom` / `parseParen` / `parseUnaryAtom` -/
def parseAtom : Nat → List Tok → Option (Expr × List Tok)
  | 0, _ => none
  | n + 1, ts =>
    match ts with
    | [] => none
    | .num s :: rest => some (.lit s, rest)
    | .id s :: rest => some (.ident s, rest)
    | .sp s :: rest =>
      if s = .lparen then
        match parseBinary n 0 rest with
        | some (x, .sp c :: rest') => if c = .rparen then some (.paren x, rest') else none
        | _ => none
      else if s = .amp then
        match parseReference n rest with
        | none => none
        | some (x, r) => some (.addr x, r)
      else if s = .star then
        match parseReference n rest with
        | none => none
        | some (x, r) => some (.star x, r)
      else if s = .recv then
        match parseReference n rest with
        | none => none
        | some (x, r) => some (.recv x, r)
      else none

/-- expression.go `parseArgList`: empty when the next token is ")" -/
def parseArgs : Nat → List Tok → Option (Args × List Tok)
  | 0, _ => none
  | n + 1, ts =>
    match ts with
    | .sp s :: _ => if s = .rparen then some (.nil, ts) else argLoop n ts
    | _ => argLoop n ts

/-- the argument loop: expression, then "," (a trailing comma before ")" is allowed) -/
def argLoop : Nat → List Tok → Option (Args × List Tok)
  | 0, _ => none
  | n + 1, ts =>
    match parseBinary n 0 ts with
    | none => none
    | some (a, rest) =>
      match rest with
      | .sp c :: rest' =>
        if c = .comma then
          match rest' with
          | .sp d :: _ =>
            if d = .rparen then some (.cons a .nil, rest')
            else
              match argLoop n rest' with
              | none => none
              | some (as, r) => some (.cons a as, r)
          | _ =>
            match argLoop n rest' with
            | none => none
            | some (as, r) => some (.cons a as, r)
        else some (.cons a .nil, rest)
      | _ => some (.cons a .nil, rest)
end

/-- more fuel than a parse of `ts` can consume -/
def fuelFor (ts : List Tok) : Nat := 4 * ts.length + 4

/-- `parseExpression` on a complete token list: everything must be consumed -/
def parseExpr (ts : List Tok) : Option Expr :=
  match parseBinary (fuelFor ts) 0 ts with
  | some (e, []) => some e
  | _ => none

end EgoVerif.C05
