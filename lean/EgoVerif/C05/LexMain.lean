import EgoVerif.C05.LexProof
namespace EgoVerif.C05

mutual
/-- feeding the printed pieces of `e` to the crush loop pushes exactly `toks e` -/
theorem lex_pp : ∀ (e : Expr), WF e → ∀ (g : Bool) (acc : List Tok), safeAcc acc g (firstPiece e) →
    (pp g e).foldl lexStep acc = (toks e).reverse ++ acc
  | .ident s, _, g, acc, hs => by
    simp [pp, toks, List.foldl, lexStep_push acc ⟨g, .id s⟩ hs]
  | .lit s, _, g, acc, hs => by
    simp [pp, toks, List.foldl, lexStep_push acc ⟨g, .num s⟩ hs]
  | .paren x, hw, g, acc, hs => by
    simp only [WF] at hw
    have h1 := lexStep_push acc ⟨g, .sp .lparen⟩ hs
    have h2 := lex_pp x hw true (.sp .lparen :: acc) (safeAcc_of_headQuiet (acc := _ :: _) quiet_lparen _ _)
    simp only [pp, toks, List.foldl_cons, List.foldl_append, h1, h2, List.foldl_nil]
    rw [lexStep_hq (headQuiet_after x _)]
    simp
  | .binary op x y, hw, g, acc, hs => by
    simp only [WF] at hw
    have h1 := lex_pp x hw.2.2.1 g acc hs
    obtain ⟨tl, htl⟩ := toks_reverse_head x
    have h2 : op.pieces.foldl lexStep ((toks x).reverse ++ acc) = .sp op.tok :: ((toks x).reverse ++ acc) := by
      rw [htl]; exact binop_lex (quiet_lastTok x) _ op
    have h3 := lex_pp y hw.2.2.2 false (.sp op.tok :: ((toks x).reverse ++ acc)) (safe_after_op op y _)
    simp only [pp, toks, List.foldl_append, h1, h2, h3]
    simp
  | .unary op x, hw, g, acc, hs => by
    simp only [WF] at hw
    have h1 := lexStep_push acc ⟨g, .sp op.tok⟩ hs
    have h2 := lex_pp x hw.2 _ (.sp op.tok :: acc) (safe_unary op x hw.2 hw.1 acc)
    simp only [pp, toks, List.foldl_cons, h1, h2]
    simp
  | .star x, hw, g, acc, hs => by
    simp only [WF] at hw
    have h1 := lexStep_push acc ⟨g, .sp .star⟩ hs
    have h2 := lex_pp x hw.2 true (.sp .star :: acc) (safe_star x acc)
    simp only [pp, toks, List.foldl_cons, h1, h2]
    simp
  | .addr x, hw, g, acc, hs => by
    simp only [WF] at hw
    have h1 := lexStep_push acc ⟨g, .sp .amp⟩ hs
    have h2 := lex_pp x hw.2 _ (.sp .amp :: acc) (safe_addr x hw.2 hw.1 acc)
    simp only [pp, toks, List.foldl_cons, h1, h2]
    simp
  | .recv x, hw, g, acc, hs => by
    simp only [WF] at hw
    have h1 := lexStep_push acc ⟨g, .sp .lt⟩ hs
    have h1' : lexStep (.sp .lt :: acc) ⟨true, .sp .minus⟩ = .sp .recv :: acc := by
      simp [lexStep, crushLookup]
    have h2 := lex_pp x hw.2 true (.sp .recv :: acc) (safeAcc_of_headQuiet (acc := _ :: _) quiet_recv _ _)
    simp only [pp, toks, List.foldl_cons, h1, h1', h2]
    simp
  | .sel x name, hw, g, acc, hs => by
    simp only [WF] at hw
    have h1 := lex_pp x hw.2 g acc hs
    simp only [pp, toks, List.foldl_append, List.foldl_cons, List.foldl_nil, h1]
    rw [lexStep_hq (headQuiet_after x _), lexStep_q quiet_dot]
    simp
  | .index x i, hw, g, acc, hs => by
    simp only [WF] at hw
    have h1 := lex_pp x hw.2.1 g acc hs
    have h2 := lex_pp i hw.2.2 true (.sp .lbrack :: ((toks x).reverse ++ acc))
      (safeAcc_of_headQuiet (acc := _ :: _) quiet_lbrack _ _)
    simp only [pp, toks, List.foldl_append, List.foldl_cons, List.foldl_nil, h1]
    rw [lexStep_hq (headQuiet_after x _), h2, lexStep_hq (headQuiet_after i _)]
    simp
  | .call f args, hw, g, acc, hs => by
    simp only [WF] at hw
    have h1 := lex_pp f hw.2.1 g acc hs
    have h2 := lex_ppArgs args hw.2.2 true (.sp .lparen :: ((toks f).reverse ++ acc)) quiet_lparen
    simp only [pp, toks, List.foldl_append, List.foldl_cons, List.foldl_nil, h1]
    rw [lexStep_hq (headQuiet_after f _), h2.1, lexStep_hq h2.2]
    simp

theorem lex_ppArgs : ∀ (as : Args), WFArgs as → ∀ (first : Bool) (acc : List Tok), headQuiet acc →
    (ppArgs first as).foldl lexStep acc = (toksArgs first as).reverse ++ acc ∧
      headQuiet ((toksArgs first as).reverse ++ acc)
  | .nil, _, first, acc, hq => by simp [ppArgs, toksArgs, hq]
  | .cons a rest, hw, true, acc, hq => by
    simp only [WFArgs] at hw
    have h1 := lex_pp a hw.1 true acc (safeAcc_of_headQuiet hq _ _)
    have h2 := lex_ppArgs rest hw.2 false ((toks a).reverse ++ acc) (headQuiet_after a _)
    simp only [ppArgs, toksArgs, if_true, List.foldl_append, h1, h2.1]
    constructor
    · simp
    · have := h2.2; simpa using this
  | .cons a rest, hw, false, acc, hq => by
    simp only [WFArgs] at hw
    have h0 := lexStep_hq hq true (.sp .comma)
    have h1 := lex_pp a hw.1 false (.sp .comma :: acc) (safeAcc_of_headQuiet (acc := _ :: _) quiet_comma _ _)
    have h2 := lex_ppArgs rest hw.2 false ((toks a).reverse ++ (.sp .comma :: acc)) (headQuiet_after a _)
    simp only [ppArgs, toksArgs, Bool.false_eq_true, if_false, List.foldl_append, List.foldl_cons, h0, h1, h2.1]
    constructor
    · simp
    · have := h2.2; simpa using this
end

theorem safeAcc_nil (g : Bool) (tk : Tok) : safeAcc [] g tk := by
  intro a rest b h; cases h

/-- the real tokenizer's crush step gives back exactly the intended tokens of the printed expression -/
theorem C05_lex_print (e : Expr) (h : WF e) : lexTokens (printExpr e) = toks e := by
  unfold lexTokens printExpr
  rw [lex_pp e h false [] (safeAcc_nil _ _)]
  simp

end EgoVerif.C05
