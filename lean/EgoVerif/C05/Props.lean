import EgoVerif.C05.ParseMain
import EgoVerif.C05.WFB
/-
C05 — property theorems.  Fragment: Ident, BasicLit(int), ParenExpr, BinaryExpr (the 18 operators of
`binaryPrecedence`), UnaryExpr (- !), StarExpr, AddrExpr, RecvExpr, SelectorExpr, IndexExpr, CallExpr.
`WF e` is the shape of parser output (operands bind at least as tightly as their position needs);
`C05_parse_wf_statement` (every parser result is WF) is stated, not proved — it is tied by the `wf`
correspondence lines on every AST the real parser returns.
-/
namespace EgoVerif.C05

theorem lenArgs_le (args : Args) : (toksArgs false args).length ≤ (toksArgs true args).length + 1 := by
  cases args <;> simp [toksArgs]

mutual
theorem need_bound : ∀ e : Expr, need e + 1 ≤ 4 * (toks e).length
  | .ident _ => by simp [need, toks]
  | .lit _ => by simp [need, toks]
  | .paren x => by have := need_bound x; simp [need, toks]; omega
  | .binary _ x y => by have := need_bound x; have := need_bound y; simp [need, toks]; omega
  | .unary _ x => by have := need_bound x; simp [need, toks]; omega
  | .star x => by have := need_bound x; simp [need, toks]; omega
  | .addr x => by have := need_bound x; simp [need, toks]; omega
  | .recv x => by have := need_bound x; simp [need, toks]; omega
  | .sel x _ => by have := need_bound x; simp [need, toks]; omega
  | .index x i => by have := need_bound x; have := need_bound i; simp [need, toks]; omega
  | .call f args => by
    have := need_bound f; have := needAL_bound args; have := lenArgs_le args
    simp [need, toks]; omega
theorem needAL_bound : ∀ args : Args, needAL args ≤ 4 * (toksArgs false args).length
  | .nil => by simp [needAL]
  | .cons a rest => by
    have := need_bound a; have := needAL_bound rest
    simp [needAL, toksArgs]; omega
end

/-- the fuel `parseExpr` supplies is enough -/
theorem need_le_fuel (e : Expr) : need e + 4 ≤ fuelFor (toks e) := by
  have := need_bound e; unfold fuelFor; omega

/-- the parser model reads the intended tokens of a well-formed expression back as that expression -/
theorem C05_parse_toks (e : Expr) (h : WF e) : parseExpr (toks e) = some e := by
  have := full_of_bn (good e h).bn (m := 0) (n := fuelFor (toks e)) (rest := []) (Nat.zero_le _)
    (need_le_fuel e) trivial trivial
  simp only [List.append_nil] at this
  simp [parseExpr, this]

/-- MAIN: printing a well-formed expression, tokenizing the text (crush step) and parsing it gives the
expression back — for ALL expressions of the fragment.  So the formatted text has the same tokens
(parentheses are `paren` nodes and are preserved) and the same structure. -/
theorem C05_expr_roundtrip (e : Expr) (h : WF e) : parseExpr (lexTokens (printExpr e)) = some e := by
  rw [C05_lex_print e h, C05_parse_toks e h]

/-- formatting is idempotent on expressions: format ∘ parse ∘ lex is the identity on formatted text -/
theorem C05_idempotent (e : Expr) (h : WF e) :
    (parseExpr (lexTokens (printExpr e))).map printExpr = some (printExpr e) := by
  rw [C05_expr_roundtrip e h]; rfl

/-- the parser only builds well-formed trees (stated; tied by correspondence, see header) -/
def C05_parse_wf_statement : Prop := ∀ ts e, parseExpr ts = some e → WF e

/-- the `wf` answer of the driver is exactly `WF` -/
theorem C05_wf_executable (e : Expr) : wfB e = true ↔ WF e := wfB_iff e

/-- the code BEFORE the fix: `- -5` is printed `--5`, which lexes as the decrement token and no longer parses -/
theorem C05_unfixed_counterexample :
    WF (.unary .neg (.unary .neg (.lit "5"))) ∧
    lexTokens (ppOld false (.unary .neg (.unary .neg (.lit "5")))) = [.sp .dec, .num "5"] ∧
    parseExpr (lexTokens (ppOld false (.unary .neg (.unary .neg (.lit "5"))))) = none := by
  refine ⟨by simp [WF, rank], by decide, by decide⟩

/-- likewise `& &x` is printed `&&x` (the compiler accepts `& &x`) -/
theorem C05_unfixed_addr_counterexample :
    WF (.addr (.addr (.ident "x"))) ∧
    lexTokens (ppOld false (.addr (.addr (.ident "x")))) = [.sp .andand, .id "x"] ∧
    parseExpr (lexTokens (ppOld false (.addr (.addr (.ident "x"))))) = none := by
  refine ⟨by simp [WF, rank], by decide, by decide⟩

/- outside these two shapes the old printer and the fixed one agree piece for piece (`_partial`):
an expression without `-` directly under `-` and without `&` directly under `&`. -/
mutual
def plain : Expr → Bool
  | .ident _ => true
  | .lit _ => true
  | .paren x => plain x
  | .binary _ x y => plain x && plain y
  | .unary op x => !(op == .neg && x.isNeg) && plain x
  | .star x => plain x
  | .addr x => !x.isAddr && plain x
  | .recv x => plain x
  | .sel x _ => plain x
  | .index x i => plain x && plain i
  | .call f args => plain f && plainArgs args
def plainArgs : Args → Bool
  | .nil => true
  | .cons a rest => plain a && plainArgs rest
end

mutual
theorem ppOld_eq : ∀ (e : Expr) (g : Bool), plain e = true → ppOld g e = pp g e
  | .ident _, _, _ => rfl
  | .lit _, _, _ => rfl
  | .paren x, g, h => by simp [plain] at h; simp [ppOld, pp, ppOld_eq x true h]
  | .binary _ x y, g, h => by
    simp [plain] at h; simp [ppOld, pp, ppOld_eq x g h.1, ppOld_eq y false h.2]
  | .unary op x, g, h => by
    simp [plain] at h
    have hb : (!(op == .neg && x.isNeg)) = true := by
      cases hop : (op == UnOp.neg) <;> cases hx : x.isNeg <;> simp_all
    simp [ppOld, pp, hb, ppOld_eq x true h.2]
  | .star x, g, h => by simp [plain] at h; simp [ppOld, pp, ppOld_eq x true h]
  | .addr x, g, h => by
    simp [plain] at h
    simp [ppOld, pp, h.1, ppOld_eq x true h.2]
  | .recv x, g, h => by simp [plain] at h; simp [ppOld, pp, ppOld_eq x true h]
  | .sel x _, g, h => by simp [plain] at h; simp [ppOld, pp, ppOld_eq x g h]
  | .index x i, g, h => by
    simp [plain] at h; simp [ppOld, pp, ppOld_eq x g h.1, ppOld_eq i true h.2]
  | .call f args, g, h => by
    simp [plain] at h; simp [ppOld, pp, ppOld_eq f g h.1, ppArgsOld_eq args true h.2]
theorem ppArgsOld_eq : ∀ (as : Args) (first : Bool), plainArgs as = true → ppArgsOld first as = ppArgs first as
  | .nil, _, _ => rfl
  | .cons a rest, first, h => by
    simp [plainArgs] at h
    simp [ppArgsOld, ppArgs, ppOld_eq a true h.1, ppOld_eq a false h.1, ppArgsOld_eq rest false h.2]
end

/-- the UNFIXED printer already round-trips every well-formed expression that has no `- -` and no `& &` -/
theorem C05_unfixed_partial (e : Expr) (h : WF e) (hp : plain e = true) :
    parseExpr (lexTokens (ppOld false e)) = some e := by
  rw [ppOld_eq e false hp]; exact C05_expr_roundtrip e h

/- non-vacuity: hypotheses are met by non-trivial instances -/
example : WF (.binary .add (.ident "a") (.binary .mul (.unary .neg (.unary .neg (.lit "5"))) (.paren (.binary .sub (.ident "b") (.ident "c"))))) := by
  simp [WF, rank, BinOp.prec]
example : WF (.call (.sel (.index (.ident "a") (.lit "1")) "f") (.cons (.addr (.addr (.ident "x"))) (.cons (.lit "2") .nil))) := by
  simp [WF, WFArgs, rank]
example : plain (.binary .lt (.ident "a") (.unary .neg (.ident "b"))) = true := by decide
example : ¬ WF (.binary .mul (.binary .add (.ident "a") (.ident "b")) (.ident "c")) := by
  simp [WF, rank, BinOp.prec]

end EgoVerif.C05
