import EgoVerif.C05.ParseLemmas
/- the four claims proved for every well-formed expression, and the steps between them -/
namespace EgoVerif.C05

def isTS : Tok → Bool
  | .id _ => true
  | .num _ => true
  | .sp .lparen => true
  | .sp .minus => true
  | .sp .bang => true
  | .sp .star => true
  | .sp .amp => true
  | .sp .recv => true
  | _ => false

theorem firstTok_isTS : ∀ e : Expr, isTS (firstTok e) = true
  | .ident _ => rfl
  | .lit _ => rfl
  | .paren _ => rfl
  | .binary _ x _ => firstTok_isTS x
  | .unary .neg _ => rfl
  | .unary .not _ => rfl
  | .star _ => rfl
  | .addr _ => rfl
  | .recv _ => rfl
  | .sel x _ => firstTok_isTS x
  | .index x _ => firstTok_isTS x
  | .call f _ => firstTok_isTS f

theorem firstTok_ne_rparen (e : Expr) : firstTok e ≠ .sp .rparen := by
  intro h
  have := firstTok_isTS e
  rw [h] at this
  simp [isTS] at this

theorem firstTok_primary : ∀ e : Expr, WF e → 8 ≤ rank e → isPrimStart (firstTok e) = true
  | .ident _, _, _ => rfl
  | .lit _, _, _ => rfl
  | .paren _, _, _ => rfl
  | .binary op _ _, _, h => by cases op <;> simp [rank, BinOp.prec] at h
  | .unary _ _, _, h => by simp [rank] at h
  | .star _, _, h => by simp [rank] at h
  | .addr _, _, h => by simp [rank] at h
  | .recv _, _, h => by simp [rank] at h
  | .sel x _, hw, _ => by simp [WF] at hw; exact firstTok_primary x hw.2 hw.1
  | .index x _, hw, _ => by simp [WF] at hw; exact firstTok_primary x hw.2.1 hw.1
  | .call f _, hw, _ => by simp [WF] at hw; exact firstTok_primary f hw.2.1 hw.1

/-- an operand of the reference level does not start with a prefix "-" or "!" -/
theorem firstTok_ref : ∀ e : Expr, WF e → 7 ≤ rank e → firstTok e ≠ .sp .minus ∧ firstTok e ≠ .sp .bang
  | .ident _, _, _ => by simp [firstTok]
  | .lit _, _, _ => by simp [firstTok]
  | .paren _, _, _ => by simp [firstTok]
  | .binary op _ _, _, h => by cases op <;> simp [rank, BinOp.prec] at h
  | .unary _ _, _, h => by simp [rank] at h
  | .star _, _, _ => by simp [firstTok]
  | .addr _, _, _ => by simp [firstTok]
  | .recv _, _, _ => by simp [firstTok]
  | .sel x n, hw, _ => by
    have := firstTok_primary (.sel x n) hw (by simp [rank])
    constructor <;> intro h <;> rw [h] at this <;> simp [isPrimStart] at this
  | .index x i, hw, _ => by
    have := firstTok_primary (.index x i) hw (by simp [rank])
    constructor <;> intro h <;> rw [h] at this <;> simp [isPrimStart] at this
  | .call f a, hw, _ => by
    have := firstTok_primary (.call f a) hw (by simp [rank])
    constructor <;> intro h <;> rw [h] at this <;> simp [isPrimStart] at this

def PR (e : Expr) : Prop :=
  8 ≤ rank e → ∀ k n rest, need e + k ≤ n →
    ∃ n', k ≤ n' ∧ parseReference n (toks e ++ rest) = refLoop n' e rest

def RF (e : Expr) : Prop :=
  7 ≤ rank e → ∀ n rest, need e + 1 ≤ n → noSuffix rest →
    parseReference n (toks e ++ rest) = some (e, rest)

def UN (e : Expr) : Prop :=
  6 ≤ rank e → ∀ n rest, need e + 2 ≤ n → noSuffix rest →
    parseUnary n (toks e ++ rest) = some (e, rest)

def BN (e : Expr) : Prop :=
  ∀ m k n rest, m ≤ rank e → need e + 3 + k ≤ n → noSuffix rest → opLt (rank e + 1) rest →
    ∃ n', k ≤ n' ∧ parseBinary n m (toks e ++ rest) = binLoop n' m e rest

structure Good (e : Expr) : Prop where
  pr : PR e
  rf : RF e
  un : UN e
  bn : BN e

theorem opLt_mono {m m' : Nat} {rest : List Tok} (h : opLt m rest) (hm : m ≤ m') : opLt m' rest := by
  cases rest with
  | nil => trivial
  | cons t tl =>
    cases t with
    | id s => trivial
    | num s => trivial
    | sp s => intro op hop; have := h op hop; omega

/-- a complete operand: everything up to `rest` is consumed and the operator loop stops -/
theorem full_of_bn {e : Expr} (h : BN e) {m n : Nat} {rest : List Tok} (hm : m ≤ rank e)
    (hn : need e + 4 ≤ n) (hs : noSuffix rest) (ho : opLt m rest) :
    parseBinary n m (toks e ++ rest) = some (e, rest) := by
  obtain ⟨n', hk, hp⟩ := h m 1 n rest hm (by omega) hs (opLt_mono ho (by omega))
  obtain ⟨n'', rfl⟩ : ∃ n'', n' = n'' + 1 := ⟨n' - 1, by omega⟩
  rw [hp, binLoop_stop _ _ _ _ ho]

theorem rf_of_pr {e : Expr} (h : PR e) (hr : 8 ≤ rank e) : RF e := by
  intro _ n rest hn hs
  obtain ⟨n', hk, hp⟩ := h hr 1 n rest hn
  obtain ⟨n'', rfl⟩ : ∃ n'', n' = n'' + 1 := ⟨n' - 1, by omega⟩
  rw [hp, refLoop_stop _ _ _ hs]

theorem un_of_rf {e : Expr} (h : RF e) (hw : WF e) (hr : 7 ≤ rank e) : UN e := by
  intro _ n rest hn hs
  obtain ⟨n1, rfl⟩ : ∃ n1, n = n1 + 1 := ⟨n - 1, by omega⟩
  obtain ⟨tl, htl⟩ := toks_head e
  have hf := firstTok_ref e hw hr
  have := h hr n1 rest (by omega) hs
  rw [htl] at this ⊢
  rw [List.cons_append] at this ⊢
  rw [parseUnary_other _ _ _ hf.1 hf.2, this]

theorem bn_of_un {e : Expr} (h : UN e) (hr : 6 ≤ rank e) : BN e := by
  intro m k n rest _ hn hs _
  obtain ⟨n1, rfl⟩ : ∃ n1, n = n1 + 1 := ⟨n - 1, by omega⟩
  have := h hr n1 rest (by omega) hs
  exact ⟨n1, by omega, parseBinary_of this⟩

theorem noSuffix_rparen (rest : List Tok) : noSuffix (.sp .rparen :: rest) := by simp [noSuffix]
theorem noSuffix_rbrack (rest : List Tok) : noSuffix (.sp .rbrack :: rest) := by simp [noSuffix]
theorem noSuffix_comma (rest : List Tok) : noSuffix (.sp .comma :: rest) := by simp [noSuffix]
theorem noSuffix_op (op : BinOp) (rest : List Tok) : noSuffix (.sp op.tok :: rest) := by
  cases op <;> simp [noSuffix, BinOp.tok]
theorem opLt_rparen (m : Nat) (rest : List Tok) : opLt m (.sp .rparen :: rest) := by
  intro op h; simp [binOfTok] at h
theorem opLt_rbrack (m : Nat) (rest : List Tok) : opLt m (.sp .rbrack :: rest) := by
  intro op h; simp [binOfTok] at h
theorem opLt_comma (m : Nat) (rest : List Tok) : opLt m (.sp .comma :: rest) := by
  intro op h; simp [binOfTok] at h
theorem opLt_op (op : BinOp) (rest : List Tok) : opLt (op.prec + 1) (.sp op.tok :: rest) := by
  intro op' h; rw [binOfTok_tok] at h; injection h with h; subst h; omega

theorem parseArgs_nil (n : Nat) (rest : List Tok) :
    parseArgs (n + 1) (.sp .rparen :: rest) = some (.nil, .sp .rparen :: rest) := by
  rw [parseArgs.eq_def] <;> simp

theorem parseArgs_other (n : Nat) (t : Tok) (rest : List Tok) (h : t ≠ .sp .rparen) :
    parseArgs (n + 1) (t :: rest) = argLoop n (t :: rest) := by
  cases t with
  | id s => rw [parseArgs.eq_def] <;> simp
  | num s => rw [parseArgs.eq_def] <;> simp
  | sp s =>
    have a : s ≠ .rparen := fun e => h (by rw [e])
    rw [parseArgs.eq_def] <;> simp [a]

theorem argLoop_last {n : Nat} {ts rest : List Tok} {a : Expr}
    (h : parseBinary n 0 ts = some (a, .sp .rparen :: rest)) :
    argLoop (n + 1) ts = some (.cons a .nil, .sp .rparen :: rest) := by
  rw [argLoop.eq_def] <;> simp [h]

theorem argLoop_more {n : Nat} {ts rest' r : List Tok} {a : Expr} {as : Args} {t : Tok}
    (h : parseBinary n 0 ts = some (a, .sp .comma :: t :: rest')) (ht : t ≠ .sp .rparen)
    (h2 : argLoop n (t :: rest') = some (as, r)) :
    argLoop (n + 1) ts = some (.cons a as, r) := by
  cases t with
  | id s => rw [argLoop.eq_def] <;> simp [h, h2]
  | num s => rw [argLoop.eq_def] <;> simp [h, h2]
  | sp s =>
    have a' : s ≠ .rparen := fun e => ht (by rw [e])
    rw [argLoop.eq_def] <;> simp [h, h2, a']

end EgoVerif.C05
