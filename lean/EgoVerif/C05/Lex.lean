import EgoVerif.C05.Parser
/-
C05 — the crush step re-assembles exactly the tokens the printer meant:
`lexTokens (printExpr e) = toks e` for every well-formed expression.
-/
namespace EgoVerif.C05

/-- binding strength of the outermost constructor: binary = its precedence (1‥5), prefix "-" "!" = 6,
prefix atoms "*" "&" "<-" = 7, everything the suffix loop can extend = 8 -/
def rank : Expr → Nat
  | .binary op _ _ => op.prec
  | .unary _ _ => 6
  | .star _ => 7
  | .addr _ => 7
  | .recv _ => 7
  | _ => 8

mutual
/-- the shape of every AST the parser builds (`C05_parse_wf`): operands bind at least as tightly as
their position requires — otherwise the printed text (which adds no parentheses) reads differently -/
def WF : Expr → Prop
  | .ident _ => True
  | .lit _ => True
  | .paren x => WF x
  | .binary op x y => op.prec ≤ rank x ∧ op.prec + 1 ≤ rank y ∧ WF x ∧ WF y
  | .unary _ x => 6 ≤ rank x ∧ WF x
  | .star x => 7 ≤ rank x ∧ WF x
  | .addr x => 7 ≤ rank x ∧ WF x
  | .recv x => 7 ≤ rank x ∧ WF x
  | .sel x _ => 8 ≤ rank x ∧ WF x
  | .index x i => 8 ≤ rank x ∧ WF x ∧ WF i
  | .call f args => 8 ≤ rank f ∧ WF f ∧ WFArgs args
def WFArgs : Args → Prop
  | .nil => True
  | .cons a rest => WF a ∧ WFArgs rest
end

mutual
/-- the token list the printer means -/
def toks : Expr → List Tok
  | .ident s => [.id s]
  | .lit s => [.num s]
  | .paren x => .sp .lparen :: (toks x ++ [.sp .rparen])
  | .binary op x y => toks x ++ (.sp op.tok :: toks y)
  | .unary op x => .sp op.tok :: toks x
  | .star x => .sp .star :: toks x
  | .addr x => .sp .amp :: toks x
  | .recv x => .sp .recv :: toks x
  | .sel x name => toks x ++ [.sp .dot, .id name]
  | .index x i => toks x ++ (.sp .lbrack :: (toks i ++ [.sp .rbrack]))
  | .call f args => toks f ++ (.sp .lparen :: (toksArgs true args ++ [.sp .rparen]))
def toksArgs (first : Bool) : Args → List Tok
  | .nil => []
  | .cons a rest => (if first then toks a else .sp .comma :: toks a) ++ toksArgs false rest
end

/-- first raw piece of the printed text -/
def firstPiece : Expr → Tok
  | .ident s => .id s
  | .lit s => .num s
  | .paren _ => .sp .lparen
  | .binary _ x _ => firstPiece x
  | .unary op _ => .sp op.tok
  | .star _ => .sp .star
  | .addr _ => .sp .amp
  | .recv _ => .sp .lt
  | .sel x _ => firstPiece x
  | .index x _ => firstPiece x
  | .call f _ => firstPiece f

def lastTok : Expr → Tok
  | .ident s => .id s
  | .lit s => .num s
  | .paren _ => .sp .rparen
  | .binary _ _ y => lastTok y
  | .unary _ x => lastTok x
  | .star x => lastTok x
  | .addr x => lastTok x
  | .recv x => lastTok x
  | .sel _ name => .id name
  | .index _ _ => .sp .rbrack
  | .call _ _ => .sp .rparen

/-- a token after which no crush can happen -/
def quietTok (t : Tok) : Prop := ∀ a, t = .sp a → ∀ b g, crushLookup a b g = none

def headQuiet : List Tok → Prop
  | [] => True
  | t :: _ => quietTok t

/-- what `lexStep` needs to simply push the new token -/
def safeAcc (acc : List Tok) (g : Bool) (tk : Tok) : Prop :=
  ∀ a rest b, acc = .sp a :: rest → tk = .sp b → crushLookup a b g = none

theorem lexStep_push (acc : List Tok) (p : Piece) (h : safeAcc acc p.glued p.tok) :
    lexStep acc p = p.tok :: acc := by
  unfold lexStep
  split
  · rename_i a rest b hb
    have := h a rest b rfl hb
    simp [this]
  · rfl

theorem safeAcc_of_headQuiet {acc : List Tok} (h : headQuiet acc) (g : Bool) (tk : Tok) :
    safeAcc acc g tk := by
  intro a rest b hacc _
  subst hacc
  exact h a rfl b g

theorem quiet_id (s : String) : quietTok (.id s) := by intro a h; cases h
theorem quiet_num (s : String) : quietTok (.num s) := by intro a h; cases h
theorem quiet_rparen : quietTok (.sp .rparen) := by
  intro a h b g; cases h; cases b <;> rfl
theorem quiet_rbrack : quietTok (.sp .rbrack) := by
  intro a h b g; cases h; cases b <;> rfl
theorem quiet_lparen : quietTok (.sp .lparen) := by
  intro a h b g; cases h; cases b <;> rfl
theorem quiet_lbrack : quietTok (.sp .lbrack) := by
  intro a h b g; cases h; cases b <;> rfl
theorem quiet_comma : quietTok (.sp .comma) := by
  intro a h b g; cases h; cases b <;> rfl
theorem quiet_dot : quietTok (.sp .dot) := by
  intro a h b g; cases h; cases b <;> rfl
theorem quiet_recv : quietTok (.sp .recv) := by
  intro a h b g; cases h; cases b <;> rfl

theorem quiet_lastTok : ∀ e : Expr, quietTok (lastTok e)
  | .ident s => quiet_id s
  | .lit s => quiet_num s
  | .paren _ => quiet_rparen
  | .binary _ _ y => quiet_lastTok y
  | .unary _ x => quiet_lastTok x
  | .star x => quiet_lastTok x
  | .addr x => quiet_lastTok x
  | .recv x => quiet_lastTok x
  | .sel _ name => quiet_id name
  | .index _ _ => quiet_rbrack
  | .call _ _ => quiet_rparen

theorem toks_reverse_head : ∀ e : Expr, ∃ tl, (toks e).reverse = lastTok e :: tl
  | .ident s => ⟨[], by simp [toks, lastTok]⟩
  | .lit s => ⟨[], by simp [toks, lastTok]⟩
  | .paren x => ⟨(toks x).reverse ++ [.sp .lparen], by simp [toks, lastTok]⟩
  | .binary op x y => by
    obtain ⟨tl, h⟩ := toks_reverse_head y
    exact ⟨tl ++ (.sp op.tok :: (toks x).reverse), by simp [toks, lastTok, h]⟩
  | .unary op x => by
    obtain ⟨tl, h⟩ := toks_reverse_head x
    exact ⟨tl ++ [.sp op.tok], by simp [toks, lastTok, h]⟩
  | .star x => by
    obtain ⟨tl, h⟩ := toks_reverse_head x
    exact ⟨tl ++ [.sp .star], by simp [toks, lastTok, h]⟩
  | .addr x => by
    obtain ⟨tl, h⟩ := toks_reverse_head x
    exact ⟨tl ++ [.sp .amp], by simp [toks, lastTok, h]⟩
  | .recv x => by
    obtain ⟨tl, h⟩ := toks_reverse_head x
    exact ⟨tl ++ [.sp .recv], by simp [toks, lastTok, h]⟩
  | .sel x name => ⟨.sp .dot :: (toks x).reverse, by simp [toks, lastTok]⟩
  | .index x i => ⟨(toks i).reverse ++ (.sp .lbrack :: (toks x).reverse), by simp [toks, lastTok]⟩
  | .call f args =>
    ⟨(toksArgs true args).reverse ++ (.sp .lparen :: (toks f).reverse), by simp [toks, lastTok]⟩

theorem headQuiet_after (e : Expr) (acc : List Tok) : headQuiet ((toks e).reverse ++ acc) := by
  obtain ⟨tl, h⟩ := toks_reverse_head e
  rw [h]
  exact quiet_lastTok e

/-- the raw pieces an expression can start with -/
def isStart : Tok → Bool
  | .id _ => true
  | .num _ => true
  | .sp .lparen => true
  | .sp .minus => true
  | .sp .bang => true
  | .sp .star => true
  | .sp .amp => true
  | .sp .lt => true
  | _ => false

theorem firstPiece_isStart : ∀ e : Expr, isStart (firstPiece e) = true
  | .ident _ => rfl
  | .lit _ => rfl
  | .paren _ => rfl
  | .binary _ x _ => firstPiece_isStart x
  | .unary .neg _ => rfl
  | .unary .not _ => rfl
  | .star _ => rfl
  | .addr _ => rfl
  | .recv _ => rfl
  | .sel x _ => firstPiece_isStart x
  | .index x _ => firstPiece_isStart x
  | .call f _ => firstPiece_isStart f

/-- a primary expression starts with a name, a literal or "(" -/
def isPrimStart : Tok → Bool
  | .id _ => true
  | .num _ => true
  | .sp .lparen => true
  | _ => false

theorem firstPiece_primary : ∀ e : Expr, WF e → 8 ≤ rank e → isPrimStart (firstPiece e) = true
  | .ident _, _, _ => rfl
  | .lit _, _, _ => rfl
  | .paren _, _, _ => rfl
  | .binary op _ _, _, h => by cases op <;> simp [rank, BinOp.prec] at h
  | .unary _ _, _, h => by simp [rank] at h
  | .star _, _, h => by simp [rank] at h
  | .addr _, _, h => by simp [rank] at h
  | .recv _, _, h => by simp [rank] at h
  | .sel x _, hw, _ => by simp [WF] at hw; exact firstPiece_primary x hw.2 hw.1
  | .index x _, hw, _ => by simp [WF] at hw; exact firstPiece_primary x hw.2.1 hw.1
  | .call f _, hw, _ => by simp [WF] at hw; exact firstPiece_primary f hw.2.1 hw.1

end EgoVerif.C05
