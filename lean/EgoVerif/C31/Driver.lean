import EgoVerif.Common.Drv
import EgoVerif.C31.Model
/- line protocol (all strings hex of UTF-8, "-" = empty; permission lists "_" = empty, else hex,hex,…):
     new <dflt>                      both stores from nothing, opened with default user <dflt>
     write <name> <id> <pw> <perms> <tok> <keys>
     delete|read|perms|evict|deluser <name>        list 0|1        flush        reopen <dflt>
     grant|revoke|has <name> <perm>
     setuser <name> <hash|~> <perms|~> <newid>
   answer: "<file model answer> | <database model answer>" in the harness's canonical form.
   The random uuid / hash of the k-th default user a store creates are the tokens dfltid#k / dfltpw#k. -/
namespace EgoVerif.C31

/-- unicode.ToLower on the ranges the harness draws cased letters from: ASCII, Latin-1, Greek, Cyrillic. -/
def lowerChar (c : Char) : Char :=
  let n := c.toNat
  if (65 ≤ n ∧ n ≤ 90) ∨ (0xC0 ≤ n ∧ n ≤ 0xDE ∧ n ≠ 0xD7) ∨ (0x391 ≤ n ∧ n ≤ 0x3A9 ∧ n ≠ 0x3A2) ∨ (0x410 ≤ n ∧ n ≤ 0x42F)
  then Char.ofNat (n + 32)
  else if 0x400 ≤ n ∧ n ≤ 0x40F then Char.ofNat (n + 80) else c

def lowerS (s : String) : String := String.ofList (s.toList.map lowerChar)

/-- strings.EqualFold on the same ranges (simple folding = same lower case, rune by rune). -/
def foldS (a b : String) : Bool := lowerS a == lowerS b

def extS : Ext String :=
  { lower := lowerS, fold := foldS, logon := "logon", stars := "********", empty := "", dot := "." }

/-- The JSON file as the map itself: the round trip `rt` is immediate. -/
def codecS : FileCodec String (UserMap String) := { enc := id, dec := id, rt := fun _ _ => rfl }

structure St where
  f : FileSt String (UserMap String)
  d : DbSt String
  fk : Nat
  dk : Nat

def fsvc := fileSvc extS codecS
def dsvc := dbSvc extS

def St.init : St := { f := fsvc.blank, d := dsvc.blank, fk := 0, dk := 0 }

def dfltUser (n : String) (k : Nat) : User String :=
  { name := n, id := s!"dfltid#{k}", pw := s!"dfltpw#{k}", perms := ["ego.root", "ego.logon"], tok := "", keys := "" }

def permsOut (l : List String) : String :=
  if l.isEmpty then "_" else ",".intercalate (l.map hexOfString)

def recOut (u : User String) : String :=
  " ".intercalate [hexOfString u.name, hexOfString u.id, hexOfString u.pw, permsOut u.perms, hexOfString u.tok, hexOfString u.keys]

def insertSorted (p : String × User String) : List (String × User String) → List (String × User String)
  | [] => [p]
  | q :: rest => if p.1 < q.1 then p :: q :: rest else q :: insertSorted p rest

def sortByKey (l : List (String × User String)) : List (String × User String) := l.foldr insertSorted []

def listOut (l : List (String × User String)) : String :=
  let s := sortByKey l
  s.foldl (fun acc p => acc ++ " ; " ++ hexOfString p.1 ++ " " ++ recOut p.2) s!"users {s.length}"

def ansOut : Ans String → String
  | .ok => "ok" | .err => "err" | .notFound => "notfound" | .noSuchUser => "nosuchuser"
  | .user u => "user " ++ recOut u
  | .users _ => "users?"            -- printed from the concrete listing, see `handle`
  | .bool b => if b then "true" else "false"
  | .strs l => "perms " ++ permsOut l

def permsIn (s : String) : Option (List String) :=
  if s == "_" then some [] else (s.splitOn ",").mapM stringOfHex

def parseOp (fs : List String) : Option (Op String) :=
  match fs with
  | ["write", n, i, p, pm, t, k] => do
    let n ← stringOfHex n; let i ← stringOfHex i; let p ← stringOfHex p; let pm ← permsIn pm
    let t ← stringOfHex t; let k ← stringOfHex k
    some (.write { name := n, id := i, pw := p, perms := pm, tok := t, keys := k })
  | ["delete", n] => (stringOfHex n).map .delete
  | ["read", n] => (stringOfHex n).map .read
  | ["perms", n] => (stringOfHex n).map .perms
  | ["evict", n] => (stringOfHex n).map .evict
  | ["deluser", n] => (stringOfHex n).map .delUser
  | ["list", m] => some (.list (m == "1"))
  | ["flush"] => some .flush
  | ["grant", n, p] => do some (.grant (← stringOfHex n) (← stringOfHex p))
  | ["revoke", n, p] => do some (.revoke (← stringOfHex n) (← stringOfHex p))
  | ["has", n, p] => do some (.has (← stringOfHex n) (← stringOfHex p))
  | ["setuser", n, h, pm, i] => do
    let n ← stringOfHex n
    let h ← if h == "~" then some none else (stringOfHex h).map some
    let pm ← if pm == "~" then some none else (permsIn pm).map some
    some (.setUser n h pm (← stringOfHex i))
  | _ => none

def reopenBoth (s : St) (n : String) : St :=
  let f' := fsvc.reopen s.f (dfltUser n (s.fk + 1))
  let d' := dsvc.reopen s.d (dfltUser n (s.dk + 1))
  let fk' := match aget f'.data n with
    | some u => if u.id = s!"dfltid#{s.fk + 1}" then s.fk + 1 else s.fk
    | none => s.fk
  let dk' := match tget d'.rows n with
    | some u => if u.id = s!"dfltid#{s.dk + 1}" then s.dk + 1 else s.dk
    | none => s.dk
  { f := f', d := d', fk := fk', dk := dk' }

def handle (s : St) (line : String) : St × String :=
  match fields line with
  | ["new", n] =>
    match stringOfHex n with
    | some n => (reopenBoth St.init n, "ok | ok")
    | none => (s, "bad-input")
  | ["reopen", n] =>
    match stringOfHex n with
    | some n => (reopenBoth s n, "ok | ok")
    | none => (s, "bad-input")
  | fs =>
    match parseOp fs with
    | none => (s, "bad-input")
    | some (.list m) =>
      (s, listOut (fsvc.listing s.f m) ++ " | " ++ listOut (dsvc.listing s.d m))
    | some op =>
      let rf := step extS fsvc s.f op
      let rd := step extS dsvc s.d op
      ({ s with f := rf.1, d := rd.1 }, ansOut rf.2 ++ " | " ++ ansOut rd.2)

def drv : Drv := { σ := St, init := St.init, step := handle }

end EgoVerif.C31
