/-
C31 — "User stores agree and persist".

Executable model of the two implementations of `userIOService`
(internal/server/auth/users.go) and of the client code written against that interface
(internal/server/auth/permissions.go, functions.go):

  * `fileSvc`  — users_file.go  `fileService`: a Go map, a dirty flag and a JSON file
                 (flush = serialise the map, reopen = Close (=Flush) then NewFileService = parse the file)
  * `dbSvc`    — users_sqldb.go `databaseService`: a keyed table "credentials" driven through the
                 resources package (Read with an `name =` filter, Insert, Update ... where, Delete ... where,
                 Read of all rows) plus the process-global short-term cache `caches.AuthCache`
  * `specSvc`  — the specification `UserMap`: a finite map name ↦ record, parameterised by the
                 "create the default user at (re)open?" policy, the one point where the two
                 implementations deliberately differ.

The model is generic in the type `κ` of strings (user names, ids, hashes, permission names) so that
the theorems hold for every string type and the counterexamples can be evaluated by `decide` on
`κ := Nat`; the driver instantiates `κ := String`.

The model mirrors the tree WITH fixes/C31.patch applied:
  * both ListUsers(true) mask the password with defs.ElidedPassword (unpatched: 10 vs 8 asterisks);
  * setPermission initialises an EMPTY-or-nil permission list to ["logon"] (unpatched: only nil, and the
    file store turns an empty list into nil on reload (`omitempty`) while the database keeps "[]").
With that fix nil and empty permission lists are indistinguishable, so `perms : List κ` is faithful.
Core Lean only.
-/
namespace EgoVerif.C31

/-- defs.User (internal/defs/users.go): Name, ID, Password (hash), Permissions, LastTokenAt, Passkeys. -/
structure User (κ : Type) where
  name : κ
  id : κ
  pw : κ
  perms : List κ
  tok : κ
  keys : κ
deriving DecidableEq, Repr

/-- Go stdlib primitives and string literals the code uses; they enter as parameters (no hypotheses
    are needed about them: both stores share them). -/
structure Ext (κ : Type) where
  lower : κ → κ            -- strings.ToLower
  fold : κ → κ → Bool      -- strings.EqualFold
  logon : κ                -- the literal "logon" in setPermission
  stars : κ                -- defs.ElidedPassword
  empty : κ                -- ""
  dot : κ                  -- "." (SetUser skips this permission name)

/-- Answers observable at the service boundary. `users` is a Go `map[string]defs.User`, i.e. a
    finite partial function; it is compared extensionally. -/
inductive Ans (κ : Type) where
  | ok | err | notFound | noSuchUser
  | user (u : User κ)
  | users (f : κ → Option (User κ))
  | bool (b : Bool)
  | strs (l : List κ)

section
variable {κ : Type} [DecidableEq κ]

/-! ### Go maps as association lists with unique keys -/
abbrev AList (κ α : Type) := List (κ × α)

def aget {α : Type} : AList κ α → κ → Option α
  | [], _ => none
  | (k', v) :: m, k => if k' = k then some v else aget m k

def adel {α : Type} (m : AList κ α) (k : κ) : AList κ α := m.filter (fun p => decide (p.1 ≠ k))

def aput {α : Type} (m : AList κ α) (k : κ) (v : α) : AList κ α := (k, v) :: adel m k

def maskU (E : Ext κ) (mask : Bool) (u : User κ) : User κ := if mask then { u with pw := E.stars } else u

/-! ### The service interface (users.go `userIOService`) plus the two environment actions -/
structure Svc (κ σ : Type) where
  blank : σ                                  -- no file / no table yet, empty cache
  read : σ → κ → σ × Option (User κ)         -- ReadUser
  write : σ → User κ → σ × Bool              -- WriteUser   (true = nil error)
  delete : σ → κ → σ × Bool                  -- DeleteUser
  listing : σ → Bool → AList κ (User κ)      -- ListUsers(suppressPasswords), as the pairs put in the result map
  flush : σ → σ × Bool                       -- Flush
  reopen : σ → User κ → σ                    -- Close, then New…Service(path, default user); the record is the
                                             -- default user it would create (fresh uuid + bcrypt hash)
  evict : σ → κ → σ                          -- a cache entry expires / is dropped (caches.AuthCache)

/-- The result map of ListUsers as a function. -/
def Svc.list {σ : Type} (S : Svc κ σ) (s : σ) (mask : Bool) : κ → Option (User κ) := fun k => aget (S.listing s mask) k

/-! ### Client code over the interface -/

/-- permissions.go findPermission: first index whose entry EqualFold-matches. -/
def findPermission (E : Ext κ) (perms : List κ) (p : κ) : Option Nat := perms.findIdx? (fun q => E.fold q p)

def okErr {κ : Type} (b : Bool) : Ans κ := if b then .ok else .err

/-- `err = AuthService.WriteUser(…); if err == nil { err = AuthService.Flush() }` -/
def writeFlush {σ : Type} (S : Svc κ σ) (s : σ) (u : User κ) : σ × Ans κ :=
  let w := S.write s u
  if w.2 then
    let f := S.flush w.1
    (f.1, okErr f.2)
  else (w.1, .err)

/-- The permission list setPermission writes back (with the fix: `len(u.Permissions) == 0`). -/
def newPerms (E : Ext κ) (perms : List κ) (p : κ) (enabled : Bool) : List κ :=
  let perms0 := if perms.isEmpty then [E.logon] else perms
  match findPermission E perms0 p with
  | none => if enabled then perms0 ++ [p] else perms0
  | some i => if enabled then perms0 else perms0.eraseIdx i

/-- permissions.go setPermission. -/
def setPermission {σ : Type} (E : Ext κ) (S : Svc κ σ) (s : σ) (user priv : κ) (enabled : Bool) : σ × Ans κ :=
  let r := S.read s user
  match r.2 with
  | none => (r.1, .noSuchUser)
  | some u => writeFlush S r.1 { u with perms := newPerms E u.perms (E.lower priv) enabled }

/-- permissions.go GetPermission. -/
def getPermission {σ : Type} (E : Ext κ) (S : Svc κ σ) (s : σ) (user priv : κ) : σ × Ans κ :=
  let r := S.read s user
  match r.2 with
  | some u => (r.1, .bool (findPermission E u.perms (E.lower priv)).isSome)
  | none => (r.1, .bool false)

/-- permissions.go GetPermissions. -/
def getPermissions {σ : Type} (S : Svc κ σ) (s : σ) (user : κ) : σ × Ans κ :=
  let r := S.read s user
  match r.2 with
  | some u => (r.1, .strs u.perms)
  | none => (r.1, .strs [])

/-- The record functions.go SetUser writes: an existing record keeps its id, and keeps its password /
    permissions unless a new password (already hashed: `hash`) / a non-empty permission list is given. -/
def setUserRec (E : Ext κ) (n : κ) (old : Option (User κ)) (hash : Option κ) (perms : Option (List κ)) (newId : κ) : User κ :=
  let r0 : User κ := match old with
    | some u => u
    | none => { name := n, id := newId, pw := E.empty, perms := [], tok := E.empty, keys := E.empty }
  let r1 := match hash with | some h => { r0 with pw := h } | none => r0
  match perms with
  | some l => if l.isEmpty then r1 else { r1 with perms := l.filter (fun p => decide (p ≠ E.dot)) }
  | none => r1

/-- functions.go SetUser (name lower-cased). -/
def setUser {σ : Type} (E : Ext κ) (S : Svc κ σ) (s : σ) (name : κ) (hash : Option κ) (perms : Option (List κ))
    (newId : κ) : σ × Ans κ :=
  let r := S.read s (E.lower name)
  writeFlush S r.1 (setUserRec E (E.lower name) r.2 hash perms newId)

/-- functions.go DeleteUser. -/
def delUser {σ : Type} (E : Ext κ) (S : Svc κ σ) (s : σ) (name : κ) : σ × Ans κ :=
  let r := S.read s (E.lower name)
  match r.2 with
  | none => (r.1, .bool false)
  | some _ =>
    let d := S.delete r.1 (E.lower name)
    if d.2 then
      let f := S.flush d.1
      (f.1, if f.2 then .bool true else .err)
    else (d.1, .err)

/-- One step of a history. -/
inductive Op (κ : Type) where
  | write (u : User κ)
  | delete (n : κ)
  | read (n : κ)
  | list (mask : Bool)
  | grant (n p : κ)
  | revoke (n p : κ)
  | has (n p : κ)
  | perms (n : κ)
  | flush
  | reopen (d : User κ)
  | evict (n : κ)
  | setUser (n : κ) (hash : Option κ) (perms : Option (List κ)) (newId : κ)
  | delUser (n : κ)

def step {σ : Type} (E : Ext κ) (S : Svc κ σ) (s : σ) : Op κ → σ × Ans κ
  | .write u => let r := S.write s u; (r.1, okErr r.2)
  | .delete n => let r := S.delete s n; (r.1, okErr r.2)
  | .read n => let r := S.read s n; (r.1, match r.2 with | some u => .user u | none => .notFound)
  | .list m => (s, .users (S.list s m))
  | .grant n p => setPermission E S s n p true
  | .revoke n p => setPermission E S s n p false
  | .has n p => getPermission E S s n p
  | .perms n => getPermissions S s n
  | .flush => let r := S.flush s; (r.1, okErr r.2)
  | .reopen d => (S.reopen s d, .ok)
  | .evict n => (S.evict s n, .ok)
  | .setUser n h p i => setUser E S s n h p i
  | .delUser n => delUser E S s n

/-- Run a history, collecting the answers. -/
def run {σ : Type} (E : Ext κ) (S : Svc κ σ) : σ → List (Op κ) → σ × List (Ans κ)
  | s, [] => (s, [])
  | s, op :: rest =>
    let r := step E S s op
    let q := run E S r.1 rest
    (q.1, r.2 :: q.2)

/-- The answers of a service started from nothing: the first operation of a real history is the
    initial `reopen d` (= New…Service on a path that does not exist yet). -/
def answers {σ : Type} (E : Ext κ) (S : Svc κ σ) (h : List (Op κ)) : List (Ans κ) := (run E S S.blank h).2

/-! ### Specification: UserMap -/
abbrev UserMap (κ : Type) := AList κ (User κ)

/-- users_file.go NewFileService: "if len(svc.data) == 0" create the default user. -/
def polFile (m : UserMap κ) (_ : User κ) : Bool := m.isEmpty

/-- users_sqldb.go NewDatabaseService: "if defaultUser != "" and ReadUser fails" create the default user. -/
def polDb (E : Ext κ) (m : UserMap κ) (d : User κ) : Bool := decide (d.name ≠ E.empty) && (aget m d.name).isNone

def specSvc (E : Ext κ) (pol : UserMap κ → User κ → Bool) : Svc κ (UserMap κ) where
  blank := []
  read m n := (m, aget m n)
  write m u := (aput m u.name u, true)
  delete m n := (adel m n, true)
  listing m mask := m.map (fun p => (p.1, maskU E mask p.2))
  flush m := (m, true)
  reopen m d := if pol m d then aput m d.name d else m
  evict m _ := m

/-! ### users_file.go -/

/-- The JSON file: `enc` = json.MarshalIndent of the map (+ header), `dec` = ReadJSONFile + json.Unmarshal.
    `rt`: parsing what was written gives back the same map (as a function). This is where "strings are
    valid UTF-8" enters: encoding/json replaces invalid bytes by U+FFFD, so `rt` fails for such names. -/
structure FileCodec (κ β : Type) [DecidableEq κ] where
  enc : UserMap κ → β
  dec : β → UserMap κ
  rt : ∀ m k, aget (dec (enc m)) k = aget m k

structure FileSt (κ β : Type) where
  data : UserMap κ        -- f.data
  dirty : Bool            -- f.dirty
  disk : Option β         -- the file at f.path (none = does not exist)

variable {β : Type}

/-- fileService.Flush (f.path ≠ ""; I/O errors not modelled). -/
def fileFlush (C : FileCodec κ β) (s : FileSt κ β) : FileSt κ β × Bool :=
  if s.dirty then ({ s with disk := some (C.enc s.data), dirty := false }, true) else (s, true)

/-- NewFileService(path, default user): load the file if it exists; default user if the map is empty. -/
def fileOpen (C : FileCodec κ β) (disk : Option β) (d : User κ) : FileSt κ β :=
  let data := match disk with | some b => C.dec b | none => []
  if data.isEmpty then { data := [(d.name, d)], dirty := true, disk := disk }
  else { data := data, dirty := false, disk := disk }

def fileSvc (E : Ext κ) (C : FileCodec κ β) : Svc κ (FileSt κ β) where
  blank := { data := [], dirty := false, disk := none }
  -- ReadUser: `user, ok := f.data[name]`
  read s n := (s, aget s.data n)
  -- WriteUser: `f.data[user.Name] = user; f.dirty = true`
  write s u := ({ s with data := aput s.data u.name u, dirty := true }, true)
  -- DeleteUser: `u, err := f.ReadUser(name); if err == nil { delete(f.data, u.Name); f.dirty = true }; return nil`
  delete s n :=
    match aget s.data n with
    | some u => ({ s with data := adel s.data u.name, dirty := true }, true)
    | none => (s, true)
  -- ListUsers: the map itself, or a copy with masked passwords
  listing s mask := s.data.map (fun p => (p.1, maskU E mask p.2))
  flush s := fileFlush C s
  -- Close = Flush; then NewFileService
  reopen s d := fileOpen C (fileFlush C s).1.disk d
  evict s _ := s

/-! ### users_sqldb.go over the resources package -/

/-- resources.Read(Equals("name", k)) followed by ReadUser's loop `for _, row := range rowSet { user = row }`:
    the LAST row whose name column equals k. -/
def tget : List (User κ) → κ → Option (User κ)
  | [], _ => none
  | r :: rs, k =>
    match tget rs k with
    | some u => some u
    | none => if r.name = k then some r else none

/-- resources.Insert into a table whose first column (name) is the primary key. -/
def tblInsert (rows : List (User κ)) (u : User κ) : List (User κ) × Bool :=
  if rows.any (fun r => decide (r.name = u.name)) then (rows, false) else (rows ++ [u], true)

/-- resources.Update(u, Equals("name", n)): every matching row gets all columns of u. -/
def tblUpdate (rows : List (User κ)) (n : κ) (u : User κ) : List (User κ) :=
  rows.map (fun r => if r.name = n then u else r)

/-- resources.Delete(Equals("name", n)). -/
def tblDelete (rows : List (User κ)) (n : κ) : List (User κ) := rows.filter (fun r => decide (r.name ≠ n))

structure DbSt (κ : Type) where
  rows : List (User κ)          -- table "credentials" in rowid order
  cache : AList κ (User κ)      -- caches.AuthCache (process-global: survives Close/New…Service)

/-- databaseService.ReadUser: cache hit, else query; a found row is added to the cache. -/
def dbRead (s : DbSt κ) (n : κ) : DbSt κ × Option (User κ) :=
  match aget s.cache n with
  | some u => (s, some u)
  | none =>
    match tget s.rows n with
    | none => (s, none)
    | some u => ({ s with cache := aput s.cache n u }, some u)

/-- databaseService.WriteUser: drop the cache entry, ReadUser, Update or Insert, re-add to the cache
    (also when the statement failed). -/
def dbWrite (s : DbSt κ) (u : User κ) : DbSt κ × Bool :=
  let s0 : DbSt κ := { s with cache := adel s.cache u.name }
  match dbRead s0 u.name with
  | (s1, some _) => ({ rows := tblUpdate s1.rows u.name u, cache := aput s1.cache u.name u }, true)
  | (s1, none) =>
    let r := tblInsert s1.rows u
    ({ rows := r.1, cache := aput s1.cache u.name u }, r.2)

/-- databaseService.DeleteUser. -/
def dbDelete (s : DbSt κ) (n : κ) : DbSt κ × Bool :=
  ({ rows := tblDelete s.rows n, cache := adel s.cache n }, true)

/-- databaseService.ListUsers: `for _, row := range rowSet { r[user.Name] = *user }`. -/
def dbListing (E : Ext κ) (rows : List (User κ)) (mask : Bool) : AList κ (User κ) :=
  rows.foldl (fun acc r => aput acc r.name (maskU E mask r)) []

/-- Close, then NewDatabaseService: CreateIf; `if defaultUser != ""` and ReadUser fails, Insert directly
    (no cache update). The table is durable, the cache stays. -/
def dbOpen (E : Ext κ) (s : DbSt κ) (d : User κ) : DbSt κ :=
  if d.name = E.empty then s else
  match dbRead s d.name with
  | (s1, some _) => s1
  | (s1, none) => { s1 with rows := (tblInsert s1.rows d).1 }

def dbSvc (E : Ext κ) : Svc κ (DbSt κ) where
  blank := { rows := [], cache := [] }
  read := dbRead
  write := dbWrite
  delete := dbDelete
  listing s mask := dbListing E s.rows mask
  flush s := (s, true)
  reopen s d := dbOpen E s d
  evict s n := { s with cache := adel s.cache n }

/-- Along the database-policy specification run, is every (re)open one where the two
    default-user policies make the same decision?  (The decidable class excluded by `C31_agree_partial`.) -/
def polAgree (E : Ext κ) : UserMap κ → List (Op κ) → Bool
  | _, [] => true
  | m, op :: rest =>
    (match op with
     | .reopen d => polFile m d == polDb E m d
     | _ => true) && polAgree E (step E (specSvc E (polDb E)) m op).1 rest

end
end EgoVerif.C31
