import EgoVerif.C31.Model
/-
C31 — theorems.

  * `C31_file_refines`  : for EVERY history, answers (file store) = answers (UserMap, policy "default user iff empty")
  * `C31_db_refines`    : for EVERY history (with arbitrary cache evictions), answers (database store) =
                          answers (UserMap, policy "default user iff missing")
  * `C31_agree_partial` : on every history where the two policies decide alike at each reopen, the two stores
                          give identical answers (flush / close / reopen included)
  * `C31_agree_counterexample` : a concrete history where they differ (default user deleted, then restart)
  * `C31_db_write_never_fails`, `C31_db_keys_unique` : the read-then-insert of WriteUser never conflicts;
                          the primary key stays unique.
Proof: a generic forward-simulation lemma for the client code over the service interface (`step_sim`,
`run_sim`), instantiated with the two simulation relations `RFile`, `RDb`.
-/
namespace EgoVerif.C31
section
variable {κ : Type} [DecidableEq κ] {α : Type}

@[simp] theorem aget_nil (k : κ) : aget ([] : AList κ α) k = none := rfl

theorem aget_cons (k' : κ) (v : α) (m : AList κ α) (k : κ) :
    aget ((k', v) :: m) k = if k' = k then some v else aget m k := rfl

theorem aget_adel (m : AList κ α) (k k' : κ) :
    aget (adel m k) k' = if k = k' then none else aget m k' := by
  induction m with
  | nil => simp [adel]
  | cons p m ih =>
    obtain ⟨a, v⟩ := p
    unfold adel at ih ⊢
    by_cases h : a = k
    · subst h
      simp only [List.filter_cons, ne_eq, not_true_eq_false, decide_false, Bool.false_eq_true, if_false, ih, aget_cons]
      by_cases h2 : a = k' <;> simp [h2]
    · simp only [List.filter_cons, ne_eq, h, not_false_eq_true, decide_true, if_true, aget_cons, ih]
      by_cases h2 : a = k'
      · subst h2; simp [Ne.symm h]
      · simp [h2]

theorem aget_aput (m : AList κ α) (k : κ) (v : α) (k' : κ) :
    aget (aput m k v) k' = if k = k' then some v else aget m k' := by
  unfold aput
  rw [aget_cons, aget_adel]
  by_cases h : k = k' <;> simp [h]

theorem isEmpty_iff_aget (m : AList κ α) : m.isEmpty = true ↔ ∀ k, aget m k = none := by
  cases m with
  | nil => simp
  | cons p m =>
    obtain ⟨a, v⟩ := p
    simp only [List.isEmpty_cons, Bool.false_eq_true, false_iff]
    intro h
    have := h a
    simp [aget_cons] at this

theorem isEmpty_congr {m m' : AList κ α} (h : ∀ k, aget m k = aget m' k) : m.isEmpty = m'.isEmpty := by
  have h1 := isEmpty_iff_aget m
  have h2 := isEmpty_iff_aget m'
  cases hm : m.isEmpty <;> cases hm' : m'.isEmpty <;> simp_all

theorem aget_map_val (f : α → α) (m : AList κ α) (k : κ) :
    aget (m.map (fun p => (p.1, f p.2))) k = (aget m k).map f := by
  induction m with
  | nil => rfl
  | cons p m ih =>
    obtain ⟨a, v⟩ := p
    simp only [List.map_cons, aget_cons, ih]
    by_cases h : a = k <;> simp [h]

/-! ### the table -/

theorem tget_cons (r : User κ) (rs : List (User κ)) (k : κ) :
    tget (r :: rs) k = match tget rs k with
      | some u => some u
      | none => if r.name = k then some r else none := rfl

theorem tget_name {rows : List (User κ)} {k : κ} {u : User κ} (h : tget rows k = some u) : u.name = k := by
  induction rows with
  | nil => simp [tget] at h
  | cons r rs ih =>
    rw [tget_cons] at h
    cases h2 : tget rs k with
    | some v => rw [h2] at h; simp at h; subst h; exact ih h2
    | none =>
      rw [h2] at h
      by_cases h3 : r.name = k
      · simp [h3] at h; subst h; exact h3
      · simp [h3] at h

theorem tget_none_iff (rows : List (User κ)) (k : κ) :
    tget rows k = none ↔ rows.any (fun r => decide (r.name = k)) = false := by
  induction rows with
  | nil => simp [tget]
  | cons r rs ih =>
    rw [tget_cons]
    cases h2 : tget rs k with
    | some v =>
      have : ¬ (rs.any (fun r => decide (r.name = k)) = false) := fun hh => by
        have := ih.mpr hh; rw [h2] at this; cases this
      simp only [List.any_cons, Bool.or_eq_false_iff]
      constructor
      · intro h; cases h
      · intro h; exact absurd h.2 this
    | none =>
      have h3 := ih.mp h2
      by_cases h4 : r.name = k <;> simp [h4, h3]

theorem tget_append_single (rows : List (User κ)) (u : User κ) (k : κ) :
    tget (rows ++ [u]) k = if u.name = k then some u else tget rows k := by
  induction rows with
  | nil => simp [tget]
  | cons r rs ih =>
    simp only [List.cons_append, tget_cons, ih]
    by_cases h : u.name = k <;> simp [h]

theorem tget_update (rows : List (User κ)) (n : κ) (u : User κ) (hu : u.name = n) (k : κ) :
    tget (tblUpdate rows n u) k = if n = k then (tget rows n).map (fun _ => u) else tget rows k := by
  induction rows with
  | nil => simp [tblUpdate, tget]
  | cons r rs ih =>
    unfold tblUpdate at ih ⊢
    simp only [List.map_cons, tget_cons, ih]
    by_cases hnk : n = k
    · subst hnk
      simp only [if_true]
      cases h2 : tget rs n with
      | some v => simp
      | none =>
        by_cases h3 : r.name = n
        · simp [h3, hu]
        · simp [h3]
    · simp only [hnk, if_false]
      cases h2 : tget rs k with
      | some v => simp
      | none =>
        by_cases h3 : r.name = n
        · have : ¬ r.name = k := fun h => hnk (h3.symm.trans h)
          have h4 : ¬ u.name = k := fun h => hnk (hu.symm.trans h)
          simp [h3, h4, hnk]
        · simp [h3]

theorem tget_delete (rows : List (User κ)) (n k : κ) :
    tget (tblDelete rows n) k = if n = k then none else tget rows k := by
  induction rows with
  | nil => simp [tblDelete, tget]
  | cons r rs ih =>
    unfold tblDelete at ih ⊢
    by_cases h : r.name = n
    · simp only [List.filter_cons, ne_eq, h, not_true_eq_false, decide_false, Bool.false_eq_true, if_false, ih, tget_cons]
      by_cases h2 : n = k
      · simp [h2]
      · have : ¬ r.name = k := fun hh => h2 (h.symm.trans hh)
        simp [h2]
        cases tget rs k <;> simp
    · simp only [List.filter_cons, ne_eq, h, not_false_eq_true, decide_true, if_true, tget_cons, ih]
      by_cases h2 : n = k
      · have : ¬ r.name = k := fun hh => h (hh.trans h2.symm)
        simp [h2, this]
      · simp [h2]

theorem aget_dbListing_aux (E : Ext κ) (mask : Bool) (rows : List (User κ)) (acc : AList κ (User κ)) (k : κ) :
    aget (rows.foldl (fun acc r => aput acc r.name (maskU E mask r)) acc) k
      = match tget rows k with
        | some u => some (maskU E mask u)
        | none => aget acc k := by
  induction rows generalizing acc with
  | nil => simp [tget]
  | cons r rs ih =>
    simp only [List.foldl_cons, ih, tget_cons]
    cases h2 : tget rs k with
    | some v => rfl
    | none =>
      simp only [aget_aput]
      by_cases h3 : r.name = k <;> simp [h3]

theorem aget_dbListing (E : Ext κ) (mask : Bool) (rows : List (User κ)) (k : κ) :
    aget (dbListing E rows mask) k = (tget rows k).map (maskU E mask) := by
  unfold dbListing
  rw [aget_dbListing_aux]
  cases tget rows k <;> rfl

/-! ### forward simulation between two services -/

structure Sim {σ₁ σ₂ : Type} (S₁ : Svc κ σ₁) (S₂ : Svc κ σ₂) (R : σ₁ → σ₂ → Prop) : Prop where
  blank : R S₁.blank S₂.blank
  read : ∀ a b n, R a b → R (S₁.read a n).1 (S₂.read b n).1 ∧ (S₁.read a n).2 = (S₂.read b n).2
  write : ∀ a b u, R a b → R (S₁.write a u).1 (S₂.write b u).1 ∧ (S₁.write a u).2 = (S₂.write b u).2
  delete : ∀ a b n, R a b → R (S₁.delete a n).1 (S₂.delete b n).1 ∧ (S₁.delete a n).2 = (S₂.delete b n).2
  list : ∀ a b m k, R a b → aget (S₁.listing a m) k = aget (S₂.listing b m) k
  flush : ∀ a b, R a b → R (S₁.flush a).1 (S₂.flush b).1 ∧ (S₁.flush a).2 = (S₂.flush b).2
  reopen : ∀ a b d, R a b → R (S₁.reopen a d) (S₂.reopen b d)
  evict : ∀ a b n, R a b → R (S₁.evict a n) (S₂.evict b n)

variable {σ₁ σ₂ : Type} {S₁ : Svc κ σ₁} {S₂ : Svc κ σ₂} {R : σ₁ → σ₂ → Prop}

/-- "same answer and related successor states" -/
def Rel2 (R : σ₁ → σ₂ → Prop) (x : σ₁ × Ans κ) (y : σ₂ × Ans κ) : Prop := R x.1 y.1 ∧ x.2 = y.2

theorem writeFlush_sim (h : Sim S₁ S₂ R) {a : σ₁} {b : σ₂} (hab : R a b) (u : User κ) :
    Rel2 R (writeFlush S₁ a u) (writeFlush S₂ b u) := by
  obtain ⟨hw, hwe⟩ := h.write a b u hab
  unfold writeFlush
  simp only [hwe]
  cases hb : (S₂.write b u).2
  · exact ⟨hw, rfl⟩
  · obtain ⟨hf, hfe⟩ := h.flush _ _ hw
    simp only [if_true]
    exact ⟨hf, by rw [hfe]⟩

theorem setPermission_sim (E : Ext κ) (h : Sim S₁ S₂ R) {a : σ₁} {b : σ₂} (hab : R a b) (n p : κ) (e : Bool) :
    Rel2 R (setPermission E S₁ a n p e) (setPermission E S₂ b n p e) := by
  obtain ⟨hr, hre⟩ := h.read a b n hab
  unfold setPermission
  simp only [hre]
  cases (S₂.read b n).2 with
  | none => exact ⟨hr, rfl⟩
  | some u => exact writeFlush_sim h hr _

theorem getPermission_sim (E : Ext κ) (h : Sim S₁ S₂ R) {a : σ₁} {b : σ₂} (hab : R a b) (n p : κ) :
    Rel2 R (getPermission E S₁ a n p) (getPermission E S₂ b n p) := by
  obtain ⟨hr, hre⟩ := h.read a b n hab
  unfold getPermission
  simp only [hre]
  cases (S₂.read b n).2 <;> exact ⟨hr, rfl⟩

theorem getPermissions_sim (h : Sim S₁ S₂ R) {a : σ₁} {b : σ₂} (hab : R a b) (n : κ) :
    Rel2 R (getPermissions S₁ a n) (getPermissions S₂ b n) := by
  obtain ⟨hr, hre⟩ := h.read a b n hab
  unfold getPermissions
  simp only [hre]
  cases (S₂.read b n).2 <;> exact ⟨hr, rfl⟩

theorem setUser_sim (E : Ext κ) (h : Sim S₁ S₂ R) {a : σ₁} {b : σ₂} (hab : R a b) (n : κ) (hs : Option κ)
    (pm : Option (List κ)) (i : κ) :
    Rel2 R (setUser E S₁ a n hs pm i) (setUser E S₂ b n hs pm i) := by
  obtain ⟨hr, hre⟩ := h.read a b (E.lower n) hab
  unfold setUser
  simp only [hre]
  exact writeFlush_sim h hr _

theorem delUser_sim (E : Ext κ) (h : Sim S₁ S₂ R) {a : σ₁} {b : σ₂} (hab : R a b) (n : κ) :
    Rel2 R (delUser E S₁ a n) (delUser E S₂ b n) := by
  obtain ⟨hr, hre⟩ := h.read a b (E.lower n) hab
  unfold delUser
  simp only [hre]
  cases (S₂.read b (E.lower n)).2 with
  | none => exact ⟨hr, rfl⟩
  | some u =>
    obtain ⟨hd, hde⟩ := h.delete _ _ (E.lower n) hr
    simp only [hde]
    cases (S₂.delete (S₂.read b (E.lower n)).1 (E.lower n)).2
    · exact ⟨hd, rfl⟩
    · obtain ⟨hf, hfe⟩ := h.flush _ _ hd
      simp only [if_true]
      exact ⟨hf, by rw [hfe]⟩

theorem step_sim (E : Ext κ) (h : Sim S₁ S₂ R) {a : σ₁} {b : σ₂} (hab : R a b) (op : Op κ) :
    Rel2 R (step E S₁ a op) (step E S₂ b op) := by
  cases op with
  | write u => obtain ⟨h1, h2⟩ := h.write a b u hab; exact ⟨h1, by simp only [step, h2]⟩
  | delete n => obtain ⟨h1, h2⟩ := h.delete a b n hab; exact ⟨h1, by simp only [step, h2]⟩
  | read n => obtain ⟨h1, h2⟩ := h.read a b n hab; exact ⟨h1, by simp only [step, h2]⟩
  | list m =>
    refine ⟨hab, ?_⟩
    simp only [step]
    congr 1
    funext k
    exact h.list a b m k hab
  | grant n p => exact setPermission_sim E h hab n p true
  | revoke n p => exact setPermission_sim E h hab n p false
  | has n p => exact getPermission_sim E h hab n p
  | perms n => exact getPermissions_sim h hab n
  | flush => obtain ⟨h1, h2⟩ := h.flush a b hab; exact ⟨h1, by simp only [step, h2]⟩
  | reopen d => exact ⟨h.reopen a b d hab, rfl⟩
  | evict n => exact ⟨h.evict a b n hab, rfl⟩
  | setUser n hs pm i => exact setUser_sim E h hab n hs pm i
  | delUser n => exact delUser_sim E h hab n

theorem run_sim (E : Ext κ) (h : Sim S₁ S₂ R) (ops : List (Op κ)) {a : σ₁} {b : σ₂} (hab : R a b) :
    R (run E S₁ a ops).1 (run E S₂ b ops).1 ∧ (run E S₁ a ops).2 = (run E S₂ b ops).2 := by
  induction ops generalizing a b with
  | nil => exact ⟨hab, rfl⟩
  | cons op rest ih =>
    obtain ⟨h1, h2⟩ := step_sim E h hab op
    obtain ⟨h3, h4⟩ := ih h1
    exact ⟨h3, by simp only [run, h2, h4]⟩

theorem answers_sim (E : Ext κ) (h : Sim S₁ S₂ R) (ops : List (Op κ)) :
    answers E S₁ ops = answers E S₂ ops := (run_sim E h ops h.blank).2

/-! ### users_file.go refines UserMap (policy: default user when the map is empty) -/

variable {β : Type}

def loaded (C : FileCodec κ β) (disk : Option β) : UserMap κ := match disk with | some b => C.dec b | none => []

def RFile (C : FileCodec κ β) (s : FileSt κ β) (m : UserMap κ) : Prop :=
  (∀ k, aget s.data k = aget m k) ∧ (∀ k u, aget m k = some u → u.name = k) ∧
  (s.dirty = false → ∀ k, aget (loaded C s.disk) k = aget m k)

theorem fileFlush_R (C : FileCodec κ β) {s : FileSt κ β} {m : UserMap κ} (h : RFile C s m) :
    RFile C (fileFlush C s).1 m ∧ (fileFlush C s).1.dirty = false ∧ (fileFlush C s).2 = true := by
  obtain ⟨h1, h2, h3⟩ := h
  by_cases hd : s.dirty = true
  · have e : fileFlush C s = ({ s with disk := some (C.enc s.data), dirty := false }, true) := by
      simp [fileFlush, hd]
    rw [e]
    refine ⟨⟨h1, h2, fun _ k => ?_⟩, rfl, rfl⟩
    simp only [loaded, C.rt, h1]
  · have hd' : s.dirty = false := by cases hs : s.dirty <;> simp_all
    have e : fileFlush C s = (s, true) := by simp [fileFlush, hd']
    rw [e]
    exact ⟨⟨h1, h2, h3⟩, hd', rfl⟩

theorem file_sim (E : Ext κ) (C : FileCodec κ β) : Sim (fileSvc E C) (specSvc E polFile) (RFile C) where
  blank := ⟨fun _ => rfl, fun _ _ h => by simp [specSvc] at h, fun _ _ => rfl⟩
  read a b n h := ⟨h, h.1 n⟩
  write a b u h := by
    obtain ⟨h1, h2, _⟩ := h
    refine ⟨⟨fun k => ?_, fun k v hv => ?_, fun hd => by simp [fileSvc] at hd⟩, rfl⟩
    · simp only [fileSvc, specSvc, aget_aput, h1]
    · simp only [specSvc, aget_aput] at hv
      by_cases hk : u.name = k
      · simp [hk] at hv; subst hv; exact hk
      · simp [hk] at hv; exact h2 k v hv
  delete a b n h := by
    obtain ⟨h1, h2, h3⟩ := h
    have key : ∀ k, aget (adel b n) k = if n = k then none else aget b k := fun k => aget_adel b n k
    have hk2 : ∀ k v, aget (adel b n) k = some v → v.name = k := fun k v hv => by
      rw [key] at hv
      by_cases hn : n = k
      · simp [hn] at hv
      · simp [hn] at hv; exact h2 k v hv
    simp only [fileSvc, specSvc]
    cases hr : aget a.data n with
    | some u =>
      have hu : u.name = n := h2 n u (by rw [← h1, hr])
      refine ⟨⟨fun k => ?_, hk2, fun hd => by simp at hd⟩, rfl⟩
      simp only [hu, aget_adel, h1]
    | none =>
      have hb : aget b n = none := by rw [← h1, hr]
      have same : ∀ k, aget (adel b n) k = aget b k := fun k => by
        rw [key]; by_cases hn : n = k
        · subst hn; simp [hb]
        · simp [hn]
      refine ⟨⟨fun k => by rw [same, h1], hk2, fun hd k => by rw [same]; exact h3 hd k⟩, rfl⟩
  list a b m k h := by
    simp only [fileSvc, specSvc, aget_map_val, h.1]
  flush a b h := by
    obtain ⟨hR, _, hok⟩ := fileFlush_R C h
    exact ⟨hR, by simp only [fileSvc, specSvc, hok]⟩
  reopen a b d h := by
    obtain ⟨⟨_, h2, h3⟩, hd, _⟩ := fileFlush_R C h
    have hl := h3 hd
    have he : (loaded C (fileFlush C a).1.disk).isEmpty = b.isEmpty := isEmpty_congr hl
    simp only [fileSvc, specSvc, polFile, fileOpen]
    change RFile C (if (loaded C (fileFlush C a).1.disk).isEmpty = true then _ else _) _
    rw [he]
    by_cases hb : b.isEmpty = true
    · simp only [hb, if_true]
      have hb' : b = [] := List.isEmpty_iff.mp hb
      subst hb'
      refine ⟨fun k => ?_, fun k v hv => ?_, fun hh => by simp at hh⟩
      · simp [aput, adel]
      · simp only [aput, adel, List.filter_nil, aget_cons, aget_nil] at hv
        by_cases hk : d.name = k
        · simp [hk] at hv; subst hv; exact hk
        · simp [hk] at hv
    · simp only [hb]
      exact ⟨hl, h2, fun _ => hl⟩
  evict a b n h := h

/-- **C31 (file store).** For every history, the file-backed store gives exactly the answers of the
    UserMap specification (default user re-created at open iff the map is empty). -/
theorem C31_file_refines (E : Ext κ) (C : FileCodec κ β) (h : List (Op κ)) :
    answers E (fileSvc E C) h = answers E (specSvc E polFile) h :=
  answers_sim E (file_sim E C) h

/-! ### users_sqldb.go refines UserMap (policy: default user when it is missing) -/

/-- the table is the map; every cache entry is the current row -/
def RDb (s : DbSt κ) (m : UserMap κ) : Prop :=
  (∀ k, tget s.rows k = aget m k) ∧ (∀ k u, aget s.cache k = some u → tget s.rows k = some u)

theorem dbRead_R {s : DbSt κ} {m : UserMap κ} (h : RDb s m) (n : κ) :
    RDb (dbRead s n).1 m ∧ (dbRead s n).2 = aget m n ∧ (dbRead s n).1.rows = s.rows := by
  obtain ⟨h1, h2⟩ := h
  unfold dbRead
  cases hc : aget s.cache n with
  | some u => exact ⟨⟨h1, h2⟩, by rw [← h1, h2 n u hc], rfl⟩
  | none =>
    cases ht : tget s.rows n with
    | none => exact ⟨⟨h1, h2⟩, by rw [← h1, ht], rfl⟩
    | some u =>
      refine ⟨⟨h1, fun k v hv => ?_⟩, by rw [← h1, ht], rfl⟩
      simp only [aget_aput] at hv
      by_cases hk : n = k
      · simp [hk] at hv; subst hv; subst hk; exact ht
      · simp [hk] at hv; exact h2 k v hv

theorem tblInsert_fresh {rows : List (User κ)} {u : User κ} (h : tget rows u.name = none) :
    tblInsert rows u = (rows ++ [u], true) := by
  unfold tblInsert
  rw [(tget_none_iff rows u.name).mp h]
  simp

theorem db_sim (E : Ext κ) : Sim (dbSvc E) (specSvc E (polDb E)) RDb where
  blank := ⟨fun _ => rfl, fun _ _ h => by simp [dbSvc] at h⟩
  read a b n h := by
    obtain ⟨hR, he, _⟩ := dbRead_R h n
    exact ⟨hR, he⟩
  write a b u h := by
    obtain ⟨h1, h2⟩ := h
    -- after the cache entry is dropped the state is still coherent
    have h0 : RDb { a with cache := adel a.cache u.name } b :=
      ⟨h1, fun k v hv => by
        rw [aget_adel] at hv
        by_cases hk : u.name = k
        · simp [hk] at hv
        · simp [hk] at hv; exact h2 k v hv⟩
    obtain ⟨hR, he, hrows⟩ := dbRead_R h0 u.name
    simp only [dbSvc, specSvc, dbWrite]
    rcases hrd : dbRead { a with cache := adel a.cache u.name } u.name with ⟨s1, r⟩
    rw [hrd] at hR he hrows
    simp only at hR he hrows
    obtain ⟨g1, g2⟩ := hR
    have cacheOK : ∀ (rows' : List (User κ)), (∀ k, tget rows' k = if u.name = k then some u else tget s1.rows k) →
        RDb { rows := rows', cache := aput s1.cache u.name u } (aput b u.name u) := fun rows' hr =>
      ⟨fun k => by rw [hr, aget_aput, g1], fun k v hv => by
        rw [aget_aput] at hv
        rw [hr]
        by_cases hk : u.name = k
        · simp [hk] at hv; subst hv; simp [hk]
        · simp [hk] at hv; simp [hk]; exact g2 k v hv⟩
    cases r with
    | some w =>
      refine ⟨cacheOK _ (fun k => ?_), rfl⟩
      rw [tget_update _ _ _ rfl, g1, ← he]
      by_cases hk : u.name = k <;> simp [hk]
    | none =>
      have hnone : tget s1.rows u.name = none := by rw [g1, ← he]
      simp only [tblInsert_fresh hnone]
      exact ⟨cacheOK _ (fun k => tget_append_single _ _ _), trivial⟩
  delete a b n h := by
    obtain ⟨h1, h2⟩ := h
    refine ⟨⟨fun k => ?_, fun k v hv => ?_⟩, rfl⟩
    · simp only [dbSvc, dbDelete, specSvc, tget_delete, aget_adel, h1]
    · simp only [dbSvc, dbDelete, aget_adel] at hv
      simp only [dbSvc, dbDelete, tget_delete]
      by_cases hk : n = k
      · simp [hk] at hv
      · simp [hk] at hv; simp [hk]; exact h2 k v hv
  list a b m k h := by
    simp only [dbSvc, specSvc, aget_dbListing, aget_map_val, h.1]
  flush a b h := ⟨h, rfl⟩
  reopen a b d h := by
    simp only [dbSvc, specSvc, dbOpen, polDb]
    by_cases hn : d.name = E.empty
    · simp [hn]; exact h
    · obtain ⟨hR, he, hrows⟩ := dbRead_R h d.name
      simp only [hn, if_false, ne_eq, not_false_eq_true, decide_true, Bool.true_and]
      rcases hrd : dbRead a d.name with ⟨s1, r⟩
      rw [hrd] at hR he hrows
      simp only at hR he hrows
      rw [← he]
      cases r with
      | some w => simpa using hR
      | none =>
        obtain ⟨g1, g2⟩ := hR
        have hnone : tget s1.rows d.name = none := by rw [g1, ← he]
        simp only [Option.isNone_none, if_true, tblInsert_fresh hnone]
        refine ⟨fun k => by rw [tget_append_single, aget_aput, g1], fun k v hv => ?_⟩
        rw [tget_append_single]
        have := g2 k v hv
        by_cases hk : d.name = k
        · subst hk; rw [hnone] at this; cases this
        · simp [hk, this]
  evict a b n h := by
    obtain ⟨h1, h2⟩ := h
    refine ⟨h1, fun k v hv => ?_⟩
    simp only [dbSvc, aget_adel] at hv
    by_cases hk : n = k
    · simp [hk] at hv
    · simp [hk] at hv; exact h2 k v hv

/-- **C31 (database store).** For every history -- including arbitrary cache evictions -- the
    database-backed store gives exactly the answers of the UserMap specification (default user
    re-created at open iff it is missing). -/
theorem C31_db_refines (E : Ext κ) (h : List (Op κ)) :
    answers E (dbSvc E) h = answers E (specSvc E (polDb E)) h :=
  answers_sim E (db_sim E) h

/-! ### the two stores agree -/

/-- Outside `reopen` the specification does not look at the policy. -/
theorem spec_step_pol (E : Ext κ) (p q : UserMap κ → User κ → Bool) (m : UserMap κ) (op : Op κ)
    (h : ∀ d, op = .reopen d → p m d = q m d) :
    step E (specSvc E p) m op = step E (specSvc E q) m op := by
  cases op with
  | reopen d => simp only [step, specSvc, h d rfl]
  | _ => rfl

theorem spec_run_pol (E : Ext κ) (ops : List (Op κ)) (m : UserMap κ) (h : polAgree E m ops = true) :
    run E (specSvc E polFile) m ops = run E (specSvc E (polDb E)) m ops := by
  induction ops generalizing m with
  | nil => rfl
  | cons op rest ih =>
    simp only [polAgree, Bool.and_eq_true] at h
    obtain ⟨h1, h2⟩ := h
    have hs : step E (specSvc E polFile) m op = step E (specSvc E (polDb E)) m op :=
      spec_step_pol E _ _ m op (fun d hd => by subst hd; simpa using h1)
    simp only [run, hs, ih _ h2]

/-- **C31 (agreement), partial.** On every history along which the two default-user policies take the
    same decision at each (re)open -- in particular every history that never reopens while the default
    user is missing -- the file-backed and the database-backed store give identical answers, before and
    after any number of flush / close / reopen steps and cache evictions. -/
theorem C31_agree_partial (E : Ext κ) (C : FileCodec κ β) (h : List (Op κ)) (hp : polAgree E [] h = true) :
    answers E (fileSvc E C) h = answers E (dbSvc E) h := by
  rw [C31_file_refines, C31_db_refines]
  exact congrArg Prod.snd (spec_run_pol E h [] hp)

/-- If at every reopen the default user named by that reopen exists (and its name is not ""), the policies agree. -/
def dfltKept (E : Ext κ) : UserMap κ → List (Op κ) → Bool
  | _, [] => true
  | m, op :: rest =>
    (match op with
     | .reopen d => decide (d.name ≠ E.empty) && (m.isEmpty || (aget m d.name).isSome)
     | _ => true) && dfltKept E (step E (specSvc E (polDb E)) m op).1 rest

theorem polAgree_of_dfltKept (E : Ext κ) (ops : List (Op κ)) (m : UserMap κ) (h : dfltKept E m ops = true) :
    polAgree E m ops = true := by
  induction ops generalizing m with
  | nil => rfl
  | cons op rest ih =>
    simp only [dfltKept, Bool.and_eq_true] at h
    obtain ⟨h1, h2⟩ := h
    simp only [polAgree, Bool.and_eq_true]
    refine ⟨?_, ih _ h2⟩
    cases op with
    | reopen d =>
      simp only [Bool.and_eq_true, Bool.or_eq_true, decide_eq_true_eq] at h1
      obtain ⟨hn, hm⟩ := h1
      simp only [polFile, polDb, hn, ne_eq, not_false_eq_true, decide_true, Bool.true_and, beq_iff_eq]
      cases hm with
      | inl he =>
        have : m = [] := List.isEmpty_iff.mp he
        subst this; rfl
      | inr hs =>
        have hne : m.isEmpty = false := by
          cases hm' : m.isEmpty
          · rfl
          · have : m = [] := List.isEmpty_iff.mp hm'
            subst this; simp at hs
        rw [hne]
        cases hg : aget m d.name with
        | none => rw [hg] at hs; simp at hs
        | some _ => rfl
    | _ => rfl

/-- The specification never answers `err`: WriteUser / Flush / DeleteUser cannot fail on a map. -/
theorem spec_step_noerr (E : Ext κ) (p : UserMap κ → User κ → Bool) (m : UserMap κ) (op : Op κ) :
    (step E (specSvc E p) m op).2 ≠ Ans.err := by
  cases op with
  | write u => simp [step, specSvc, okErr]
  | delete n => simp [step, specSvc, okErr]
  | read n => simp only [step, specSvc]; cases aget m n <;> simp
  | list b => simp [step]
  | grant n p' => simp only [step, setPermission, specSvc, writeFlush, okErr]; cases aget m n <;> simp
  | revoke n p' => simp only [step, setPermission, specSvc, writeFlush, okErr]; cases aget m n <;> simp
  | has n p' => simp only [step, getPermission, specSvc]; cases aget m n <;> simp
  | perms n => simp only [step, getPermissions, specSvc]; cases aget m n <;> simp
  | flush => simp [step, specSvc, okErr]
  | reopen d => simp [step]
  | evict n => simp [step]
  | setUser n hs pm i => simp [step, setUser, specSvc, writeFlush, okErr]
  | delUser n => simp only [step, delUser, specSvc]; cases aget m (E.lower n) <;> simp

theorem spec_run_noerr (E : Ext κ) (p : UserMap κ → User κ → Bool) (ops : List (Op κ)) (m : UserMap κ) :
    ∀ a ∈ (run E (specSvc E p) m ops).2, a ≠ Ans.err := by
  induction ops generalizing m with
  | nil => intro a ha; simp [run] at ha
  | cons op rest ih =>
    intro a ha
    simp only [run, List.mem_cons] at ha
    cases ha with
    | inl h => rw [h]; exact spec_step_noerr E p m op
    | inr h => exact ih _ a h

/-- **C31 (no primary-key conflict).** In every history the database store never reports an error:
    WriteUser's read-then-insert never hits an existing key, whatever the cache holds. -/
theorem C31_db_write_never_fails (E : Ext κ) (h : List (Op κ)) : ∀ a ∈ answers E (dbSvc E) h, a ≠ Ans.err := by
  rw [C31_db_refines]
  exact spec_run_noerr E _ h []

/-! ### the primary key stays unique -/

structure Inv {σ : Type} (S : Svc κ σ) (P : σ → Prop) : Prop where
  blank : P S.blank
  read : ∀ a n, P a → P (S.read a n).1
  write : ∀ a u, P a → P (S.write a u).1
  delete : ∀ a n, P a → P (S.delete a n).1
  flush : ∀ a, P a → P (S.flush a).1
  reopen : ∀ a d, P a → P (S.reopen a d)
  evict : ∀ a n, P a → P (S.evict a n)

omit [DecidableEq κ] in
theorem writeFlush_inv {σ : Type} {S : Svc κ σ} {P : σ → Prop} (h : Inv S P) {a : σ} (ha : P a) (u : User κ) :
    P (writeFlush S a u).1 := by
  unfold writeFlush
  by_cases hw : (S.write a u).2 = true
  · simp only [hw, if_true]; exact h.flush _ (h.write a u ha)
  · simp only [hw]; exact h.write a u ha

theorem step_inv {σ : Type} {S : Svc κ σ} {P : σ → Prop} (E : Ext κ) (h : Inv S P) {a : σ} (ha : P a) (op : Op κ) :
    P (step E S a op).1 := by
  cases op with
  | write u => exact h.write a u ha
  | delete n => exact h.delete a n ha
  | read n => exact h.read a n ha
  | list m => exact ha
  | grant n p =>
    simp only [step, setPermission]
    cases (S.read a n).2 with
    | none => exact h.read a n ha
    | some u => exact writeFlush_inv h (h.read a n ha) _
  | revoke n p =>
    simp only [step, setPermission]
    cases (S.read a n).2 with
    | none => exact h.read a n ha
    | some u => exact writeFlush_inv h (h.read a n ha) _
  | has n p => simp only [step, getPermission]; cases (S.read a n).2 <;> exact h.read a n ha
  | perms n => simp only [step, getPermissions]; cases (S.read a n).2 <;> exact h.read a n ha
  | flush => exact h.flush a ha
  | reopen d => exact h.reopen a d ha
  | evict n => exact h.evict a n ha
  | setUser n hs pm i => exact writeFlush_inv h (h.read a _ ha) _
  | delUser n =>
    simp only [step, delUser]
    cases (S.read a (E.lower n)).2 with
    | none => exact h.read a _ ha
    | some u =>
      simp only
      cases (S.delete (S.read a (E.lower n)).1 (E.lower n)).2
      · exact h.delete _ _ (h.read a _ ha)
      · exact h.flush _ (h.delete _ _ (h.read a _ ha))

theorem run_inv {σ : Type} {S : Svc κ σ} {P : σ → Prop} (E : Ext κ) (h : Inv S P) (ops : List (Op κ)) {a : σ} (ha : P a) :
    P (run E S a ops).1 := by
  induction ops generalizing a with
  | nil => exact ha
  | cons op rest ih => exact ih (step_inv E h ha op)

def KeysUnique (s : DbSt κ) : Prop := (s.rows.map (·.name)).Nodup

theorem dbRead_rows (s : DbSt κ) (n : κ) : (dbRead s n).1.rows = s.rows := by
  unfold dbRead
  cases aget s.cache n with
  | some u => rfl
  | none => cases tget s.rows n <;> rfl

theorem names_update (rows : List (User κ)) (n : κ) (u : User κ) (hu : u.name = n) :
    (tblUpdate rows n u).map (·.name) = rows.map (·.name) := by
  induction rows with
  | nil => rfl
  | cons r rs ih =>
    unfold tblUpdate at ih ⊢
    simp only [List.map_cons, ih]
    by_cases h : r.name = n <;> simp [h, hu]

theorem nodup_insert (rows : List (User κ)) (u : User κ) (h : (rows.map (·.name)).Nodup) :
    ((tblInsert rows u).1.map (·.name)).Nodup := by
  unfold tblInsert
  cases ha : rows.any (fun r => decide (r.name = u.name))
  · simp only [Bool.false_eq_true, if_false, List.map_append, List.map_cons, List.map_nil]
    rw [List.nodup_append]
    refine ⟨h, by simp, ?_⟩
    intro a ha' b hb
    simp only [List.mem_singleton] at hb
    subst hb
    intro hab
    subst hab
    obtain ⟨r, hr, hrn⟩ := List.mem_map.mp ha'
    have : rows.any (fun r => decide (r.name = u.name)) = true := List.any_eq_true.mpr ⟨r, hr, by simp [hrn]⟩
    rw [ha] at this; cases this
  · simpa using h

theorem nodup_delete (rows : List (User κ)) (n : κ) (h : (rows.map (·.name)).Nodup) :
    ((tblDelete rows n).map (·.name)).Nodup :=
  List.Nodup.sublist (List.Sublist.map _ List.filter_sublist) h

theorem db_inv (E : Ext κ) : Inv (dbSvc E) KeysUnique where
  blank := by simp [KeysUnique, dbSvc]
  read a n h := by simp only [KeysUnique, dbSvc, dbRead_rows]; exact h
  write a u h := by
    simp only [KeysUnique, dbSvc, dbWrite]
    have hr := dbRead_rows { a with cache := adel a.cache u.name } u.name
    rcases hrd : dbRead { a with cache := adel a.cache u.name } u.name with ⟨s1, r⟩
    rw [hrd] at hr
    simp only at hr
    cases r with
    | some w => simp only [names_update _ _ _ rfl, hr]; exact h
    | none => simp only; exact nodup_insert _ _ (by rw [hr]; exact h)
  delete a n h := nodup_delete _ _ h
  flush a h := h
  reopen a d h := by
    simp only [KeysUnique, dbSvc, dbOpen]
    by_cases hn : d.name = E.empty
    · simp only [hn, if_true]; exact h
    · simp only [hn, if_false]
      have hr := dbRead_rows a d.name
      rcases hrd : dbRead a d.name with ⟨s1, r⟩
      rw [hrd] at hr
      simp only at hr
      cases r with
      | some w => simp only [hr]; exact h
      | none => simp only; exact nodup_insert _ _ (by rw [hr]; exact h)
  evict a n h := h

/-- **C31 (primary key).** In every history the `credentials` table never holds two rows with the same
    name, so ListUsers' `r[user.Name] = *user` never overwrites and the rows are exactly the map. -/
theorem C31_db_keys_unique (E : Ext κ) (h : List (Op κ)) : KeysUnique (run E (dbSvc E) (dbSvc E).blank h).1 :=
  run_inv E (db_inv E) h (db_inv E).blank

/-! ### counterexample and non-vacuity (κ := Nat) -/

def EN : Ext Nat := { lower := id, fold := fun a b => a == b, logon := 100, stars := 101, empty := 0, dot := 102 }
def CN : FileCodec Nat (UserMap Nat) := { enc := id, dec := id, rt := fun _ _ => rfl }
def uN (n : Nat) (perms : List Nat) : User Nat := { name := n, id := n + 50, pw := n + 60, perms := perms, tok := 0, keys := 0 }
def admin1 : User Nat := { name := 1, id := 11, pw := 12, perms := [7, 8], tok := 0, keys := 0 }
def admin2 : User Nat := { name := 1, id := 21, pw := 22, perms := [7, 8], tok := 0, keys := 0 }

/-- start, create bob, delete the default user, restart, look the default user up -/
def ceHist : List (Op Nat) := [.reopen admin1, .write (uN 2 []), .delete 1, .reopen admin2, .read 1]

/-- **C31 (agreement) fails on the current tree**: after the default user was deleted, a restart makes the
    file store answer "no such user" and the database store answer with a freshly created default user. -/
theorem C31_agree_counterexample :
    answers EN (fileSvc EN CN) ceHist = [.ok, .ok, .ok, .ok, .notFound] ∧
    answers EN (dbSvc EN) ceHist = [.ok, .ok, .ok, .ok, .user admin2] ∧
    polAgree EN [] ceHist = false := ⟨rfl, rfl, rfl⟩

/-- a history meeting the hypothesis of `C31_agree_partial`: create, grant, flush, restart, revoke, update,
    delete, evict, restart, observe -/
def okHist : List (Op Nat) :=
  [.reopen admin1, .write (uN 2 []), .write (uN 3 [5]), .grant 2 9, .flush, .reopen admin2, .revoke 3 5, .write (uN 2 [4]),
   .delete 3, .evict 2, .setUser 4 (some 77) (some [5, 102, 6]) 88, .reopen admin2, .read 2, .perms 2, .has 1 7, .delUser 4, .read 4]

example : polAgree EN [] okHist = true := by decide
example : dfltKept EN [] okHist = true := by decide
example : answers EN (dbSvc EN) okHist =
    [.ok, .ok, .ok, .ok, .ok, .ok, .ok, .ok, .ok, .ok, .ok, .ok, .user (uN 2 [4]), .strs [4], .bool true, .bool true, .notFound] := rfl
example : answers EN (fileSvc EN CN) okHist = answers EN (dbSvc EN) okHist := C31_agree_partial EN CN okHist (by decide)

end
end EgoVerif.C31
