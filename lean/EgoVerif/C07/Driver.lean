import EgoVerif.Common.Drv
import EgoVerif.C07.Model
import EgoVerif.C07.Chan
/- line protocol (one call sequence per line; results joined by ';', a Go panic ends the
   sequence with `PANIC`; the final state is appended after '|'):
   `cur <id.line.pos,…|-> <op;op;…>`   ops: next peek:k end adv:k isn:t any:t,t eos line col mark
                                             set:k reset del:a:b ins:k:id.line.pos,… text:a:b toks:a:b rem
   `stk <op;…>`                        ops: push:V pop fpush fpop read:k chk:k drop:n dup swap res:V   (V = n | m | i<int> | f<int>)
   `arr <b|d> <n> <op;…>`              ops: get:i set:i:v seta:i:v app:v sl:x:y sla:x:y size:n del:i len ro:0|1
   `chn <size|nil> <op;…>`             ops: s:v r c len cap open empty — call k is made by goroutine k; per step the calls that
                                       completed in it (`k=res,…` by k, `-` if none); `|open=…,len=…,parked=…` at the end -/
namespace EgoVerif.C07

def pInt (s : String) : Int := (s.toInt?).getD 0
def pNat (s : String) : Nat := (s.toNat?).getD 0

def pTok (s : String) : Tok :=
  match s.splitOn "." with
  | [a, b, c] => ⟨pNat a, pInt b, pInt c⟩
  | _ => eot

def pList {α : Type} (f : String → α) (s : String) : List α :=
  if s == "" || s == "-" then [] else (s.splitOn ",").map f

def pCOp (s : String) : Option COp :=
  match s.splitOn ":" with
  | ["next"] => some .next
  | ["peek", k] => some (.peek (pInt k))
  | ["end"] => some .atEnd
  | ["adv", k] => some (.advance (pInt k))
  | ["isn", t] => some (.isNext (pNat t))
  | ["any", ts] => some (.anyNext (pList pNat ts))
  | ["eos"] => some .eos
  | ["line"] => some .line
  | ["col"] => some .col
  | ["mark"] => some .mark
  | ["set", k] => some (.set (pInt k))
  | ["reset"] => some .reset
  | ["del", a, b] => some (.delete (pInt a) (pInt b))
  | ["ins", k, ts] => some (.insert (pInt k) (pList pTok ts))
  | ["text", a, b] => some (.text (pInt a) (pInt b))
  | ["toks", a, b] => some (.toks (pInt a) (pInt b))
  | ["rem"] => some .rem
  | _ => none

def showIds (l : List Tok) : String := "l" ++ ",".intercalate (l.map fun t => toString t.id)

def showCOut : COut → String
  | .tok t => "t" ++ toString t.id
  | .b true => "T"
  | .b false => "F"
  | .i v => "i" ++ toString v
  | .err => "E"
  | .unit => "u"
  | .ids l => showIds l

def loopC (c : Cur) (acc : List String) : List (Option COp) → Cur × List String
  | [] => (c, acc.reverse)
  | none :: _ => (c, ("bad-op" :: acc).reverse)
  | some op :: rest =>
    match cstep c op with
    | .ok (c', o) => loopC c' (showCOut o :: acc) rest
    | .error _ => (c, ("PANIC" :: acc).reverse)

def pVal (s : String) : Val :=
  if s == "n" then .nil else if s == "m" then .marker
  else if s.startsWith "i" then .int (pInt (String.ofList (s.toList.drop 1))) else if s.startsWith "f" then .frame (pInt (String.ofList (s.toList.drop 1))) else .nil

def showVal : Val → String
  | .nil => "n"
  | .marker => "m"
  | .int n => "i" ++ toString n
  | .frame f => "f" ++ toString f

def pSOp (s : String) : Option SOp :=
  match s.splitOn ":" with
  | ["push", v] => some (.push (pVal v))
  | ["pop"] => some .pop
  | ["fpush"] => some .framePush
  | ["fpop"] => some .framePop
  | ["read", k] => some (.read (pInt k))
  | ["chk", k] => some (.check (pInt k))
  | ["drop", n] => some (.drop (pInt n))
  | ["dup"] => some .dup
  | ["swap"] => some .swap
  | ["res", v] => some (.setResult (pVal v))
  | _ => none

def showSOut : SOut → String
  | .unit => "u"
  | .val v => "v" ++ showVal v
  | .underflow => "U"
  | .invalidFrame => "X"
  | .retCount => "R"

def loopS (s : Stk) (acc : List String) : List (Option SOp) → Stk × List String
  | [] => (s, acc.reverse)
  | none :: _ => (s, ("bad-op" :: acc).reverse)
  | some op :: rest =>
    match sstep s op with
    | .ok (s', o) => loopS s' (showSOut o :: acc) rest
    | .error _ => (s, ("PANIC" :: acc).reverse)

def pAOp (s : String) : Option AOp :=
  match s.splitOn ":" with
  | ["get", i] => some (.get (pInt i))
  | ["set", i, v] => some (.set (pInt i) (pInt v))
  | ["seta", i, v] => some (.setAlways (pInt i) (pInt v))
  | ["app", v] => some (.append (pInt v))
  | ["sl", x, y] => some (.getSlice (pInt x) (pInt y))
  | ["sla", x, y] => some (.getSliceAsArray (pInt x) (pInt y))
  | ["size", n] => some (.setSize (pInt n))
  | ["del", i] => some (.delete (pInt i))
  | ["len"] => some .len
  | ["ro", b] => some (.setReadonly (b == "1"))
  | _ => none

def showAOut : AOut → String
  | .unit => "u"
  | .val v => "v" ++ toString v
  | .vals l => "l" ++ ",".intercalate (l.map toString)
  | .errBounds => "B"
  | .errImmutable => "I"

def loopA (a : Arr) (acc : List String) : List (Option AOp) → Arr × List String
  | [] => (a, acc.reverse)
  | none :: _ => (a, ("bad-op" :: acc).reverse)
  | some op :: rest =>
    match astep a op with
    | .ok (a', o) => loopA a' (showAOut o :: acc) rest
    | .error _ => (a, ("PANIC" :: acc).reverse)

def pChOp (s : String) : Option ChOp :=
  match s.splitOn ":" with
  | ["s", v] => some (.send (pInt v))
  | ["r"] => some .recv
  | ["c"] => some .close
  | ["len"] => some .len
  | ["cap"] => some .cap
  | ["open"] => some .isOpen
  | ["empty"] => some .isEmpty
  | _ => none

def showB (b : Bool) : String := if b then "T" else "F"

def showCRes : CRes → String
  | .sent => "ok"
  | .val v => "v" ++ toString v
  | .notOpen => "N"
  | .nilRef => "NIL"
  | .closed w e => "c" ++ showB w ++ (if e then "N" else "")
  | .b x => showB x
  | .n x => "i" ++ toString x

def insByActor (x : Nat × CRes) : List (Nat × CRes) → List (Nat × CRes)
  | [] => [x]
  | y :: ys => if x.1 ≤ y.1 then x :: y :: ys else y :: insByActor x ys

def showDone (l : List (Nat × CRes)) : String :=
  if l.isEmpty then "-" else
  ",".intercalate ((l.foldr insByActor []).map fun p => toString p.1 ++ "=" ++ showCRes p.2)

def loopCh (c : Chan) (k : Nat) (acc : List String) : List (Option ChOp) → Chan × List String
  | [] => (c, acc.reverse)
  | none :: _ => (c, ("bad-op" :: acc).reverse)
  | some op :: rest =>
    match chStep true c k op with
    | .ok (c', out) => loopCh c' (k + 1) (showDone out :: acc) rest
    | .error _ => (c, ("PANIC" :: acc).reverse)

def loopNil (k : Nat) (acc : List String) : List (Option ChOp) → List String
  | [] => acc.reverse
  | none :: _ => ("bad-op" :: acc).reverse
  | some op :: rest => loopNil (k + 1) (showDone [(k, nilStep op)] :: acc) rest

def ops (s : String) : List String := if s == "-" then [] else s.splitOn ";"

def handle (line : String) : String :=
  match fields line with
  | ["cur", ts, os] =>
    let (c, out) := loopC ⟨pList pTok ts, 0⟩ [] ((ops os).map pCOp)
    ";".intercalate out ++ "|p=" ++ toString c.p ++ ",n=" ++ toString c.toks.length ++ "," ++ showIds c.toks
  | ["stk", os] =>
    let (s, out) := loopS Stk.init [] ((ops os).map pSOp)
    ";".intercalate out ++ "|sp=" ++ toString s.sp ++ ",fp=" ++ toString s.fp ++ ",len=" ++ toString s.stack.length
      ++ "," ++ ",".intercalate ((s.stack.take s.sp.toNat).map showVal)
  | ["arr", k, n, os] =>
    let (a, out) := loopA (Arr.new (k == "b") (pNat n)) [] ((ops os).map pAOp)
    ";".intercalate out ++ "|len=" ++ toString a.size ++ ","
      ++ ",".intercalate ((if a.isByte then a.bytes else a.data).map toString)
  | ["chn", "nil", os] => ";".intercalate (loopNil 0 [] ((ops os).map pChOp)) ++ "|nil"
  | ["chn", n, os] =>
    let (c, out) := loopCh (Chan.new (pInt n)) 0 [] ((ops os).map pChOp)
    ";".intercalate out ++ "|open=" ++ showB c.isOpen ++ ",len=" ++ toString c.ch.buf.length
      ++ ",parked=" ++ toString (c.ch.sendq.length + c.ch.recvq.length)
  | _ => "bad-op"

def drv : Drv := Drv.pure handle

end EgoVerif.C07
