/-
C07 — the primitives through which the compiler and the VM index raw Go slices, with Go's
partial operations (index, slice expression, make) explicit in `Except Panic`.

  * token cursor     internal/language/tokenizer/cursor.go, mark.go, insert.go, line.go, tokenizer.go
  * VM value stack   internal/language/bytecode/context.go (push, Pop), callframe.go
                     (callFramePush, callFramePop), stack.go (readStack, stackCheck, drop, dup, swap)
  * data.Array       internal/language/data/arrays.go (Get, Set, SetAlways, Append, GetSlice,
                     GetSliceAsArray, SetSize, Delete, SetReadonly)

The model mirrors the code WITH fixes/C07.patch applied (three guards: callFramePop, readStack,
stackCheck). Go `int` arithmetic on caller-supplied operands wraps (`add64`, `sub64`, `neg64`);
`x+1`/`x-1` on values already bounded by a slice length are exact (a slice has < 2^63 elements).
A slice expression is checked against `len` (Go checks `cap ≥ len`: the model is conservative).
-/
namespace EgoVerif.C07

inductive Panic | index | slice | alloc
deriving DecidableEq, Repr

abbrev G := Except Panic

def wrap (x : Int) : Int := (x + 9223372036854775808) % 18446744073709551616 - 9223372036854775808
def add64 (a b : Int) : Int := wrap (a + b)
def sub64 (a b : Int) : Int := wrap (a - b)
def neg64 (a : Int) : Int := wrap (-a)

def isPanic {α : Type} : G α → Bool
  | .error _ => true
  | .ok _ => false

/-- `l[i]` -/
def idx {α : Type} (l : List α) (i : Int) : G α :=
  if 0 ≤ i then
    match l[i.toNat]? with
    | some v => .ok v
    | none => .error .index
  else .error .index

/-- `l[i] = v` -/
def setIdx {α : Type} (l : List α) (i : Int) (v : α) : G (List α) :=
  if 0 ≤ i ∧ i < l.length then .ok (l.set i.toNat v) else .error .index

/-- `l[lo:hi]` -/
def slc {α : Type} (l : List α) (lo hi : Int) : G (List α) :=
  if 0 ≤ lo ∧ lo ≤ hi ∧ hi ≤ l.length then .ok ((l.take hi.toNat).drop lo.toNat) else .error .slice

/-! ## token cursor -/

structure Tok where
  id : Nat
  line : Int
  pos : Int
deriving DecidableEq, Repr

/-- tokenizer.EndOfTokens -/
def eot : Tok := ⟨0, 0, 0⟩
/-- tokenizer.SemicolonToken -/
def semi : Nat := 1

structure Cur where
  toks : List Tok
  p : Int

def Cur.len (c : Cur) : Int := c.toks.length

inductive COp
  | next | peek (k : Int) | atEnd | advance (k : Int) | isNext (t : Nat) | anyNext (ts : List Nat)
  | eos | line | col | mark | set (k : Int) | reset
  | delete (a b : Int) | insert (k : Int) (ts : List Tok) | text (a b : Int) | toks (a b : Int) | rem

inductive COut
  | tok (t : Tok) | b (v : Bool) | i (v : Int) | err | unit | ids (l : List Tok)

/-- Peek / PeekText: `position := t.TokenP + (offset - 1)` -/
def peekAt (c : Cur) (k : Int) : G Tok :=
  let position := add64 c.p (sub64 k 1)
  if position ≥ c.len ∨ position < 0 then .ok eot else idx c.toks position

/-- Advance -/
def advance (c : Cur) (k : Int) : Cur :=
  let p := add64 c.p k
  if p < 0 then { c with p := 0 } else if p > c.len then { c with p := c.len } else { c with p := p }

/-- Set (mark.go) -/
def setMark (c : Cur) (k : Int) : Cur :=
  if k < 0 then { c with p := 0 } else if k > c.len then { c with p := c.len } else { c with p := k }

def cstep (c : Cur) : COp → G (Cur × COut)
  | .next =>                                   -- Next / NextText
    if c.p ≥ c.len then .ok (c, .tok eot) else do
      let t ← idx c.toks c.p
      .ok ({ c with p := c.p + 1 }, .tok t)
  | .peek k => do let t ← peekAt c k; .ok (c, .tok t)
  | .atEnd => .ok (c, .b (decide (c.p ≥ c.len)))
  | .advance k => .ok (advance c k, .unit)
  | .isNext t => do                            -- IsNext
    let n ← peekAt c 1
    if n.id = t then .ok (advance c 1, .b true) else .ok (c, .b false)
  | .anyNext ts => do                          -- AnyNext
    let n ← peekAt c 1
    if ts.contains n.id then .ok (advance c 1, .b true) else .ok (c, .b false)
  | .eos =>                                    -- EndOfStatement
    if c.p ≥ c.len then .ok (c, .b true) else do
      let n ← peekAt c 1
      .ok (c, .b (n.id == semi))
  | .line =>                                   -- CurrentLine
    if c.p = 0 ∨ c.p ≥ c.len then .ok (c, .i 0) else do
      let t ← idx c.toks c.p
      .ok (c, .i t.line)
  | .col =>                                    -- CurrentColumn
    if c.p = 0 ∨ c.p ≥ c.len then .ok (c, .i 0) else do
      let t ← idx c.toks c.p
      .ok (c, .i t.pos)
  | .mark => .ok (c, .i c.p)
  | .set k => .ok (setMark c k, .unit)
  | .reset => .ok ({ c with p := 0 }, .unit)
  | .delete a b =>                             -- Delete (insert.go)
    if a < 0 ∨ a ≥ c.len ∨ b < a ∨ b > c.len then .ok (c, .err) else
    if c.len - b + a < 0 then .error .alloc else do      -- make([]Token, 0, len-end+start)
      let pre ← slc c.toks 0 a
      let post ← slc c.toks b c.len
      let p' := if c.p ≥ a ∧ c.p ≤ b then a else if c.p > b then c.p - (b - a) else c.p
      .ok (⟨pre ++ post, p'⟩, .unit)
  | .insert k ts =>                            -- Insert (insert.go)
    if k < 0 ∨ k ≥ c.len then .ok (c, .err) else
    if ts.isEmpty then .ok (c, .unit) else do
      let pre ← slc c.toks 0 k
      let post ← slc c.toks k c.len
      let p' := if c.p ≥ k then c.p + ts.length else c.p
      .ok (⟨pre ++ ts ++ post, p'⟩, .unit)
  | .text a b =>                               -- GetTokenText (line.go)
    let start := if a < 0 then 0 else a
    let stop := if b < 0 ∨ b ≥ c.len then c.len - 1 else b
    if start > stop then .ok (c, .ids []) else do
      let s ← slc c.toks start (stop + 1)
      .ok (c, .ids s)
  | .toks a b =>                               -- GetTokens (tokenizer.go)
    let p1 := if a < 0 then 0 else if a > c.len then c.len else a
    let p2 := if b < p1 then p1 else if b > c.len then c.len else b
    do let s ← slc c.toks p1 p2
       .ok (c, .ids s)
  | .rem =>                                    -- Remainder (line.go); the source slice is guarded by p<0||p>=len(s)
    if c.p < 0 ∨ c.p ≥ c.len then .ok (c, .unit) else do
      let t ← idx c.toks c.p
      .ok (c, .i t.pos)

def runCursor (c : Cur) : List COp → G (Cur × List COut)
  | [] => .ok (c, [])
  | op :: rest => do
    let r ← cstep c op
    let r' ← runCursor r.1 rest
    .ok (r'.1, r.2 :: r'.2)

/-! ## VM value stack and call frames -/

inductive Val | nil | int (n : Int) | marker | frame (fp : Int)
deriving DecidableEq, Repr

def Val.isMarker : Val → Bool
  | .marker => true
  | .frame _ => true          -- isStackMarker: a *CallFrame acts as a marker
  | _ => false

structure Stk where
  stack : List Val
  sp : Int
  fp : Int
  result : Val
  resultSet : Bool

/-- bytecode.NewContext: `stack: make([]any, initialStackSize)` -/
def Stk.init : Stk := ⟨List.replicate 16 .nil, 0, 0, .nil, false⟩

inductive SOp
  | push (v : Val) | pop | framePush | framePop | read (k : Int) | check (k : Int) | drop (n : Int)
  | dup | swap | setResult (v : Val)

inductive SOut | unit | val (v : Val) | underflow | invalidFrame | retCount
deriving DecidableEq

/-- context.go push; growStackBy = 50 -/
def push (s : Stk) (v : Val) : G Stk :=
  let st := if s.sp ≥ s.stack.length then s.stack ++ List.replicate 50 Val.nil else s.stack
  do let st' ← setIdx st s.sp v
     .ok { s with stack := st', sp := s.sp + 1 }

/-- context.go PopWithoutUnwrapping; `none` = ErrStackUnderflow -/
def pop (s : Stk) : G (Stk × Option Val) :=
  if s.sp ≤ 0 ∨ (s.stack.length : Int) < s.sp then .ok (s, none) else do
    let v ← idx s.stack (s.sp - 1)
    let st ← setIdx s.stack (s.sp - 1) .nil
    .ok ({ s with stack := st, sp := s.sp - 1 }, some v)

/-- callframe.go callFramePushWithTable -/
def framePush (s : Stk) : G Stk := do
  let s1 ← push s (.frame s.fp)
  .ok { s1 with fp := s1.sp, result := .nil, resultSet := false }

/-- callFramePop: `topOfStackSlice = c.stack[c.framePointer:c.stackPointer]` -/
def topSlice (s : Stk) : G (List Val) :=
  if s.fp + 1 ≤ s.sp then slc s.stack s.fp s.sp else .ok []

/-- readStackByteCode: `if idx < 0 { idx = -idx }` -/
def readIdx (k : Int) : Int := if k < 0 then neg64 k else k

/-- stackCheckByteCode: the clamped start of the marker scan -/
def checkStart (s : Stk) (k : Int) : Int :=
  let start0 := s.sp - (k - 1)
  let start1 := if start0 > s.sp - 1 then s.sp - 1 else start0
  if start1 ≥ s.stack.length then (s.stack.length : Int) - 1 else start1

/-- callframe.go callFramePop (with the guard added by fixes/C07.patch) -/
def framePop (s : Stk) : G (Stk × SOut) :=
  if s.fp < 1 ∨ s.fp > s.stack.length then .ok (s, .underflow) else do     -- the fix
    let top ← topSlice s
    let r ← pop { s with sp := s.fp }
    match r.2 with
    | none => .ok (r.1, .underflow)
    | some (.frame f) =>
      let s3 := { r.1 with fp := f }
      if top.length > 0 then do
        let pre ← slc s3.stack 0 s3.sp
        .ok ({ s3 with stack := pre ++ top, sp := s3.sp + top.length }, .unit)
      else if s3.resultSet then do
        let s4 ← push s3 s3.result
        .ok ({ s4 with result := .nil, resultSet := false }, .unit)
      else .ok (s3, .unit)
    | some _ => .ok (r.1, .invalidFrame)

/-- stack.go stackCheckByteCode: scan `for i := start; i >= 0; i--` -/
def scanBelow (st : List Val) : Nat → G Bool
  | 0 => .ok false
  | n + 1 => do
    let v ← idx st n
    if v.isMarker then .ok true else scanBelow st n

/-- stack.go dropByteCode loop -/
def dropN (s : Stk) : Nat → G (Stk × SOut)
  | 0 => .ok (s, .unit)
  | n + 1 => do
    let r ← pop s
    match r.2 with
    | none => .ok (r.1, .underflow)
    | some _ => dropN r.1 n

def sstep (s : Stk) : SOp → G (Stk × SOut)
  | .push v => do let s' ← push s v; .ok (s', .unit)
  | .pop => do
    let r ← pop s
    match r.2 with
    | none => .ok (r.1, .underflow)
    | some v => .ok (r.1, .val v)
  | .framePush => do let s' ← framePush s; .ok (s', .unit)
  | .framePop => framePop s
  | .read k =>                                  -- readStackByteCode (fixed: `idx < 0 ||`)
    if readIdx k < 0 ∨ readIdx k ≥ s.sp then .ok (s, .underflow) else do
      let v ← idx s.stack ((s.sp - 1) - readIdx k)
      let s' ← push s v
      .ok (s', .val v)
  | .check k =>                                 -- stackCheckByteCode (fixed: `count < 0 ||`)
    if k < 0 ∨ s.sp ≤ k then .ok (s, .retCount) else
      do let found ← scanBelow s.stack (checkStart s k + 1).toNat
         if found then .ok (s, .unit) else do
           let v ← idx s.stack (s.sp - (k + 1))
           if v.isMarker then .ok (s, .unit) else .ok (s, .retCount)
  | .drop n => dropN s n.toNat
  | .dup => do
    let r ← pop s
    match r.2 with
    | none => .ok (r.1, .underflow)
    | some v => do
      let s1 ← push r.1 v
      let s2 ← push s1 v
      .ok (s2, .unit)
  | .swap => do
    let r1 ← pop s
    match r1.2 with
    | none => .ok (r1.1, .underflow)
    | some v1 => do
      let r2 ← pop r1.1
      match r2.2 with
      | none => .ok (r2.1, .underflow)
      | some v2 => do
        let s1 ← push r2.1 v1
        let s2 ← push s1 v2
        .ok (s2, .unit)
  | .setResult v => .ok ({ s with result := v, resultSet := true }, .unit)

def runStack (s : Stk) : List SOp → G (Stk × List SOut)
  | [] => .ok (s, [])
  | op :: rest => do
    let r ← sstep s op
    let r' ← runStack r.1 rest
    .ok (r'.1, r.2 :: r'.2)

/-! ### the same three operations on the tree WITHOUT fixes/C07.patch (used only for the counterexamples) -/

/-- readStackByteCode before the fix: only `idx >= c.stackPointer` is rejected -/
def readUnfixed (s : Stk) (k : Int) : G (Stk × SOut) :=
  if readIdx k ≥ s.sp then .ok (s, .underflow) else do
    let v ← idx s.stack ((s.sp - 1) - readIdx k)
    let s' ← push s v
    .ok (s', .val v)

/-- stackCheckByteCode before the fix: a negative count passes `c.stackPointer <= count` -/
def checkUnfixed (s : Stk) (k : Int) : G (Stk × SOut) :=
  if s.sp ≤ k then .ok (s, .retCount) else
    do let found ← scanBelow s.stack (checkStart s k + 1).toNat
       if found then .ok (s, .unit) else do
         let v ← idx s.stack (s.sp - (k + 1))
         if v.isMarker then .ok (s, .unit) else .ok (s, .retCount)

/-- callFramePop before the fix, reduced to what matters: the stack pointer is overwritten with the
    frame pointer BEFORE Pop() validates it, so a failed pop leaves `sp = fp` behind -/
def framePopUnfixedFail (s : Stk) : Stk := { s with sp := s.fp }

/-! ## data.Array -/

/-- `bytes` is the store of a []byte array, `data` of every other array (arrays.go). -/
structure Arr where
  isByte : Bool
  data : List Int
  bytes : List Int
  immutable : Int

/-- NewArray(valueType, size), size ≥ 0 -/
def Arr.new (isByte : Bool) (n : Nat) : Arr :=
  if isByte then ⟨true, [], List.replicate n 0, 0⟩ else ⟨false, List.replicate n 0, [], 0⟩

def Arr.size (a : Arr) : Int := if a.isByte then a.bytes.length else a.data.length

inductive AOp
  | get (i : Int) | set (i v : Int) | setAlways (i v : Int) | append (v : Int)
  | getSlice (x y : Int) | getSliceAsArray (x y : Int) | setSize (n : Int) | delete (i : Int)
  | len | setReadonly (b : Bool)

/-- SetSize: `if size < 0 { size = 0 }` -/
def clamp0 (n : Int) : Int := if n < 0 then 0 else n

inductive AOut | unit | val (v : Int) | vals (l : List Int) | errBounds | errImmutable
deriving DecidableEq

def setSize (a : Arr) (n : Int) : G (Arr × AOut) :=
  if a.isByte then
    if n < a.bytes.length then do
      let b ← slc a.bytes 0 n
      .ok ({ a with bytes := b }, .unit)
    else if n - a.bytes.length < 0 then .error .alloc
    else .ok ({ a with bytes := a.bytes ++ List.replicate (n - a.bytes.length).toNat 0 }, .unit)
  else
    if n < a.data.length then do
      let d ← slc a.data 0 n
      .ok ({ a with data := d }, .unit)
    else if n - a.data.length < 0 then .error .alloc
    else .ok ({ a with data := a.data ++ List.replicate (n - a.data.length).toNat 0 }, .unit)

def astep (a : Arr) : AOp → G (Arr × AOut)
  | .get i =>                                     -- Get
    if a.isByte then
      if i < 0 ∨ i ≥ a.bytes.length then .ok (a, .errBounds) else do
        let v ← idx a.bytes i
        .ok (a, .val v)
    else
      if i < 0 ∨ i ≥ a.data.length then .ok (a, .errBounds) else do
        let v ← idx a.data i
        .ok (a, .val v)
  | .set i v =>                                   -- Set (value of the element type)
    if a.immutable > 0 then .ok (a, .errImmutable) else
    if a.isByte then
      if i < 0 ∨ i ≥ a.bytes.length then .ok (a, .errBounds) else do
        let b ← setIdx a.bytes i v
        .ok ({ a with bytes := b }, .unit)
    else
      if i < 0 ∨ i ≥ a.data.length then .ok (a, .errBounds) else do
        let d ← setIdx a.data i v
        .ok ({ a with data := d }, .unit)
  | .setAlways i v =>                             -- SetAlways
    if a.immutable > 0 then .ok (a, .unit) else
    if a.isByte then
      if i < 0 ∨ i ≥ a.bytes.length then .ok (a, .unit) else do
        let b ← setIdx a.bytes i v
        .ok ({ a with bytes := b }, .unit)
    else
      if i < 0 ∨ i ≥ a.data.length then .ok (a, .unit) else do
        let d ← setIdx a.data i v
        .ok ({ a with data := d }, .unit)
  | .append v =>                                  -- Append (scalar)
    if a.isByte then .ok ({ a with bytes := a.bytes ++ [v] }, .unit)
    else .ok ({ a with data := a.data ++ [v] }, .unit)
  | .getSlice x y =>                              -- GetSlice
    if x < 0 ∨ y < x ∨ x > a.size ∨ y > a.size then .ok (a, .errBounds) else
    if a.isByte then do
      let s ← slc a.bytes x y
      .ok (a, .vals s)
    else do
      let s ← slc a.data x y
      .ok (a, .vals s)
  | .getSliceAsArray x y =>                       -- GetSliceAsArray
    if a.isByte then
      if x < 0 ∨ y < x ∨ x > a.bytes.length ∨ y > a.bytes.length then .ok (a, .errBounds) else do
        let s ← slc a.bytes x y
        .ok (a, .vals s)
    else
      if x < 0 ∨ y < x ∨ x > a.data.length ∨ y > a.data.length then .ok (a, .errBounds) else
      if x < 0 ∨ y < x ∨ x > a.size ∨ y > a.size then .ok (a, .errBounds) else do
        let s ← slc a.data x y
        .ok (a, .vals s)
  | .setSize n0 => setSize a (clamp0 n0)          -- SetSize
  | .delete i =>                                  -- Delete (bounds are taken from a.data for every kind)
    if i ≥ a.data.length ∨ i < 0 then .ok (a, .errBounds) else
    if a.immutable ≠ 0 then .ok (a, .errImmutable) else
    if a.isByte then do
      let pre ← slc a.bytes 0 i
      let post ← slc a.bytes (i + 1) a.bytes.length
      .ok ({ a with bytes := pre ++ post }, .unit)
    else do
      let pre ← slc a.data 0 i
      let post ← slc a.data (i + 1) a.data.length
      .ok ({ a with data := pre ++ post }, .unit)
  | .len => .ok (a, .val a.size)
  | .setReadonly b =>                             -- SetReadonly: counting semaphore
    .ok ({ a with immutable := if b then a.immutable + 1 else a.immutable - 1 }, .unit)

def runArray (a : Arr) : List AOp → G (Arr × List AOut)
  | [] => .ok (a, [])
  | op :: rest => do
    let r ← astep a op
    let r' ← runArray r.1 rest
    .ok (r'.1, r.2 :: r'.2)

end EgoVerif.C07
