import EgoVerif.C07.Chan
/-
C07 — Ego channels never let a Go panic of the native channel escape, for EVERY schedule of
Send / Receive / Close / Len / Cap / IsOpen / IsEmpty calls made by concurrent goroutines
(each call completes at once or parks; Close wakes the parked ones).

Two things carry the proof, and each is shown to be necessary by a counterexample:
  * the wrapper flag `isOpen` always equals `!closed` of the native channel (so Close never closes
    twice and the IsOpen test of Send is exact whenever no other goroutine runs in between), and
  * Send's deferred recover, which is the ONLY thing between a sender parked on a full channel
    and the `send on closed channel` panic when another goroutine closes the channel.
-/
namespace EgoVerif.C07

/-- the wrapper's flag mirrors the native channel -/
def ChInv (c : Chan) : Prop := c.isOpen = !c.ch.closed

instance (c : Chan) : Decidable (ChInv c) := by unfold ChInv; infer_instance

/-- what a resumed actor returns when the deferred recover works -/
def resumed : GoEv → CRes
  | .sent => .sent
  | .got v => .val v
  | .gotClosed => .notOpen
  | .sendPanics => .notOpen

theorem resume_recov (e : GoEv) : resume true e = .ok (resumed e) := by
  cases e <;> rfl

theorem resumeAll_recov (evs : List (Nat × GoEv)) :
    resumeAll true evs = .ok (evs.map fun p => (p.1, resumed p.2)) := by
  induction evs with
  | nil => rfl
  | cons hd tl ih =>
    obtain ⟨w, e⟩ := hd
    simp [resumeAll, resume_recov, ih]

theorem ChInv_new (size : Int) : ChInv (Chan.new size) := by
  simp [ChInv, Chan.new]

theorem goRecv_closed (g : GoChan) (who : Nat) : (goRecv g who).1.closed = g.closed := by
  unfold goRecv
  split
  · split <;> rfl
  · split
    · rfl
    · split <;> rfl

theorem goSend_open (g : GoChan) (who : Nat) (v : Int) (hc : g.closed = false) :
    ∃ g' evs, goSend g who v = .ok (g', evs) ∧ g'.closed = false := by
  unfold goSend
  simp only [hc, Bool.false_eq_true, if_false]
  split
  · exact ⟨_, _, rfl, rfl⟩
  · split
    · exact ⟨_, _, rfl, rfl⟩
    · exact ⟨_, _, rfl, rfl⟩

/-- one call: no panic, and the invariant is kept -/
theorem C07_chan_step_total (c : Chan) (who : Nat) (op : ChOp) (h : ChInv c) :
    ∃ c' out, chStep true c who op = .ok (c', out) ∧ ChInv c' := by
  unfold ChInv at h
  cases op with
  | send v =>
    by_cases ho : c.isOpen = true
    · have hc : c.ch.closed = false := by simpa [ho] using h.symm
      obtain ⟨g', evs, hs, hc'⟩ := goSend_open c.ch who v hc
      exact ⟨{ c with ch := g' }, evs.map (fun p => (p.1, resumed p.2)),
        by simp [chStep, ho, hs, resumeAll_recov], by simp [ChInv, ho, hc']⟩
    · simp only [Bool.not_eq_true] at ho
      exact ⟨c, [(who, .notOpen)], by simp [chStep, ho], h⟩
  | recv =>
    by_cases hg : (!c.isOpen && c.ch.buf.length == 0) = true
    · exact ⟨c, [(who, .notOpen)], by simp [chStep, hg], h⟩
    · refine ⟨{ c with ch := (goRecv c.ch who).1 }, (goRecv c.ch who).2.map (fun p => (p.1, resumed p.2)), ?_, ?_⟩
      · simp [chStep, hg, resumeAll_recov]
      · simp [ChInv, goRecv_closed, h]
  | close =>
    by_cases ho : c.isOpen = true
    · have hc : c.ch.closed = false := by simpa [ho] using h.symm
      simp [chStep, ho, goClose, hc, resumeAll_recov, ChInv]
    · simp only [Bool.not_eq_true] at ho
      exact ⟨c, [(who, .closed false true)], by simp [chStep, ho], h⟩
  | len => exact ⟨c, _, rfl, h⟩
  | cap => exact ⟨c, _, rfl, h⟩
  | isOpen => exact ⟨c, _, rfl, h⟩
  | isEmpty => exact ⟨c, _, rfl, h⟩

theorem chRun_total (ops : List ChOp) : ∀ (c : Chan) (k : Nat), ChInv c →
    ∃ r, chRun true c k ops = .ok r ∧ ChInv r.1 := by
  induction ops with
  | nil => intro c k h; exact ⟨(c, []), rfl, h⟩
  | cons op rest ih =>
    intro c k h
    obtain ⟨c', out, hs, h'⟩ := C07_chan_step_total c k op h
    obtain ⟨r, hr, hi⟩ := ih c' (k + 1) h'
    exact ⟨(r.1, out :: r.2), by simp [chRun, hs, hr], hi⟩

/-- EVERY schedule on a channel of EVERY size (also ≤ 0) runs to its end: no Go panic leaves
    Send, Receive or Close — every completion is a `CRes` (a value, nil or an Ego error) -/
theorem C07_chan_no_panic (size : Int) (ops : List ChOp) :
    ∃ r, chRun true (Chan.new size) 0 ops = .ok r :=
  let ⟨r, h, _⟩ := chRun_total ops (Chan.new size) 0 (ChInv_new size)
  ⟨r, h⟩

/-- every sender parked at the moment of Close completes with ErrChannelNotOpen, every parked
    receiver too, and the closer learns that it closed the channel -/
theorem C07_chan_close_wakes (c : Chan) (who : Nat) (h : ChInv c) (ho : c.isOpen = true) :
    ∃ c', chStep true c who .close = .ok (c',
      (who, .closed true false) :: (c.ch.recvq.map (fun r => (r, CRes.notOpen))
        ++ c.ch.sendq.map (fun s => (s.1, CRes.notOpen)))) ∧ c'.isOpen = false ∧ c'.ch.sendq = [] ∧ c'.ch.recvq = [] := by
  have hc : c.ch.closed = false := by simpa [ChInv, ho] using h.symm
  simp [chStep, ho, goClose, hc, resumeAll_recov, resumed, Function.comp_def]

/-- without a working recover in Send's deferred function, the sender parked on a full channel
    takes the whole process down when another goroutine closes the channel (the seeded class) -/
theorem C07_chan_norecover_counterexample :
    chRun false (Chan.new 1) 0 [.send 1, .send 2, .close] = .error .sendOnClosed := by rfl

/-- the same schedule with the recover: the parked sender gets ErrChannelNotOpen -/
example : (chRun true (Chan.new 1) 0 [.send 1, .send 2, .close]).toOption.map (·.2)
    = some [[(0, .sent)], [], [(2, .closed true false), (1, .notOpen)]] := by decide

/-- the invariant is needed: a wrapper that believes a closed native channel is open panics in Close -/
example : chStep true { Chan.new 1 with ch := { (Chan.new 1).ch with closed := true } } 0 .close
    = .error .closeOfClosed := by rfl

/-- non-trivial instance of the hypotheses of `C07_chan_close_wakes`: two parked senders -/
example : ∃ c, ChInv c ∧ c.isOpen = true ∧ c.ch.sendq.length = 2 ∧
    (chRun true (Chan.new 1) 0 [.send 1, .send 2, .send 3]).toOption.map (·.1) = some c := by
  refine ⟨{ Chan.new 1 with ch := { (Chan.new 1).ch with buf := [1], sendq := [(1, 2), (2, 3)] } }, ?_, ?_, ?_, ?_⟩ <;> decide

/-- FIFO hand-over: a receive on a full channel with a parked sender moves the sender's value in -/
example : (chRun true (Chan.new 1) 0 [.send 1, .send 2, .recv, .recv, .recv, .close]).toOption.map (·.2)
    = some [[(0, .sent)], [], [(2, .val 1), (1, .sent)], [(3, .val 2)], [], [(5, .closed true false), (4, .notOpen)]] := by decide

end EgoVerif.C07
