import EgoVerif.C07.Model
/-
C07 — panic-freedom of the indexing primitives (token cursor, VM value stack + call frames,
data.Array) over EVERY call sequence with EVERY operand (negative, huge, wrapping), by
induction over the sequence with a bounds invariant.  `Except.error` = a Go runtime panic;
an out-of-range access reported as an Ego error is an `Except.ok` result.
-/
namespace EgoVerif.C07

/-! ### Go's partial operations succeed inside their bounds -/

theorem idx_ok {α : Type} (l : List α) (i : Int) (h0 : 0 ≤ i) (h1 : i < l.length) :
    ∃ v, idx l i = .ok v := by
  have h : i.toNat < l.length := by omega
  refine ⟨l[i.toNat], ?_⟩
  simp [idx, h0, List.getElem?_eq_getElem h]

theorem setIdx_ok {α : Type} (l : List α) (i : Int) (v : α) (h0 : 0 ≤ i) (h1 : i < l.length) :
    setIdx l i v = .ok (l.set i.toNat v) := by
  simp [setIdx, h0, h1]

theorem slc_ok {α : Type} (l : List α) (lo hi : Int) (h0 : 0 ≤ lo) (h1 : lo ≤ hi) (h2 : hi ≤ l.length) :
    slc l lo hi = .ok ((l.take hi.toNat).drop lo.toNat) := by
  simp [slc, h0, h1, h2]

theorem slc_len {α : Type} (l : List α) (lo hi : Int) (h0 : 0 ≤ lo) (h1 : lo ≤ hi) (h2 : hi ≤ l.length) :
    (((l.take hi.toNat).drop lo.toNat).length : Int) = hi - lo := by
  simp [List.length_drop, List.length_take]
  omega

theorem ok_ex {α : Type} {P : α → Prop} (v : α) (h : P v) : ∃ r, (Except.ok v : G α) = .ok r ∧ P r :=
  ⟨v, rfl, h⟩

/-! ### token cursor -/

def CInv (c : Cur) : Prop := 0 ≤ c.p ∧ c.p ≤ c.len

theorem peekAt_ok (c : Cur) (k : Int) : ∃ t, peekAt c k = .ok t := by
  unfold peekAt
  simp only
  split
  · exact ⟨_, rfl⟩
  · rename_i h
    simp only [not_or, Int.not_le, Int.not_lt, ge_iff_le] at h
    exact idx_ok _ _ h.2 (by simpa [Cur.len] using h.1)

theorem advance_inv (c : Cur) (k : Int) : CInv (advance c k) ∧ (advance c k).toks = c.toks := by
  unfold advance CInv Cur.len
  simp only
  split
  · simp
  · split
    · simp
    · simp at *; omega

theorem setMark_inv (c : Cur) (k : Int) : CInv (setMark c k) := by
  unfold setMark CInv Cur.len
  split
  · simp
  · split
    · simp
    · simp at *; omega

theorem cstep_total (c : Cur) (op : COp) (h : CInv c) :
    ∃ c' o, cstep c op = .ok (c', o) ∧ CInv c' := by
  obtain ⟨hp0, hp1⟩ := h
  have hlen : c.len = (c.toks.length : Int) := rfl
  cases op with
  | next =>
    simp only [cstep]
    split
    · exact ⟨_, _, rfl, hp0, hp1⟩
    · rename_i hlt
      obtain ⟨t, ht⟩ := idx_ok c.toks c.p hp0 (by omega)
      simp only [ht, bind, Except.bind]
      refine ⟨_, _, rfl, ?_⟩
      simp only [CInv, Cur.len]; omega
  | peek k =>
    obtain ⟨t, ht⟩ := peekAt_ok c k
    simp only [cstep, ht, bind, Except.bind]
    exact ⟨_, _, rfl, hp0, hp1⟩
  | atEnd => exact ⟨c, _, rfl, hp0, hp1⟩
  | advance k => exact ⟨_, _, rfl, (advance_inv c k).1⟩
  | isNext t =>
    obtain ⟨n, hn⟩ := peekAt_ok c 1
    simp only [cstep, hn, bind, Except.bind]
    split
    · exact ⟨_, _, rfl, (advance_inv c 1).1⟩
    · exact ⟨_, _, rfl, hp0, hp1⟩
  | anyNext ts =>
    obtain ⟨n, hn⟩ := peekAt_ok c 1
    simp only [cstep, hn, bind, Except.bind]
    split
    · exact ⟨_, _, rfl, (advance_inv c 1).1⟩
    · exact ⟨_, _, rfl, hp0, hp1⟩
  | eos =>
    simp only [cstep]
    split
    · exact ⟨_, _, rfl, hp0, hp1⟩
    · obtain ⟨n, hn⟩ := peekAt_ok c 1
      simp only [hn, bind, Except.bind]
      exact ⟨_, _, rfl, hp0, hp1⟩
  | line =>
    simp only [cstep]
    split
    · exact ⟨_, _, rfl, hp0, hp1⟩
    · rename_i hlt
      obtain ⟨t, ht⟩ := idx_ok c.toks c.p hp0 (by omega)
      simp only [ht, bind, Except.bind]
      exact ⟨_, _, rfl, hp0, hp1⟩
  | col =>
    simp only [cstep]
    split
    · exact ⟨_, _, rfl, hp0, hp1⟩
    · rename_i hlt
      obtain ⟨t, ht⟩ := idx_ok c.toks c.p hp0 (by omega)
      simp only [ht, bind, Except.bind]
      exact ⟨_, _, rfl, hp0, hp1⟩
  | mark => exact ⟨c, _, rfl, hp0, hp1⟩
  | set k => exact ⟨_, _, rfl, setMark_inv c k⟩
  | reset => exact ⟨_, _, rfl, by simp [CInv, Cur.len]⟩
  | delete a b =>
    simp only [cstep]
    split
    · exact ⟨_, _, rfl, hp0, hp1⟩
    · rename_i hg
      simp only [not_or, Int.not_lt, ge_iff_le, Int.not_le, gt_iff_lt] at hg
      obtain ⟨ha0, ha1, hba, hbl⟩ := hg
      have hcap : ¬ (c.len - b + a < 0) := by omega
      have h1 := slc_ok c.toks 0 a (by omega) ha0 (by omega)
      have h2 := slc_ok c.toks b c.len (by omega) hbl (by omega)
      have l1 := slc_len c.toks 0 a (by omega) ha0 (by omega)
      have l2 := slc_len c.toks b c.len (by omega) hbl (by omega)
      simp only [hcap, if_false, h1, h2, bind, Except.bind]
      refine ⟨_, _, rfl, ?_⟩
      simp only [Cur.len] at l1 l2
      simp only [CInv, Cur.len, List.length_append, Int.natCast_add]
      split
      · omega
      · split <;> omega
  | insert k ts =>
    simp only [cstep]
    split
    · exact ⟨_, _, rfl, hp0, hp1⟩
    · rename_i hg
      simp only [not_or, Int.not_lt, ge_iff_le, Int.not_le] at hg
      obtain ⟨hk0, hk1⟩ := hg
      split
      · exact ⟨_, _, rfl, hp0, hp1⟩
      · have h1 := slc_ok c.toks 0 k (by omega) hk0 (by omega)
        have h2 := slc_ok c.toks k c.len hk0 (by omega) (by omega)
        have l1 := slc_len c.toks 0 k (by omega) hk0 (by omega)
        have l2 := slc_len c.toks k c.len hk0 (by omega) (by omega)
        simp only [h1, h2, bind, Except.bind]
        refine ⟨_, _, rfl, ?_⟩
        simp only [Cur.len] at l1 l2
        simp only [CInv, Cur.len, List.length_append, Int.natCast_add]
        split <;> omega
  | text a b =>
    simp only [cstep]
    by_cases hg : (if a < 0 then 0 else a) > (if b < 0 ∨ b ≥ c.len then c.len - 1 else b)
    · simp only [hg, if_true]
      exact ⟨_, _, rfl, hp0, hp1⟩
    · have h1 := slc_ok c.toks (if a < 0 then 0 else a) ((if b < 0 ∨ b ≥ c.len then c.len - 1 else b) + 1)
        (by split <;> omega) (by omega)
        (by repeat' split
            all_goals omega)
      simp only [hg, if_false, h1, bind, Except.bind]
      exact ⟨_, _, rfl, hp0, hp1⟩
  | toks a b =>
    simp only [cstep]
    have h1 := slc_ok c.toks (if a < 0 then 0 else if a > c.len then c.len else a)
      (if b < (if a < 0 then 0 else if a > c.len then c.len else a) then (if a < 0 then 0 else if a > c.len then c.len else a)
        else if b > c.len then c.len else b)
      (by repeat' split
          all_goals omega)
      (by repeat' split
          all_goals omega)
      (by repeat' split
          all_goals omega)
    simp only [h1, bind, Except.bind]
    exact ⟨_, _, rfl, hp0, hp1⟩
  | rem =>
    simp only [cstep]
    split
    · exact ⟨_, _, rfl, hp0, hp1⟩
    · rename_i hlt
      obtain ⟨t, ht⟩ := idx_ok c.toks c.p hp0 (by omega)
      simp only [ht, bind, Except.bind]
      exact ⟨_, _, rfl, hp0, hp1⟩

theorem runCursor_total (ops : List COp) : ∀ c, CInv c → ∃ r, runCursor c ops = .ok r := by
  induction ops with
  | nil => intro c _; exact ⟨_, rfl⟩
  | cons op rest ih =>
    intro c h
    obtain ⟨c', o, hs, hi⟩ := cstep_total c op h
    obtain ⟨r, hr⟩ := ih c' hi
    simp only [runCursor, hs, hr, bind, Except.bind]
    exact ⟨_, rfl⟩

/-- Every call sequence of the cursor primitives, over every token list, with every operand,
    ends without a Go panic. -/
theorem C07_cursor_total (toks : List Tok) (calls : List COp) :
    ∃ r, runCursor ⟨toks, 0⟩ calls = .ok r :=
  runCursor_total calls ⟨toks, 0⟩ (by simp [CInv, Cur.len])

theorem C07_cursor_no_panic (toks : List Tok) (calls : List COp) (p : Panic) :
    runCursor ⟨toks, 0⟩ calls ≠ .error p := by
  obtain ⟨r, hr⟩ := C07_cursor_total toks calls
  simp [hr]

/-! ### VM value stack and call frames -/

def SInv (s : Stk) : Prop := 0 ≤ s.sp ∧ s.sp ≤ s.stack.length

theorem push_total (s : Stk) (v : Val) (h : SInv s) : ∃ s', push s v = .ok s' ∧ SInv s' := by
  obtain ⟨h0, h1⟩ := h
  unfold push
  by_cases hg : s.sp ≥ s.stack.length
  · have hs := setIdx_ok (s.stack ++ List.replicate 50 Val.nil) s.sp v h0
      (by simp only [List.length_append, List.length_replicate, Int.natCast_add]; omega)
    simp only [hg, if_true, hs, bind, Except.bind]
    refine ⟨_, rfl, ?_⟩
    simp only [SInv, List.length_set, List.length_append, List.length_replicate, Int.natCast_add]
    omega
  · have hs := setIdx_ok s.stack s.sp v h0 (by omega)
    simp only [hg, if_false, hs, bind, Except.bind]
    refine ⟨_, rfl, ?_⟩
    simp only [SInv, List.length_set]
    omega

theorem pop_total (s : Stk) (h : SInv s) : ∃ r, pop s = .ok r ∧ SInv r.1 := by
  obtain ⟨h0, h1⟩ := h
  unfold pop
  split
  · exact ok_ex _ ⟨h0, h1⟩
  · rename_i hg
    simp only [not_or, Int.not_le, Int.not_lt] at hg
    obtain ⟨v, hv⟩ := idx_ok s.stack (s.sp - 1) (by omega) (by omega)
    have hs := setIdx_ok s.stack (s.sp - 1) Val.nil (by omega) (by omega)
    simp only [hv, hs, bind, Except.bind]
    refine ⟨_, rfl, ?_⟩
    simp only [SInv, List.length_set]
    omega

theorem framePush_total (s : Stk) (h : SInv s) : ∃ s', framePush s = .ok s' ∧ SInv s' := by
  obtain ⟨s1, hs1, hi⟩ := push_total s (.frame s.fp) h
  simp only [framePush, hs1, bind, Except.bind]
  exact ⟨_, rfl, hi⟩

theorem topSlice_total (s : Stk) (h : SInv s) (hf : 1 ≤ s.fp) : ∃ top, topSlice s = .ok top := by
  unfold topSlice
  split
  · exact ⟨_, slc_ok s.stack s.fp s.sp (by omega) (by omega) h.2⟩
  · exact ⟨_, rfl⟩

theorem framePop_total (s : Stk) (h : SInv s) : ∃ r, framePop s = .ok r ∧ SInv r.1 := by
  obtain ⟨h0, h1⟩ := h
  unfold framePop
  split
  · exact ok_ex _ ⟨h0, h1⟩
  · rename_i hg
    simp only [not_or, Int.not_lt, Int.not_le] at hg
    obtain ⟨hf1, hf2⟩ := hg
    obtain ⟨top, ht⟩ := topSlice_total s ⟨h0, h1⟩ hf1
    obtain ⟨r, hr, hri⟩ := pop_total { s with sp := s.fp } ⟨by simp only; omega, by simp only; omega⟩
    simp only [ht, hr, bind, Except.bind]
    split
    · exact ok_ex _ hri
    · rename_i f _
      by_cases hl : top.length > 0
      · have hp := slc_ok r.1.stack 0 r.1.sp (by omega) hri.1 hri.2
        have hpl := slc_len r.1.stack 0 r.1.sp (by omega) hri.1 hri.2
        simp only [hl, if_true, hp, bind, Except.bind]
        refine ok_ex _ ?_
        simp only [SInv, List.length_append, Int.natCast_add]
        omega
      · simp only [hl, if_false]
        split
        · obtain ⟨s4, hs4, hi4⟩ := push_total { r.1 with fp := f } r.1.result hri
          simp only [hs4, bind, Except.bind]
          exact ok_ex _ hi4
        · exact ok_ex _ hri
    · exact ok_ex _ hri

theorem scanBelow_total (st : List Val) : ∀ n : Nat, n ≤ st.length → ∃ b, scanBelow st n = .ok b := by
  intro n
  induction n with
  | zero => intro _; exact ⟨_, rfl⟩
  | succ n ih =>
    intro hn
    obtain ⟨v, hv⟩ := idx_ok st (n : Int) (by omega) (by omega)
    simp only [scanBelow, hv, bind, Except.bind]
    split
    · exact ⟨_, rfl⟩
    · exact ih (by omega)

theorem dropN_total : ∀ (n : Nat) (s : Stk), SInv s → ∃ r, dropN s n = .ok r ∧ SInv r.1 := by
  intro n
  induction n with
  | zero => intro s h; exact ok_ex _ h
  | succ n ih =>
    intro s h
    obtain ⟨r, hr, hri⟩ := pop_total s h
    simp only [dropN, hr, bind, Except.bind]
    split
    · exact ok_ex _ hri
    · exact ih r.1 hri

theorem sstep_total (s : Stk) (op : SOp) (h : SInv s) : ∃ r, sstep s op = .ok r ∧ SInv r.1 := by
  cases op with
  | push v =>
    obtain ⟨s', hs, hi⟩ := push_total s v h
    simp only [sstep, hs, bind, Except.bind]
    exact ok_ex _ hi
  | pop =>
    obtain ⟨r, hr, hri⟩ := pop_total s h
    simp only [sstep, hr, bind, Except.bind]
    split <;> exact ok_ex _ hri
  | framePush =>
    obtain ⟨s', hs, hi⟩ := framePush_total s h
    simp only [sstep, hs, bind, Except.bind]
    exact ok_ex _ hi
  | framePop => exact framePop_total s h
  | read k =>
    simp only [sstep]
    split
    · exact ok_ex _ h
    · rename_i hg
      simp only [not_or, Int.not_lt, Int.not_le, ge_iff_le] at hg
      obtain ⟨v, hv⟩ := idx_ok s.stack ((s.sp - 1) - readIdx k) (by omega) (by have := h.2; omega)
      obtain ⟨s', hs, hi⟩ := push_total s v h
      simp only [hv, hs, bind, Except.bind]
      exact ok_ex _ hi
  | check k =>
    simp only [sstep]
    split
    · exact ok_ex _ h
    · rename_i hg
      simp only [not_or, Int.not_lt, Int.not_le] at hg
      obtain ⟨hk0, hk1⟩ := hg
      obtain ⟨b, hb⟩ := scanBelow_total s.stack (checkStart s k + 1).toNat
        (by have := h.2
            unfold checkStart
            simp only
            repeat' split
            all_goals omega)
      simp only [hb, bind, Except.bind]
      split
      · exact ok_ex _ h
      · obtain ⟨v, hv⟩ := idx_ok s.stack (s.sp - (k + 1)) (by omega) (by have := h.2; omega)
        simp only [hv]
        split <;> exact ok_ex _ h
  | drop n => exact dropN_total n.toNat s h
  | dup =>
    obtain ⟨r, hr, hri⟩ := pop_total s h
    simp only [sstep, hr, bind, Except.bind]
    split
    · exact ok_ex _ hri
    · rename_i v _
      obtain ⟨s1, hs1, hi1⟩ := push_total r.1 v hri
      obtain ⟨s2, hs2, hi2⟩ := push_total s1 v hi1
      simp only [hs1, hs2]
      exact ok_ex _ hi2
  | swap =>
    obtain ⟨r1, hr1, hri1⟩ := pop_total s h
    simp only [sstep, hr1, bind, Except.bind]
    split
    · exact ok_ex _ hri1
    · rename_i v1 _
      obtain ⟨r2, hr2, hri2⟩ := pop_total r1.1 hri1
      simp only [hr2]
      split
      · exact ok_ex _ hri2
      · rename_i v2 _
        obtain ⟨s1, hs1, hi1⟩ := push_total r2.1 v1 hri2
        obtain ⟨s2, hs2, hi2⟩ := push_total s1 v2 hi1
        simp only [hs1, hs2]
        exact ok_ex _ hi2
  | setResult v => exact ok_ex _ h

theorem runStack_total (ops : List SOp) : ∀ s, SInv s → ∃ r, runStack s ops = .ok r := by
  induction ops with
  | nil => intro s _; exact ⟨_, rfl⟩
  | cons op rest ih =>
    intro s h
    obtain ⟨r, hs, hi⟩ := sstep_total s op h
    obtain ⟨r', hr⟩ := ih r.1 hi
    simp only [runStack, hs, hr, bind, Except.bind]
    exact ⟨_, rfl⟩

/-- Every sequence of the modelled stack / call-frame operations from a fresh context, with
    every operand and every pushed value (including forged frames), ends without a Go panic:
    underflow and a bad frame are error values. -/
theorem C07_stack_total (calls : List SOp) : ∃ r, runStack Stk.init calls = .ok r :=
  runStack_total calls Stk.init (by simp [SInv, Stk.init])

theorem C07_stack_no_panic (calls : List SOp) (p : Panic) : runStack Stk.init calls ≠ .error p := by
  obtain ⟨r, hr⟩ := C07_stack_total calls
  simp [hr]

/-! ### why the guards of fixes/C07.patch are needed: the unguarded operations do panic -/

/-- ReadStack with operand MinInt64 on a one-element stack indexes out of range (`-idx` wraps). -/
theorem C07_stack_unfixed_counterexample :
    isPanic (readUnfixed { Stk.init with stack := [.int 1], sp := 1 } (-9223372036854775808)) = true := by
  decide

/-- StackCheck with a negative count on an empty 16-slot stack indexes slot 99. -/
theorem C07_stackcheck_unfixed_counterexample : isPanic (checkUnfixed Stk.init (-100)) = true := by
  decide

/-- after a callFramePop that failed with fp beyond the stack, the old code leaves sp = fp, and the
    next push (which grows the stack by 50 only) indexes past the end. -/
theorem C07_framepop_unfixed_counterexample :
    isPanic (push (framePopUnfixedFail { Stk.init with stack := [.nil, .nil], sp := 2, fp := 202 }) (.int 1)) = true := by
  decide

/-! ### data.Array -/

/-- a []byte array keeps its elements in `bytes`; `data` stays empty (NewArray, and every operation) -/
def AInv (a : Arr) : Prop := a.isByte = true → a.data = []

theorem astep_total (a : Arr) (op : AOp) (h : AInv a) : ∃ r, astep a op = .ok r ∧ AInv r.1 := by
  cases op with
  | get i =>
    simp only [astep]
    split
    · split
      · exact ok_ex _ h
      · rename_i hg
        simp only [not_or, Int.not_lt, ge_iff_le, Int.not_le] at hg
        obtain ⟨v, hv⟩ := idx_ok a.bytes i hg.1 hg.2
        simp only [hv, bind, Except.bind]
        exact ok_ex _ h
    · split
      · exact ok_ex _ h
      · rename_i hg
        simp only [not_or, Int.not_lt, ge_iff_le, Int.not_le] at hg
        obtain ⟨v, hv⟩ := idx_ok a.data i hg.1 hg.2
        simp only [hv, bind, Except.bind]
        exact ok_ex _ h
  | set i v =>
    simp only [astep]
    split
    · exact ok_ex _ h
    · split
      · split
        · exact ok_ex _ h
        · rename_i hb hg
          simp only [not_or, Int.not_lt, ge_iff_le, Int.not_le] at hg
          simp only [setIdx_ok a.bytes i v hg.1 hg.2, bind, Except.bind]
          exact ok_ex _ h
      · split
        · exact ok_ex _ h
        · rename_i hb hg
          simp only [not_or, Int.not_lt, ge_iff_le, Int.not_le] at hg
          simp only [setIdx_ok a.data i v hg.1 hg.2, bind, Except.bind]
          exact ok_ex _ (fun hx => absurd hx hb)
  | setAlways i v =>
    simp only [astep]
    split
    · exact ok_ex _ h
    · split
      · split
        · exact ok_ex _ h
        · rename_i hb hg
          simp only [not_or, Int.not_lt, ge_iff_le, Int.not_le] at hg
          simp only [setIdx_ok a.bytes i v hg.1 hg.2, bind, Except.bind]
          exact ok_ex _ h
      · split
        · exact ok_ex _ h
        · rename_i hb hg
          simp only [not_or, Int.not_lt, ge_iff_le, Int.not_le] at hg
          simp only [setIdx_ok a.data i v hg.1 hg.2, bind, Except.bind]
          exact ok_ex _ (fun hx => absurd hx hb)
  | append v =>
    simp only [astep]
    split
    · exact ok_ex _ h
    · rename_i hb
      exact ok_ex _ (fun hx => absurd hx hb)
  | getSlice x y =>
    simp only [astep]
    split
    · exact ok_ex _ h
    · rename_i hg
      simp only [not_or, Int.not_lt, Int.not_le, gt_iff_lt] at hg
      obtain ⟨hx0, hyx, hxs, hys⟩ := hg
      split
      · rename_i hb
        simp only [Arr.size, hb, if_true] at hys
        simp only [slc_ok a.bytes x y hx0 hyx hys, bind, Except.bind]
        exact ok_ex _ h
      · rename_i hb
        simp only [Arr.size, hb] at hys
        simp only [slc_ok a.data x y hx0 hyx (by simpa using hys), bind, Except.bind]
        exact ok_ex _ h
  | getSliceAsArray x y =>
    simp only [astep]
    split
    · split
      · exact ok_ex _ h
      · rename_i hg
        simp only [not_or, Int.not_lt, Int.not_le, gt_iff_lt] at hg
        simp only [slc_ok a.bytes x y hg.1 hg.2.1 hg.2.2.2, bind, Except.bind]
        exact ok_ex _ h
    · split
      · exact ok_ex _ h
      · rename_i hg
        simp only [not_or, Int.not_lt, Int.not_le, gt_iff_lt] at hg
        split
        · exact ok_ex _ h
        · simp only [slc_ok a.data x y hg.1 hg.2.1 hg.2.2.2, bind, Except.bind]
          exact ok_ex _ h
  | setSize n0 =>
    simp only [astep]
    have hn : 0 ≤ clamp0 n0 := by unfold clamp0; split <;> omega
    generalize clamp0 n0 = n at hn
    unfold setSize
    split
    · split
      · rename_i hb hlt
        simp only [slc_ok a.bytes 0 n (by omega) hn (by omega), bind, Except.bind]
        exact ok_ex _ h
      · split
        · omega
        · exact ok_ex _ h
    · rename_i hb
      split
      · rename_i hlt
        simp only [slc_ok a.data 0 n (by omega) hn (by omega), bind, Except.bind]
        refine ok_ex _ ?_
        intro hx; exact absurd hx hb
      · split
        · omega
        · refine ok_ex _ ?_
          intro hx; exact absurd hx hb
  | delete i =>
    simp only [astep]
    split
    · exact ok_ex _ h
    · rename_i hg
      simp only [not_or, Int.not_lt, ge_iff_le, Int.not_le] at hg
      split
      · exact ok_ex _ h
      · split
        · rename_i hb
          have hd := h hb
          rw [hd] at hg
          simp at hg
          omega
        · rename_i hb
          have h1 := slc_ok a.data 0 i (by omega) hg.2 (by omega)
          have h2 := slc_ok a.data (i + 1) a.data.length (by omega) (by omega) (by omega)
          simp only [h1, h2, bind, Except.bind]
          exact ok_ex _ (fun hx => absurd hx hb)
  | len => exact ok_ex _ h
  | setReadonly b => exact ok_ex _ h

theorem runArray_total (ops : List AOp) : ∀ a, AInv a → ∃ r, runArray a ops = .ok r := by
  induction ops with
  | nil => intro a _; exact ⟨_, rfl⟩
  | cons op rest ih =>
    intro a h
    obtain ⟨r, hs, hi⟩ := astep_total a op h
    obtain ⟨r', hr⟩ := ih r.1 hi
    simp only [runArray, hs, hr, bind, Except.bind]
    exact ⟨_, rfl⟩

/-- Every sequence of Get/Set/SetAlways/Append/GetSlice/GetSliceAsArray/SetSize/Delete/SetReadonly
    on an array of either storage kind, with every index, ends without a Go panic: an
    out-of-range access is an error value (`errBounds`). -/
theorem C07_array_total (isByte : Bool) (n : Nat) (calls : List AOp) :
    ∃ r, runArray (Arr.new isByte n) calls = .ok r :=
  runArray_total calls _ (by cases isByte <;> simp [AInv, Arr.new])

theorem C07_array_no_panic (isByte : Bool) (n : Nat) (calls : List AOp) (p : Panic) :
    runArray (Arr.new isByte n) calls ≠ .error p := by
  obtain ⟨r, hr⟩ := C07_array_total isByte n calls
  simp [hr]

/-- an out-of-range Get is reported as the bounds error, the array is unchanged -/
theorem C07_array_get_out_of_range (a : Arr) (i : Int) (h : i < 0 ∨ i ≥ a.size) :
    ∃ a', astep a (.get i) = .ok (a', .errBounds) := by
  simp only [astep]
  cases hb : a.isByte <;> simp [Arr.size, hb] at h ⊢ <;> simp [h]

/-! ### non-vacuity: the models compute, and out-of-range accesses really are error values -/

example : (runCursor ⟨[⟨2, 1, 1⟩, ⟨1, 1, 2⟩], 0⟩ [.next, .peek 1, .advance 5, .mark]).toOption.map (·.1.p) = some 2 := by decide
example : (cstep ⟨[⟨2, 1, 1⟩], 1⟩ (.peek 9223372036854775807)).toOption.map (fun r => r.1.p) = some 1 := by decide
example : (sstep Stk.init .pop).toOption.map (·.2) = some SOut.underflow := by decide
example : (runStack Stk.init [.push (.int 1), .framePush, .push (.int 2), .push (.int 3), .framePop]).toOption.map (·.1.sp) = some 3 := by decide
example : (astep (Arr.new true 3) (.getSlice 2 1)).toOption.map (·.2) = some AOut.errBounds := by decide

end EgoVerif.C07
