/-
C07 — Ego channels: internal/language/data/channel.go (NewChannel, Send, Receive, Close, Len, Cap,
IsOpen, IsEmpty) over a model of Go's native `chan any`.

Go's channel primitives are partial: `ch <- v` panics on a closed channel — also when the sender
is ALREADY PARKED on a full channel at the moment another goroutine closes it — and `close(ch)`
panics on a closed channel. Those panics are explicit here (`Except GoPanic`). A Go panic that
leaves Send/Receive/Close kills the host process when it happens in a goroutine started by the
Ego `go` statement (bytecode.GoRoutine has no recover), so the property is: every step of every
schedule ends in `.ok`.

A schedule is a list of calls; call number k is made by its own goroutine ("actor" k). A call either
completes at once or parks its actor in the channel's FIFO wait queue; a later call may complete
parked actors (`List (Nat × CRes)`: who completed, with what). This is the behaviour the harness
observes with `testing/synctest` (one call per step, `synctest.Wait` between steps).

`recov` says whether Send's deferred function stops a panic (`defer func(){ if r := recover(); … }`).
The code has it (`recov = true`); with `recov = false` the model is the code without a working
recover (e.g. recover() called one frame too deep) and `C07_chan_norecover_counterexample` shows
the crash.
-/
namespace EgoVerif.C07

inductive GoPanic | sendOnClosed | closeOfClosed
deriving DecidableEq, Repr

/-- what a call on an Ego channel hands back to the Ego program -/
inductive CRes
  | sent                                   -- Send: nil
  | val (v : Int)                          -- Receive: (v, nil)
  | notOpen                                -- errors.ErrChannelNotOpen
  | nilRef                                 -- errors.ErrNilPointerReference
  | closed (wasOpen : Bool) (err : Bool)   -- Close: (wasOpen, err != nil)
  | b (x : Bool)
  | n (x : Nat)
deriving DecidableEq, Repr

/-- what Go's runtime hands to a goroutine that used the native channel -/
inductive GoEv
  | sent                -- `ch <- v` completed
  | got (v : Int)       -- `v, ok := <-ch` with ok
  | gotClosed           -- `v, ok := <-ch` with !ok
  | sendPanics          -- a parked `ch <- v` is woken by close(ch): it panics in the sender's goroutine
deriving DecidableEq, Repr

/-- the native `chan any` -/
structure GoChan where
  cap : Nat
  buf : List Int
  closed : Bool
  sendq : List (Nat × Int)   -- parked senders (actor, value), FIFO
  recvq : List Nat           -- parked receivers, FIFO
deriving DecidableEq, Repr

/-- `ch <- v` by actor `who` -/
def goSend (g : GoChan) (who : Nat) (v : Int) : Except GoPanic (GoChan × List (Nat × GoEv)) :=
  if g.closed then .error .sendOnClosed
  else match g.recvq with
    | r :: rs => .ok ({ g with recvq := rs }, [(r, .got v), (who, .sent)])
    | [] =>
      if g.buf.length < g.cap then .ok ({ g with buf := g.buf ++ [v] }, [(who, .sent)])
      else .ok ({ g with sendq := g.sendq ++ [(who, v)] }, [])

/-- `v, ok := <-ch` by actor `who` (never panics) -/
def goRecv (g : GoChan) (who : Nat) : GoChan × List (Nat × GoEv) :=
  match g.buf with
  | v :: rest =>
    match g.sendq with
    | (s, sv) :: ss => ({ g with buf := rest ++ [sv], sendq := ss }, [(who, .got v), (s, .sent)])
    | [] => ({ g with buf := rest }, [(who, .got v)])
  | [] =>
    if g.closed then (g, [(who, .gotClosed)])
    else match g.sendq with
      | (s, sv) :: ss => ({ g with sendq := ss }, [(who, .got sv), (s, .sent)])
      | [] => ({ g with recvq := g.recvq ++ [who] }, [])

/-- `close(ch)`: every parked receiver gets `!ok`, every parked sender panics -/
def goClose (g : GoChan) : Except GoPanic (GoChan × List (Nat × GoEv)) :=
  if g.closed then .error .closeOfClosed
  else .ok ({ g with closed := true, sendq := [], recvq := [] },
            g.recvq.map (fun r => (r, GoEv.gotClosed)) ++ g.sendq.map (fun s => (s.1, GoEv.sendPanics)))

/-- data.Channel -/
structure Chan where
  ch : GoChan
  size : Nat
  isOpen : Bool
deriving DecidableEq, Repr

/-- NewChannel(size): `if size < 1 { size = 1 }` -/
def Chan.new (size : Int) : Chan :=
  let n := if size < 1 then 1 else size.toNat
  { ch := { cap := n, buf := [], closed := false, sendq := [], recvq := [] }, size := n, isOpen := true }

/-- the deferred function of Send: `if r := recover(); r != nil { err = errors.ErrChannelNotOpen }` -/
def deferRecover (recov : Bool) : Except GoPanic CRes → Except GoPanic CRes
  | .error p => if recov then .ok .notOpen else .error p
  | .ok r => .ok r

/-- the rest of Send / Receive in the goroutine of an actor that the runtime resumes with `e` -/
def resume (recov : Bool) : GoEv → Except GoPanic CRes
  | .sent => deferRecover recov (.ok .sent)                    -- Send: `return nil`
  | .got v => .ok (.val v)                                      -- Receive: `return datum, nil`
  | .gotClosed => .ok .notOpen                                  -- Receive: `if !ok { return nil, ErrChannelNotOpen }`
  | .sendPanics => deferRecover recov (.error .sendOnClosed)    -- Send: the panic unwinds through the defer

def resumeAll (recov : Bool) : List (Nat × GoEv) → Except GoPanic (List (Nat × CRes))
  | [] => .ok []
  | (who, e) :: rest =>
    match resume recov e, resumeAll recov rest with
    | .ok r, .ok rs => .ok ((who, r) :: rs)
    | .error p, _ => .error p
    | _, .error p => .error p

inductive ChOp
  | send (v : Int) | recv | close | len | cap | isOpen | isEmpty
deriving DecidableEq, Repr

/-- one call by actor `who` on a non-nil channel -/
def chStep (recov : Bool) (c : Chan) (who : Nat) : ChOp → Except GoPanic (Chan × List (Nat × CRes))
  | .send v =>
    if !c.isOpen then .ok (c, [(who, .notOpen)])                -- `if !c.IsOpen() { return ErrChannelNotOpen }`
    else match goSend c.ch who v with                            -- `c.channel <- datum` under the defer
      | .error p =>
        match deferRecover recov (.error p) with
        | .ok r => .ok (c, [(who, r)])
        | .error p => .error p
      | .ok (g, evs) =>
        match resumeAll recov evs with
        | .ok rs => .ok ({ c with ch := g }, rs)
        | .error p => .error p
  | .recv =>
    if !c.isOpen && c.ch.buf.length == 0 then .ok (c, [(who, .notOpen)])
    else
      let (g, evs) := goRecv c.ch who
      match resumeAll recov evs with
      | .ok rs => .ok ({ c with ch := g }, rs)
      | .error p => .error p
  | .close =>
    if !c.isOpen then .ok (c, [(who, .closed false true)])      -- already closed: an ordinary error
    else match goClose c.ch with                                 -- `close(c.channel)`: no recover here
      | .error p => .error p
      | .ok (g, evs) =>
        match resumeAll recov evs with
        | .ok rs => .ok ({ c with ch := g, isOpen := false }, (who, .closed true false) :: rs)
        | .error p => .error p
  | .len => .ok (c, [(who, .n c.ch.buf.length)])
  | .cap => .ok (c, [(who, .n c.size)])
  | .isOpen => .ok (c, [(who, .b c.isOpen)])
  | .isEmpty => .ok (c, [(who, .b (!c.isOpen && c.ch.buf.length == 0))])

/-- the same calls on a nil *Channel -/
def nilStep : ChOp → CRes
  | .send _ => .nilRef
  | .recv => .nilRef
  | .close => .closed false false
  | .len => .n 0
  | .cap => .n 0
  | .isOpen => .b false
  | .isEmpty => .b false

/-- a schedule: call k is made by actor k; the completions of every step, in step order -/
def chRun (recov : Bool) : Chan → Nat → List ChOp → Except GoPanic (Chan × List (List (Nat × CRes)))
  | c, _, [] => .ok (c, [])
  | c, k, op :: rest =>
    match chStep recov c k op with
    | .error p => .error p
    | .ok (c', out) =>
      match chRun recov c' (k + 1) rest with
      | .error p => .error p
      | .ok (c'', outs) => .ok (c'', out :: outs)

end EgoVerif.C07
