/-
C41 — model of the request/response re-encoding between a server and a child service process
(internal/server/services/child.go: `callChildServices`, `runChildRequest`, `getHeadersFromResponse`)
and of the in-process path it must agree with (internal/server/services/service.go: `ServiceHandler`).
Core Lean only.

A Go `string` is a byte list.  A Go map is an association list; wherever Go's iteration order is
unspecified the functions below only depend on the list as a set of distinct keys (stated as hypotheses
in Props.lean), and the harness prints maps sorted by key.
-/
namespace EgoVerif.C41

abbrev Bytes := List UInt8

/-! ## 1. A Go string through `encoding/json` (Marshal then Unmarshal)

`encoding/json.appendString` walks the string; an ASCII byte is written (possibly escaped, the decoder
undoes the escape); otherwise `utf8.DecodeRuneInString` is called and, when it answers
`(RuneError, 1)`, the ONE offending byte is replaced by U+FFFD (`EF BF BD`).  `runeLen` is
`DecodeRuneInString`'s size (0 standing for the `(RuneError, 1)` answer), written from the tables
`first`/`acceptRanges` of unicode/utf8. -/

def cont (b : UInt8) : Bool := 0x80 ≤ b && b ≤ 0xBF

def runeLen : Bytes → Nat
  | [] => 0
  | b0 :: rest =>
    if b0 < 0x80 then 1
    else if b0 < 0xC2 then 0                                   -- continuation byte, or C0/C1 (overlong)
    else if b0 < 0xE0 then
      match rest with
      | b1 :: _ => if cont b1 then 2 else 0
      | _ => 0
    else if b0 < 0xF0 then
      let lo : UInt8 := if b0 == 0xE0 then 0xA0 else 0x80        -- E0: no overlong
      let hi : UInt8 := if b0 == 0xED then 0x9F else 0xBF        -- ED: no surrogates
      match rest with
      | b1 :: b2 :: _ => if lo ≤ b1 && b1 ≤ hi && cont b2 then 3 else 0
      | _ => 0
    else if b0 < 0xF5 then
      let lo : UInt8 := if b0 == 0xF0 then 0x90 else 0x80        -- F0: no overlong
      let hi : UInt8 := if b0 == 0xF4 then 0x8F else 0xBF        -- F4: ≤ U+10FFFF
      match rest with
      | b1 :: b2 :: b3 :: _ => if lo ≤ b1 && b1 ≤ hi && cont b2 && cont b3 then 4 else 0
      | _ => 0
    else 0

/-- the string a JSON decoder gets back (fuel = an upper bound of the length) -/
def sanitizeF : Nat → Bytes → Bytes
  | 0, _ => []
  | _, [] => []
  | f + 1, b :: rest =>
    if runeLen (b :: rest) = 0 then 0xEF :: 0xBF :: 0xBD :: sanitizeF f rest
    else (b :: rest).take (runeLen (b :: rest)) ++ sanitizeF f ((b :: rest).drop (runeLen (b :: rest)))

def sanitize (s : Bytes) : Bytes := sanitizeF s.length s

/-- Go's `utf8.ValidString` -/
def validF : Nat → Bytes → Bool
  | _, [] => true
  | 0, _ :: _ => false
  | f + 1, b :: rest =>
    if runeLen (b :: rest) = 0 then false else validF f ((b :: rest).drop (runeLen (b :: rest)))

def valid (s : Bytes) : Bool := validF s.length s

/-! ## 2. Go maps through JSON

The encoder writes the keys in ascending order of the ORIGINAL key, each key and value sanitised; the
decoder inserts them in that order, a later duplicate replacing an earlier one. -/

abbrev SMap (α : Type) := List (Bytes × α)

def insertLast {α} (k : Bytes) (v : α) : SMap α → SMap α
  | [] => [(k, v)]
  | (k', v') :: m => if k' = k then insertLast k v m else (k', v') :: insertLast k v m

/-- `m` is listed in the encoder's order -/
def jsonMap {α} (f : α → α) (m : SMap α) : SMap α :=
  m.foldl (fun acc kv => insertLast (sanitize kv.1) (f kv.2) acc) []

def jsonList (l : List Bytes) : List Bytes := l.map sanitize

/-! ## 3. The request: `callChildServices` (encode) → JSON → `runChildRequest` (consume),
against `ServiceHandler`'s in-process construction of the same Ego `Request` value. -/

/-- a value of `router.Session.URLParts` (`Route.partsMap`): a bool for a static part of the route
pattern, a string for a `{{variable}}` -/
inductive Part where
  | b (v : Bool)
  | s (v : Bytes)
  deriving DecidableEq, Repr

/-- the fields of `router.Session` the two handlers read -/
structure Session where
  id : Nat
  path : Bytes                      -- the route pattern
  user : Bytes
  token : Bytes
  authenticated : Bool
  admin : Bool
  acceptsJSON : Bool
  acceptsText : Bool
  parameters : SMap (List Bytes)    -- `route.parmMap(r)`
  urlParts : SMap Part
  permissions : List Bytes

/-- the fields of `*http.Request` the two handlers read -/
structure Request where
  method : Bytes
  url : Bytes                       -- `r.URL.String()`
  query : SMap (List Bytes)         -- `r.URL.Query()`
  headers : SMap (List Bytes)
  body : Bytes

def str (s : String) : Bytes := s.toUTF8.toList

def lower (b : UInt8) : UInt8 := if 0x41 ≤ b && b ≤ 0x5A then b + 32 else b

/-- `util.NonSensitiveHeader` (internal/util/rest.go) -/
def nonSensitive (name : Bytes) : Bool :=
  let k := name.map lower
  k.take 2 == str "x-" ||
  [ "accept", "accept-encoding", "accept-language", "accept-range", "accept-signature", "cache-control",
    "content-digest", "content-length", "content-location", "content-md5", "content-range", "content-type",
    "date", "prefer", "range", "user-agent", "from", "via", "x-forwarded-for", "x-forwarded-proto",
    "x-real-ip", "host", "allow" ].any (fun a => str a == k)

def hasSub (needle : Bytes) : Bytes → Bool
  | [] => needle.isEmpty
  | b :: rest => needle.isPrefixOf (b :: rest) || hasSub needle rest

/-- the local `isJSON` of both handlers (service.go `ServiceHandler` and child.go `runChildRequest`, the loop
`for name, values := range headers { … for _, value := range values { if EqualFold(name, "Accept") &&
Contains(value, "application/json") … } }`): SOME value of a non-sensitive header named Accept contains
"application/json".  A header sent as several lines is one map entry with several values, and EVERY value is
looked at, not only the first line (`http.Header.Get`); the match is a case-sensitive substring test, so q-values
and comma-separated lists on one line do not matter. -/
def acceptsJSONHeader (hs : SMap (List Bytes)) : Bool :=
  hs.any fun h => nonSensitive h.1 && (h.1.map lower == str "accept") && h.2.any (hasSub (str "application/json"))

/-- `ChildServiceRequest` (the fields that describe the request; pid, version, start time, server id and
DSN database are process facts, not request fields) -/
structure ChildReq where
  session : Nat
  user : Bytes
  authenticated : Bool
  admin : Bool
  bearer : Bool
  json : Bool
  text : Bool
  parameters : SMap (List Bytes)
  method : Bytes
  path : Bytes
  url : Bytes
  urlParts : SMap Part
  headers : SMap (List Bytes)
  permissions : List Bytes
  body : Bytes

/-- `callChildServices`, up to the transport -/
def encodeReq (s : Session) (r : Request) : ChildReq :=
  { session := s.id, user := s.user, authenticated := s.authenticated, admin := s.admin,
    bearer := s.token != [], json := s.acceptsJSON, text := s.acceptsText, parameters := s.parameters,
    method := r.method, path := s.path, url := r.url, urlParts := s.urlParts,
    headers := r.headers.filter (fun h => nonSensitive h.1), permissions := s.permissions, body := r.body }

def wirePart : Part → Part
  | .b v => .b v
  | .s v => .s (sanitize v)

/-- json.Marshal in the parent, json.Unmarshal in the child (file and socket transports alike) -/
def wireReq (c : ChildReq) : ChildReq :=
  { c with user := sanitize c.user, parameters := jsonMap jsonList c.parameters, method := sanitize c.method,
           path := sanitize c.path, url := sanitize c.url, urlParts := jsonMap wirePart c.urlParts,
           headers := jsonMap jsonList c.headers, permissions := jsonList c.permissions, body := sanitize c.body }

/-- what the service program can observe: the Ego `Request` struct and the request symbols -/
structure View where
  method : Bytes
  urlPath : Bytes
  endpoint : Bytes
  username : Bytes
  body : Bytes
  isAdmin : Bool
  isJSON : Bool
  isText : Bool
  authenticated : Bool
  authentication : Nat              -- 0 none, 1 user, 2 token
  sessionID : Nat
  headers : SMap (List Bytes)
  parameters : SMap (List Bytes)
  parts : SMap Part
  permissions : List Bytes
  partSymbols : SMap Part           -- URL parts as symbols
  userSymbol : Bytes                -- `_user`
  methodSymbol : Bytes              -- `_method`
  sessionSymbol : Nat               -- `_session`
  jsonReply : Bool                  -- the handler's local isJSON (decides the default Content-Type)

def authType (authenticated bearer : Bool) : Nat :=
  if authenticated then (if bearer then 2 else 1) else 0

/-- service.go `ServiceHandler` -/
def viewInproc (s : Session) (r : Request) : View :=
  let hs := r.headers.filter (fun h => nonSensitive h.1)
  { method := r.method, urlPath := r.url, endpoint := s.path, username := s.user, body := r.body,
    isAdmin := s.admin, isJSON := s.acceptsJSON, isText := s.acceptsText, authenticated := s.authenticated,
    authentication := authType s.authenticated (s.token != []), sessionID := s.id, headers := hs,
    parameters := r.query, parts := s.urlParts, permissions := s.permissions, partSymbols := s.urlParts,
    userSymbol := s.user, methodSymbol := r.method, sessionSymbol := s.id, jsonReply := acceptsJSONHeader r.headers }

/-- child.go `runChildRequest` -/
def viewChild (c : ChildReq) : View :=
  let hs := c.headers.filter (fun h => nonSensitive h.1)
  { method := c.method, urlPath := c.url, endpoint := c.path, username := c.user, body := c.body,
    isAdmin := c.admin, isJSON := c.json, isText := c.text, authenticated := c.authenticated,
    authentication := authType c.authenticated c.bearer, sessionID := c.session, headers := hs,
    parameters := c.parameters, parts := c.urlParts, permissions := c.permissions, partSymbols := c.urlParts,
    userSymbol := c.user, methodSymbol := c.method, sessionSymbol := c.session, jsonReply := acceptsJSONHeader c.headers }

/-! ## 4. The response: what the handler left in the Ego `ResponseWriter` → the HTTP response,
in-process (`ServiceHandler`) and through the child (`runChildRequest` → JSON → `callChildServices`). -/

/-- the state of the `ResponseWriter` after a handler that returned without error: `_status`, the `_headers`
map in `data.Map.Keys()` order (ascending), `_body` -/
structure SvcOut where
  status : Nat
  headers : SMap (List Bytes)
  body : Bytes

/-- `http.Header`, as the function name ↦ values (names canonical) -/
abbrev HMap := Bytes → List Bytes

def hDel (h : HMap) (k : Bytes) : HMap := fun x => if x = k then [] else h x
def hAdd (h : HMap) (k v : Bytes) : HMap := fun x => if x = k then h x ++ [v] else h x
def hSet (h : HMap) (k v : Bytes) : HMap := fun x => if x = k then [v] else h x

/-- `validHeaderFieldByte` of net/textproto: the RFC 7230 token characters -/
def tokenByte (b : UInt8) : Bool :=
  (0x30 ≤ b && b ≤ 0x39) || (0x41 ≤ b && b ≤ 0x5A) || (0x61 ≤ b && b ≤ 0x7A) ||
  (str "!#$%&'*+-.^_`|~").contains b

def upper (b : UInt8) : UInt8 := if 0x61 ≤ b && b ≤ 0x7A then b - 32 else b

def canonGo : Bool → Bytes → Bytes
  | _, [] => []
  | up, b :: rest => (if up then upper b else lower b) :: canonGo (b == 0x2D) rest

/-- `textproto.CanonicalMIMEHeaderKey`: a name with a non-token byte is returned unchanged -/
def canon (k : Bytes) : Bytes := if k.all tokenByte then canonGo true k else k

def ctKey : Bytes := str "Content-Type"
def jsonType : Bytes := str "application/json"
def errType : Bytes := str "application/vnd.ego.error+json"
def authKey : Bytes := str "Www-Authenticate"      -- canonical form of defs.AuthenticateHeader

/-- an HTTP response: status, headers, body (`none` = the JSON document of `util.ErrorResponse`, which carries
the status and the message) -/
structure Http where
  status : Nat
  headers : HMap
  body : Bytes
  errorDoc : Option (Nat × Bytes)

/-- service.go, the success path after `ctx.Run()` -/
def respInproc (isJSON : Bool) (o : SvcOut) : Http :=
  let h0 : HMap := if isJSON then hAdd (fun _ => []) ctKey jsonType else fun _ => []
  let h := o.headers.foldl (fun h kv => kv.2.foldl (fun h v => hAdd h (canon kv.1) v) (hDel h (canon kv.1))) h0
  { status := o.status, headers := h, body := o.body, errorDoc := none }

/-- `ChildServiceResponse` -/
structure ChildResp where
  status : Nat
  msg : Bytes
  headers : SMap Bytes
  body : Bytes

def mapSet {α} (k : Bytes) (v : α) : SMap α → SMap α
  | [] => [(k, v)]
  | (k', v') :: m => if k' = k then (k, v) :: m else (k', v') :: mapSet k v m

/-- `strings.Join(list, ", ")` -/
def join : List Bytes → Bytes
  | [] => []
  | [v] => v
  | v :: rest => v ++ str ", " ++ join rest

/-- child.go `runChildRequest` after `ctx.Run()` returned nil, with `getHeadersFromResponse`;
`realm` is the child's `Basic realm=…` header value; the `$response` print buffer is empty -/
def childResp (isJSON : Bool) (realm : Bytes) (o : SvcOut) : ChildResp :=
  let hs := o.headers.foldl (fun m kv => mapSet (canon kv.1) (join kv.2) m) []
  let hs := if o.status = 401 then mapSet (str "WWW-Authenticate") realm hs else hs
  let hs := if isJSON && !(hs.any (fun kv => kv.1 == ctKey)) then mapSet ctKey jsonType hs else hs
  { status := o.status, msg := [], headers := hs, body := o.body }

def wireResp (c : ChildResp) : ChildResp :=
  { c with msg := sanitize c.msg, headers := jsonMap sanitize c.headers, body := sanitize c.body }

/-- child.go `callChildServices` from `for k, v := range response.Headers` on, with `util.ErrorResponse` -/
def parentWrite (c : ChildResp) : Http :=
  let h := c.headers.foldl (fun h kv => hSet h (canon kv.1) kv.2) (fun _ => [])
  if c.status ≥ 400 && c.body.isEmpty then
    let st := if c.status < 100 || c.status ≥ 600 then 500 else c.status
    { status := st, headers := hAdd (hAdd h ctKey jsonType) ctKey errType, body := [], errorDoc := some (st, c.msg) }
  else
    { status := c.status, headers := h, body := c.body, errorDoc := none }

def respChild (isJSON : Bool) (realm : Bytes) (o : SvcOut) : Http :=
  parentWrite (wireResp (childResp isJSON realm o))

end EgoVerif.C41
