/-
C41 — theorems over the re-encoding model (Model.lean).  Two halves:
  request : `C41_request_fields_survive`  (what a service observes in a child = what it observes in-process)
  response: `C41_response_fields_survive` (what the parent writes from the child's answer = the in-process response)
each for ALL inputs of a stated domain, with a proved counterexample for every class the domain excludes.
-/
import EgoVerif.C41.Model
namespace EgoVerif.C41

/-! ## strings through JSON -/

theorem sanitizeF_of_validF : ∀ (f : Nat) (s : Bytes), s.length ≤ f → validF f s = true → sanitizeF f s = s := by
  intro f
  induction f with
  | zero =>
    intro s hl _
    cases s with
    | nil => simp [sanitizeF]
    | cons b r => simp at hl
  | succ f ih =>
    intro s hl hv
    cases s with
    | nil => simp [sanitizeF]
    | cons b r =>
      by_cases h0 : runeLen (b :: r) = 0
      · simp [validF, h0] at hv
      · simp only [validF, h0, if_false] at hv
        simp only [sanitizeF, h0, if_false]
        have hlen : ((b :: r).drop (runeLen (b :: r))).length ≤ f := by
          simp only [List.length_drop, List.length_cons] at *
          omega
        rw [ih _ hlen hv, List.take_append_drop]

/-- A string that is valid UTF-8 survives the JSON transport byte for byte. -/
theorem C41_string_survives (s : Bytes) (h : valid s = true) : sanitize s = s :=
  sanitizeF_of_validF s.length s (Nat.le_refl _) h

/-- …and one that is not does not: the single byte FF (and the PNG signature) come back as U+FFFD. -/
theorem C41_string_counterexample :
    valid [0xFF] = false ∧ sanitize [0xFF] = [0xEF, 0xBF, 0xBD] ∧
    sanitize [0x89, 0x50, 0x4E, 0x47] = [0xEF, 0xBF, 0xBD, 0x50, 0x4E, 0x47] := by decide

example : valid [0xC3, 0xA9, 0xE2, 0x98, 0x83, 0xF0, 0x9D, 0x84, 0x9E, 0x41] = true ∧ valid [0xED, 0xA0, 0x80] = false ∧ valid [0xC0, 0x80] = false ∧
    valid [0xF4, 0x90, 0x80, 0x80] = false ∧ valid [0xF4, 0x8F, 0xBF, 0xBF] = true := by decide

/-! ## maps through JSON -/

theorem insertLast_notin {α} (k : Bytes) (v : α) (m : SMap α) (h : ∀ kv ∈ m, kv.1 ≠ k) :
    insertLast k v m = m ++ [(k, v)] := by
  induction m with
  | nil => rfl
  | cons x m ih =>
    have hx : x.1 ≠ k := h x (by simp)
    obtain ⟨k', v'⟩ := x
    simp only [insertLast, List.cons_append]
    rw [if_neg hx, ih (fun kv hkv => h kv (by simp [hkv]))]

theorem foldl_insertLast {α} (f : α → α) (m : SMap α) :
    ∀ acc : SMap α, (∀ kv ∈ m, sanitize kv.1 = kv.1 ∧ f kv.2 = kv.2) → (m.map (·.1)).Nodup →
      (∀ a ∈ acc, ∀ b ∈ m, a.1 ≠ b.1) →
      m.foldl (fun acc kv => insertLast (sanitize kv.1) (f kv.2) acc) acc = acc ++ m := by
  induction m with
  | nil => intro acc _ _ _; simp
  | cons x m ih =>
    intro acc hv hn hd
    simp only [List.foldl_cons]
    have hx := hv x (by simp)
    rw [hx.1, hx.2, insertLast_notin x.1 x.2 acc (fun a ha => hd a ha x (by simp))]
    simp only [List.map_cons, List.nodup_cons] at hn
    rw [ih (acc ++ [x]) (fun kv hkv => hv kv (by simp [hkv])) hn.2]
    · simp
    · intro a ha b hb
      rcases List.mem_append.mp ha with h | h
      · exact hd a h b (by simp [hb])
      · simp at h
        subst h
        intro he
        exact hn.1 (by rw [he]; exact List.mem_map_of_mem hb)

/-- A Go map whose keys are valid UTF-8 (hence distinct after the transport) and whose values survive,
survives the JSON transport entry for entry. -/
theorem C41_map_survives {α} (f : α → α) (m : SMap α) (hk : ∀ kv ∈ m, valid kv.1 = true)
    (hf : ∀ kv ∈ m, f kv.2 = kv.2) (hn : (m.map (·.1)).Nodup) : jsonMap f m = m := by
  unfold jsonMap
  rw [foldl_insertLast f m [] (fun kv h => ⟨C41_string_survives _ (hk kv h), hf kv h⟩) hn (by simp)]
  simp

/-- …and two keys that are not valid UTF-8 can collapse into one entry (query `?%FE=1&%FF=2`). -/
theorem C41_map_counterexample :
    jsonMap jsonList [([0xFE], [[0x31]]), ([0xFF], [[0x32]])] = [([0xEF, 0xBF, 0xBD], [[0x32]])] := by decide

/-! ## the request -/

@[reducible] def validL (l : List Bytes) : Prop := ∀ x ∈ l, valid x = true

@[reducible] def validMap (m : SMap (List Bytes)) : Prop :=
  (∀ kv ∈ m, valid kv.1 = true ∧ validL kv.2) ∧ (m.map (·.1)).Nodup

def validPart : Part → Prop
  | .b _ => True
  | .s v => valid v = true

instance (p : Part) : Decidable (validPart p) := by
  cases p <;> simp only [validPart] <;> infer_instance

/-- the domain of the request theorem: every string of the request is valid UTF-8 (map keys distinct, as in
any Go map), and the session's parameters are the URL's query, as `router.ServeHTTP` sets them -/
structure ReqOK (s : Session) (r : Request) : Prop where
  params : s.parameters = r.query
  user : valid s.user = true
  path : valid s.path = true
  method : valid r.method = true
  url : valid r.url = true
  body : valid r.body = true
  perms : validL s.permissions
  query : validMap r.query
  headers : validMap r.headers
  parts : (∀ kv ∈ s.urlParts, valid kv.1 = true ∧ validPart kv.2) ∧ (s.urlParts.map (·.1)).Nodup

theorem jsonList_id (l : List Bytes) (h : validL l) : jsonList l = l := by
  unfold jsonList
  induction l with
  | nil => rfl
  | cons x l ih =>
    simp only [List.map_cons]
    rw [C41_string_survives x (h x (by simp)), ih (fun y hy => h y (by simp [hy]))]

theorem jsonMap_lists (m : SMap (List Bytes)) (h : validMap m) : jsonMap jsonList m = m :=
  C41_map_survives jsonList m (fun kv hkv => (h.1 kv hkv).1) (fun kv hkv => jsonList_id _ (h.1 kv hkv).2) h.2

theorem wirePart_id (p : Part) (h : validPart p) : wirePart p = p := by
  cases p with
  | b v => rfl
  | s v => simp only [wirePart]; rw [C41_string_survives v h]

theorem validMap_filter (m : SMap (List Bytes)) (p : Bytes × List Bytes → Bool) (h : validMap m) :
    validMap (m.filter p) :=
  ⟨fun kv hkv => h.1 kv (List.mem_filter.mp hkv).1,
   List.Nodup.sublist (List.Sublist.map _ List.filter_sublist) h.2⟩

theorem acceptsJSONHeader_filter (hs : SMap (List Bytes)) :
    acceptsJSONHeader (hs.filter (fun h => nonSensitive h.1)) = acceptsJSONHeader hs := by
  simp only [acceptsJSONHeader, List.any_filter]
  congr 1
  funext h
  cases nonSensitive h.1 <;> simp

/-- the request document is unchanged by the transport -/
theorem wireReq_id (s : Session) (r : Request) (h : ReqOK s r) : wireReq (encodeReq s r) = encodeReq s r := by
  simp only [wireReq, encodeReq]
  rw [C41_string_survives _ h.user, C41_string_survives _ h.method, C41_string_survives _ h.path,
      C41_string_survives _ h.url, C41_string_survives _ h.body, jsonList_id _ h.perms,
      jsonMap_lists _ (validMap_filter _ _ h.headers), jsonMap_lists _ (h.params ▸ h.query),
      C41_map_survives wirePart _ (fun kv hkv => (h.parts.1 kv hkv).1)
        (fun kv hkv => wirePart_id _ (h.parts.1 kv hkv).2) h.parts.2]

/-- MAIN (request half): for every session and request in the domain, the Ego `Request` value and the request
symbols a service observes in a child process equal what it observes in-process — method, URL, endpoint, user,
body, admin/JSON/text/authenticated flags, authentication kind, session id, every (non-sensitive) header with all
its values, every parameter, every URL part with its type, permissions, URL-part symbols, `_user`, `_method`,
`_session`, and the handler's JSON-reply decision. -/
theorem C41_request_fields_survive (s : Session) (r : Request) (h : ReqOK s r) :
    viewChild (wireReq (encodeReq s r)) = viewInproc s r := by
  rw [wireReq_id s r h]
  simp only [viewChild, viewInproc, encodeReq, List.filter_filter, Bool.and_self, acceptsJSONHeader_filter, h.params]

/-- outside the domain the request is altered: a body that is not UTF-8 reaches the child service changed
(and longer), and a percent-encoded non-UTF-8 URL variable changes too -/
theorem C41_request_counterexample :
    let s : Session := { id := 1, path := [0x2F], user := [], token := [], authenticated := false, admin := false,
                         acceptsJSON := false, acceptsText := false, parameters := [], urlParts := [([0x6E], .s [0xFF])],
                         permissions := [] }
    let r : Request := { method := [0x50], url := [0x2F], query := [], headers := [], body := [0x61, 0xFF, 0x62] }
    (viewChild (wireReq (encodeReq s r))).body = [0x61, 0xEF, 0xBF, 0xBD, 0x62] ∧ (viewInproc s r).body = [0x61, 0xFF, 0x62] ∧
    (viewChild (wireReq (encodeReq s r))).parts ≠ (viewInproc s r).parts := by decide +kernel

/-- the domain is inhabited by a non-trivial request (typed parts, repeated header values, a sensitive header) -/
example : ∃ s r, ReqOK s r ∧ (viewInproc s r).parts = [([0x61], .b true), ([0x6E], .s [0x74])] ∧
    (viewInproc s r).headers = [([0x58, 0x2D, 0x54], [[0x31], [0x32]])] :=
  ⟨{ id := 7, path := [0x2F, 0x61], user := [0x6A], token := [0x74], authenticated := true, admin := false,
     acceptsJSON := true, acceptsText := false, parameters := [([0x71], [[0x31], [0x32]])],
     urlParts := [([0x61], .b true), ([0x6E], .s [0x74])], permissions := [[0x70]] },
   { method := [0x47], url := [0x2F, 0x61], query := [([0x71], [[0x31], [0x32]])],
     headers := [([0x43, 0x6F, 0x6F, 0x6B, 0x69, 0x65], [[0x73]]), ([0x58, 0x2D, 0x54], [[0x31], [0x32]])], body := [0x7B, 0x7D] },
   by
     refine ⟨⟨rfl, by decide +kernel, by decide +kernel, by decide +kernel, by decide +kernel, by decide +kernel, by decide +kernel, ?_, ?_, ?_⟩, by decide +kernel, by decide +kernel⟩
     · exact ⟨by decide +kernel, by decide +kernel⟩
     · exact ⟨by decide +kernel, by decide +kernel⟩
     · exact ⟨by decide +kernel, by decide +kernel⟩⟩

/-! ## the response -/

/-- the header map as one value per name -/
def heads (hs : SMap (List Bytes)) : SMap Bytes := hs.map fun kv => (kv.1, join kv.2)

def look (x : Bytes) : SMap Bytes → Option Bytes
  | [] => none
  | (k, v) :: m => if x = k then some v else look x m

theorem look_none (x : Bytes) (m : SMap Bytes) (h : x ∉ m.map (·.1)) : look x m = none := by
  induction m with
  | nil => rfl
  | cons kv m ih =>
    obtain ⟨k, v⟩ := kv
    simp only [List.map_cons, List.mem_cons, not_or] at h
    simp only [look, if_neg h.1]
    exact ih h.2

theorem look_append (x : Bytes) (m n : SMap Bytes) :
    look x (m ++ n) = match look x m with | some v => some v | none => look x n := by
  induction m with
  | nil => rfl
  | cons kv m ih =>
    obtain ⟨k, v⟩ := kv
    by_cases hx : x = k
    · simp [look, hx]
    · simp only [List.cons_append, look, if_neg hx]; exact ih

/-- `for k, v := range m { h.Set(k, v) }` over distinct keys is a lookup -/
theorem foldl_hSet (m : SMap Bytes) : ∀ (h : HMap) (x : Bytes), (m.map (·.1)).Nodup →
    (m.foldl (fun h kv => hSet h kv.1 kv.2) h) x = match look x m with | some v => [v] | none => h x := by
  induction m with
  | nil => intro h x _; rfl
  | cons kv m ih =>
    intro h x hn
    obtain ⟨k, v⟩ := kv
    simp only [List.map_cons, List.nodup_cons] at hn
    simp only [List.foldl_cons, look]
    rw [ih _ x hn.2]
    by_cases hx : x = k
    · subst hx
      rw [look_none x m hn.1]
      simp [hSet]
    · simp [hSet, hx]

theorem mapSet_notin {α} (k : Bytes) (v : α) (m : SMap α) (h : k ∉ m.map (·.1)) : mapSet k v m = m ++ [(k, v)] := by
  induction m with
  | nil => rfl
  | cons x m ih =>
    obtain ⟨k', v'⟩ := x
    simp only [List.map_cons, List.mem_cons, not_or] at h
    simp only [mapSet, List.cons_append]
    rw [if_neg (fun e => h.1 e.symm), ih h.2]

/-- `getHeadersFromResponse` over canonical, distinct names lists the map -/
theorem foldl_mapSet (hs : SMap (List Bytes)) : ∀ acc : SMap Bytes,
    (∀ kv ∈ hs, canon kv.1 = kv.1) → (hs.map (·.1)).Nodup → (∀ kv ∈ hs, kv.1 ∉ acc.map (·.1)) →
    hs.foldl (fun m kv => mapSet (canon kv.1) (join kv.2) m) acc = acc ++ heads hs := by
  induction hs with
  | nil => intro acc _ _ _; simp [heads]
  | cons x hs ih =>
    intro acc hc hn hd
    simp only [List.map_cons, List.nodup_cons] at hn
    simp only [List.foldl_cons]
    rw [hc x (by simp), mapSet_notin _ _ _ (hd x (by simp))]
    rw [ih _ (fun kv h => hc kv (by simp [h])) hn.2]
    · simp [heads]
    · intro kv hkv
      simp only [List.map_append, List.map_cons, List.map_nil, List.mem_append, List.mem_singleton, not_or]
      refine ⟨hd kv (by simp [hkv]), ?_⟩
      intro e
      exact hn.1 (e ▸ List.mem_map_of_mem hkv)

/-- service.go's `Del` + `Add` per value is a `Set` when the name is canonical and has one value -/
theorem foldl_inproc (hs : SMap (List Bytes)) : ∀ h : HMap,
    (∀ kv ∈ hs, canon kv.1 = kv.1) → (∀ kv ∈ hs, ∃ v, kv.2 = [v]) →
    hs.foldl (fun h kv => kv.2.foldl (fun h v => hAdd h (canon kv.1) v) (hDel h (canon kv.1))) h =
    (heads hs).foldl (fun h kv => hSet h kv.1 kv.2) h := by
  induction hs with
  | nil => intro h _ _; rfl
  | cons x hs ih =>
    intro h hc hs1
    obtain ⟨v, hv⟩ := hs1 x (by simp)
    simp only [List.foldl_cons, heads, List.map_cons]
    rw [hc x (by simp), hv]
    have e : (List.foldl (fun h v => hAdd h x.1 v) (hDel h x.1) [v]) = hSet h x.1 (join [v]) := by
      funext y
      simp only [List.foldl_cons, List.foldl_nil, hAdd, hDel, hSet, join]
      by_cases hy : y = x.1 <;> simp [hy]
    rw [e]
    exact ih _ (fun kv hk => hc kv (by simp [hk])) (fun kv hk => hs1 kv (by simp [hk]))

/-- the domain of the response theorem: the handler returned normally, every header has ONE value, header names are
canonical (`Content-Type`, `X-Trace`) and distinct, names, values and body are valid UTF-8, the status is not 401 and
an error status comes with a body -/
structure RespOK (o : SvcOut) : Prop where
  single : ∀ kv ∈ o.headers, ∃ v, kv.2 = [v]
  canonical : ∀ kv ∈ o.headers, canon kv.1 = kv.1
  distinct : (o.headers.map (·.1)).Nodup
  validH : ∀ kv ∈ o.headers, valid kv.1 = true ∧ valid (join kv.2) = true
  body : valid o.body = true
  not401 : o.status ≠ 401
  errBody : o.status < 400 ∨ o.body ≠ []

theorem heads_keys (hs : SMap (List Bytes)) : (heads hs).map (·.1) = hs.map (·.1) := by
  simp [heads, List.map_map, Function.comp_def]

theorem ctKey_valid : valid ctKey = true ∧ valid jsonType = true ∧ canon ctKey = ctKey := by decide +kernel

theorem any_ct (m : SMap Bytes) : (m.any fun kv => kv.1 == ctKey) = true ↔ ctKey ∈ m.map (·.1) := by
  simp [List.any_eq_true]

theorem look_isSome (x : Bytes) (m : SMap Bytes) (h : x ∈ m.map (·.1)) : look x m ≠ none := by
  induction m with
  | nil => simp at h
  | cons kv m ih =>
    obtain ⟨k, v⟩ := kv
    simp only [look]
    by_cases e : x = k
    · simp [e]
    · simp only [if_neg e]
      simp only [List.map_cons, List.mem_cons] at h
      rcases h with h | h
      · exact absurd h e
      · exact ih h

theorem foldl_congr_mem {α β} (f g : β → α → β) (l : List α) :
    (∀ b, ∀ a ∈ l, f b a = g b a) → ∀ b, l.foldl f b = l.foldl g b := by
  induction l with
  | nil => intro _ b; rfl
  | cons a l ih =>
    intro h b
    simp only [List.foldl_cons]
    rw [h b a (by simp)]
    exact ih (fun b a ha => h b a (by simp [ha])) _

/-- MAIN (response half): for every handler outcome in the domain and either value of the JSON-reply flag, the HTTP
response the parent writes from the child's answer — status, every header, body — is the in-process response. -/
theorem C41_response_fields_survive (isJSON : Bool) (realm : Bytes) (o : SvcOut) (h : RespOK o) :
    respChild isJSON realm o = respInproc isJSON o := by
  have hk : (heads o.headers).map (·.1) = o.headers.map (·.1) := heads_keys _
  have hnd : ((heads o.headers).map (·.1)).Nodup := hk ▸ h.distinct
  have hcanon : ∀ kv ∈ heads o.headers, canon kv.1 = kv.1 := by
    intro kv hkv
    simp only [heads, List.mem_map] at hkv
    obtain ⟨a, ha, rfl⟩ := hkv
    exact h.canonical a ha
  have hval : ∀ kv ∈ heads o.headers, valid kv.1 = true ∧ valid kv.2 = true := by
    intro kv hkv
    simp only [heads, List.mem_map] at hkv
    obtain ⟨a, ha, rfl⟩ := hkv
    exact h.validH a ha
  -- the child's header map
  have hc0 : o.headers.foldl (fun m kv => mapSet (canon kv.1) (join kv.2) m) [] = heads o.headers := by
    rw [foldl_mapSet o.headers [] h.canonical h.distinct (by simp)]; simp
  -- the parent's loop over any canonical, distinct map is a lookup
  have hparent : ∀ m : SMap Bytes, (∀ kv ∈ m, canon kv.1 = kv.1) → (m.map (·.1)).Nodup → ∀ x,
      (m.foldl (fun h kv => hSet h (canon kv.1) kv.2) (fun _ => [])) x =
        match look x m with | some v => [v] | none => [] := by
    intro m hc hn x
    have : m.foldl (fun h kv => hSet h (canon kv.1) kv.2) (fun _ => []) =
        m.foldl (fun h kv => hSet h kv.1 kv.2) (fun _ => []) := by
      apply foldl_congr_mem
      intro hh kv hkv
      rw [hc kv hkv]
    rw [this, foldl_hSet m _ x hn]
  simp only [respChild, respInproc, childResp, hc0, if_neg h.not401]
  by_cases hj : isJSON = true
  · by_cases hct : ctKey ∈ o.headers.map (·.1)
    · -- the service set Content-Type itself: no default is added
      have hany : ((heads o.headers).any fun kv => kv.1 == ctKey) = true := (any_ct _).mpr (hk ▸ hct)
      simp only [hj, hany, Bool.not_true, Bool.and_false, if_false, Bool.false_eq_true]
      simp only [wireResp]
      rw [C41_map_survives sanitize _ (fun kv hkv => (hval kv hkv).1)
            (fun kv hkv => C41_string_survives _ (hval kv hkv).2) hnd, C41_string_survives _ h.body]
      have hne : ¬ (o.status ≥ 400 ∧ o.body.isEmpty = true) := by
        rintro ⟨h1, h2⟩
        rcases h.errBody with h3 | h3
        · omega
        · exact h3 (List.isEmpty_iff.mp h2)
      simp only [parentWrite]
      rw [if_neg (by simpa using hne)]
      congr 1
      funext x
      rw [hparent _ hcanon hnd x, foldl_inproc o.headers _ h.canonical h.single, foldl_hSet _ _ x hnd]
      cases hl : look x (heads o.headers) with
      | some v => rfl
      | none =>
        have : x ≠ ctKey := by
          intro e
          subst e
          exact look_isSome _ _ (hk ▸ hct) hl
        simp [hAdd, this]
    · -- the default Content-Type: appended by the child, pre-set in-process
      have hany : ((heads o.headers).any fun kv => kv.1 == ctKey) = false := by
        cases hb : (heads o.headers).any fun kv => kv.1 == ctKey with
        | false => rfl
        | true => exact absurd (hk ▸ (any_ct _).mp hb) hct
      simp only [hj, hany, Bool.not_false, Bool.and_true, if_true]
      rw [mapSet_notin _ _ _ (hk ▸ hct)]
      have hnd' : (((heads o.headers) ++ [(ctKey, jsonType)]).map (·.1)).Nodup := by
        simp only [List.map_append, List.map_cons, List.map_nil]
        exact List.nodup_append.mpr ⟨hnd, by simp, by
          intro a ha b hb
          simp at hb
          subst hb
          intro e
          exact hct (hk ▸ e ▸ ha)⟩
      have hcanon' : ∀ kv ∈ heads o.headers ++ [(ctKey, jsonType)], canon kv.1 = kv.1 := by
        intro kv hkv
        rcases List.mem_append.mp hkv with h1 | h1
        · exact hcanon kv h1
        · simp at h1; subst h1; exact ctKey_valid.2.2
      have hval' : ∀ kv ∈ heads o.headers ++ [(ctKey, jsonType)], valid kv.1 = true ∧ valid kv.2 = true := by
        intro kv hkv
        rcases List.mem_append.mp hkv with h1 | h1
        · exact hval kv h1
        · simp at h1; subst h1; exact ⟨ctKey_valid.1, ctKey_valid.2.1⟩
      simp only [wireResp]
      rw [C41_map_survives sanitize _ (fun kv hkv => (hval' kv hkv).1)
            (fun kv hkv => C41_string_survives _ (hval' kv hkv).2) hnd', C41_string_survives _ h.body]
      have hne : ¬ (o.status ≥ 400 ∧ o.body.isEmpty = true) := by
        rintro ⟨h1, h2⟩
        rcases h.errBody with h3 | h3
        · omega
        · exact h3 (List.isEmpty_iff.mp h2)
      simp only [parentWrite]
      rw [if_neg (by simpa using hne)]
      congr 1
      funext x
      rw [hparent _ hcanon' hnd' x, foldl_inproc o.headers _ h.canonical h.single, foldl_hSet _ _ x hnd, look_append]
      cases hl : look x (heads o.headers) with
      | some v => rfl
      | none =>
        by_cases e : x = ctKey
        · simp [look, hAdd, e]
        · simp [look, hAdd, e]
  · simp only [Bool.not_eq_true] at hj
    simp only [hj, Bool.false_and, if_false, Bool.false_eq_true]
    simp only [wireResp]
    rw [C41_map_survives sanitize _ (fun kv hkv => (hval kv hkv).1)
          (fun kv hkv => C41_string_survives _ (hval kv hkv).2) hnd, C41_string_survives _ h.body]
    have hne : ¬ (o.status ≥ 400 ∧ o.body.isEmpty = true) := by
      rintro ⟨h1, h2⟩
      rcases h.errBody with h3 | h3
      · omega
      · exact h3 (List.isEmpty_iff.mp h2)
    simp only [parentWrite]
    rw [if_neg (by simpa using hne)]
    congr 1
    funext x
    rw [hparent _ hcanon hnd x, foldl_inproc o.headers _ h.canonical h.single, foldl_hSet _ _ x hnd]

/-! ### outside the domain the responses differ (each class is a recorded finding) -/

/-- two values of one header are folded into one comma-joined value -/
theorem C41_response_multivalue_counterexample :
    let o : SvcOut := { status := 200, headers := [(str "Set-Cookie", [str "a=1", str "b=2"])], body := str "h" }
    (respInproc false o).headers (str "Set-Cookie") = [str "a=1", str "b=2"] ∧
    (respChild false [] o).headers (str "Set-Cookie") = [str "a=1, b=2"] := by decide +kernel

/-- an error status without a body: empty in-process, an ErrorResponse document through the child -/
theorem C41_response_emptybody_counterexample :
    let o : SvcOut := { status := 404, headers := [], body := [] }
    (respInproc false o).errorDoc = none ∧ (respInproc false o).headers ctKey = [] ∧
    (respChild false [] o).errorDoc = some (404, []) ∧ (respChild false [] o).headers ctKey = [jsonType, errType] ∧
    (respChild false [] { o with status := 600 }).status = 500 ∧ (respInproc false { o with status := 600 }).status = 600 := by
  decide +kernel

/-- 401: only the child adds the realm header -/
theorem C41_response_401_counterexample :
    let o : SvcOut := { status := 401, headers := [], body := str "no" }
    (respInproc false o).headers authKey = [] ∧ (respChild false (str "Basic") o).headers authKey = [str "Basic"] := by
  decide +kernel

/-- a body that is not UTF-8 (the PNG signature) is altered -/
theorem C41_response_body_counterexample :
    let o : SvcOut := { status := 200, headers := [], body := [0x89, 0x50, 0x4E, 0x47] }
    (respInproc false o).body = [0x89, 0x50, 0x4E, 0x47] ∧ (respChild false [] o).body = [0xEF, 0xBF, 0xBD, 0x50, 0x4E, 0x47] := by
  decide +kernel

/-- the domain of the response theorem is inhabited by a non-trivial outcome (two headers, JSON default type) -/
example : RespOK { status := 201, headers := [(str "Location", [str "/x"]), (str "X-One", [str "1"])], body := str "ok" } := by
  refine ⟨?_, ?_, by decide +kernel, ?_, by decide +kernel, by decide, Or.inl (by decide)⟩
  · intro kv h
    simp only [List.mem_cons, List.not_mem_nil, or_false] at h
    rcases h with rfl | rfl <;> exact ⟨_, rfl⟩
  · intro kv h
    simp only [List.mem_cons, List.not_mem_nil, or_false] at h
    rcases h with rfl | rfl <;> decide +kernel
  · intro kv h
    simp only [List.mem_cons, List.not_mem_nil, or_false] at h
    rcases h with rfl | rfl <;> decide +kernel

example : (respChild true [] { status := 201, headers := [(str "X-One", [str "1"])], body := str "ok" }).headers ctKey = [jsonType] := by
  decide +kernel

/-! ### the JSON-reply decision and the whole exchange -/

/-- the JSON-reply decision looks at EVERY value of every header named Accept (any letter case): it holds exactly
when some value of such a header contains "application/json" — on whichever header line it was sent -/
theorem C41_json_reply_scans_all_values (hs : SMap (List Bytes)) :
    acceptsJSONHeader hs = true ↔
      ∃ kv ∈ hs, kv.1.map lower = str "accept" ∧ ∃ v ∈ kv.2, hasSub (str "application/json") v = true := by
  simp only [acceptsJSONHeader, List.any_eq_true, Bool.and_eq_true, beq_iff_eq]
  constructor
  · rintro ⟨kv, hkv, ⟨_, hn⟩, hv⟩
    exact ⟨kv, hkv, hn, hv⟩
  · rintro ⟨kv, hkv, hn, hv⟩
    refine ⟨kv, hkv, ⟨?_, hn⟩, hv⟩
    simp only [nonSensitive, hn]
    decide +kernel

/-- "application/json" on a LATER Accept line (after `text/plain`, with q-values) decides a JSON reply on both sides;
a first-line-only reading (`http.Header.Get`) would answer false -/
theorem C41_json_reply_later_line :
    let hs : SMap (List Bytes) := [(str "Accept", [str "text/plain;q=0.5", str "application/xml;q=0.4", str "application/json;q=0.9"])]
    let s : Session := { id := 1, path := [0x2F], user := [], token := [], authenticated := false, admin := false,
                         acceptsJSON := true, acceptsText := true, parameters := [], urlParts := [], permissions := [] }
    let r : Request := { method := [0x47], url := [0x2F], query := [], headers := hs, body := [] }
    (viewInproc s r).jsonReply = true ∧ (viewChild (wireReq (encodeReq s r))).jsonReply = true ∧
    hasSub (str "application/json") (str "text/plain;q=0.5") = false ∧
    acceptsJSONHeader [(str "Accept", [str "text/plain", str "text/html;q=0.8"])] = false ∧
    acceptsJSONHeader [(str "accept", [str "a"]), (str "Cookie", [str "application/json"]), (str "ACCEPT", [str "b", str "application/json"])] = true := by
  decide +kernel

/-- MAIN (whole exchange): for every session and request in the request domain and every handler outcome in the
response domain, the HTTP response produced through the child — with the JSON-reply decision taken BY THE CHILD from the
headers it received over the wire — is the in-process response with the decision taken from the original request. -/
theorem C41_exchange_survives (s : Session) (r : Request) (h : ReqOK s r) (realm : Bytes) (o : SvcOut) (ho : RespOK o) :
    respChild (viewChild (wireReq (encodeReq s r))).jsonReply realm o = respInproc (viewInproc s r).jsonReply o := by
  rw [C41_request_fields_survive s r h]
  exact C41_response_fields_survive _ realm o ho

end EgoVerif.C41
