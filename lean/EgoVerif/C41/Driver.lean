import EgoVerif.Common.Drv
import EgoVerif.C41.Model
/- line protocol (strings are hex, "-" = empty; lists "a,b" or "~"; maps "k=list;k=list" or "~", sorted by key;
   URL parts "k=b0" | "k=b1" | "k=s<hex>"):
   `san <hex>` → `<hex of sanitize>`
   `req <sid> <method> <url> <pattern> <user> <token> <auth admin json text> <query> <parts> <headers> <perms> <body>`
      → the request document after the wire: `<sid> <method> <url> <path> <user> <auth admin bearer json text> <params> <parts> <headers> <perms> <body>`
   `resp <request headers> <status|0> <_headers> <body> <realm header value>` → `<in-process http> | <child http>`,
      http = `<status> <headers> <body hex | err:<status>:<msg hex>>`; the JSON-reply decision of each side is the
      model's (`viewInproc` on the request headers as received, multi-valued; `viewChild` on the headers after
      `encodeReq` and the wire), not an input -/
namespace EgoVerif.C41

def hx (b : Bytes) : String := if b.isEmpty then "-" else hexOfBytes b

def unhx (s : String) : Option Bytes := if s == "-" then some [] else bytesOfHex s

def parseList (s : String) : Option (List Bytes) :=
  if s == "~" then some [] else (s.splitOn ",").mapM unhx

def parseKV {α} (f : String → Option α) (s : String) : Option (SMap α) :=
  if s == "~" then some [] else
  (s.splitOn ";").mapM fun kv =>
    match kv.splitOn "=" with
    | [k, v] => do let k ← unhx k; let v ← f v; pure (k, v)
    | _ => none

def parsePart (s : String) : Option Part :=
  if s == "b0" then some (.b false) else if s == "b1" then some (.b true)
  else if s.startsWith "s" then (unhx (String.ofList (s.toList.drop 1))).map Part.s else none

def bytesLt : Bytes → Bytes → Bool
  | [], [] => false
  | [], _ :: _ => true
  | _ :: _, [] => false
  | a :: as, b :: bs => a < b || (a == b && bytesLt as bs)

def insertSorted {α} (kv : Bytes × α) : SMap α → SMap α
  | [] => [kv]
  | x :: m => if bytesLt kv.1 x.1 then kv :: x :: m else x :: insertSorted kv m

def sortMap {α} (m : SMap α) : SMap α := m.foldl (fun acc kv => insertSorted kv acc) []

def showList (l : List Bytes) : String := if l.isEmpty then "~" else ",".intercalate (l.map hx)

def showKV {α} (f : α → String) (m : SMap α) : String :=
  if m.isEmpty then "~" else ";".intercalate ((sortMap m).map fun kv => hx kv.1 ++ "=" ++ f kv.2)

def showPart : Part → String
  | .b false => "b0"
  | .b true => "b1"
  | .s v => "s" ++ hx v

def bit (b : Bool) : String := if b then "1" else "0"

def showReq (c : ChildReq) : String :=
  " ".intercalate [toString c.session, hx c.method, hx c.url, hx c.path, hx c.user,
    bit c.authenticated ++ bit c.admin ++ bit c.bearer ++ bit c.json ++ bit c.text,
    showKV showList c.parameters, showKV showPart c.urlParts, showKV showList c.headers,
    showList c.permissions, hx c.body]

def dedup : List Bytes → List Bytes
  | [] => []
  | k :: ks => k :: (dedup ks).filter (· ≠ k)

def showHttp (keys : List Bytes) (r : Http) : String :=
  let ks := dedup (keys.map canon ++ [ctKey, authKey])
  let hs : SMap (List Bytes) := (ks.map fun k => (k, r.headers k)).filter fun kv => !kv.2.isEmpty
  let body := match r.errorDoc with
    | some (st, msg) => "err:" ++ toString st ++ ":" ++ hx msg
    | none => hx r.body
  toString r.status ++ " " ++ showKV showList hs ++ " " ++ body

def flag (s : String) (i : Nat) : Bool := (s.toList.getD i '0') == '1'

def handle (line : String) : String :=
  match fields line with
  | ["san", h] =>
    match unhx h with
    | some b => hx (sanitize b)
    | none => "bad-input"
  | ["req", sid, m, u, pat, user, tok, fl, qs, parts, hdrs, perms, body] =>
    match sid.toNat?, unhx m, unhx u, unhx pat, unhx user, unhx tok, parseKV parseList qs, parseKV parsePart parts,
          parseKV parseList hdrs, parseList perms, unhx body with
    | some sid, some m, some u, some pat, some user, some tok, some qs, some parts, some hdrs, some perms, some body =>
      let s : Session := { id := sid, path := pat, user := user, token := tok, authenticated := flag fl 0, admin := flag fl 1,
                           acceptsJSON := flag fl 2, acceptsText := flag fl 3, parameters := qs, urlParts := parts,
                           permissions := perms }
      let r : Request := { method := m, url := u, query := qs, headers := hdrs, body := body }
      showReq (wireReq (encodeReq s r))
    | _, _, _, _, _, _, _, _, _, _, _ => "bad-input"
  | ["resp", rh, st, hdrs, body, realm] =>
    match parseKV parseList rh, st.toNat?, parseKV parseList hdrs, unhx body, unhx realm with
    | some rh, some st, some hdrs, some body, some realm =>
      let o : SvcOut := { status := if st = 0 then 200 else st, headers := hdrs, body := body }
      let keys := hdrs.map (·.1)
      -- only the headers take part in the decision; the other request fields are irrelevant to it
      let s : Session := { id := 0, path := [], user := [], token := [], authenticated := false, admin := false,
                           acceptsJSON := false, acceptsText := false, parameters := [], urlParts := [], permissions := [] }
      let r : Request := { method := [], url := [], query := [], headers := rh, body := [] }
      let jIn := (viewInproc s r).jsonReply
      let jCh := (viewChild (wireReq (encodeReq s r))).jsonReply
      showHttp keys (respInproc jIn o) ++ " | " ++ showHttp keys (respChild jCh realm o)
    | _, _, _, _, _ => "bad-input"
  | _ => "bad-op"

def drv : Drv := Drv.pure handle

end EgoVerif.C41
