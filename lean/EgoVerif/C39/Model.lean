/-
C39 — model of the static-asset handler (internal/server/assets/handler.go), core Lean only.

Mirrored Go functions (names in the comments of each definition):
  AssetsHandler     → `handle`        (path checks, Range header parsing, sanity check, response arithmetic)
  Loader            → `loader`        (cache path for the default range, readAssetRange otherwise)
  readAssetRange    → `readAssetRange`(Stat, clamp, make([]byte,size), ReadAt, data[:count])
  normalizeAssetPath→ `normalize`     (filepath.Join, filepath.Clean, the HasPrefix confinement test)
  strconv.ParseInt(s,10,64), strings.ReplaceAll(s,"bytes=",""), strings.Split(s,"-"),
  filepath.Clean / filepath.Join (Unix) are modelled functionally; each is tied to the real
  function by the correspondence harness (ops `pint`, `norm`, `req`).

Go's partial operations — indexing a slice, `make([]byte, n)`, re-slicing — are made explicit:
they return `Res.panic` exactly when the Go runtime would panic.  int64 arithmetic wraps
(`wrap64`).  The model takes a flag `fixed`: `true` is the code with fixes/C39.patch applied
(the tree the theorems are about), `false` is the code before the patch (used only for the
`C39_orig_*` counterexample theorems).  `smartRangeLoading` is the constant `true` (the harness
asserts it).
-/
namespace EgoVerif.C39

abbrev Bytes := List UInt8

def ofStr (s : String) : Bytes := s.toUTF8.toList

/-- result of a Go computation that may hit a runtime panic -/
inductive Res (α : Type) where
  | ok (a : α)
  | panic (what : String)
  deriving Repr

instance : Monad Res where
  pure := Res.ok
  bind x f := match x with
    | .ok a => f a
    | .panic w => .panic w

def Res.isPanic {α : Type} : Res α → Bool
  | .ok _ => false
  | .panic _ => true

/-! ### int64 -/

def maxInt64 : Int := 9223372036854775807
def two63 : Int := 9223372036854775808
def two64 : Int := 18446744073709551616

/-- two's-complement wrap of a mathematical integer into int64 (Go's `+`/`-` on int64) -/
def wrap64 (x : Int) : Int := (x + two63) % two64 - two63

def startOfData : Int := 0
def endOfData : Int := maxInt64

/-! ### Go slice primitives -/

/-- `s[i]` -/
def goIndex {α : Type} (s : List α) (i : Nat) : Res α :=
  match s[i]? with
  | some a => .ok a
  | none => .panic "index out of range"

/-- `make([]byte, n)` for an int64 `n`: panics when `n < 0` (or beyond the address space); the
    result is represented by its length -/
def goMake (n : Int) : Res Nat :=
  if n < 0 then .panic "makeslice: len out of range"
  else if n > 281474976710656 then .panic "makeslice: len out of range"   -- 2^48 = maxAlloc on linux/amd64
  else .ok n.toNat

/-- `data[:count]` with `len(data) = cap(data) = n` -/
def goSliceTo (data : Bytes) (n count : Nat) : Res Bytes :=
  if count ≤ n then .ok (data.take count) else .panic "slice bounds out of range"

/-! ### strings / strconv -/

def hasPrefix : Bytes → Bytes → Bool      -- strings.HasPrefix(s, p), arguments (p, s)
  | [], _ => true
  | _ :: _, [] => false
  | p :: ps, c :: cs => p == c && hasPrefix ps cs

def hasSuffix (suf s : Bytes) : Bool := hasPrefix suf.reverse s.reverse

/-- strings.Contains -/
def contains (pat : Bytes) : Bytes → Bool
  | [] => pat.isEmpty
  | c :: cs => hasPrefix pat (c :: cs) || contains pat cs

/-- `strings.ReplaceAll(s, pat, "")` for a non-empty `pat`: leftmost, non-overlapping.
    `skip` counts the bytes of a match still to be dropped. -/
def removeAux (pat : Bytes) : Nat → Bytes → Bytes
  | _, [] => []
  | skip + 1, _ :: cs => removeAux pat skip cs
  | 0, c :: cs => if hasPrefix pat (c :: cs) then removeAux pat (pat.length - 1) cs
                  else c :: removeAux pat 0 cs

def removeAll (pat s : Bytes) : Bytes := removeAux pat 0 s

/-- `strings.Split(s, sep)` for a one-byte separator (always at least one piece) -/
def splitOn (sep : UInt8) : Bytes → List Bytes
  | [] => [[]]
  | c :: cs =>
    if c == sep then [] :: splitOn sep cs
    else match splitOn sep cs with
      | h :: t => (c :: h) :: t
      | [] => [[c]]

def isDigit (c : UInt8) : Bool := 48 ≤ c.toNat && c.toNat ≤ 57

/-- value of a string of ASCII digits; `none` when a byte is not a digit -/
def digitsVal : Nat → Bytes → Option Nat
  | acc, [] => some acc
  | acc, c :: cs => if isDigit c then digitsVal (acc * 10 + (c.toNat - 48)) cs else none

/-- `strconv.ParseInt(s, 10, 64)`: `none` for every error (syntax or range) -/
def parseInt (s : Bytes) : Option Int :=
  match s with
  | [] => none
  | c :: cs =>
    let neg := c == 45
    let body := if c == 43 || c == 45 then cs else c :: cs
    match body with
    | [] => none
    | _ :: _ =>
      match digitsVal 0 body with
      | none => none
      | some n =>
        if neg then (if n ≤ 9223372036854775808 then some (-(n : Int)) else none)
        else (if n ≤ 9223372036854775807 then some (n : Int) else none)

/-- `fmt.Sprintf("%d", x)` -/
def decInt (x : Int) : Bytes := ofStr (toString x)

/-! ### Range header (AssetsHandler, first half) -/

structure Parsed where
  start : Int
  stop : Int          -- Go's `end`
  hasRange : Bool     -- Go's `hasRange != ""`
  deriving Repr, DecidableEq

def bytesEq : Bytes := [98, 121, 116, 101, 115, 61]      -- "bytes="
def dash : UInt8 := 45

/-- The `if h, found := r.Header["Range"]; …` block and the sanity check after it.
    `Except.error 400` = the handler answered 400. -/
def parseHeader (fixed : Bool) (h : Bytes) : Res (Except Nat Parsed) := do
  let text := removeAll bytesEq h
  let ranges := splitOn dash text
  if fixed && ranges.length < 2 then return .error 400          -- fixes/C39.patch
  -- if len(ranges) > 0 { start, err = ParseInt(ranges[0]) … }
  let r0 ← goIndex ranges 0
  match parseInt r0 with
  | none => return .error 400
  | some start =>
    -- if len(ranges) > 1 && ranges[1] != "" { … } else if ranges[1] == "" { … }
    let first ← (if ranges.length > 1 then do let r1 ← goIndex ranges 1; pure (!r1.isEmpty)
                 else pure false : Res Bool)
    if first then
      let r1 ← goIndex ranges 1
      match parseInt r1 with
      | none => return .error 400
      | some e => return .ok ⟨start, e, true⟩
    else
      let r1 ← goIndex ranges 1           -- evaluated unconditionally by the `else if`
      if r1.isEmpty then return .ok ⟨start, endOfData, true⟩
      else return .ok ⟨start, endOfData, false⟩

/-- header lookup + sanity check `start < 0 || (end != EndOfData && end < start)` -/
def parseRange (fixed : Bool) (hdr : Option Bytes) : Res (Except Nat Parsed) := do
  let p ← (match hdr with
    | none => pure (.ok ⟨startOfData, endOfData, false⟩)
    | some h => parseHeader fixed h : Res (Except Nat Parsed))
  match p with
  | .error s => return .error s
  | .ok p =>
    if p.start < 0 || (p.stop != endOfData && p.stop < p.start) then return .error 400
    else return .ok p

/-! ### file system node named by normalizeAssetPath(path), and external primitives -/

inductive Node where
  | missing                 -- Stat / ReadFile / Open fail
  | dir (size : Nat)        -- Stat and Open succeed, reads fail
  | file (b : Bytes)
  deriving Repr

/-- minification (javascript.Minify / MinifyCSS, or the identity) and mdToHTML: parameters -/
structure Prims where
  xform : Bytes → Bytes
  md : Bytes → Bytes

/-- `file.ReadAt(buf, off)` on a regular file: the bytes copied -/
def readAt (f : Bytes) (size off : Nat) : Bytes := (f.drop off).take size

/-- readAssetRange.  Result: `none` = error return, `some (data, totalSize)`. -/
def readAssetRange (fixed : Bool) (node : Node) (start stop : Int) : Res (Option (Bytes × Int)) :=
  match node with
  | .missing => pure none
  | .dir sz =>
    let total : Int := sz
    if fixed && start ≥ total then pure (some ([], total))
    else do
      let stop := if stop == endOfData || stop ≥ total then wrap64 (total - 1) else stop
      let _ ← goMake (wrap64 (wrap64 (stop - start) + 1))
      pure none                                              -- ReadAt on a directory fails
  | .file f =>
    let total : Int := f.length
    if fixed && start ≥ total then pure (some ([], total))    -- fixes/C39.patch
    else do
      let stop := if stop == endOfData || stop ≥ total then wrap64 (total - 1) else stop
      let size ← goMake (wrap64 (wrap64 (stop - start) + 1))
      let got := readAt f size start.toNat
      let data ← goSliceTo got size got.length
      pure (some (data, total))

/-- what Loader leaves in the cache for this path -/
def cacheLimit : Nat := 5242880     -- maxAssetCacheSize/2

/-- Loader (smartRangeLoading = true).  Result: `none` = error, `some (data, totalSize, cache')`. -/
def loader (fixed : Bool) (P : Prims) (node : Node) (cache : Option Bytes) (start stop : Int) :
    Res (Option (Bytes × Int × Option Bytes)) :=
  if start < 0 || stop < 0 then pure none
  else if start == startOfData && stop == endOfData then
    match cache with
    | some d => pure (some (d, (if fixed then (d.length : Int) else 0), cache))
    | none =>
      match node with
      | .file f =>
        let d := P.xform f
        pure (some (d, (d.length : Int), if d.length > cacheLimit then none else some d))
      | _ => pure none
  else do
    match ← readAssetRange fixed node start stop with
    | none => pure none
    | some (d, t) => pure (some (d, t, cache))

/-! ### the response -/

inductive Resp where
  | err (status : Nat)
  | unsat (contentRange : Bytes)                       -- 416
  | full (clen : Nat) (body : Bytes)                   -- 200
  | part (contentRange : Bytes) (clen : Nat) (body : Bytes)   -- 206
  deriving Repr, DecidableEq

structure Req where
  path : Bytes
  range : Option Bytes      -- r.Header["Range"][0] when present
  head : Bool               -- r.Method == HEAD
  node : Node               -- what normalizeAssetPath(path) names
  cache : Option Bytes      -- AssetCache[normalizeCachePath(path)]

def contentRange (start e total : Int) : Bytes :=
  ofStr "bytes " ++ decInt start ++ ofStr "-" ++ decInt e ++ ofStr "/" ++ decInt total

def contentRangeUnsat (total : Int) : Bytes := ofStr "bytes */" ++ decInt total

def mdSuffix : Bytes := [46, 109, 100]          -- ".md"
def slashDotDotSlash : Bytes := [47, 46, 46, 47]  -- "/../"

def forbiddenPath (path : Bytes) : Bool :=
  path.isEmpty || hasSuffix [47] path || contains slashDotDotSlash path

/-- the second half of AssetsHandler, after Loader succeeded (no partial operation in it) -/
def finish (fixed : Bool) (P : Prims) (r : Req) (isMd : Bool) (p : Parsed) (data : Bytes) (total : Int) : Resp :=
  if fixed && p.hasRange && p.start ≥ total then                                  -- fixes/C39.patch
    .unsat (contentRangeUnsat total)
  else
    let data := if isMd then P.md data else data
    let body := if r.head then [] else data
    if p.hasRange then
      let reportEnd := if p.stop == endOfData || p.stop ≥ total then wrap64 (total - 1) else p.stop
      .part (contentRange p.start reportEnd total) data.length body
    else
      .full data.length body

/-- AssetsHandler (without the ETag / If-None-Match block, which the harness does not send).
    The second component is the cache entry of the path after the request. -/
def handle (fixed : Bool) (P : Prims) (r : Req) : Res (Resp × Option Bytes) := do
  if forbiddenPath r.path then return (.err 403, r.cache)
  match ← parseRange fixed r.range with
  | .error s => return (.err s, r.cache)
  | .ok p =>
    let isMd := hasSuffix mdSuffix r.path
    let p : Parsed := if fixed && isMd then ⟨startOfData, endOfData, false⟩ else p   -- fixes/C39.patch
    match ← loader fixed P r.node r.cache p.start p.stop with
    | none => return (.err 404, r.cache)
    | some (data, total, cache') => return (finish fixed P r isMd p data total, cache')

/-! ### normalizeAssetPath -/

def slash : UInt8 := 47
def dotdot : Bytes := [46, 46]
def dot : Bytes := [46]

/-- the component stack of filepath.Clean: `..` pops a normal component, is dropped at the
    root of a rooted path and is kept otherwise -/
def cleanStep (rooted : Bool) (stack : List Bytes) (c : Bytes) : List Bytes :=   -- stack is reversed
  if c.isEmpty || c == dot then stack
  else if c == dotdot then
    match stack with
    | [] => if rooted then [] else [dotdot]
    | top :: rest => if top == dotdot then dotdot :: top :: rest else rest
  else c :: stack

def cleanComps (rooted : Bool) (comps : List Bytes) : List Bytes :=
  (comps.foldl (cleanStep rooted) []).reverse

def joinSlash : List Bytes → Bytes
  | [] => []
  | [c] => c
  | c :: cs => c ++ slash :: joinSlash cs

/-- filepath.Clean (Unix) -/
def clean (p : Bytes) : Bytes :=
  let rooted := p.head? == some slash
  let out := (if rooted then [slash] else []) ++ joinSlash (cleanComps rooted (splitOn slash p))
  if out.isEmpty then dot else out

/-- filepath.Join(a, b) (Unix): empty elements are ignored, the result is Cleaned -/
def join2 (a b : Bytes) : Bytes :=
  if a.isEmpty && b.isEmpty then []
  else if a.isEmpty then clean b
  else if b.isEmpty then clean a
  else clean (a ++ slash :: b)

def invalidName : Bytes := [95, 95, 105, 110, 118, 97, 108, 105, 100, 95, 95]   -- "__invalid__"

/-- normalizeAssetPath with `root` already chosen from the settings -/
def normalize (root path : Bytes) : Bytes :=
  let fn := clean (join2 root path)
  if !hasPrefix (root ++ [slash]) fn then join2 root invalidName else fn

/-- root selection at the top of normalizeAssetPath -/
def chooseRoot (libpath egopath : Bytes) : Bytes :=
  if !libpath.isEmpty then libpath else join2 egopath [108, 105, 98]   -- defs.LibPathName = "lib"

end EgoVerif.C39
