import EgoVerif.C39.Model
/-
C39 — property theorems (all about `fixed = true`, i.e. the code with fixes/C39.patch, except
the `C39_orig_*` counterexamples which exhibit the defects of the code before the patch).
-/
set_option linter.unusedSimpArgs false
set_option linter.unusedVariables false
namespace EgoVerif.C39

/-! ### int64 wrap-around is the identity on the values that occur -/

theorem wrap64_id (x : Int) (h0 : -9223372036854775808 ≤ x) (h1 : x ≤ 9223372036854775807) : wrap64 x = x := by
  unfold wrap64 two63 two64
  omega

/-! ### the Range header parser never panics: it equals a total specification -/

/-- what the (patched) parser computes, as a pure function -/
def parseSpec (h : Bytes) : Except Nat Parsed :=
  match splitOn dash (removeAll bytesEq h) with
  | r0 :: r1 :: _ =>
    match parseInt r0 with
    | none => .error 400
    | some s =>
      if r1.isEmpty then .ok ⟨s, endOfData, true⟩
      else match parseInt r1 with
        | none => .error 400
        | some e => .ok ⟨s, e, true⟩
  | _ => .error 400

theorem parseHeader_eq (h : Bytes) : parseHeader true h = .ok (parseSpec h) := by
  unfold parseHeader parseSpec
  dsimp only
  generalize splitOn dash (removeAll bytesEq h) = ranges
  rcases ranges with _ | ⟨r0, _ | ⟨r1, rest⟩⟩
  · simp [bind, pure]
  · simp [bind, pure]
  · cases h0 : parseInt r0 with
    | none => simp [bind, pure, goIndex, h0]
    | some s =>
      cases r1 with
      | nil => simp [bind, pure, goIndex, h0]
      | cons c cs =>
        cases h1 : parseInt (c :: cs) with
        | none => simp [bind, pure, goIndex, h0, h1]
        | some e => simp [bind, pure, goIndex, h0, h1]

/-! ### readAssetRange -/

/-- sizes for which `make([]byte, n)` cannot fail: files and directories below 2^48 bytes -/
def nodeOk : Node → Prop
  | .missing => True
  | .dir sz => sz ≤ 281474976710656
  | .file f => f.length ≤ 281474976710656

/-- `min stop (len-1)`: the last byte index actually served -/
def lastIdx (stop : Int) (len : Nat) : Int := if stop ≥ (len : Int) then (len : Int) - 1 else stop

theorem goSliceTo_self (d : Bytes) (n : Nat) (h : d.length ≤ n) : goSliceTo d n d.length = .ok d := by
  simp [goSliceTo, h]

theorem readAt_length (f : Bytes) (size off : Nat) : (readAt f size off).length ≤ size := by
  simp [readAt, List.length_take]; omega

theorem readAssetRange_file (f : Bytes) (start stop : Int)
    (h0 : 0 ≤ start) (hlt : start < (f.length : Int)) (hs : stop = endOfData ∨ start ≤ stop)
    (hmax : stop ≤ maxInt64) (hsz : f.length ≤ 281474976710656) :
    readAssetRange true (.file f) start stop =
      .ok (some ((f.drop start.toNat).take (lastIdx stop f.length - start + 1).toNat, (f.length : Int))) := by
  have hstart : start ≤ stop := by
    rcases hs with h | h
    · subst h; unfold endOfData maxInt64; omega
    · exact h
  unfold readAssetRange
  have hnot : ¬ (start ≥ (f.length : Int)) := by omega
  simp only [Bool.true_and, decide_eq_true_eq, hnot, if_false, bind, pure]
  unfold maxInt64 at hmax
  by_cases hge : stop ≥ (f.length : Int)
  · have hcl : (stop == endOfData || decide (stop ≥ (f.length : Int))) = true := by simp [hge]
    have hw1 : wrap64 ((f.length : Int) - 1) = (f.length : Int) - 1 := wrap64_id _ (by omega) (by omega)
    have hw2 : wrap64 ((f.length : Int) - 1 - start) = (f.length : Int) - 1 - start := wrap64_id _ (by omega) (by omega)
    have hw3 : wrap64 ((f.length : Int) - 1 - start + 1) = (f.length : Int) - 1 - start + 1 := wrap64_id _ (by omega) (by omega)
    simp only [hcl, if_true, hw1, hw2, hw3]
    have hm : goMake ((f.length : Int) - 1 - start + 1) = .ok ((f.length : Int) - 1 - start + 1).toNat := by
      unfold goMake
      have a : ¬ ((f.length : Int) - 1 - start + 1 < 0) := by omega
      have b : ¬ ((f.length : Int) - 1 - start + 1 > 281474976710656) := by omega
      simp [a, b]
    simp only [hm]
    have hl := readAt_length f ((f.length : Int) - 1 - start + 1).toNat start.toNat
    simp only [goSliceTo_self _ _ hl]
    simp [readAt, lastIdx, hge]
  · have hne : (stop == endOfData) = false := by
      simp only [beq_eq_false_iff_ne, ne_eq]; unfold endOfData maxInt64; omega
    have hcl : (stop == endOfData || decide (stop ≥ (f.length : Int))) = false := by simp [hne, hge]
    have hw2 : wrap64 (stop - start) = stop - start := wrap64_id _ (by omega) (by omega)
    have hw3 : wrap64 (stop - start + 1) = stop - start + 1 := wrap64_id _ (by omega) (by omega)
    simp only [hcl, Bool.false_eq_true, if_false, hw2, hw3]
    have hm : goMake (stop - start + 1) = .ok (stop - start + 1).toNat := by
      unfold goMake
      have a : ¬ (stop - start + 1 < 0) := by omega
      have b : ¬ (stop - start + 1 > 281474976710656) := by omega
      simp [a, b]
    simp only [hm]
    have hl := readAt_length f (stop - start + 1).toNat start.toNat
    simp only [goSliceTo_self _ _ hl]
    simp [readAt, lastIdx, hge]

theorem readAssetRange_beyond (node : Node) (start stop : Int) (total : Nat)
    (hn : node = .dir total ∨ ∃ f, node = .file f ∧ f.length = total) (hge : start ≥ (total : Int)) :
    readAssetRange true node start stop = .ok (some ([], (total : Int))) := by
  rcases hn with h | ⟨f, h, hl⟩
  · subst h; simp [readAssetRange, hge, pure]
  · subst h; subst hl; simp [readAssetRange, hge, pure]

theorem readAssetRange_dir (sz : Nat) (start stop : Int)
    (h0 : 0 ≤ start) (hlt : start < (sz : Int)) (hs : stop = endOfData ∨ start ≤ stop)
    (hmax : stop ≤ maxInt64) (hsz : sz ≤ 281474976710656) :
    readAssetRange true (.dir sz) start stop = .ok none := by
  have hstart : start ≤ stop := by
    rcases hs with h | h
    · subst h; unfold endOfData maxInt64; omega
    · exact h
  unfold readAssetRange
  have hnot : ¬ (start ≥ (sz : Int)) := by omega
  simp only [Bool.true_and, decide_eq_true_eq, hnot, if_false, bind, pure]
  unfold maxInt64 at hmax
  by_cases hge : stop ≥ (sz : Int)
  · have hcl : (stop == endOfData || decide (stop ≥ (sz : Int))) = true := by simp [hge]
    have hw1 : wrap64 ((sz : Int) - 1) = (sz : Int) - 1 := wrap64_id _ (by omega) (by omega)
    have hw2 : wrap64 ((sz : Int) - 1 - start) = (sz : Int) - 1 - start := wrap64_id _ (by omega) (by omega)
    have hw3 : wrap64 ((sz : Int) - 1 - start + 1) = (sz : Int) - 1 - start + 1 := wrap64_id _ (by omega) (by omega)
    simp only [hcl, if_true, hw1, hw2, hw3]
    have hm : goMake ((sz : Int) - 1 - start + 1) = .ok ((sz : Int) - 1 - start + 1).toNat := by
      unfold goMake
      have a : ¬ ((sz : Int) - 1 - start + 1 < 0) := by omega
      have b : ¬ ((sz : Int) - 1 - start + 1 > 281474976710656) := by omega
      simp [a, b]
    simp only [hm]
  · have hne : (stop == endOfData) = false := by
      simp only [beq_eq_false_iff_ne, ne_eq]; unfold endOfData maxInt64; omega
    have hcl : (stop == endOfData || decide (stop ≥ (sz : Int))) = false := by simp [hne, hge]
    have hw2 : wrap64 (stop - start) = stop - start := wrap64_id _ (by omega) (by omega)
    have hw3 : wrap64 (stop - start + 1) = stop - start + 1 := wrap64_id _ (by omega) (by omega)
    simp only [hcl, Bool.false_eq_true, if_false, hw2, hw3]
    have hm : goMake (stop - start + 1) = .ok (stop - start + 1).toNat := by
      unfold goMake
      have a : ¬ (stop - start + 1 < 0) := by omega
      have b : ¬ (stop - start + 1 > 281474976710656) := by omega
      simp [a, b]
    simp only [hm]

/-! ### header lookup + sanity check -/

def parseRangeSpec (hdr : Option Bytes) : Except Nat Parsed :=
  match (match hdr with
    | none => (.ok ⟨startOfData, endOfData, false⟩ : Except Nat Parsed)
    | some h => parseSpec h) with
  | .error s => .error s
  | .ok p => if p.start < 0 || (p.stop != endOfData && p.stop < p.start) then .error 400 else .ok p

theorem parseRange_eq (hdr : Option Bytes) : parseRange true hdr = .ok (parseRangeSpec hdr) := by
  unfold parseRange parseRangeSpec
  cases hdr with
  | none => simp [bind, pure, startOfData, endOfData, maxInt64]
  | some h =>
    simp only [parseHeader_eq, bind, pure]
    cases parseSpec h with
    | error s => rfl
    | ok p => by_cases hc : (p.start < 0 || (p.stop != endOfData && p.stop < p.start)) = true <;> simp [hc]

theorem parseInt_le (s : Bytes) (v : Int) (h : parseInt s = some v) : v ≤ maxInt64 := by
  unfold parseInt at h
  unfold maxInt64
  split at h
  · cases h
  · simp only at h
    split at h
    · cases h
    · split at h
      · cases h
      · split at h
        · split at h
          · cases h; omega
          · cases h
        · split at h
          · cases h; omega
          · cases h

theorem parseSpec_stop_le (h : Bytes) (p : Parsed) (hp : parseSpec h = .ok p) : p.stop ≤ maxInt64 := by
  unfold parseSpec at hp
  split at hp
  · split at hp
    · cases hp
    · split at hp
      · cases hp; simp [endOfData]
      · split at hp
        · cases hp
        · rename_i e he
          cases hp; exact parseInt_le _ _ he
  · cases hp

theorem parseSpec_hasRange (h : Bytes) (p : Parsed) (hp : parseSpec h = .ok p) : p.hasRange = true := by
  unfold parseSpec at hp
  split at hp
  · split at hp
    · cases hp
    · split at hp
      · cases hp; rfl
      · split at hp
        · cases hp
        · cases hp; rfl
  · cases hp

/-- everything the rest of the handler relies on after a successful parse -/
theorem parseRangeSpec_ok (hdr : Option Bytes) (p : Parsed) (hp : parseRangeSpec hdr = .ok p) :
    0 ≤ p.start ∧ (p.stop = endOfData ∨ p.start ≤ p.stop) ∧ p.stop ≤ maxInt64 ∧
    (p.hasRange = false → p = ⟨startOfData, endOfData, false⟩) := by
  unfold parseRangeSpec at hp
  split at hp
  · cases hp
  · rename_i q hq
    split at hp
    · cases hp
    · rename_i hc
      cases hp
      simp only [Bool.or_eq_true, decide_eq_true_eq, Bool.and_eq_true, bne_iff_ne, ne_eq, not_or, not_and, Int.not_lt] at hc
      refine ⟨hc.1, ?_, ?_, ?_⟩
      · by_cases he : p.stop = endOfData
        · exact Or.inl he
        · exact Or.inr (hc.2 he)
      · cases hdr with
        | none => simp only at hq; cases hq; simp [endOfData]
        | some h => exact parseSpec_stop_le h p hq
      · intro hr
        cases hdr with
        | none => simp only at hq; cases hq; rfl
        | some h => simp only at hq; rw [parseSpec_hasRange h p hq] at hr; cases hr

/-! ### Loader -/

theorem loader_full (P : Prims) (node : Node) (cache : Option Bytes) :
    loader true P node cache startOfData endOfData = .ok
      (match cache with
       | some d => some (d, (d.length : Int), cache)
       | none => match node with
         | .file f => some (P.xform f, ((P.xform f).length : Int),
                            if (P.xform f).length > cacheLimit then none else some (P.xform f))
         | _ => none) := by
  unfold loader
  have h1 : ¬ (startOfData < 0 ∨ endOfData < 0) := by unfold startOfData endOfData maxInt64; omega
  simp only [Bool.or_eq_true, decide_eq_true_eq, h1, if_false, beq_self_eq_true, Bool.and_self, if_true, pure]
  cases cache with
  | some d => simp
  | none => cases node <;> simp

theorem loader_range (P : Prims) (node : Node) (cache : Option Bytes) (start stop : Int)
    (h0 : 0 ≤ start) (h1 : 0 ≤ stop) (hne : ¬ (start = startOfData ∧ stop = endOfData)) :
    loader true P node cache start stop =
      (match readAssetRange true node start stop with
       | .ok none => .ok none
       | .ok (some (d, t)) => .ok (some (d, t, cache))
       | .panic w => .panic w) := by
  unfold loader
  have h2 : ¬ (start < 0 ∨ stop < 0) := by omega
  have h3 : (start == startOfData && stop == endOfData) = false := by
    simp only [Bool.and_eq_false_iff, beq_eq_false_iff_ne, ne_eq]
    by_cases a : start = startOfData
    · exact Or.inr (fun b => hne ⟨a, b⟩)
    · exact Or.inl a
  simp only [Bool.or_eq_true, decide_eq_true_eq, h2, if_false, h3, Bool.false_eq_true, bind, pure]
  cases readAssetRange true node start stop with
  | panic w => rfl
  | ok o => cases o with
    | none => rfl
    | some dt => obtain ⟨d, t⟩ := dt; rfl

/-! ### the main theorems -/

/-- cached data is the representation of the file on disk (files are static while cached) -/
def cacheOk (P : Prims) (node : Node) (cache : Option Bytes) : Prop :=
  ∀ d, cache = some d → ∃ f, node = .file f ∧ d = P.xform f

/-- the full representation (after minification) also fits the allocation bound -/
def reprOk (P : Prims) (node : Node) : Prop :=
  ∀ f, node = .file f → (P.xform f).length ≤ 281474976710656

/-- `R[start .. e]` inclusive -/
def slice (R : Bytes) (start e : Int) : Bytes := (R.drop start.toNat).take (e - start + 1).toNat

/-- what a response may be: an error status, 416 for a start at/after the end, the whole
    representation, or exactly the requested slice with the Content-Range built from the same numbers -/
def RespOk (P : Prims) (r : Req) : Resp → Prop
  | .err s => s = 400 ∨ s = 403 ∨ s = 404
  | .unsat cr => ∃ p, ∃ total : Nat, parseRangeSpec r.range = .ok p ∧ p.hasRange = true ∧
      cr = contentRangeUnsat total ∧ p.start ≥ (total : Int) ∧
      (r.node = .dir total ∨ ∃ f, r.node = .file f ∧ (total = f.length ∨ total = (P.xform f).length))
  | .full clen body => ∃ f, r.node = .file f ∧
      clen = (if hasSuffix mdSuffix r.path then P.md (P.xform f) else P.xform f).length ∧
      body = if r.head then [] else (if hasSuffix mdSuffix r.path then P.md (P.xform f) else P.xform f)
  | .part cr clen body => ∃ f p R, r.node = .file f ∧ parseRangeSpec r.range = .ok p ∧ p.hasRange = true ∧
      (R = f ∨ R = P.xform f) ∧ 0 ≤ p.start ∧ p.start < (R.length : Int) ∧ p.start ≤ lastIdx p.stop R.length ∧
      cr = contentRange p.start (lastIdx p.stop R.length) R.length ∧
      clen = (slice R p.start (lastIdx p.stop R.length)).length ∧
      body = if r.head then [] else slice R p.start (lastIdx p.stop R.length)

theorem slice_length (R : Bytes) (start e : Int) (h0 : 0 ≤ start) (h1 : start ≤ e) (h2 : e < (R.length : Int)) :
    ((slice R start e).length : Int) = e - start + 1 := by
  simp only [slice, List.length_take, List.length_drop]
  omega

theorem slice_all (R : Bytes) (h : R ≠ []) : slice R 0 ((R.length : Int) - 1) = R := by
  have : 0 < R.length := List.length_pos_iff.mpr h
  simp only [slice, Int.toNat_zero, List.drop_zero]
  apply List.take_of_length_le
  omega

theorem reportEnd_eq (stop : Int) (total : Nat) (hmax : stop ≤ maxInt64) (ht : total ≤ 281474976710656) :
    (if (stop == endOfData || decide (stop ≥ (total : Int))) = true then wrap64 ((total : Int) - 1) else stop)
      = lastIdx stop total := by
  unfold lastIdx
  unfold maxInt64 at hmax
  by_cases hge : stop ≥ (total : Int)
  · simp only [hge, decide_true, Bool.or_true, if_true]
    exact wrap64_id _ (by omega) (by omega)
  · have hne : (stop == endOfData) = false := by
      simp only [beq_eq_false_iff_ne, ne_eq]; unfold endOfData maxInt64; omega
    simp [hne, hge]

theorem parseSpec_err (h : Bytes) (s : Nat) (hp : parseSpec h = .error s) : s = 400 := by
  unfold parseSpec at hp
  split at hp
  · split at hp
    · cases hp; rfl
    · split at hp
      · cases hp
      · split at hp
        · cases hp; rfl
        · cases hp
  · cases hp; rfl

theorem parseRangeSpec_err (hdr : Option Bytes) (s : Nat) (hp : parseRangeSpec hdr = .error s) : s = 400 := by
  unfold parseRangeSpec at hp
  split at hp
  · rename_i s' hq
    cases hp
    cases hdr with
    | none => simp at hq
    | some h => exact parseSpec_err h _ hq
  · split at hp
    · cases hp; rfl
    · cases hp

theorem lastIdx_ge (start stop : Int) (len : Nat) (h1 : start < (len : Int)) (h2 : start ≤ stop) :
    start ≤ lastIdx stop len ∧ lastIdx stop len < (len : Int) := by
  unfold lastIdx; split <;> omega

/-- the tail of the handler for a range answered by readAssetRange on a regular file -/
theorem finish_part (P : Prims) (r : Req) (p : Parsed) (R : Bytes)
    (hr : p.hasRange = true) (h0 : 0 ≤ p.start) (hlt : p.start < (R.length : Int)) (hmax : p.stop ≤ maxInt64)
    (hR : R.length ≤ 281474976710656) :
    finish true P r false p (slice R p.start (lastIdx p.stop R.length)) (R.length : Int) =
      .part (contentRange p.start (lastIdx p.stop R.length) R.length)
        (slice R p.start (lastIdx p.stop R.length)).length
        (if r.head then [] else slice R p.start (lastIdx p.stop R.length)) := by
  unfold finish
  have hn : ¬ (p.start ≥ (R.length : Int)) := by omega
  simp only [hr, Bool.true_and, decide_eq_true_eq, hn, if_false, Bool.false_eq_true, if_true]
  rw [reportEnd_eq p.stop R.length hmax hR]

set_option maxHeartbeats 1000000 in
/-- MAIN: for every Range header byte string, path, file/directory/missing node, cache state and
    method the patched handler does not panic and its answer is an error status, 416, the whole
    representation, or exactly `R[start .. min(end, len-1)]` with the matching Content-Range;
    the cache keeps holding the file's representation. -/
theorem C39_range (P : Prims) (r : Req) (hn : nodeOk r.node) (hrep : reprOk P r.node)
    (hc : cacheOk P r.node r.cache) :
    ∃ resp c', handle true P r = .ok (resp, c') ∧ RespOk P r resp ∧ cacheOk P r.node c' := by
  unfold handle
  by_cases hf : forbiddenPath r.path = true
  · exact ⟨.err 403, r.cache, by simp [hf, pure], Or.inr (Or.inl rfl), hc⟩
  · simp only [hf, Bool.false_eq_true, if_false, parseRange_eq, bind, pure, Bool.true_and]
    cases hp : parseRangeSpec r.range with
    | error s =>
      exact ⟨.err s, r.cache, rfl, Or.inl (parseRangeSpec_err _ _ hp), hc⟩
    | ok p =>
      obtain ⟨h0, hs, hmax, hdflt⟩ := parseRangeSpec_ok _ _ hp
      have hstop0 : 0 ≤ p.stop := by
        rcases hs with h | h
        · rw [h]; unfold endOfData maxInt64; omega
        · omega
      by_cases hmd : hasSuffix mdSuffix r.path = true
      · -- markdown: the Range header is ignored, the whole rendering is served
        simp only [hmd, if_true, loader_full]
        cases hcache : r.cache with
        | some d =>
          obtain ⟨f, hnode, hd⟩ := hc d hcache
          refine ⟨_, _, rfl, ?_, ?_⟩
          · simp only [finish, Bool.false_eq_true, Bool.false_and, if_false, if_true, RespOk, hmd]
            exact ⟨f, hnode, by rw [hd], by rw [hd]⟩
          · rw [← hcache]; exact hc
        | none =>
          cases hnode : r.node with
          | missing => exact ⟨.err 404, r.cache, by simp [hcache], Or.inr (Or.inr rfl), by rw [← hnode]; exact hc⟩
          | dir sz => exact ⟨.err 404, r.cache, by simp [hcache], Or.inr (Or.inr rfl), by rw [← hnode]; exact hc⟩
          | file f =>
            refine ⟨_, _, rfl, ?_, ?_⟩
            · simp only [finish, Bool.false_eq_true, Bool.false_and, if_false, if_true, RespOk, hmd]
              exact ⟨f, hnode, rfl, rfl⟩
            · intro d hd
              split at hd
              · cases hd
              · cases hd; exact ⟨f, rfl, rfl⟩
      · simp only [hmd, Bool.false_eq_true, if_false]
        by_cases hdef : p.start = startOfData ∧ p.stop = endOfData
        · -- default range (no header, or `bytes=0-`): the cache path
          rw [hdef.1, hdef.2, loader_full]
          -- the data is the full representation R
          have key : ∀ (R : Bytes) (c' : Option Bytes), (∃ f, r.node = .file f ∧ R = P.xform f) → cacheOk P r.node c' →
              ∃ resp, finish true P r false p R (R.length : Int) = resp ∧ RespOk P r resp := by
            intro R c' ⟨f, hnode, hR⟩ _
            have hRlen : R.length ≤ 281474976710656 := by rw [hR]; exact hrep f hnode
            by_cases hrng : p.hasRange = true
            · by_cases hemp : R = []
              · refine ⟨_, rfl, ?_⟩
                subst hemp
                simp only [finish, hrng, Bool.true_and, hdef.1, startOfData, List.length_nil, Int.natCast_zero,
                  ge_iff_le, Int.le_refl, decide_true, if_true, RespOk]
                refine ⟨p, 0, hp, hrng, rfl, by rw [hdef.1]; simp [startOfData], Or.inr ⟨f, hnode, Or.inr ?_⟩⟩
                rw [← hR]; rfl
              · have hpos : 0 < R.length := List.length_pos_iff.mpr hemp
                have hlt : p.start < (R.length : Int) := by rw [hdef.1]; simp only [startOfData]; omega
                have hsl : slice R p.start (lastIdx p.stop R.length) = R := by
                  have : lastIdx p.stop R.length = (R.length : Int) - 1 := by
                    unfold lastIdx; rw [hdef.2]; unfold endOfData maxInt64
                    split
                    · rfl
                    · omega
                  rw [this, hdef.1]; exact slice_all R hemp
                have hfin := finish_part P r p R hrng h0 hlt hmax hRlen
                rw [hsl] at hfin
                refine ⟨_, hfin, ?_⟩
                simp only [RespOk]
                have hle := lastIdx_ge p.start p.stop R.length hlt (by
                  rcases hs with h | h
                  · rw [h]; unfold endOfData maxInt64; omega
                  · exact h)
                exact ⟨f, p, R, hnode, hp, hrng, Or.inr hR, h0, hlt, hle.1, rfl, by rw [hsl], by rw [hsl]⟩
            · have hfalse : p.hasRange = false := by simpa using hrng
              refine ⟨_, rfl, ?_⟩
              simp only [finish, hfalse, Bool.false_eq_true, Bool.false_and, if_false, RespOk, hmd]
              exact ⟨f, hnode, by rw [hR], by rw [hR]⟩
          cases hcache : r.cache with
          | some d =>
            obtain ⟨f, hnode, hd⟩ := hc d hcache
            obtain ⟨resp, hfin, hok⟩ := key d r.cache ⟨f, hnode, hd⟩ hc
            refine ⟨resp, some d, ?_, hok, by rw [← hcache]; exact hc⟩
            subst hfin; rfl
          | none =>
            cases hnode : r.node with
            | missing => exact ⟨.err 404, r.cache, by simp [hcache], Or.inr (Or.inr rfl), by rw [← hnode]; exact hc⟩
            | dir sz => exact ⟨.err 404, r.cache, by simp [hcache], Or.inr (Or.inr rfl), by rw [← hnode]; exact hc⟩
            | file f =>
              have hc' : cacheOk P r.node (if (P.xform f).length > cacheLimit then none else some (P.xform f)) := by
                intro d hd
                split at hd
                · cases hd
                · cases hd; exact ⟨f, hnode, rfl⟩
              obtain ⟨resp, hfin, hok⟩ := key (P.xform f) _ ⟨f, hnode, rfl⟩ hc'
              refine ⟨resp, _, ?_, hok, by rw [← hnode]; exact hc'⟩
              subst hfin; rfl
        · -- a real range: readAssetRange
          have hrng : p.hasRange = true := by
            cases h : p.hasRange with
            | true => rfl
            | false =>
              have := hdflt h
              exact absurd ⟨by rw [this], by rw [this]⟩ hdef
          rw [loader_range P r.node r.cache p.start p.stop h0 hstop0 hdef]
          cases hnode : r.node with
          | missing =>
            exact ⟨.err 404, r.cache, by simp [readAssetRange, pure], Or.inr (Or.inr rfl), by rw [← hnode]; exact hc⟩
          | dir sz =>
            have hsz : sz ≤ 281474976710656 := by rw [hnode] at hn; exact hn
            by_cases hge : p.start ≥ (sz : Int)
            · rw [readAssetRange_beyond (.dir sz) p.start p.stop sz (Or.inl rfl) hge]
              refine ⟨_, _, rfl, ?_, by rw [← hnode]; exact hc⟩
              simp only [finish, hrng, Bool.true_and, hge, decide_true, if_true, RespOk]
              exact ⟨p, sz, hp, hrng, rfl, hge, Or.inl hnode⟩
            · rw [readAssetRange_dir sz p.start p.stop h0 (by omega) hs hmax hsz]
              exact ⟨.err 404, r.cache, rfl, Or.inr (Or.inr rfl), by rw [← hnode]; exact hc⟩
          | file f =>
            have hsz : f.length ≤ 281474976710656 := by rw [hnode] at hn; exact hn
            by_cases hge : p.start ≥ (f.length : Int)
            · rw [readAssetRange_beyond (.file f) p.start p.stop f.length (Or.inr ⟨f, rfl, rfl⟩) hge]
              refine ⟨_, _, rfl, ?_, by rw [← hnode]; exact hc⟩
              simp only [finish, hrng, Bool.true_and, hge, decide_true, if_true, RespOk]
              exact ⟨p, f.length, hp, hrng, rfl, hge, Or.inr ⟨f, hnode, Or.inl rfl⟩⟩
            · have hlt : p.start < (f.length : Int) := by omega
              have hstart : p.start ≤ p.stop := by
                rcases hs with h | h
                · rw [h]; unfold endOfData maxInt64; omega
                · exact h
              rw [readAssetRange_file f p.start p.stop h0 hlt hs hmax hsz]
              have hfin := finish_part P r p f hrng h0 hlt hmax hsz
              refine ⟨Resp.part (contentRange p.start (lastIdx p.stop f.length) f.length)
                (slice f p.start (lastIdx p.stop f.length)).length
                (if r.head then [] else slice f p.start (lastIdx p.stop f.length)), r.cache, ?_, ?_,
                by rw [← hnode]; exact hc⟩
              · rw [← hfin]; rfl
              · simp only [RespOk]
                have hle := lastIdx_ge p.start p.stop f.length hlt hstart
                exact ⟨f, p, f, hnode, hp, hrng, Or.inl rfl, h0, hlt, hle.1, rfl, rfl, rfl⟩

/-- no Range header, path, file, cache state or method makes the patched handler panic -/
theorem C39_total (P : Prims) (r : Req) (hn : nodeOk r.node) (hrep : reprOk P r.node)
    (hc : cacheOk P r.node r.cache) : (handle true P r).isPanic = false := by
  obtain ⟨resp, c', h, _⟩ := C39_range P r hn hrep hc
  rw [h]; rfl

/-- the cache entry left behind is again the representation of the file: by induction every
    request of a history sees `cacheOk`, whatever the earlier requests were -/
theorem C39_cache_invariant (P : Prims) (r : Req) (hn : nodeOk r.node) (hrep : reprOk P r.node)
    (hc : cacheOk P r.node r.cache) (resp : Resp) (c' : Option Bytes)
    (h : handle true P r = .ok (resp, c')) : cacheOk P r.node c' := by
  obtain ⟨resp', c'', h', _, hc'⟩ := C39_range P r hn hrep hc
  rw [h'] at h
  cases h
  exact hc'

/-- the parser alone: total on every byte string -/
theorem C39_parse_total (h : Bytes) : (parseHeader true h).isPanic = false := by
  rw [parseHeader_eq]; rfl

/-! ### well-formed ranges are understood as written -/

theorem digitsVal_digits (ds : Bytes) : ∀ (acc v : Nat), digitsVal acc ds = some v → ∀ c ∈ ds, isDigit c = true := by
  induction ds with
  | nil => intro _ _ _ c hc; cases hc
  | cons d ds ih =>
    intro acc v h c hc
    simp only [digitsVal] at h
    split at h
    · rename_i hd
      cases hc with
      | head => exact hd
      | tail _ hc' => exact ih _ _ h c hc'
    · cases h

theorem isDigit_ne (c : UInt8) (h : isDigit c = true) : c ≠ 98 ∧ c ≠ 45 ∧ c ≠ 43 := by
  simp only [isDigit, Bool.and_eq_true, decide_eq_true_eq] at h
  refine ⟨?_, ?_, ?_⟩ <;> (intro hc; subst hc; revert h; decide)

theorem removeAux_noB (s : Bytes) (h : ∀ c ∈ s, c ≠ 98) : removeAux bytesEq 0 s = s := by
  induction s with
  | nil => rfl
  | cons c cs ih =>
    have hc : c ≠ 98 := h c (List.mem_cons_self ..)
    have hp : hasPrefix bytesEq (c :: cs) = false := by
      simp only [bytesEq, hasPrefix, Bool.and_eq_false_iff, beq_eq_false_iff_ne, ne_eq]
      exact Or.inl (fun e => hc e.symm)
    simp only [removeAux, hp, Bool.false_eq_true, if_false]
    rw [ih (fun c hc' => h c (List.mem_cons_of_mem _ hc'))]

theorem removeAll_bytesEq_prefix (s : Bytes) (h : ∀ c ∈ s, c ≠ 98) : removeAll bytesEq (bytesEq ++ s) = s := by
  simp only [removeAll, bytesEq, List.cons_append, List.nil_append, removeAux, hasPrefix, beq_self_eq_true, Bool.and_self,
    Bool.true_and, if_true, List.length_cons, List.length_nil]
  exact removeAux_noB s h

theorem splitOn_ne_nil (sep : UInt8) (s : Bytes) : splitOn sep s ≠ [] := by
  induction s with
  | nil => simp [splitOn]
  | cons c cs ih =>
    simp only [splitOn]
    split
    · simp
    · split <;> simp

theorem splitOn_noSep (sep : UInt8) (s : Bytes) (h : ∀ c ∈ s, c ≠ sep) : splitOn sep s = [s] := by
  induction s with
  | nil => rfl
  | cons c cs ih =>
    have hc : (c == sep) = false := by simpa using h c (List.mem_cons_self ..)
    simp only [splitOn, hc, Bool.false_eq_true, if_false, ih (fun c hc' => h c (List.mem_cons_of_mem _ hc'))]

theorem splitOn_append_sep (sep : UInt8) (a b : Bytes) (h : ∀ c ∈ a, c ≠ sep) :
    splitOn sep (a ++ sep :: b) = a :: splitOn sep b := by
  induction a with
  | nil => simp [splitOn]
  | cons c cs ih =>
    have hc : (c == sep) = false := by simpa using h c (List.mem_cons_self ..)
    simp only [List.cons_append, splitOn, hc, Bool.false_eq_true, if_false, ih (fun c hc' => h c (List.mem_cons_of_mem _ hc'))]

theorem parseInt_digits (ds : Bytes) (v : Nat) (hne : ds ≠ []) (hv : digitsVal 0 ds = some v) (hle : v ≤ 9223372036854775807) :
    parseInt ds = some (v : Int) := by
  cases ds with
  | nil => exact absurd rfl hne
  | cons c cs =>
    have hd := digitsVal_digits (c :: cs) 0 v hv c (List.mem_cons_self ..)
    obtain ⟨_, h45, h43⟩ := isDigit_ne c hd
    have e45 : (c == 45) = false := by simpa using h45
    have e43 : (c == 43) = false := by simpa using h43
    simp only [parseInt, e45, e43, Bool.or_self, Bool.false_eq_true, if_false, hv, hle, if_true]

/-- a header `bytes=<digits>-<digits>` / `bytes=<digits>-` (the RFC 9110 single-range grammar, any
    number of leading zeros) is parsed to exactly those numbers -/
theorem C39_wellformed_parsed (da db : Bytes) (a b : Nat) (hne : da ≠ [])
    (ha : digitsVal 0 da = some a) (hb : digitsVal 0 db = some b)
    (hla : a ≤ 9223372036854775807) (hlb : b ≤ 9223372036854775807) :
    parseSpec (bytesEq ++ da ++ dash :: db) =
      .ok ⟨(a : Int), if db.isEmpty then endOfData else (b : Int), true⟩ := by
  have hda := digitsVal_digits da 0 a ha
  have hdb := digitsVal_digits db 0 b hb
  have hnoB : ∀ c ∈ da ++ dash :: db, c ≠ 98 := by
    intro c hc
    rcases List.mem_append.mp hc with h | h
    · exact (isDigit_ne c (hda c h)).1
    · cases h with
      | head => decide
      | tail _ h' => exact (isDigit_ne c (hdb c h')).1
  have hsplit : splitOn dash (da ++ dash :: db) = [da, db] := by
    rw [splitOn_append_sep dash da db (fun c hc => (isDigit_ne c (hda c hc)).2.1),
        splitOn_noSep dash db (fun c hc => (isDigit_ne c (hdb c hc)).2.1)]
  unfold parseSpec
  rw [List.append_assoc, removeAll_bytesEq_prefix _ hnoB, hsplit]
  simp only [parseInt_digits da a hne ha hla]
  cases db with
  | nil => simp
  | cons c cs => simp [parseInt_digits (c :: cs) b (by simp) hb hlb]

theorem parseRangeSpec_of_parseSpec (h : Bytes) (p : Parsed) (hp : parseSpec h = .ok p) (h0 : 0 ≤ p.start)
    (hs : p.stop = endOfData ∨ p.start ≤ p.stop) : parseRangeSpec (some h) = .ok p := by
  unfold parseRangeSpec
  simp only [hp]
  have : (decide (p.start < 0) || (p.stop != endOfData && decide (p.stop < p.start))) = false := by
    simp only [Bool.or_eq_false_iff, decide_eq_false_iff_not, Bool.and_eq_false_iff, bne_eq_false_iff_eq]
    refine ⟨by omega, ?_⟩
    rcases hs with e | e
    · exact Or.inl e
    · exact Or.inr (by omega)
  simp [this]

/-- a parsed range that starts inside a regular, non-Markdown file is answered with exactly its bytes -/
theorem served_of_parsed (P : Prims) (r : Req) (f : Bytes) (p : Parsed)
    (hprs : parseRangeSpec r.range = .ok p) (hr : p.hasRange = true)
    (hnode : r.node = .file f) (hsz : f.length ≤ 281474976710656)
    (hpath : forbiddenPath r.path = false) (hmd : hasSuffix mdSuffix r.path = false)
    (hpos : 0 < p.start) (halen : p.start < (f.length : Int)) :
    handle true P r = .ok
      (.part (contentRange p.start (lastIdx p.stop f.length) f.length)
         (slice f p.start (lastIdx p.stop f.length)).length
         (if r.head then [] else slice f p.start (lastIdx p.stop f.length)), r.cache) := by
  obtain ⟨h0, hs, hmax, _⟩ := parseRangeSpec_ok _ _ hprs
  have hstop0 : 0 ≤ p.stop := by
    rcases hs with h | h
    · rw [h]; unfold endOfData maxInt64; omega
    · omega
  have hndef : ¬ (p.start = startOfData ∧ p.stop = endOfData) := by
    intro h; have := h.1; simp only [startOfData] at this; omega
  unfold handle
  simp only [hpath, Bool.false_eq_true, if_false, parseRange_eq, bind, pure, hprs, hmd, Bool.and_false]
  rw [loader_range P r.node r.cache _ _ h0 hstop0 hndef, hnode,
      readAssetRange_file f _ _ h0 halen hs hmax hsz]
  rw [← finish_part P r p f hr h0 halen hmax hsz]
  rfl

/-- … and is served: for a regular file that is not Markdown, a well-formed `bytes=a-b` with
    `a ≤ b` and `0 < a < len` gets 206 with exactly bytes `a .. min(b, len-1)`
    (`a = 0` with an explicit end is the same statement through `C39_range`; `bytes=0-` is the whole file) -/
theorem C39_wellformed_served (P : Prims) (r : Req) (f da db : Bytes) (a b : Nat) (hne : da ≠ []) (hne' : db ≠ [])
    (ha : digitsVal 0 da = some a) (hb : digitsVal 0 db = some b)
    (hla : a ≤ 9223372036854775807) (hlb : b ≤ 9223372036854775807)
    (hrange : r.range = some (bytesEq ++ da ++ dash :: db))
    (hnode : r.node = .file f) (hsz : f.length ≤ 281474976710656)
    (hpath : forbiddenPath r.path = false) (hmd : hasSuffix mdSuffix r.path = false)
    (hab : a ≤ b) (halen : a < f.length) (hpos : 0 < a) :
    handle true P r = .ok
      (.part (contentRange a (lastIdx b f.length) f.length) (slice f a (lastIdx b f.length)).length
         (if r.head then [] else slice f a (lastIdx b f.length)), r.cache) := by
  have hps := C39_wellformed_parsed da db a b hne ha hb hla hlb
  have he : db.isEmpty = false := by cases db with
    | nil => exact absurd rfl hne'
    | cons _ _ => rfl
  simp only [he, Bool.false_eq_true, if_false] at hps
  have hprs : parseRangeSpec r.range = .ok ⟨(a : Int), (b : Int), true⟩ := by
    rw [hrange]; exact parseRangeSpec_of_parseSpec _ _ hps (by simp) (Or.inr (by simp; omega))
  exact served_of_parsed P r f ⟨(a : Int), (b : Int), true⟩ hprs rfl hnode hsz hpath hmd (by simp; omega) (by simp; omega)

/-- the open-ended form `bytes=a-`: bytes `a .. len-1` -/
theorem C39_wellformed_served_open (P : Prims) (r : Req) (f da : Bytes) (a : Nat) (hne : da ≠ [])
    (ha : digitsVal 0 da = some a) (hla : a ≤ 9223372036854775807)
    (hrange : r.range = some (bytesEq ++ da ++ [dash]))
    (hnode : r.node = .file f) (hsz : f.length ≤ 281474976710656)
    (hpath : forbiddenPath r.path = false) (hmd : hasSuffix mdSuffix r.path = false)
    (halen : a < f.length) (hpos : 0 < a) :
    handle true P r = .ok
      (.part (contentRange a ((f.length : Int) - 1) f.length) (slice f a ((f.length : Int) - 1)).length
         (if r.head then [] else slice f a ((f.length : Int) - 1)), r.cache) := by
  have hps := C39_wellformed_parsed da [] a 0 hne ha rfl hla (by omega)
  simp only [List.isEmpty_nil, if_true] at hps
  have hprs : parseRangeSpec r.range = .ok ⟨(a : Int), endOfData, true⟩ := by
    rw [hrange]; exact parseRangeSpec_of_parseSpec _ _ hps (by simp) (Or.inl rfl)
  have hl : lastIdx endOfData f.length = (f.length : Int) - 1 := by
    unfold lastIdx endOfData maxInt64
    split
    · rfl
    · omega
  have := served_of_parsed P r f ⟨(a : Int), endOfData, true⟩ hprs rfl hnode hsz hpath hmd (by simp; omega) (by simp; omega)
  simp only [hl] at this
  exact this

/-! ### containment: the path handed to the OS stays below the asset root -/

theorem splitOn_pieces_noSep (sep : UInt8) (s : Bytes) : ∀ p ∈ splitOn sep s, ∀ x ∈ p, x ≠ sep := by
  induction s with
  | nil => intro p hp x hx; simp [splitOn] at hp; subst hp; cases hx
  | cons c cs ih =>
    intro p hp x hx
    simp only [splitOn] at hp
    split at hp
    · cases hp with
      | head => cases hx
      | tail _ h => exact ih p h x hx
    · rename_i hc
      split at hp
      · rename_i h t e
        cases hp with
        | head =>
          cases hx with
          | head => simpa using hc
          | tail _ hx' => exact ih h (by rw [e]; exact List.mem_cons_self ..) x hx'
        | tail _ hp' => exact ih p (by rw [e]; exact List.mem_cons_of_mem _ hp') x hx
      · exact absurd (by assumption) (splitOn_ne_nil sep cs)

theorem splitOn_append_sep_gen (sep : UInt8) (a b : Bytes) :
    splitOn sep (a ++ sep :: b) = splitOn sep a ++ splitOn sep b := by
  induction a with
  | nil => simp [splitOn]
  | cons c cs ih =>
    simp only [List.cons_append, splitOn]
    split
    · rw [ih]; rfl
    · rw [ih]
      obtain ⟨h, t, e⟩ := List.exists_cons_of_ne_nil (splitOn_ne_nil sep cs)
      rw [e]; rfl

theorem splitOn_joinSlash (cs : List Bytes) (hne : cs ≠ []) (h : ∀ c ∈ cs, ∀ x ∈ c, x ≠ slash) :
    splitOn slash (joinSlash cs) = cs := by
  induction cs with
  | nil => exact absurd rfl hne
  | cons c rest ih =>
    cases rest with
    | nil => simp only [joinSlash]; exact splitOn_noSep slash c (h c (List.mem_cons_self ..))
    | cons d ds =>
      simp only [joinSlash]
      rw [splitOn_append_sep slash c _ (h c (List.mem_cons_self ..)),
          ih (by simp) (fun c hc => h c (List.mem_cons_of_mem _ hc))]

/-- invariant of the component stack of Clean -/
def stackOk (rooted : Bool) (l : List Bytes) : Prop :=
  ∀ c ∈ l, c ≠ [] ∧ (∀ x ∈ c, x ≠ slash) ∧ c ≠ dot ∧ (rooted = true → c ≠ dotdot)

theorem cleanStep_ok (rooted : Bool) (stack : List Bytes) (c : Bytes) (hs : stackOk rooted stack)
    (hc : ∀ x ∈ c, x ≠ slash) : stackOk rooted (cleanStep rooted stack c) := by
  unfold cleanStep
  split
  · exact hs
  · rename_i h1
    simp only [Bool.or_eq_true, List.isEmpty_iff, beq_iff_eq, not_or] at h1
    split
    · rename_i h2
      cases stack with
      | nil =>
        simp only
        split
        · intro x hx; cases hx
        · rename_i hr
          intro x hx
          simp only [List.mem_singleton] at hx
          subst hx
          exact ⟨by decide, by decide, by decide, fun h => absurd h hr⟩
      | cons top rest =>
        simp only
        split
        · rename_i ht
          have htop := hs top (List.mem_cons_self ..)
          have hrf : ¬ rooted = true := fun hr => htop.2.2.2 hr (by simpa using ht)
          intro x hx
          cases hx with
          | head => exact ⟨by decide, by decide, by decide, fun h => absurd h hrf⟩
          | tail _ hx' => exact hs x hx'
        · intro x hx; exact hs x (List.mem_cons_of_mem _ hx)
    · rename_i h2
      intro x hx
      cases hx with
      | head => exact ⟨h1.1, hc, h1.2, fun _ => by simpa using h2⟩
      | tail _ hx' => exact hs x hx'

theorem foldl_cleanStep_ok (rooted : Bool) (comps : List Bytes) :
    ∀ stack, stackOk rooted stack → (∀ c ∈ comps, ∀ x ∈ c, x ≠ slash) →
      stackOk rooted (comps.foldl (cleanStep rooted) stack) := by
  induction comps with
  | nil => intro stack hs _; exact hs
  | cons c cs ih =>
    intro stack hs hc
    simp only [List.foldl_cons]
    exact ih _ (cleanStep_ok rooted stack c hs (hc c (List.mem_cons_self ..)))
      (fun c' hc' => hc c' (List.mem_cons_of_mem _ hc'))

theorem cleanComps_ok (rooted : Bool) (p : Bytes) : stackOk rooted (cleanComps rooted (splitOn slash p)) := by
  intro c hc
  unfold cleanComps at hc
  rw [List.mem_reverse] at hc
  exact foldl_cleanStep_ok rooted _ [] (fun x hx => by cases hx) (splitOn_pieces_noSep slash p) c hc

theorem joinSlash_head (c : Bytes) (rest : List Bytes) (hc : c ≠ []) : (joinSlash (c :: rest)).head? = c.head? := by
  cases c with
  | nil => exact absurd rfl hc
  | cons x xs => cases rest <;> simp [joinSlash]

/-- a Clean result that starts with a slash is `/` followed by normal components only -/
theorem clean_rooted_form (p : Bytes) (h : (clean p).head? = some slash) :
    clean p = slash :: joinSlash (cleanComps true (splitOn slash p)) := by
  unfold clean at h ⊢
  by_cases hr : (p.head? == some slash) = true
  · simp only [hr, if_true, List.cons_append, List.nil_append, List.isEmpty_cons, Bool.false_eq_true, if_false]
  · exfalso
    simp only [hr, Bool.false_eq_true, if_false, List.nil_append] at h
    have hok := cleanComps_ok false p
    cases hcs : cleanComps false (splitOn slash p) with
    | nil => rw [hcs] at h; simp [joinSlash, dot, slash] at h
    | cons c rest =>
      rw [hcs] at h hok
      have hc := hok c (List.mem_cons_self ..)
      have hne : joinSlash (c :: rest) ≠ [] := by
        intro e
        have := joinSlash_head c rest hc.1
        rw [e] at this
        cases c with
        | nil => exact hc.1 rfl
        | cons x xs => simp at this
      have hemp : (joinSlash (c :: rest)).isEmpty = false := by
        cases hj : joinSlash (c :: rest) with
        | nil => exact absurd hj hne
        | cons _ _ => rfl
      simp only [hemp, Bool.false_eq_true, if_false] at h
      rw [joinSlash_head c rest hc.1] at h
      cases c with
      | nil => exact hc.1 rfl
      | cons x xs =>
        simp only [List.head?_cons, Option.some.injEq] at h
        exact hc.2.1 x (List.mem_cons_self ..) h

theorem hasPrefix_split (p s : Bytes) (h : hasPrefix p s = true) : ∃ rest, s = p ++ rest := by
  induction p generalizing s with
  | nil => exact ⟨s, rfl⟩
  | cons a as ih =>
    cases s with
    | nil => simp [hasPrefix] at h
    | cons c cs =>
      simp only [hasPrefix, Bool.and_eq_true, beq_iff_eq] at h
      obtain ⟨rest, e⟩ := ih cs h.2
      exact ⟨rest, by rw [h.1, e]; rfl⟩

/-- CONTAINMENT: for an absolute asset root and EVERY request path (any number of `..`, `.`,
    empty or odd components), normalizeAssetPath returns either the fixed name
    `Join(root,"__invalid__")` (which does not depend on the request) or `root/` followed by
    components none of which is empty, `.` or `..` — a path lexically below the root. -/
theorem C39_contained (root path : Bytes) (habs : root.head? = some slash) :
    normalize root path = join2 root invalidName ∨
    ∃ rest, normalize root path = root ++ slash :: rest ∧
      ∀ c ∈ splitOn slash rest, c ≠ [] ∧ c ≠ dot ∧ c ≠ dotdot := by
  unfold normalize
  by_cases hp : hasPrefix (root ++ [slash]) (clean (join2 root path)) = true
  · right
    simp only [hp, Bool.not_true, Bool.false_eq_true, if_false]
    obtain ⟨rest, e⟩ := hasPrefix_split _ _ hp
    rw [List.append_assoc] at e
    simp only [List.cons_append, List.nil_append] at e
    refine ⟨rest, e, ?_⟩
    obtain ⟨r0, rs, hroot⟩ : ∃ r0 rs, root = r0 :: rs := by
      cases root with
      | nil => simp at habs
      | cons r0 rs => exact ⟨r0, rs, rfl⟩
    have hr0 : r0 = slash := by rw [hroot] at habs; simpa using habs
    have hhead : (clean (join2 root path)).head? = some slash := by
      rw [e, hroot, hr0]; rfl
    have hform := clean_rooted_form _ hhead
    have hok := cleanComps_ok true (join2 root path)
    generalize cleanComps true (splitOn slash (join2 root path)) = cs at hform hok
    have h1 : splitOn slash (clean (join2 root path)) = splitOn slash root ++ splitOn slash rest := by
      rw [e]; exact splitOn_append_sep_gen slash root rest
    have hcsne : cs ≠ [] := by
      intro hnil
      rw [hnil] at hform
      rw [hform] at e
      rw [hroot] at e
      simp [joinSlash] at e
    have h2 : splitOn slash (clean (join2 root path)) = [] :: cs := by
      rw [hform]
      have := splitOn_append_sep_gen slash [] (joinSlash cs)
      simp only [List.nil_append] at this
      rw [this, splitOn_joinSlash cs hcsne (fun c hc => (hok c hc).2.1)]
      rfl
    obtain ⟨h0, t0, e0⟩ := List.exists_cons_of_ne_nil (splitOn_ne_nil slash root)
    rw [h1, e0] at h2
    simp only [List.cons_append, List.cons.injEq] at h2
    intro c hc
    have hmem : c ∈ cs := by rw [← h2.2]; exact List.mem_append_right _ hc
    have := hok c hmem
    exact ⟨this.1, this.2.2.1, this.2.2.2 rfl⟩
  · left
    simp [hp]

/-- why the root must be absolute: with the (absurd) relative root `..` the prefix test passes for
    a path that climbs further up -/
example : normalize [46, 46] [47, 46, 46, 47, 120] = [46, 46, 47, 46, 46, 47, 120] := by decide

/-! ### the unpatched code violates the property (model with `fixed = false`) -/

def tenBytes : Bytes := [48, 49, 50, 51, 52, 53, 54, 55, 56, 57]
def fTxt : Bytes := [47, 102, 46, 116, 120, 116]          -- "/f.txt"
def pMd : Bytes := [47, 112, 46, 109, 100]                -- "/p.md"

/-- `Range: bytes=5` (no dash): `ranges[1]` is indexed in a one-element slice -/
theorem C39_orig_nodash_counterexample (P : Prims) :
    (handle false P ⟨fTxt, some [98, 121, 116, 101, 115, 61, 53], false, .file tenBytes, none⟩).isPanic = true := by
  rfl

/-- `Range: bytes=20-` on a 10-byte file: `make([]byte, 9-20+1)` -/
theorem C39_orig_beyond_counterexample (P : Prims) :
    (handle false P ⟨fTxt, some [98, 121, 116, 101, 115, 61, 50, 48, 45], false, .file tenBytes, none⟩).isPanic = true := by
  rfl

/-- `Range: bytes=0-` on a cached asset: totalSize stays 0, the header says `bytes 0--1/0` -/
theorem C39_orig_cached_counterexample (P : Prims) :
    handle false P ⟨fTxt, some [98, 121, 116, 101, 115, 61, 48, 45], false, .file tenBytes, some tenBytes⟩ =
      .ok (.part (contentRange 0 (-1) 0) 10 tenBytes, some tenBytes) := by
  rfl

/-- a range on a Markdown file: the body is the rendering of a fragment, labelled with offsets of the source -/
theorem C39_orig_markdown_counterexample (P : Prims) :
    handle false P ⟨pMd, some [98, 121, 116, 101, 115, 61, 50, 45, 53], false, .file tenBytes, none⟩ =
      .ok (.part (contentRange 2 5 10) (P.md [50, 51, 52, 53]).length (P.md [50, 51, 52, 53]), none) := by
  rfl

/-- the same four requests on the patched code -/
example (P : Prims) : handle true P ⟨fTxt, some [98, 121, 116, 101, 115, 61, 53], false, .file tenBytes, none⟩ =
    .ok (.err 400, none) := by rfl
example (P : Prims) : handle true P ⟨fTxt, some [98, 121, 116, 101, 115, 61, 50, 48, 45], false, .file tenBytes, none⟩ =
    .ok (.unsat (contentRangeUnsat 10), none) := by rfl
example (P : Prims) : handle true P ⟨fTxt, some [98, 121, 116, 101, 115, 61, 48, 45], false, .file tenBytes, some tenBytes⟩ =
    .ok (.part (contentRange 0 9 10) 10 tenBytes, some tenBytes) := by rfl
example (P : Prims) : handle true P ⟨pMd, some [98, 121, 116, 101, 115, 61, 50, 45, 53], false, .file tenBytes, none⟩ =
    .ok (.full (P.md (P.xform tenBytes)).length (P.md (P.xform tenBytes)),
         if (P.xform tenBytes).length > cacheLimit then none else some (P.xform tenBytes)) := by rfl

/-! ### non-vacuity of the hypotheses used above -/

example : nodeOk (.file tenBytes) := by simp [nodeOk, tenBytes]
example : reprOk ⟨id, id⟩ (.file tenBytes) := by intro f h; cases h; simp [tenBytes]
example : cacheOk ⟨id, id⟩ (.file tenBytes) (some tenBytes) := by intro d h; cases h; exact ⟨_, rfl, rfl⟩
example : cacheOk ⟨id, id⟩ (.file tenBytes) none := by intro d h; cases h
example : digitsVal 0 [50] = some 2 ∧ digitsVal 0 [53] = some 5 := by decide
/-- `bytes=2-5` on the ten-byte file meets every hypothesis of `C39_wellformed_served` and yields `2345` -/
example : handle true ⟨id, id⟩ ⟨fTxt, some (bytesEq ++ [50] ++ dash :: [53]), false, .file tenBytes, none⟩ =
    .ok (.part (contentRange 2 5 10) 4 [50, 51, 52, 53], none) := by
  have := C39_wellformed_served ⟨id, id⟩ ⟨fTxt, some (bytesEq ++ [50] ++ dash :: [53]), false, .file tenBytes, none⟩
    tenBytes [50] [53] 2 5 (by simp) (by simp) (by decide) (by decide) (by omega) (by omega) rfl rfl (by simp [tenBytes])
    (by decide) (by decide) (by omega) (by simp [tenBytes]) (by omega)
  rw [this]; rfl
/-- an absolute root and a hostile path: the second disjunct of `C39_contained` is inhabited -/
example : normalize [47, 114] [47, 47, 97, 47, 46, 47, 98, 47, 46, 46, 47, 99] = [47, 114, 47, 97, 47, 99] := by decide
example : normalize [47, 114] [47, 97, 47, 46, 46, 47, 46, 46, 47, 120] = join2 [47, 114] invalidName := by decide

end EgoVerif.C39
