import EgoVerif.Common.Drv
import EgoVerif.C39.Model
/- line protocol (all byte strings hex-encoded, "-" = empty):
   `pint <s>`                          → `<int>` | `err`                 strconv.ParseInt(s,10,64)
   `norm <libpath> <egopath> <path>`    → `<hex of normalizeAssetPath(path)>` under those two settings
   `req  <path> <range|none> <G|H> <missing|dir:N|file:HEX> <none|hit:HEX> <xform> <md>`
        (`reqorig` = the code before fixes/C39.patch)
        → `403` | `400` | `404` | `416 <cr>` | `200 <clen> <body>` | `206 <cr> <clen> <body>` | `panic`
   `xform` = output of the minifier on the file, `md` = mdToHTML of the loaded data.
   Large assets travel in compact form.  `file:gen:N:K` is the file of the N bytes `genByte K 0 …
   genByte K (N-1)` (the harness checks that the file on its side is exactly that sequence before it
   writes the field); `hit:=` and an xform field `=` stand for "byte for byte the file" (checked by the
   harness likewise) and share the list instead of building it again.  A response
   body longer than `bigBody` bytes is written as `#<length>:<FNV-1a 64 of the body, decimal>`. -/
namespace EgoVerif.C39

def hx (b : Bytes) : String := if b.isEmpty then "-" else hexOfBytes b

def unhx (s : String) : Option Bytes := if s == "-" then some [] else bytesOfHex s

/-- byte `i` of the generated asset with salt `k` (the harness's `c39GenByte`; uint64 arithmetic) -/
def genByte (k : UInt64) (i : Nat) : UInt8 :=
  let x : UInt64 := i.toUInt64 * 2654435761 + k
  ((x >>> 24) ^^^ (x >>> 9) ^^^ x).toUInt8

def genLoop (k : UInt64) : Nat → Bytes → Bytes      -- tail recursive: the files have millions of bytes
  | 0, acc => acc
  | n + 1, acc => genLoop k n (genByte k n :: acc)

def genBytes (n : Nat) (k : UInt64) : Bytes := genLoop k n []

/-- a byte-string field: `-`, hex, or `gen:N:K` -/
def unhxBig (s : String) : Option Bytes :=
  if s.startsWith "gen:" then
    match (s.drop 4).toString.splitOn ":" with
    | [n, k] =>
      match n.toNat?, k.toNat? with
      | some n, some k => if n ≤ 16777216 then some (genBytes n k.toUInt64) else none
      | _, _ => none
    | _ => none
  else unhx s

def bigBody : Nat := 4096

def fnv64 (b : Bytes) : UInt64 :=
  b.foldl (fun h c => (h ^^^ c.toUInt64) * 1099511628211) 14695981039346656037

/-- a response body on the wire -/
def hxBody (b : Bytes) : String :=
  let n := b.length
  if n > bigBody then "#" ++ toString n ++ ":" ++ toString (fnv64 b).toNat else hx b

def parseNode (s : String) : Option Node :=
  if s == "missing" then some .missing
  else if s.startsWith "dir:" then (s.drop 4).toNat?.map Node.dir
  else if s.startsWith "file:" then (unhxBig (s.drop 5).toString).map Node.file
  else none

/-- a byte-string field that may be `=`: the very bytes of the file node (shared, not regenerated) -/
def unhxSame (same : Option Bytes) (s : String) : Option Bytes :=
  if s == "=" then same else unhx s

def parseCache (same : Option Bytes) (s : String) : Option (Option Bytes) :=
  if s == "none" then some none
  else if s.startsWith "hit:" then (unhxSame same (s.drop 4).toString).map some
  else none

def showResp : Res (Resp × Option Bytes) → String
  | .panic _ => "panic"
  | .ok (.err s, _) => toString s
  | .ok (.unsat cr, _) => "416 " ++ hx cr
  | .ok (.full n b, _) => "200 " ++ toString n ++ " " ++ hxBody b
  | .ok (.part cr n b, _) => "206 " ++ hx cr ++ " " ++ toString n ++ " " ++ hxBody b

def doReq (fixed : Bool) (path rng meth node cache xf md : String) : String :=
  let rngO : Option (Option Bytes) := if rng == "none" then some none else (unhx rng).map some
  match parseNode node with
  | none => "bad-input"
  | some n =>
    let same : Option Bytes := match n with
      | .file f => some f
      | _ => none
    match unhx path, rngO, parseCache same cache, unhxSame same xf, unhx md with
    | some p, some r, some c, some x, some m =>
      showResp (handle fixed ⟨fun _ => x, fun _ => m⟩ ⟨p, r, meth == "H", n, c⟩)
    | _, _, _, _, _ => "bad-input"

def handleLine (line : String) : String :=
  match fields line with
  | ["pint", h] =>
    match unhx h with
    | some s => match parseInt s with
      | some v => toString v
      | none => "err"
    | none => "bad-input"
  | ["norm", l, e, p] =>
    match unhx l, unhx e, unhx p with
    | some l, some e, some p => hx (normalize (chooseRoot l e) p)
    | _, _, _ => "bad-input"
  | ["req", path, rng, meth, node, cache, xf, md] => doReq true path rng meth node cache xf md
  | ["reqorig", path, rng, meth, node, cache, xf, md] => doReq false path rng meth node cache xf md
  | _ => "bad-op"

def drv : Drv := Drv.pure handleLine

end EgoVerif.C39
