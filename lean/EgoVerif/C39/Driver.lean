import EgoVerif.Common.Drv
import EgoVerif.C39.Model
/- line protocol (all byte strings hex-encoded, "-" = empty):
   `pint <s>`                          → `<int>` | `err`                 strconv.ParseInt(s,10,64)
   `norm <libpath> <egopath> <path>`    → `<hex of normalizeAssetPath(path)>` under those two settings
   `req  <path> <range|none> <G|H> <missing|dir:N|file:HEX> <none|hit:HEX> <xform> <md>`
        (`reqorig` = the code before fixes/C39.patch)
        → `403` | `400` | `404` | `416 <cr>` | `200 <clen> <body>` | `206 <cr> <clen> <body>` | `panic`
   `xform` = output of the minifier on the file, `md` = mdToHTML of the loaded data. -/
namespace EgoVerif.C39

def hx (b : Bytes) : String := if b.isEmpty then "-" else hexOfBytes b

def unhx (s : String) : Option Bytes := if s == "-" then some [] else bytesOfHex s

def parseNode (s : String) : Option Node :=
  if s == "missing" then some .missing
  else if s.startsWith "dir:" then (s.drop 4).toNat?.map Node.dir
  else if s.startsWith "file:" then (unhx (s.drop 5).toString).map Node.file
  else none

def parseCache (s : String) : Option (Option Bytes) :=
  if s == "none" then some none
  else if s.startsWith "hit:" then (unhx (s.drop 4).toString).map some
  else none

def showResp : Res (Resp × Option Bytes) → String
  | .panic _ => "panic"
  | .ok (.err s, _) => toString s
  | .ok (.unsat cr, _) => "416 " ++ hx cr
  | .ok (.full n b, _) => "200 " ++ toString n ++ " " ++ hx b
  | .ok (.part cr n b, _) => "206 " ++ hx cr ++ " " ++ toString n ++ " " ++ hx b

def doReq (fixed : Bool) (path rng meth node cache xf md : String) : String :=
  let rngO : Option (Option Bytes) := if rng == "none" then some none else (unhx rng).map some
  match unhx path, rngO, parseNode node, parseCache cache, unhx xf, unhx md with
  | some p, some r, some n, some c, some x, some m =>
    showResp (handle fixed ⟨fun _ => x, fun _ => m⟩ ⟨p, r, meth == "H", n, c⟩)
  | _, _, _, _, _, _ => "bad-input"

def handleLine (line : String) : String :=
  match fields line with
  | ["pint", h] =>
    match unhx h with
    | some s => match parseInt s with
      | some v => toString v
      | none => "err"
    | none => "bad-input"
  | ["norm", l, e, p] =>
    match unhx l, unhx e, unhx p with
    | some l, some e, some p => hx (normalize (chooseRoot l e) p)
    | _, _, _ => "bad-input"
  | ["req", path, rng, meth, node, cache, xf, md] => doReq true path rng meth node cache xf md
  | ["reqorig", path, rng, meth, node, cache, xf, md] => doReq false path rng meth node cache xf md
  | _ => "bad-op"

def drv : Drv := Drv.pure handleLine

end EgoVerif.C39
