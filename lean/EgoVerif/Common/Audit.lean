import Lean
/-
`#audit_module M` lists every theorem declared in module `M` together with the axioms it
depends on, one line each:  `AUDIT <name> [ax1, ax2]`.  Used by ./check to build the
obligation list of a property and to reject anything beyond propext / Classical.choice /
Quot.sound (in particular `sorryAx` and the `native_decide` / `bv_decide` axioms).
-/
open Lean Elab Command

elab "#audit_module " m:ident : command => do
  let env ← getEnv
  let some idx := env.getModuleIdx? m.getId
    | throwError "module {m.getId} is not imported"
  let mut names : Array Name := #[]
  for (n, ci) in env.constants.map₁.toList do
    if env.getModuleIdxFor? n == some idx then
      if let .thmInfo _ := ci then
        if !n.isInternalDetail then
          names := names.push n
  for n in names.qsort (fun a b => a.toString < b.toString) do
    let axs ← liftCoreM (collectAxioms n)
    let axs := axs.qsort (fun a b => a.toString < b.toString)
    logInfo m!"AUDIT {n} {axs.toList}"
