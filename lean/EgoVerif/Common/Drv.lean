/-
Line-protocol plumbing shared by every property driver (core Lean only, so that the
`egodriver` executable links).  A property driver is a `Drv`: an initial state and a
`step` consuming one input line and producing one output line.
-/
namespace EgoVerif

structure Drv where
  σ : Type
  init : σ
  step : σ → String → σ × String

/-- A stateless driver from a pure line function. -/
def Drv.pure (f : String → String) : Drv := { σ := Unit, init := (), step := fun _ l => ((), f l) }

def hexDigit (n : Nat) : Char :=
  if n < 10 then Char.ofNat (48 + n) else Char.ofNat (87 + n)

def hexVal (c : Char) : Option Nat :=
  if '0' ≤ c ∧ c ≤ '9' then some (c.toNat - 48)
  else if 'a' ≤ c ∧ c ≤ 'f' then some (c.toNat - 87)
  else if 'A' ≤ c ∧ c ≤ 'F' then some (c.toNat - 55)
  else none

/-- bytes → lowercase hex -/
def hexOfBytes (bs : List UInt8) : String :=
  String.ofList (bs.flatMap fun b => [hexDigit (b.toNat / 16), hexDigit (b.toNat % 16)])

def bytesOfHexAux : List Char → Option (List UInt8)
  | [] => some []
  | [_] => none
  | a :: b :: rest =>
    match hexVal a, hexVal b, bytesOfHexAux rest with
    | some x, some y, some r => some (UInt8.ofNat (x * 16 + y) :: r)
    | _, _, _ => none

def bytesOfHex (s : String) : Option (List UInt8) := bytesOfHexAux s.toList

/-- hex of the UTF-8 encoding of a string; "-" stands for the empty string on the wire -/
def hexOfString (s : String) : String :=
  if s.isEmpty then "-" else hexOfBytes s.toUTF8.toList

/-- decode a hex field into a string (must be valid UTF-8); "-" is the empty string -/
def stringOfHex (h : String) : Option String :=
  if h == "-" then some "" else
  match bytesOfHex h with
  | none => none
  | some bs => String.fromUTF8? (ByteArray.mk bs.toArray)

def fields (line : String) : List String :=
  (line.splitOn " ").filter (· ≠ "")

end EgoVerif
