import EgoVerif.C30.Model
/-
C30 — theorems.  Main result `C30_refines_table`: for every schema (well formed), every initial
primary-key setting and EVERY history of operations, the handle + database model answers exactly
as the keyed in-memory record list `Spec`.
-/
namespace EgoVerif.C30

/-! ### list helpers -/

theorem getElem?_append_cons_length {α} (l : List α) (x : α) (r : List α) :
    (l ++ x :: r)[l.length]? = some x := by
  induction l with
  | nil => simp
  | cons a l ih => simp

theorem findIdxBy_lt {p : Col → Bool} {cols : List Col} {i : Nat} (h : findIdxBy p cols = some i) :
    i < cols.length := by
  induction cols generalizing i with
  | nil => simp [findIdxBy] at h
  | cons c cs ih =>
    simp only [findIdxBy] at h
    split at h
    · cases h; simp
    · cases h' : findIdxBy p cs with
      | none => simp [h'] at h
      | some j =>
        simp [h'] at h
        subst h
        have := ih h'
        simp; omega

/-- with pairwise different SQL names, the database resolves the SQL name of the column found
by field name to that same column -/
theorem findIdxBy_sql_of_findBy {p : Col → Bool} {cols : List Col} {c : Col}
    (hd : distinctSql cols = true) (h : findBy p cols = some c) :
    findIdxBy (sqlIs c.sqlName) cols = findIdxBy p cols ∧ (findIdxBy p cols).isSome := by
  induction cols with
  | nil => simp [findBy] at h
  | cons c0 cs ih =>
    simp only [distinctSql, Bool.and_eq_true, List.all_eq_true] at hd
    simp only [findBy] at h
    by_cases hp : p c0 = true
    · simp [hp] at h
      subst h
      simp [findIdxBy, hp, sqlIs]
    · simp [hp] at h
      have hmem : c ∈ cs := by
        clear ih hd
        induction cs with
        | nil => simp [findBy] at h
        | cons d ds ihd =>
          simp only [findBy] at h
          split at h
          · cases h; simp
          · exact List.mem_cons_of_mem _ (ihd h)
      have hne := hd.1 c hmem
      have hne' : (c0.sqlName == c.sqlName) = false := by
        simp at hne ⊢
        exact fun e => hne e.symm
      have := ih hd.2 h
      simp [findIdxBy, hp, sqlIs, hne']
      rw [this.1]
      exact ⟨rfl, this.2⟩

theorem findBy_none_iff {p : Col → Bool} {cols : List Col} :
    findBy p cols = none ↔ findIdxBy p cols = none := by
  induction cols with
  | nil => simp [findBy, findIdxBy]
  | cons c cs ih =>
    by_cases hp : p c = true <;> simp [findBy, findIdxBy, hp, ih]

/-- with field names pairwise different up to folding, the name of column `k` resolves to `k` -/
theorem findIdxBy_name_self {cols : List Col} {k : Nat} {c : Col}
    (hd : distinctNames cols = true) (h : cols[k]? = some c) :
    findIdxBy (nameIs c.name) cols = some k := by
  induction cols generalizing k with
  | nil => simp at h
  | cons c0 cs ih =>
    simp only [distinctNames, Bool.and_eq_true, List.all_eq_true] at hd
    cases k with
    | zero =>
      simp at h
      subst h
      simp [findIdxBy, nameIs]
    | succ k =>
      simp at h
      have hmem : c ∈ cs := List.mem_of_getElem? h
      have hne := hd.1 c hmem
      have : nameIs c.name c0 = false := by
        simp [nameIs] at hne ⊢
        exact fun e => hne e.symm
      simp [findIdxBy, this, ih hd.2 h]

/-! ### the loop, characterised -/

def valid (fl : List (Option Filter)) : List Filter := fl.filterMap id

def isInvalid (f : Filter) : Bool := f.op == .invalid

/-- the clauses the loop emits for non-nil, valid filters when `n` arguments are already bound -/
def clausesOf (nbase : Nat) : Nat → List Filter → List Clause
  | _, [] => []
  | n, f :: fs => ⟨if n = nbase then .where_ else .and_, f.name, f.op, n + 1⟩ :: clausesOf nbase (n + 1) fs

theorem genWhere_eq (nbase : Nat) (fl : List (Option Filter)) (cls : List Clause) (args : List Val) :
    genWhere nbase fl cls args =
      if (valid fl).any isInvalid then .error .badcol
      else .ok (cls ++ clausesOf nbase args.length (valid fl), args ++ (valid fl).map (·.value)) := by
  induction fl generalizing cls args with
  | nil => simp [genWhere, valid, clausesOf]
  | cons o fl ih =>
    cases o with
    | none => simpa [genWhere, valid] using ih cls args
    | some f =>
      by_cases hf : f.op = .invalid
      · simp [genWhere, valid, hf, isInvalid]
      · have hf' : isInvalid f = false := by simp [isInvalid, hf]
        simp only [genWhere, hf, if_false]
        rw [ih]
        simp [valid, hf', clausesOf, List.append_assoc]

/-! ### filters built by the handle vs. filters resolved by the specification -/

inductive All2 {α β} (R : α → β → Prop) : List α → List β → Prop
  | nil : All2 R [] []
  | cons {a b l₁ l₂} : R a b → All2 R l₁ l₂ → All2 R (a :: l₁) (b :: l₂)

/-- handle-level filter `f` and resolved filter `rf` denote the same comparison -/
def Rel (sc : Schema) (f : Filter) (rf : Spec.RF) : Prop :=
  findIdxBy (sqlIs f.name) sc.cols = some rf.idx ∧ f.op.cmp? = some rf.cmp ∧ f.value = rf.v

theorem cmp_toOperator (op : Cmp) : op.toOperator.cmp? = some op := by cases op <;> rfl

theorem toOperator_ne_invalid (op : Cmp) : op.toOperator ≠ .invalid := by cases op <;> simp [Cmp.toOperator]

theorem resolve_error {sc : Schema} {fs : List FSpec} {e : Err} (h : Spec.resolve sc fs = .error e) :
    e = .badcol ∧ (valid (mkFilters sc fs)).any isInvalid = true := by
  induction fs with
  | nil => simp [Spec.resolve] at h
  | cons f fs ih =>
    cases f with
    | nil => simpa [Spec.resolve, mkFilters, mkFilter, valid] using ih h
    | mk name op v =>
      simp only [Spec.resolve] at h
      cases hi : findIdxBy (nameIs name) sc.cols with
      | none =>
        have hb : findBy (nameIs name) sc.cols = none := findBy_none_iff.mpr hi
        simp [hi] at h
        simp [mkFilters, mkFilter, valid, newFilter, hb, isInvalid, h]
      | some i =>
        simp only [hi] at h
        cases hr : Spec.resolve sc fs with
        | error e' =>
          simp [hr] at h
          subst h
          have := ih hr
          refine ⟨this.1, ?_⟩
          have h2 := this.2
          simp [mkFilters, valid] at h2 ⊢
          exact Or.inr h2
        | ok rest => simp [hr] at h

theorem resolve_ok {sc : Schema} (hd : distinctSql sc.cols = true) {fs : List FSpec} {rfs : List Spec.RF}
    (h : Spec.resolve sc fs = .ok rfs) :
    (valid (mkFilters sc fs)).any isInvalid = false ∧ All2 (Rel sc) (valid (mkFilters sc fs)) rfs := by
  induction fs generalizing rfs with
  | nil =>
    simp [Spec.resolve] at h
    subst h
    exact ⟨by simp [mkFilters, valid], All2.nil⟩
  | cons f fs ih =>
    cases f with
    | nil => simpa [Spec.resolve, mkFilters, mkFilter, valid] using ih h
    | mk name op v =>
      simp only [Spec.resolve] at h
      cases hi : findIdxBy (nameIs name) sc.cols with
      | none => simp [hi] at h
      | some i =>
        simp only [hi] at h
        cases hr : Spec.resolve sc fs with
        | error e' => simp [hr] at h
        | ok rest =>
          simp [hr] at h
          subst h
          have ⟨h1, h2⟩ := ih hr
          cases hb : findBy (nameIs name) sc.cols with
          | none => rw [findBy_none_iff.mp hb] at hi; cases hi
          | some c =>
            have hs := (findIdxBy_sql_of_findBy hd hb).1
            have hv : valid (mkFilters sc (FSpec.mk name op v :: fs)) =
                ⟨c.sqlName, v, op.toOperator⟩ :: valid (mkFilters sc fs) := by
              simp [mkFilters, mkFilter, valid, newFilter, hb]
            rw [hv]
            refine ⟨?_, ?_⟩
            · simp only [List.any_cons, Bool.or_eq_false_iff]
              exact ⟨by simp [isInvalid, toOperator_ne_invalid], h1⟩
            · refine All2.cons ?_ h2
              exact ⟨by rw [hs, hi], cmp_toOperator op, rfl⟩

/-! ### semantics of the emitted clauses -/

theorem clausesOf_and (nbase : Nat) {n : Nat} (hn : nbase < n) (fl : List Filter) :
    (clausesOf nbase n fl).all (fun c => c.kw == .and_) = true := by
  induction fl generalizing n with
  | nil => simp [clausesOf]
  | cons f fl ih =>
    have : n ≠ nbase := by omega
    simp [clausesOf, this]
    exact by simpa using ih (n := n + 1) (by omega)

/-- `where` comes first and only first -/
theorem clausesOf_wellFormed (nbase : Nat) (fl : List Filter) : wellFormed (clausesOf nbase nbase fl) = true := by
  cases fl with
  | nil => simp [clausesOf, wellFormed]
  | cons f fl =>
    simp [clausesOf, wellFormed]
    exact by simpa using clausesOf_and nbase (n := nbase + 1) (by omega) fl

/-- every emitted clause is accepted by the database and means what the resolved filter means:
placeholder `$n+1` is bound to the filter's own value -/
theorem clauses_sem {sc : Schema} {fl : List Filter} {rfs : List Spec.RF} (h : All2 (Rel sc) fl rfs)
    (nbase : Nat) (pre : List Val) :
    (clausesOf nbase pre.length fl).all (checkClause sc (pre ++ fl.map (·.value))) = true ∧
    ∀ row, Db.matches sc (pre ++ fl.map (·.value)) (clausesOf nbase pre.length fl) row = Spec.sel rfs row := by
  induction h generalizing pre with
  | nil => simp [clausesOf, Db.matches, Spec.sel]
  | @cons f rf fl rfs hrel _ ih =>
    obtain ⟨hidx, hcmp, hval⟩ := hrel
    have hassoc : pre ++ (f :: fl).map (·.value) = (pre ++ [f.value]) ++ fl.map (·.value) := by simp
    have hlen : (pre ++ [f.value]).length = pre.length + 1 := by simp
    have ⟨ih1, ih2⟩ := ih (pre ++ [f.value])
    rw [hlen] at ih1 ih2
    have hget : (pre ++ (f :: fl).map (·.value))[pre.length]? = some rf.v := by
      simp [← hval]
    refine ⟨?_, ?_⟩
    · simp only [clausesOf, List.all_cons, Bool.and_eq_true]
      refine ⟨?_, ?_⟩
      · simp [checkClause, hidx, hcmp]
      · rw [hassoc]; exact ih1
    · intro row
      simp only [clausesOf, Db.matches, List.all_cons, Spec.sel]
      congr 1
      · simp only [evalClause, hidx, hcmp, Nat.add_sub_cancel, hget, Spec.RF.holds]
      · have := ih2 row
        simp only [Db.matches, Spec.sel] at this
        rw [hassoc]; exact this

/-! ### each operation of the handle vs. the specification -/

theorem prepare_ok {sc : Schema} {fl : List Filter} {rfs : List Spec.RF} (h : All2 (Rel sc) fl rfs) (base : List Val) :
    Db.prepare sc (base ++ fl.map (·.value)) (clausesOf base.length base.length fl) = true := by
  simp only [Db.prepare, Bool.and_eq_true]
  exact ⟨clausesOf_wellFormed _ _, (clauses_sem h base.length base).1⟩

theorem read_eq {sc : Schema} (hw : sc.WF) (s : St) (fs : List FSpec) :
    Impl.read sc s (mkFilters sc fs) =
      match Spec.resolve sc fs with
      | .error e => .error e
      | .ok rfs =>
        match s.tbl with
        | none => .error .sql
        | some rows => .ok (rows.filter (Spec.sel rfs)) := by
  simp only [Impl.read, genWhere_eq]
  cases hr : Spec.resolve sc fs with
  | error e =>
    obtain ⟨he, hany⟩ := resolve_error hr
    simp [hany, he]
  | ok rfs =>
    obtain ⟨hany, hall⟩ := resolve_ok hw.1 hr
    have hp := prepare_ok hall []
    have hm := (clauses_sem hall 0 []).2
    simp only [List.length_nil, List.nil_append] at hp hm
    simp only [hany, Bool.false_eq_true, if_false, List.length_nil, List.nil_append, Db.select]
    cases s.tbl with
    | none => rfl
    | some rows =>
      simp only [hp, if_true]
      congr 1
      exact List.filter_congr (fun r _ => hm r)

theorem delete_eq {sc : Schema} (hw : sc.WF) (s : St) (fs : List FSpec) :
    Impl.delete sc s (mkFilters sc fs) =
      match Spec.resolve sc fs with
      | .error e => (s, .error e)
      | .ok rfs =>
        match s.tbl with
        | none => (s, .error .sql)
        | some rows =>
          ({ s with tbl := some (rows.filter (fun r => !Spec.sel rfs r)) }, .ok (rows.filter (Spec.sel rfs)).length) := by
  simp only [Impl.delete, genWhere_eq]
  cases hr : Spec.resolve sc fs with
  | error e =>
    obtain ⟨he, hany⟩ := resolve_error hr
    simp [hany, he]
  | ok rfs =>
    obtain ⟨hany, hall⟩ := resolve_ok hw.1 hr
    have hp := prepare_ok hall []
    have hm := (clauses_sem hall 0 []).2
    simp only [List.length_nil, List.nil_append] at hp hm
    simp only [hany, Bool.false_eq_true, if_false, List.length_nil, List.nil_append, Db.delete]
    cases s.tbl with
    | none => rfl
    | some rows =>
      simp only [hp, if_true]
      have h1 : rows.filter (fun r => !Db.matches sc ((valid (mkFilters sc fs)).map (·.value))
          (clausesOf 0 0 (valid (mkFilters sc fs))) r) = rows.filter (fun r => !Spec.sel rfs r) :=
        List.filter_congr (fun r _ => by rw [hm r])
      have h2 : rows.filter (Db.matches sc ((valid (mkFilters sc fs)).map (·.value))
          (clausesOf 0 0 (valid (mkFilters sc fs)))) = rows.filter (Spec.sel rfs) :=
        List.filter_congr (fun r _ => hm r)
      rw [h1, h2]

theorem update_eq {sc : Schema} (hw : sc.WF) (s : St) (row : Row) (hrow : row.length = sc.cols.length)
    (fs : List FSpec) :
    Impl.update sc s row (mkFilters sc fs) =
      match Spec.resolve sc fs with
      | .error e => (s, .err e)
      | .ok rfs => Spec.update sc s row rfs := by
  simp only [Impl.update, genWhere_eq]
  cases hr : Spec.resolve sc fs with
  | error e =>
    obtain ⟨he, hany⟩ := resolve_error hr
    simp [hany, he]
  | ok rfs =>
    obtain ⟨hany, hall⟩ := resolve_ok hw.1 hr
    have hp := prepare_ok hall row
    have hm := (clauses_sem hall row.length row).2
    simp only [hany, Bool.false_eq_true, if_false, List.nil_append, Db.update, Spec.update]
    cases s.tbl with
    | none => rfl
    | some rows =>
      have hle : sc.cols.length ≤ (row ++ (valid (mkFilters sc fs)).map (·.value)).length := by
        simp; omega
      have htake : (row ++ (valid (mkFilters sc fs)).map (·.value)).take sc.cols.length = row := by
        rw [← hrow]; exact List.take_left
      simp only [hp, hle, decide_true, Bool.and_self, if_true, htake]
      have hmap : rows.map (fun r => if Db.matches sc (row ++ (valid (mkFilters sc fs)).map (·.value))
            (clausesOf row.length row.length (valid (mkFilters sc fs))) r = true then row else r) =
          rows.map (fun r => if Spec.sel rfs r = true then row else r) :=
        List.map_congr_left (fun r _ => by rw [hm r])
      rw [hmap]
      by_cases hkd : keysDistinct (s.keyIdx sc) (rows.map (fun r => if Spec.sel rfs r = true then row else r)) = true <;>
        simp [hkd]

theorem resolve_key {sc : Schema} (hw : sc.WF) {k : Nat} {c : Col} (h : sc.cols[k]? = some c) (kv : Val) :
    Spec.resolve sc [.mk c.name .eq kv] = .ok [⟨k, .eq, kv⟩] := by
  simp [Spec.resolve, findIdxBy_name_self hw.2.1 h]

theorem sel_key (k : Nat) (kv : Val) (r : Row) : Spec.sel [⟨k, .eq, kv⟩] r = (keyOf k r == some kv) := by
  simp only [Spec.sel, List.all_cons, List.all_nil, Bool.and_true, Spec.RF.holds, keyOf]
  cases r[k]? with
  | none => rfl
  | some x => simp [Cmp.eval]

theorem mkFilters_one (sc : Schema) (n : List Char) (kv : Val) :
    [some (newFilter sc n .eq kv)] = mkFilters sc [.mk n .eq kv] := rfl

/-- one step: the handle + database model and the in-memory list give the same answer and the
same next state -/
theorem step_eq {sc : Schema} (hw : sc.WF) (s : St) (hk : s.keyOk sc) (op : Op) (hs : op.shaped sc = true) :
    Impl.step sc s op = Spec.step sc s op := by
  cases op with
  | create =>
    simp only [Impl.step, Spec.step, Impl.create, Spec.create]
  | createIf =>
    simp only [Impl.step, Spec.step, Impl.create, Spec.create]
  | begin => rfl
  | insert row =>
    simp only [Impl.step, Spec.step, Db.insert]
    cases s.tbl with
    | none => rfl
    | some rows =>
      by_cases hkd : keysDistinct (s.keyIdx sc) (rows ++ [row]) = true <;> simp [hkd]
  | read fs =>
    simp only [Impl.step, Spec.step, read_eq hw]
    cases Spec.resolve sc fs with
    | error e => rfl
    | ok rfs => cases s.tbl <;> rfl
  | update row fs =>
    have hrow : row.length = sc.cols.length := by simpa [Op.shaped] using hs
    simp only [Impl.step, Spec.step]
    rw [update_eq hw s row hrow]
    cases Spec.resolve sc fs <;> rfl
  | delete fs =>
    simp only [Impl.step, Spec.step, delete_eq hw]
    cases Spec.resolve sc fs with
    | error e => rfl
    | ok rfs => cases s.tbl <;> rfl
  | readOne kv =>
    simp only [Impl.step, Spec.step, Impl.primaryKeyName]
    cases hkey : s.key with
    | none => rfl
    | some k =>
      have hlt := hk k hkey
      have hc : sc.cols[k]? = some sc.cols[k] := List.getElem?_eq_getElem hlt
      simp only [hc, Option.map_some, mkFilters_one, read_eq hw, resolve_key hw hc]
      cases s.tbl with
      | none => rfl
      | some rows =>
        have : rows.filter (Spec.sel [⟨k, .eq, kv⟩]) = rows.filter (fun r => keyOf k r == some kv) :=
          List.filter_congr (fun r _ => sel_key k kv r)
        simp only [this]
        cases rows.filter (fun r => keyOf k r == some kv) <;> rfl
  | deleteOne kv =>
    simp only [Impl.step, Spec.step, Impl.primaryKeyName]
    cases hkey : s.key with
    | none => rfl
    | some k =>
      have hlt := hk k hkey
      have hc : sc.cols[k]? = some sc.cols[k] := List.getElem?_eq_getElem hlt
      simp only [hc, Option.map_some, mkFilters_one, delete_eq hw, resolve_key hw hc]
      cases ht : s.tbl with
      | none => rfl
      | some rows =>
        have h1 : rows.filter (Spec.sel [⟨k, .eq, kv⟩]) = rows.filter (fun r => keyOf k r == some kv) :=
          List.filter_congr (fun r _ => sel_key k kv r)
        have h2 : rows.filter (fun r => !Spec.sel [⟨k, .eq, kv⟩] r) = rows.filter (fun r => !(keyOf k r == some kv)) :=
          List.filter_congr (fun r _ => by rw [sel_key])
        simp only [h1, h2]
        cases hn : (rows.filter (fun r => keyOf k r == some kv)).length with
        | zero =>
          have hnil : rows.filter (fun r => keyOf k r == some kv) = [] := List.length_eq_zero_iff.mp hn
          have hall : rows.filter (fun r => !(keyOf k r == some kv)) = rows := by
            rw [List.filter_eq_self]
            intro r hr
            have := List.filter_eq_nil_iff.mp hnil r hr
            simpa using this
          have hs' : ({ s with tbl := some rows } : St) = s := by
            cases s; simp_all
          simp [hall, hs']
        | succ n => simp [hkey]
  | updateOne row =>
    have hrow : row.length = sc.cols.length := by simpa [Op.shaped] using hs
    simp only [Impl.step, Spec.step]
    cases hkey : s.key with
    | none => rfl
    | some k =>
      have hlt := hk k hkey
      have hc : sc.cols[k]? = some sc.cols[k] := List.getElem?_eq_getElem hlt
      simp only [hc]
      cases hr : row[k]? with
      | none => rfl
      | some kv =>
        simp only [mkFilters_one, update_eq hw s row hrow, resolve_key hw hc]

theorem defaultKey_lt {sc : Schema} (hw : sc.WF) : defaultKey sc < sc.cols.length := by
  unfold defaultKey
  split
  · next i h => exact findIdxBy_lt h
  · split
    · next i h => exact findIdxBy_lt h
    · exact List.length_pos_iff.mpr hw.2.2

theorem key_step (sc : Schema) (s : St) (op : Op) :
    (Spec.step sc s op).1.key = s.key ∨ (Spec.step sc s op).1.key = some (s.keyIdx sc) := by
  cases op <;> simp only [Spec.step, Spec.create, Spec.update] <;> (repeat' split) <;> simp

theorem keyOk_step {sc : Schema} (hw : sc.WF) (s : St) (hk : s.keyOk sc) (op : Op) :
    (Spec.step sc s op).1.keyOk sc := by
  intro k hkey
  rcases key_step sc s op with h | h
  · rw [h] at hkey; exact hk k hkey
  · rw [h] at hkey
    cases hkey
    simp only [St.keyIdx]
    cases hkey' : s.key with
    | none => exact defaultKey_lt hw
    | some k => exact hk k hkey'

/-- **C30 main theorem.**  For every well-formed schema, every initial state whose primary-key
mark (if any) names a column, and EVERY history of create / createIf / begin / insert / read /
update / delete / readOne / deleteOne / updateOne calls with arbitrary filter lists (valid and
invalid column names in any spelling, literal nils, any values) over records of the handle's
type, the handle + SQL + database model returns exactly what the keyed in-memory record list
returns, call by call. -/
theorem C30_refines_table (sc : Schema) (hw : sc.WF) (s : St) (hk : s.keyOk sc) (ops : List Op)
    (hs : ∀ op ∈ ops, op.shaped sc = true) :
    Impl.run sc s ops = Spec.run sc s ops := by
  induction ops generalizing s with
  | nil => rfl
  | cons op ops ih =>
    have h1 := step_eq hw s hk op (hs op (List.mem_cons_self ..))
    simp only [Impl.run, Spec.run, h1]
    congr 1
    exact ih _ (keyOk_step hw s hk op) (fun o ho => hs o (List.mem_cons_of_mem _ ho))

/-! ### consequences and secondary theorems -/

/-- The generated WHERE fragment is always syntactically well formed (`where` first, `and`
afterwards, whatever mixture of nil / non-nil filters was passed) and binds exactly one argument
per clause, numbered after the `base` arguments already bound (0 for Read/Delete, the SET values
for Update). -/
theorem C30_where_wellformed (base : List Val) (fl : List (Option Filter)) (cls : List Clause) (args : List Val)
    (h : genWhere base.length fl [] base = .ok (cls, args)) :
    wellFormed cls = true ∧ args.length = base.length + cls.length ∧ args.take base.length = base := by
  rw [genWhere_eq] at h
  split at h
  · cases h
  · simp only [List.nil_append, Except.ok.injEq, Prod.mk.injEq] at h
    obtain ⟨h1, h2⟩ := h
    subst h1 h2
    refine ⟨clausesOf_wellFormed _ _, ?_, List.take_left⟩
    have : ∀ (n : Nat) (l : List Filter), (clausesOf base.length n l).length = l.length := by
      intro n l
      induction l generalizing n with
      | nil => rfl
      | cons f l ih => simp [clausesOf, ih]
    simp [this]

theorem any_invalid_of_mem {sc : Schema} {fs : List FSpec} {name : List Char} {op : Cmp} {v : Val}
    (hmem : FSpec.mk name op v ∈ fs) (hbad : findBy (nameIs name) sc.cols = none) :
    (valid (mkFilters sc fs)).any isInvalid = true := by
  rw [List.any_eq_true]
  refine ⟨⟨name, .str [], .invalid⟩, ?_, rfl⟩
  simp only [valid, mkFilters, List.mem_filterMap, List.mem_map, id]
  exact ⟨_, ⟨_, hmem, rfl⟩, by simp [mkFilter, newFilter, hbad]⟩

/-- An unknown column name anywhere in the filter list makes Read, Update and Delete fail with
the invalid-column error, and the table is left as it was. -/
theorem C30_invalid_column_fails (sc : Schema) (s : St) (fs : List FSpec) (name : List Char) (op : Cmp) (v : Val)
    (hmem : FSpec.mk name op v ∈ fs) (hbad : findBy (nameIs name) sc.cols = none) (row : Row) :
    Impl.step sc s (.read fs) = (s, .err .badcol) ∧
    Impl.step sc s (.delete fs) = (s, .err .badcol) ∧
    Impl.step sc s (.update row fs) = (s, .err .badcol) := by
  have h := any_invalid_of_mem hmem hbad
  refine ⟨?_, ?_, ?_⟩ <;> simp [Impl.step, Impl.read, Impl.delete, Impl.update, genWhere_eq, h]

theorem valid_dropNil (sc : Schema) (fs : List FSpec) :
    valid (mkFilters sc (fs.filter (fun f => f != .nil))) = valid (mkFilters sc fs) := by
  induction fs with
  | nil => rfl
  | cons f fs ih =>
    cases f with
    | nil => simpa [mkFilters, mkFilter, valid] using ih
    | mk name op v =>
      simp only [mkFilters, valid] at ih
      simp [mkFilters, mkFilter, valid, ih]

/-- Literal `nil` filters mean "no constraint": dropping them from the argument list changes
nothing, wherever they stand. -/
theorem C30_nil_is_no_filter (sc : Schema) (s : St) (fs : List FSpec) (row : Row) :
    Impl.step sc s (.read fs) = Impl.step sc s (.read (fs.filter (fun f => f != .nil))) ∧
    Impl.step sc s (.delete fs) = Impl.step sc s (.delete (fs.filter (fun f => f != .nil))) ∧
    Impl.step sc s (.update row fs) = Impl.step sc s (.update row (fs.filter (fun f => f != .nil))) := by
  refine ⟨?_, ?_, ?_⟩ <;>
    simp only [Impl.step, Impl.read, Impl.delete, Impl.update, genWhere_eq, valid_dropNil]

/-! #### keys stay unique -/

theorem keysDistinct_filter (k : Nat) (p : Row → Bool) (rows : List Row) (h : keysDistinct k rows = true) :
    keysDistinct k (rows.filter p) = true := by
  induction rows with
  | nil => rfl
  | cons r rs ih =>
    simp only [keysDistinct, Bool.and_eq_true, List.all_eq_true] at h
    simp only [List.filter]
    split
    · simp only [keysDistinct, Bool.and_eq_true, List.all_eq_true]
      exact ⟨fun x hx => h.1 x (List.mem_filter.mp hx).1, ih h.2⟩
    · exact ih h.2

/-- the table, if it exists, has pairwise different primary keys -/
def KeysUnique (sc : Schema) (s : St) : Prop := ∀ rows, s.tbl = some rows → keysDistinct (s.keyIdx sc) rows = true

theorem keyIdx_step (sc : Schema) (s : St) (op : Op) : (Spec.step sc s op).1.keyIdx sc = s.keyIdx sc := by
  rcases key_step sc s op with h | h <;> simp only [St.keyIdx, h]
  cases s.key <;> rfl

theorem tbl_step (sc : Schema) (s : St) (op : Op) (hu : KeysUnique sc s) (rows' : List Row)
    (h : (Spec.step sc s op).1.tbl = some rows') : keysDistinct (s.keyIdx sc) rows' = true := by
  cases op with
  | create =>
    simp only [Spec.step, Spec.create] at h
    cases ht : s.tbl with
    | none => simp [ht] at h; subst h; rfl
    | some rows => simp [ht] at h; subst h; exact hu _ ht
  | createIf =>
    simp only [Spec.step, Spec.create] at h
    cases ht : s.tbl with
    | none => simp [ht] at h; subst h; rfl
    | some rows => simp [ht] at h; subst h; exact hu _ ht
  | begin => exact hu _ h
  | insert row =>
    simp only [Spec.step] at h
    cases ht : s.tbl with
    | none => simp [ht] at h
    | some rows =>
      simp only [ht] at h
      by_cases hkd : keysDistinct (s.keyIdx sc) (rows ++ [row]) = true
      · simp [hkd] at h; subst h; exact hkd
      · simp [hkd] at h; exact hu _ h
  | read fs =>
    simp only [Spec.step] at h
    cases hr : Spec.resolve sc fs with
    | error e => simp [hr] at h; exact hu _ h
    | ok rfs =>
      cases ht : s.tbl with
      | none => simp [hr, ht] at h
      | some rows => simp [hr, ht] at h; exact hu _ (by rw [ht, h])
  | update row fs =>
    simp only [Spec.step] at h
    cases hr : Spec.resolve sc fs with
    | error e => simp [hr] at h; exact hu _ h
    | ok rfs =>
      simp only [hr, Spec.update] at h
      cases ht : s.tbl with
      | none => simp [ht] at h
      | some rows =>
        simp only [ht] at h
        by_cases hkd : keysDistinct (s.keyIdx sc) (rows.map (fun r => if Spec.sel rfs r = true then row else r)) = true
        · simp [hkd] at h; subst h; exact hkd
        · simp [hkd] at h; exact hu _ h
  | delete fs =>
    simp only [Spec.step] at h
    cases hr : Spec.resolve sc fs with
    | error e => simp [hr] at h; exact hu _ h
    | ok rfs =>
      cases ht : s.tbl with
      | none => simp [hr, ht] at h
      | some rows =>
        simp [hr, ht] at h
        subst h
        exact keysDistinct_filter _ _ _ (hu _ ht)
  | readOne kv =>
    have : (Spec.step sc s (.readOne kv)).1 = s := by
      simp only [Spec.step]; (repeat' split) <;> rfl
    rw [this] at h; exact hu _ h
  | deleteOne kv =>
    simp only [Spec.step] at h
    cases hkey : s.key with
    | none => simp [hkey] at h; exact hu _ h
    | some k =>
      cases ht : s.tbl with
      | none => simp [hkey, ht] at h
      | some rows =>
        simp only [hkey, ht] at h
        split at h
        · simp at h; exact hu _ h
        · simp at h; subst h; exact keysDistinct_filter _ _ _ (hu _ ht)
  | updateOne row =>
    simp only [Spec.step] at h
    cases hkey : s.key with
    | none => simp [hkey] at h; exact hu _ h
    | some k =>
      cases hr : row[k]? with
      | none => simp [hkey, hr] at h; exact hu _ h
      | some kv =>
        simp only [hkey, hr, Spec.update] at h
        cases ht : s.tbl with
        | none => simp [ht] at h
        | some rows =>
          simp only [ht] at h
          by_cases hkd : keysDistinct (s.keyIdx sc)
              (rows.map (fun r => if Spec.sel [⟨k, .eq, kv⟩] r = true then row else r)) = true
          · simp [hkd] at h; subst h; exact hkd
          · simp [hkd] at h; exact hu _ h

theorem keysUnique_step (sc : Schema) (s : St) (op : Op) (hu : KeysUnique sc s) :
    KeysUnique sc (Spec.step sc s op).1 := by
  intro rows' h
  rw [keyIdx_step]
  exact tbl_step sc s op hu rows' h

/-- state after a history -/
def Spec.final (sc : Schema) : St → List Op → St
  | s, [] => s
  | s, op :: ops => Spec.final sc (Spec.step sc s op).1 ops

def Impl.final (sc : Schema) : St → List Op → St
  | s, [] => s
  | s, op :: ops => Impl.final sc (Impl.step sc s op).1 ops

/-- After every history starting from a fresh database, the stored records have pairwise different
primary keys: the store is a *keyed* record set. -/
theorem C30_keys_unique (sc : Schema) (key : Option Nat) (ops : List Op) :
    KeysUnique sc (Spec.final sc (init key) ops) := by
  have : ∀ s, KeysUnique sc s → KeysUnique sc (Spec.final sc s ops) := by
    induction ops with
    | nil => exact fun s h => h
    | cons op ops ih => exact fun s h => ih _ (keysUnique_step sc s op h)
  exact this _ (by intro rows h; simp [init] at h)

/-- …and the handle + database model reaches exactly the same states, so the same holds for it -/
theorem C30_impl_keys_unique (sc : Schema) (hw : sc.WF) (key : Option Nat) (hk : (init key).keyOk sc)
    (ops : List Op) (hs : ∀ op ∈ ops, op.shaped sc = true) :
    KeysUnique sc (Impl.final sc (init key) ops) := by
  have : ∀ s, s.keyOk sc → Impl.final sc s ops = Spec.final sc s ops := by
    induction ops with
    | nil => exact fun _ _ => rfl
    | cons op ops ih =>
      intro s hk'
      simp only [Impl.final, Spec.final, step_eq hw s hk' op (hs op (List.mem_cons_self ..))]
      exact ih (fun o ho => hs o (List.mem_cons_of_mem _ ho)) _ (keyOk_step hw s hk' op)
  rw [this _ hk]
  exact C30_keys_unique sc key ops

/-! ### the unpatched code: counterexamples (why fixes/C30.patch is needed) -/

def exSchema : Schema := ⟨"t", [⟨['K', 'e', 'y'], ['k', 'e', 'y'], .str⟩, ⟨['N', 'a', 'm', 'e'], ['n', 'a', 'm', 'e'], .str⟩]⟩
def exRows : List Row := [[.str [1], .str [97]], [.str [2], .str [98]], [.str [3], .str [99]]]
def exSt : St := ⟨some 0, some exRows⟩
def exBad : FSpec := .mk ['n', 'o', 's', 'u', 'c', 'h'] .eq (.str [97])
def exNameA : FSpec := .mk ['n', 'a', 'm', 'e'] .eq (.str [97])

/-- unpatched code: `Read(Equals("nosuch", "a"))` on three records answers all three records with
no error, where the record set (and the fixed code) report the invalid column -/
theorem C30_old_invalid_column_counterexample :
    (match Old.read exSchema exSt [exBad] with | .ok rs => rs == exRows | .error _ => false) = true ∧
    Spec.step exSchema exSt (.read [exBad]) = (exSt, .err .badcol) ∧
    Impl.step exSchema exSt (.read [exBad]) = (exSt, .err .badcol) := by decide

/-- unpatched code: `Read(nil, Equals("name", "a"))` produces `… and "name" = $1` with no `where`
(a syntax error), where the record set (and the fixed code) answer the one matching record -/
theorem C30_old_nil_first_counterexample :
    (match Old.read exSchema exSt [.nil, exNameA] with | .ok _ => false | .error e => e == .sql) = true ∧
    (Spec.step exSchema exSt (.read [.nil, exNameA])).2 = .rows [[.str [1], .str [97]]] ∧
    (Impl.step exSchema exSt (.read [.nil, exNameA])).2 = .rows [[.str [1], .str [97]]] := by decide

/-! ### non-vacuity: the hypotheses of the theorems are met by a non-trivial instance -/

example : exSchema.WF := ⟨by decide, by decide, by decide⟩
example : exSt.keyOk exSchema := by intro k h; cases h; decide
example : (init none).keyOk exSchema := by intro k h; cases h

def exHistory : List Op :=
  [.read [], .create, .insert [.str [1], .str [97]], .insert [.str [2], .str [98]], .insert [.str [1], .str [99]],
   .read [.nil, .mk ['N', 'A', 'M', 'E'] .gt (.str [97])], .update [.str [2], .str [100]] [exNameA],
   .delete [exBad], .readOne (.str [2]), .updateOne [.str [2], .str [101]], .deleteOne (.str [9]),
   .delete [.mk ['K', 'E', 'Y'] .ne (.str [7]), .nil], .read []]

example : ∀ op ∈ exHistory, op.shaped exSchema = true := by decide

example : Impl.run exSchema (init none) exHistory =
    [.err .sql, .ok, .ok, .ok, .err .dup, .rows [[.str [2], .str [98]]], .err .dup, .err .badcol,
     .row [.str [2], .str [98]], .ok, .err .notfound, .count 2, .rows []] := by decide

example : ∃ cls args, genWhere 2 [none, some ⟨['n'], .str [5], .eq⟩, none, some ⟨['k'], .int 3, .lt⟩] []
    [.str [1], .str [2]] = .ok (cls, args) ∧ cls.length = 2 := ⟨_, _, rfl, rfl⟩

example : findBy (nameIs ['n', 'o', 's', 'u', 'c', 'h']) exSchema.cols = none := by decide

end EgoVerif.C30
