/-
C30 — model of the struct-backed resource store `internal/resources` (core Lean only).

Two layers are modelled, exactly as they exist in the Go package (with fixes/C30.patch applied):

* the HANDLE layer: `newFilter` / `Equals`… (filters.go), the `for _, filter := range filters`
  loop shared by `generateReadSQL` (read.go), `Update` (update.go) and `Delete` (delete.go),
  `Create`/`CreateIf` (create.go), `Insert` (insert.go), `ReadOne`/`DeleteOne`/`UpdateOne`,
  `SetDefaultPrimaryKey` (modifiers.go).  Its output is a *statement*: a list of
  `where`/`and` clauses over SQL column names with `$N` placeholders, plus the argument list.
* the DATABASE layer (`Db.*`): what SQLite does with such a statement — a semantics for the
  generated fragment: syntax (`where` first, then `and`), name resolution by SQL column name,
  placeholder lookup in the bound arguments, comparison, primary-key uniqueness.

`Spec.step` is the thing the property compares against: a plain in-memory list of records
with predicates on fields.  Props.lean proves `Impl.run = Spec.run` for every history.

`r.Err`: in the fixed code the exported constructors still have value receivers, so no
exported call ever stores an error in the handle; histories of exported calls keep
`r.Err == nil` (the harness asserts it after every call), and the model omits the field.
`Begin()` is therefore a no-op here.
-/
namespace EgoVerif.C30

/-! ### values, rows, schema -/

inductive Ty | str | int | bool
  deriving DecidableEq, Repr

/-- a field value: Go `string` (bytes; also uuid / json columns, which are stored as TEXT),
`int`, `bool` -/
inductive Val
  | str (b : List UInt8)
  | int (i : Int)
  | bool (b : Bool)
  deriving DecidableEq, Repr

abbrev Row := List Val

/-- `resources.Column`: Go field name, SQL column name, SQL type (names as lists of runes) -/
structure Col where
  name : List Char
  sqlName : List Char
  ty : Ty
  deriving DecidableEq, Repr

structure Schema where
  table : String
  cols : List Col
  deriving Repr

/-- comparison operators a caller can ask for: `Equals`, `NotEquals`, `LessThan`, `GreaterThan` -/
inductive Cmp | eq | ne | lt | gt
  deriving DecidableEq, Repr

/-- `Filter.Operator`: the four SQL operators or `InvalidOperator` (" !error ") -/
inductive Operator | eq | ne | lt | gt | invalid
  deriving DecidableEq, Repr

def Cmp.toOperator : Cmp → Operator
  | .eq => .eq | .ne => .ne | .lt => .lt | .gt => .gt

def Operator.cmp? : Operator → Option Cmp
  | .eq => some .eq | .ne => some .ne | .lt => some .lt | .gt => some .gt | .invalid => none

inductive Err | badcol | sql | dup | notfound
  deriving DecidableEq, Repr

/-! ### comparison of values (SQLite BINARY collation on TEXT = bytewise; integers; booleans 0/1) -/

def bytesLt : List UInt8 → List UInt8 → Bool
  | _, [] => false
  | [], _ :: _ => true
  | a :: as, b :: bs => if a < b then true else if b < a then false else bytesLt as bs

/-- strict order inside one type; values of different types never compare (the harness only
generates filter values of the column's own type, as the API documents) -/
def Val.lt : Val → Val → Bool
  | .str a, .str b => bytesLt a b
  | .int a, .int b => decide (a < b)
  | .bool a, .bool b => !a && b
  | _, _ => false

def Cmp.eval : Cmp → Val → Val → Bool
  | .eq, x, v => x == v
  | .ne, x, v => x != v
  | .lt, x, v => x.lt v
  | .gt, x, v => v.lt x

/-! ### column lookup -/

/-- Representative of the Unicode simple-folding orbit of `c`, exact for every orbit that meets
ASCII: `A`–`Z` ↦ `a`–`z`, U+212A KELVIN SIGN ↦ `k`, U+017F LONG S ↦ `s`.  With ASCII column
names (Go field names of the record types in use) `norm a == norm b` is `strings.EqualFold a b`. -/
def foldKey (c : Char) : Char :=
  if 'A' ≤ c ∧ c ≤ 'Z' then Char.ofNat (c.toNat + 32)
  else if c.toNat = 0x212A then 'k'
  else if c.toNat = 0x17F then 's'
  else c

def norm (s : List Char) : List Char := s.map foldKey

def findBy (p : Col → Bool) : List Col → Option Col
  | [] => none
  | c :: cs => if p c then some c else findBy p cs

def findIdxBy (p : Col → Bool) : List Col → Option Nat
  | [] => none
  | c :: cs => if p c then some 0 else (findIdxBy p cs).map (· + 1)

/-- the match `strings.EqualFold(column.Name, name)` of newFilter -/
def nameIs (name : List Char) (c : Col) : Bool := norm c.name == norm name

/-- the database's resolution of a quoted SQL identifier -/
def sqlIs (sqlName : List Char) (c : Col) : Bool := c.sqlName == sqlName

/-! ### handle layer: filters (filters.go) -/

structure Filter where
  name : List Char
  value : Val
  op : Operator
  deriving DecidableEq, Repr

/-- what a caller writes as one variadic argument: a literal `nil`, or
`h.Equals(name, v)` / `h.NotEquals` / `h.LessThan` / `h.GreaterThan` -/
inductive FSpec
  | nil
  | mk (name : List Char) (op : Cmp) (v : Val)
  deriving DecidableEq, Repr

/-- `newFilter` (fixed): the column's SQL name on a match; on an unknown column a non-nil
filter carrying `InvalidOperator` (the unfixed code returned `nil` here) -/
def newFilter (sc : Schema) (name : List Char) (op : Cmp) (v : Val) : Filter :=
  match findBy (nameIs name) sc.cols with
  | some c => ⟨c.sqlName, v, op.toOperator⟩
  | none => ⟨name, .str [], .invalid⟩

def mkFilter (sc : Schema) : FSpec → Option Filter
  | .nil => none
  | .mk name op v => some (newFilter sc name op v)

def mkFilters (sc : Schema) (fs : List FSpec) : List (Option Filter) := fs.map (mkFilter sc)

/-! ### handle layer: generated statement -/

inductive Kw | where_ | and_
  deriving DecidableEq, Repr

/-- one `<kw> "<col>" <op> $<ph>` piece of the generated SQL text -/
structure Clause where
  kw : Kw
  col : List Char
  op : Operator
  ph : Nat
  deriving DecidableEq, Repr

/-- The loop of generateReadSQL / Update / Delete (fixed):
```
for _, filter := range filters {
    if filter == nil { continue }
    if filter.Operator == InvalidOperator { return …ErrInvalidColumnName }
    if len(args) == nbase { sql += " where " } else { sql += " and " }
    args = append(args, filter.Value)
    sql += filter.Generate(len(args))
}
```
`nbase` is 0 for Read and Delete and `len(items)` for Update. -/
def genWhere (nbase : Nat) : List (Option Filter) → List Clause → List Val → Except Err (List Clause × List Val)
  | [], cls, args => .ok (cls, args)
  | none :: fs, cls, args => genWhere nbase fs cls args
  | some f :: fs, cls, args =>
    if f.op = .invalid then .error .badcol
    else
      let kw := if args.length = nbase then Kw.where_ else Kw.and_
      let args' := args ++ [f.value]
      genWhere nbase fs (cls ++ [⟨kw, f.name, f.op, args'.length⟩]) args'

/-! ### database layer: semantics of the generated fragment -/

/-- SQL syntax: nothing, or `where c` followed by `and c`… -/
def wellFormed : List Clause → Bool
  | [] => true
  | c :: cs => c.kw == .where_ && cs.all (·.kw == .and_)

/-- prepare-time validity of one clause: known column, a real operator, placeholder bound -/
def checkClause (sc : Schema) (args : List Val) (c : Clause) : Bool :=
  (findIdxBy (sqlIs c.col) sc.cols).isSome && c.op.cmp?.isSome && (c.ph ≥ 1 && c.ph ≤ args.length)

def evalClause (sc : Schema) (args : List Val) (row : Row) (c : Clause) : Bool :=
  match findIdxBy (sqlIs c.col) sc.cols, c.op.cmp?, args[c.ph - 1]? with
  | some i, some cmp, some v =>
    match row[i]? with
    | some x => cmp.eval x v
    | none => false
  | _, _, _ => false

def Db.prepare (sc : Schema) (args : List Val) (cls : List Clause) : Bool :=
  wellFormed cls && cls.all (checkClause sc args)

def Db.matches (sc : Schema) (args : List Val) (cls : List Clause) (row : Row) : Bool :=
  cls.all (evalClause sc args row)

def keyOf (k : Nat) (row : Row) : Option Val := row[k]?

/-- PRIMARY KEY constraint -/
def keysDistinct (k : Nat) : List Row → Bool
  | [] => true
  | r :: rs => rs.all (fun r' => keyOf k r' != keyOf k r) && keysDistinct k rs

/-- handle + database state.  `key`: index of the column marked `Primary` in `r.Columns`
(`none` until `SetPrimaryKey` or `Create`); the table, when it exists, was created by this
handle with that key.  `tbl = none`: the table does not exist. -/
structure St where
  key : Option Nat
  tbl : Option (List Row)
  deriving DecidableEq, Repr

inductive Res
  | ok
  | err (e : Err)
  | rows (rs : List Row)
  | count (n : Nat)
  | row (r : Row)
  deriving DecidableEq, Repr

/-- `select <cols> from t <cls>` with bound `args` -/
def Db.select (sc : Schema) (tbl : Option (List Row)) (cls : List Clause) (args : List Val) : Except Err (List Row) :=
  match tbl with
  | none => .error .sql
  | some rows => if Db.prepare sc args cls then .ok (rows.filter (Db.matches sc args cls)) else .error .sql

/-- `delete from t <cls>`; returns the new table and RowsAffected -/
def Db.delete (sc : Schema) (tbl : Option (List Row)) (cls : List Clause) (args : List Val) : Except Err (List Row × Nat) :=
  match tbl with
  | none => .error .sql
  | some rows =>
    if Db.prepare sc args cls then
      .ok (rows.filter (fun r => !Db.matches sc args cls r), (rows.filter (Db.matches sc args cls)).length)
    else .error .sql

/-- `update t set c1 = $1, …, cn = $n <cls>`: every selected row becomes `$1..$n`; the statement
is rolled back when the primary key stops being unique -/
def Db.update (sc : Schema) (k : Nat) (tbl : Option (List Row)) (cls : List Clause) (args : List Val) : Except Err (List Row) :=
  match tbl with
  | none => .error .sql
  | some rows =>
    if Db.prepare sc args cls && decide (sc.cols.length ≤ args.length) then
      let rows' := rows.map (fun r => if Db.matches sc args cls r then args.take sc.cols.length else r)
      if keysDistinct k rows' then .ok rows' else .error .dup
    else .error .sql

/-- `insert into t(c1..cn) values($1..$n)` -/
def Db.insert (k : Nat) (tbl : Option (List Row)) (row : Row) : Except Err (List Row) :=
  match tbl with
  | none => .error .sql
  | some rows => if keysDistinct k (rows ++ [row]) then .ok (rows ++ [row]) else .error .dup

/-! ### handle layer: the operations -/

/-- `SetDefaultPrimaryKey` when no column is marked: a field literally named "id", else "name",
else column 0 -/
def defaultKey (sc : Schema) : Nat :=
  match findIdxBy (fun c => c.name == ['i', 'd']) sc.cols with
  | some i => i
  | none =>
    match findIdxBy (fun c => c.name == ['n', 'a', 'm', 'e']) sc.cols with
    | some i => i
    | none => 0

def St.keyIdx (sc : Schema) (s : St) : Nat := s.key.getD (defaultKey sc)

inductive Op
  | create
  | createIf
  | begin
  | insert (row : Row)
  | read (fs : List FSpec)
  | update (row : Row) (fs : List FSpec)
  | delete (fs : List FSpec)
  | readOne (k : Val)
  | deleteOne (k : Val)
  | updateOne (row : Row)
  deriving DecidableEq, Repr

namespace Impl

/-- `Create`: SetDefaultPrimaryKey, then `create table` (fails when the table exists) -/
def create (sc : Schema) (s : St) : St × Res :=
  let s' : St := { s with key := some (s.keyIdx sc) }
  match s.tbl with
  | some _ => (s', .err .sql)
  | none => ({ s' with tbl := some [] }, .ok)

/-- `Read(filters...)` = generateReadSQL + Query -/
def read (sc : Schema) (s : St) (fl : List (Option Filter)) : Except Err (List Row) :=
  match genWhere 0 fl [] [] with
  | .error e => .error e
  | .ok (cls, args) => Db.select sc s.tbl cls args

def update (sc : Schema) (s : St) (row : Row) (fl : List (Option Filter)) : St × Res :=
  match genWhere row.length fl [] row with
  | .error e => (s, .err e)
  | .ok (cls, args) =>
    match Db.update sc (s.keyIdx sc) s.tbl cls args with
    | .error e => (s, .err e)
    | .ok rows' => ({ s with tbl := some rows' }, .ok)

def delete (sc : Schema) (s : St) (fl : List (Option Filter)) : St × Except Err Nat :=
  match genWhere 0 fl [] [] with
  | .error e => (s, .error e)
  | .ok (cls, args) =>
    match Db.delete sc s.tbl cls args with
    | .error e => (s, .error e)
    | .ok (rows', n) => ({ s with tbl := some rows' }, .ok n)

/-- `PrimaryKey()`: the Go field name of the column marked Primary -/
def primaryKeyName (sc : Schema) (s : St) : Option (List Char) :=
  match s.key with
  | none => none
  | some k => (sc.cols[k]?).map (·.name)

def step (sc : Schema) (s : St) : Op → St × Res
  | .create => create sc s
  | .createIf =>
    match s.tbl with
    | some _ => (s, .ok)                    -- `select * from t where 1=0` succeeds
    | none => create sc s
  | .begin => (s, .ok)
  | .insert row =>
    match Db.insert (s.keyIdx sc) s.tbl row with
    | .error e => (s, .err e)
    | .ok rows' => ({ s with tbl := some rows' }, .ok)
  | .read fs =>
    match read sc s (mkFilters sc fs) with
    | .error e => (s, .err e)
    | .ok rs => (s, .rows rs)
  | .update row fs => update sc s row (mkFilters sc fs)
  | .delete fs =>
    match delete sc s (mkFilters sc fs) with
    | (s', .error e) => (s', .err e)
    | (s', .ok n) => (s', .count n)
  | .readOne k =>
    match primaryKeyName sc s with
    | none => (s, .err .notfound)
    | some kn =>
      match read sc s [some (newFilter sc kn .eq k)] with
      | .error e => (s, .err e)
      | .ok [] => (s, .err .notfound)
      | .ok (r :: _) => (s, .row r)
  | .deleteOne k =>
    match primaryKeyName sc s with
    | none => (s, .err .notfound)
    | some kn =>
      match delete sc s [some (newFilter sc kn .eq k)] with
      | (s', .error e) => (s', .err e)
      | (s', .ok 0) => (s', .err .notfound)
      | (s', .ok _) => (s', .ok)
  | .updateOne row =>
    match s.key with
    | none => (s, .err .notfound)
    | some k =>
      match row[k]?, sc.cols[k]? with
      | some kv, some c => update sc s row [some (newFilter sc c.name .eq kv)]
      | _, _ => (s, .err .notfound)

def run (sc : Schema) : St → List Op → List Res
  | _, [] => []
  | s, op :: ops => (step sc s op).2 :: run sc (step sc s op).1 ops

end Impl

/-! ### the specification: a keyed in-memory record list -/

namespace Spec

/-- a resolved filter: field index, comparison, value -/
structure RF where
  idx : Nat
  cmp : Cmp
  v : Val
  deriving DecidableEq, Repr

def RF.holds (f : RF) (row : Row) : Bool :=
  match row[f.idx]? with
  | some x => f.cmp.eval x f.v
  | none => false

/-- `nil` means "no constraint"; an unknown field name is an error -/
def resolve (sc : Schema) : List FSpec → Except Err (List RF)
  | [] => .ok []
  | .nil :: fs => resolve sc fs
  | .mk name op v :: fs =>
    match findIdxBy (nameIs name) sc.cols with
    | none => .error .badcol
    | some i =>
      match resolve sc fs with
      | .error e => .error e
      | .ok rest => .ok (⟨i, op, v⟩ :: rest)

def sel (rfs : List RF) (row : Row) : Bool := rfs.all (·.holds row)

def create (sc : Schema) (s : St) : St × Res :=
  match s.tbl with
  | some _ => ({ s with key := some (s.keyIdx sc) }, .err .sql)
  | none => ({ key := some (s.keyIdx sc), tbl := some [] }, .ok)

/-- replace every selected record by `row`, provided keys stay unique -/
def update (sc : Schema) (s : St) (row : Row) (rfs : List RF) : St × Res :=
  match s.tbl with
  | none => (s, .err .sql)
  | some rows =>
    let rows' := rows.map (fun r => if sel rfs r then row else r)
    if keysDistinct (s.keyIdx sc) rows' then ({ s with tbl := some rows' }, .ok) else (s, .err .dup)

def step (sc : Schema) (s : St) : Op → St × Res
  | .create => create sc s
  | .createIf => match s.tbl with
    | some _ => (s, .ok)
    | none => create sc s
  | .begin => (s, .ok)
  | .insert row =>
    match s.tbl with
    | none => (s, .err .sql)
    | some rows =>
      if keysDistinct (s.keyIdx sc) (rows ++ [row]) then ({ s with tbl := some (rows ++ [row]) }, .ok)
      else (s, .err .dup)
  | .read fs =>
    match resolve sc fs with
    | .error e => (s, .err e)
    | .ok rfs =>
      match s.tbl with
      | none => (s, .err .sql)
      | some rows => (s, .rows (rows.filter (sel rfs)))
  | .update row fs =>
    match resolve sc fs with
    | .error e => (s, .err e)
    | .ok rfs => update sc s row rfs
  | .delete fs =>
    match resolve sc fs with
    | .error e => (s, .err e)
    | .ok rfs =>
      match s.tbl with
      | none => (s, .err .sql)
      | some rows =>
        ({ s with tbl := some (rows.filter (fun r => !sel rfs r)) }, .count (rows.filter (sel rfs)).length)
  | .readOne k =>
    match s.key with
    | none => (s, .err .notfound)
    | some ki =>
      match s.tbl with
      | none => (s, .err .sql)
      | some rows =>
        match rows.filter (fun r => keyOf ki r == some k) with
        | [] => (s, .err .notfound)
        | r :: _ => (s, .row r)
  | .deleteOne k =>
    match s.key with
    | none => (s, .err .notfound)
    | some ki =>
      match s.tbl with
      | none => (s, .err .sql)
      | some rows =>
        if (rows.filter (fun r => keyOf ki r == some k)).length = 0 then (s, .err .notfound)
        else ({ s with tbl := some (rows.filter (fun r => !(keyOf ki r == some k))) }, .ok)
  | .updateOne row =>
    match s.key with
    | none => (s, .err .notfound)
    | some ki =>
      match row[ki]? with
      | none => (s, .err .notfound)
      | some kv => update sc s row [⟨ki, .eq, kv⟩]

def run (sc : Schema) : St → List Op → List Res
  | _, [] => []
  | s, op :: ops => (step sc s op).2 :: run sc (step sc s op).1 ops

end Spec

/-! ### well-formedness of a schema and of a history -/

def distinctSql : List Col → Bool
  | [] => true
  | c :: cs => cs.all (fun c' => !(c'.sqlName == c.sqlName)) && distinctSql cs

def distinctNames : List Col → Bool
  | [] => true
  | c :: cs => cs.all (fun c' => !(norm c'.name == norm c.name)) && distinctNames cs

/-- SQL column names are pairwise different (otherwise `create table` fails) and Go field names
are pairwise different up to case folding; the record type has at least one field -/
def Schema.WF (sc : Schema) : Prop := distinctSql sc.cols = true ∧ distinctNames sc.cols = true ∧ sc.cols ≠ []

/-- records passed to Insert/Update/UpdateOne are values of the handle's struct type:
`explode` yields one value per column -/
def Op.shaped (sc : Schema) : Op → Bool
  | .insert row => row.length == sc.cols.length
  | .update row _ => row.length == sc.cols.length
  | .updateOne row => row.length == sc.cols.length
  | _ => true

/-- an explicit primary key (SetPrimaryKey) names an existing column -/
def St.keyOk (sc : Schema) (s : St) : Prop := ∀ k, s.key = some k → k < sc.cols.length

def init (key : Option Nat) : St := { key := key, tbl := none }

/-! ### the code as it is on the unpatched tree (for the counterexample theorems only) -/

namespace Old

/-- unfixed `newFilter`: `nil` on an unknown column (the error goes to the wrapper's copy) -/
def mkFilter (sc : Schema) : FSpec → Option Filter
  | .nil => none
  | .mk name op v =>
    match findBy (nameIs name) sc.cols with
    | some c => some ⟨c.sqlName, v, op.toOperator⟩
    | none => none

/-- unfixed loop: `if index == 0 { where } else { and }` -/
def genWhere (index : Nat) : List (Option Filter) → List Clause → List Val → List Clause × List Val
  | [], cls, args => (cls, args)
  | none :: fs, cls, args => genWhere (index + 1) fs cls args
  | some f :: fs, cls, args =>
    let kw := if index = 0 then Kw.where_ else Kw.and_
    let args' := args ++ [f.value]
    genWhere (index + 1) fs (cls ++ [⟨kw, f.name, f.op, args'.length⟩]) args'

def read (sc : Schema) (s : St) (fs : List FSpec) : Except Err (List Row) :=
  let (cls, args) := genWhere 0 (fs.map (mkFilter sc)) [] []
  Db.select sc s.tbl cls args

end Old

/-! ### SQL text (compared with generateReadSQL's output by the harness) -/

def sqlIdentifier (s : String) : String := "\"" ++ s.replace "\"" "\"\"" ++ "\""

def Operator.text : Operator → String
  | .eq => " = " | .ne => " <> " | .lt => " < " | .gt => " > " | .invalid => " !error "

def Clause.text (c : Clause) : String :=
  (match c.kw with | .where_ => " where " | .and_ => " and ") ++ sqlIdentifier (String.ofList c.col) ++ c.op.text ++ "$" ++ toString c.ph

/-- `readRowSQL()` followed by the clauses -/
def selectText (sc : Schema) (cls : List Clause) : String :=
  "select " ++ ",".intercalate (sc.cols.map (fun c => sqlIdentifier (String.ofList c.sqlName))) ++
  " from " ++ sqlIdentifier sc.table ++ " " ++ String.join (cls.map Clause.text)

end EgoVerif.C30
