import EgoVerif.Common.Drv
import EgoVerif.C30.Model
/- line protocol (stateful; a `schema` line starts a new history on a fresh database):
   schema <hex table> <key index|-> <hex name>:<hex sqlname>:<s|i|b> …   → ok
   create | createif | begin                                             → ok | err:<e>
   insert <row>                row = <val>,<val>,…   val = s<hex> | i<int> | b0 | b1
   read <fspec>*               fspec = nil | <eq|ne|lt|gt>:<hex name>:<val>   → rows:<n>:<row>;<row>… (sorted)
   update <row> <fspec>*       → ok | err:<e>
   delete <fspec>*             → count:<n> | err:<e>
   readone <val>               → row:<row> | err:<e>
   deleteone <val> | updateone <row>
   gensql <fspec>*             → <hex sql text> <args|-> | err:badcol      (generateReadSQL)
-/
namespace EgoVerif.C30

def parseVal (s : String) : Option Val :=
  match s.toList with
  | 's' :: rest => (if String.ofList rest == "-" then some [] else bytesOfHex (String.ofList rest)).map Val.str
  | 'i' :: rest => (String.ofList rest).toInt?.map Val.int
  | ['b', '0'] => some (.bool false)
  | ['b', '1'] => some (.bool true)
  | _ => none

def parseRow (s : String) : Option Row := (s.splitOn ",").mapM parseVal

def parseCmp : String → Option Cmp
  | "eq" => some .eq | "ne" => some .ne | "lt" => some .lt | "gt" => some .gt | _ => none

def parseFSpec (s : String) : Option FSpec :=
  if s == "nil" then some .nil else
  match s.splitOn ":" with
  | [op, name, v] =>
    match parseCmp op, stringOfHex name, parseVal v with
    | some o, some n, some x => some (.mk n.toList o x)
    | _, _, _ => none
  | _ => none

def parseCol (s : String) : Option Col :=
  match s.splitOn ":" with
  | [n, q, t] =>
    match stringOfHex n, stringOfHex q with
    | some name, some sqlName =>
      (match t with | "s" => some Ty.str | "i" => some Ty.int | "b" => some Ty.bool | _ => none).map
        (fun ty => ⟨name.toList, sqlName.toList, ty⟩)
    | _, _ => none
  | _ => none

def showVal : Val → String
  | .str [] => "s-"
  | .str b => "s" ++ hexOfBytes b
  | .int i => "i" ++ toString i
  | .bool false => "b0"
  | .bool true => "b1"

def showRow (r : Row) : String := ",".intercalate (r.map showVal)

def showErr : Err → String
  | .badcol => "err:badcol" | .sql => "err:sql" | .dup => "err:dup" | .notfound => "err:notfound"

def showRes : Res → String
  | .ok => "ok"
  | .err e => showErr e
  | .rows rs =>
    let enc := (rs.map showRow).mergeSort (fun a b => decide (a ≤ b))
    "rows:" ++ toString rs.length ++ ":" ++ ";".intercalate enc
  | .count n => "count:" ++ toString n
  | .row r => "row:" ++ showRow r

structure DState where
  sc : Schema
  st : St

def parseOp (fs : List String) : Option Op :=
  match fs with
  | ["create"] => some .create
  | ["createif"] => some .createIf
  | ["begin"] => some .begin
  | ["insert", r] => (parseRow r).map Op.insert
  | "read" :: rest => (rest.mapM parseFSpec).map Op.read
  | "update" :: r :: rest =>
    match parseRow r, rest.mapM parseFSpec with
    | some row, some l => some (.update row l)
    | _, _ => none
  | "delete" :: rest => (rest.mapM parseFSpec).map Op.delete
  | ["readone", v] => (parseVal v).map Op.readOne
  | ["deleteone", v] => (parseVal v).map Op.deleteOne
  | ["updateone", r] => (parseRow r).map Op.updateOne
  | _ => none

def step (d : DState) (line : String) : DState × String :=
  match fields line with
  | "schema" :: t :: k :: cols =>
    match stringOfHex t, cols.mapM parseCol with
    | some table, some cs =>
      let key : Option Nat := if k == "-" then none else k.toNat?
      ({ sc := ⟨table, cs⟩, st := init key }, "ok")
    | _, _ => (d, "bad-input")
  | "gensql" :: rest =>
    match rest.mapM parseFSpec with
    | none => (d, "bad-input")
    | some l =>
      match genWhere 0 (mkFilters d.sc l) [] [] with
      | .error e => (d, showErr e)
      | .ok (cls, args) =>
        (d, hexOfString (selectText d.sc cls) ++ " " ++ (if args.isEmpty then "-" else showRow args))
  | fs =>
    match parseOp fs with
    | none => (d, "bad-op")
    | some op =>
      let (s', r) := Impl.step d.sc d.st op
      ({ d with st := s' }, showRes r)

def drv : Drv := { σ := DState, init := { sc := ⟨"", []⟩, st := init none }, step := step }

end EgoVerif.C30
